(* Proofs about UpdateScripts (C16): the recording in cmp and the rewriting of the archive.
   Property theorems are re-exported, unchanged, by Properties/C16.v. *)
From Coq Require Import List Bool Arith NArith Lia.
From Coq.Strings Require Import Byte.
From GI Require Import Lib.Bytes Lib.BytesFacts Txtar.Txtar Txtar.TxtarFacts Txtar.QuoteFacts
  TsRun.TsFs TsRun.TsState TsRun.TsCmds TsRun.TsRun TsRun.TsUpdate.
Import ListNotations.

(* what is stored for an entry: (old entry, new entry) *)
Definition entry_updated (U : list (bytes * bytes)) (e e' : bytes * bytes) : Prop :=
  fst e' = fst e /\
  match assoc_get U (fst e) with
  | None => snd e' = snd e
  | Some c => (needs_quote c = false /\ snd e' = c) \/ (needs_quote c = true /\ quote c = Some (snd e'))
  end.

Lemma update_files_spec U fs fs' :
  update_files U fs = Some fs' -> Forall2 (entry_updated U) fs fs'.
Proof.
  revert fs'. induction fs as [|[n d] r IH]; intros fs' H; simpl in H.
  - inversion H. constructor.
  - destruct (update_files U r) as [r'|] eqn:Er; [|discriminate].
    specialize (IH r' eq_refl).
    destruct (assoc_get U n) as [c|] eqn:Ec.
    + unfold update_data in H. destruct (needs_quote c) eqn:Eq.
      * destruct (quote c) as [q|] eqn:Eqq; [|discriminate]. inversion H; subst.
        constructor; [|exact IH]. split; [reflexivity|]. simpl. rewrite Ec. right. auto.
      * inversion H; subst. constructor; [|exact IH]. split; [reflexivity|]. simpl. rewrite Ec. left. auto.
    + inversion H; subst. constructor; [|exact IH]. split; [reflexivity|]. simpl. rewrite Ec. reflexivity.
Qed.

(* update_names: names and order of the entries are unchanged *)
Theorem update_names a U a' :
  apply_updates a U = Some a' -> map fst (files a') = map fst (files a).
Proof.
  unfold apply_updates. destruct (update_files U (files a)) as [fs|] eqn:E; [|discriminate].
  intros H. inversion H; subst. clear H. simpl. apply update_files_spec in E.
  induction E as [|e e' l l' He _ IH]; simpl; [reflexivity|].
  destruct He as [Hn _]. rewrite Hn, IH. reflexivity.
Qed.

(* update_frame: the script text and every entry whose name is not updated are unchanged *)
Theorem update_frame a U a' :
  apply_updates a U = Some a' ->
  comment a' = comment a
  /\ Forall2 (fun e e' => fst e' = fst e /\ (assoc_get U (fst e) = None -> snd e' = snd e)) (files a) (files a').
Proof.
  unfold apply_updates. destruct (update_files U (files a)) as [fs|] eqn:E; [|discriminate].
  intros H. inversion H; subst. clear H. simpl. split; [reflexivity|]. apply update_files_spec in E.
  induction E as [|e e' l l' He _ IH]; constructor; [|exact IH].
  destruct He as [Hn Hd]. split; [exact Hn|]. intros Hnone. rewrite Hnone in Hd. exact Hd.
Qed.

(* update_entry: an updated entry holds the actual content, or its quotation exactly when
   needs_quote says so *)
Theorem update_entry a U a' :
  apply_updates a U = Some a' ->
  Forall2 (fun e e' => forall c, assoc_get U (fst e) = Some c ->
             (needs_quote c = false /\ snd e' = c) \/ (needs_quote c = true /\ quote c = Some (snd e')))
          (files a) (files a').
Proof.
  unfold apply_updates. destruct (update_files U (files a)) as [fs|] eqn:E; [|discriminate].
  intros H. inversion H; subst. clear H. simpl. apply update_files_spec in E.
  induction E as [|e e' l l' He _ IH]; constructor; [|exact IH].
  destruct He as [Hn Hd]. intros c Hc. rewrite Hc in Hd. exact Hd.
Qed.

(* a quoted entry unquotes to the actual content *)
Theorem update_entry_unquotes c q : needs_quote c = true -> quote c = Some q -> unquote q = Some c.
Proof. intros _. apply unquote_quote. Qed.

(* the rewriting fails exactly when some updated entry needs quoting and cannot be quoted *)
Theorem apply_updates_none a U :
  apply_updates a U = None <->
  exists n d c, In (n, d) (files a) /\ assoc_get U n = Some c /\ needs_quote c = true /\ quote c = None.
Proof.
  unfold apply_updates. generalize (files a) as fs. intros fs. split.
  - destruct (update_files U fs) as [x|] eqn:E; [discriminate|]. intros _.
    induction fs as [|[n d] r IH]; simpl in E; [discriminate|].
    destruct (update_files U r) as [r'|] eqn:Er.
    + destruct (assoc_get U n) as [c|] eqn:Ec; [|discriminate].
      unfold update_data in E. destruct (needs_quote c) eqn:Eq; [|discriminate].
      destruct (quote c) eqn:Eqq; [discriminate|].
      exists n, d, c. simpl. auto.
    + destruct (IH eq_refl) as [n' [d' [c [Hin H]]]]. exists n', d', c. simpl. auto.
  - intros [n [d [c [Hin [Hc [Hq Hqq]]]]]].
    assert (update_files U fs = None) as ->; [|reflexivity].
    induction fs as [|[n0 d0] r IH]; [destruct Hin|]. simpl.
    destruct Hin as [Hin|Hin].
    + inversion Hin; subst. destruct (update_files U r); [|reflexivity].
      rewrite Hc. unfold update_data. rewrite Hq, Hqq. reflexivity.
    + rewrite (IH Hin). reflexivity.
Qed.

(* Go iterates a map: only the mapping matters, not the order of the recorded updates *)
Theorem update_order_irrelevant a U U' :
  (forall n, assoc_get U n = assoc_get U' n) -> apply_updates a U = apply_updates a U'.
Proof.
  intros H. unfold apply_updates.
  assert (update_files U (files a) = update_files U' (files a)) as ->; [|reflexivity].
  induction (files a) as [|[n d] r IH]; simpl; [reflexivity|]. rewrite IH, H. reflexivity.
Qed.

(* nothing recorded: nothing changes *)
Theorem update_nothing a : apply_updates a [] = Some a.
Proof.
  unfold apply_updates.
  assert (update_files [] (files a) = Some (files a)) as ->.
  { induction (files a) as [|[n d] r IH]; simpl; [reflexivity|]. rewrite IH. reflexivity. }
  destruct a; reflexivity.
Qed.

(* the bytes that are written: the formatted script text, then for each entry its marker
   line and either its old data or the stored update *)
Definition stored (U : list (bytes * bytes)) (e : bytes * bytes) : option bytes :=
  match assoc_get U (fst e) with
  | Some c => update_data c
  | None => Some (snd e)
  end.

Theorem update_format a U a' :
  apply_updates a U = Some a' ->
  exists ds, Forall2 (fun e d => stored U e = Some d) (files a) ds
    /\ format a' = fix_nl (comment a)
         ++ concat (map (fun nd => format_marker (fst nd) ++ fix_nl (snd nd)) (combine (map fst (files a)) ds)).
Proof.
  unfold apply_updates. destruct (update_files U (files a)) as [fs|] eqn:E; [|discriminate].
  intros H. inversion H; subst. unfold format. simpl.
  assert (exists ds, Forall2 (fun e d => stored U e = Some d) (files a) ds /\ fs = combine (map fst (files a)) ds) as [ds [H1 H2]].
  { clear H. revert fs E. induction (files a) as [|[n d] r IH]; intros fs E; simpl in E.
    - inversion E. exists []. split; constructor.
    - destruct (update_files U r) as [r'|] eqn:Er; [|discriminate].
      destruct (IH r' eq_refl) as [ds [H1 H2]]. unfold stored.
      destruct (assoc_get U n) as [c|] eqn:Ec.
      + destruct (update_data c) as [d'|] eqn:Ed; [|discriminate]. inversion E; subst.
        exists (d' :: ds). split; [constructor; [simpl; rewrite Ec; exact Ed|exact H1]|reflexivity].
      + inversion E; subst. exists (d :: ds). split; [constructor; [simpl; rewrite Ec; reflexivity|exact H1]|reflexivity]. }
  exists ds. split; [exact H1|]. rewrite H2. reflexivity.
Qed.

(* update_reparses: the written file is the archive it claims to be, when the archive came
   from Parse and every updated content is representable (empty or newline-terminated) *)
Lemma forallb_Forall2_wf U fs fs' :
  Forall2 (entry_updated U) fs fs' ->
  forallb (fun nd => wf_name (fst nd) && wf_text (snd nd)) fs = true ->
  (forall e c, In e fs -> assoc_get U (fst e) = Some c -> fix_nl c = c) ->
  forallb (fun nd => wf_name (fst nd) && wf_text (snd nd)) fs' = true.
Proof.
  induction 1 as [|e e' l l' He _ IH]; intros Hwf Hrep; [reflexivity|].
  destruct He as [Hn Hd]. simpl in *. apply andb_true_iff in Hwf. destruct Hwf as [He Hl].
  apply andb_true_iff in He. destruct He as [Hname Htext].
  rewrite IH; [|exact Hl|intros e0 c Hin; apply Hrep; right; exact Hin].
  rewrite Hn, Hname. simpl. rewrite andb_true_r.
  destruct (assoc_get U (fst e)) as [c|] eqn:Ec.
  - destruct Hd as [[Hq Hs]|[Hq Hs]].
    + rewrite Hs. apply wf_text_iff. split; [|exact Hq]. apply (Hrep e c); auto.
    + eapply quote_wf_text. exact Hs.
  - rewrite Hd. exact Htext.
Qed.

Theorem update_reparses a U a' :
  wf_archive a = true ->
  (forall n d c, In (n, d) (files a) -> assoc_get U n = Some c -> c = [] \/ last_byte c = Some NL) ->
  apply_updates a U = Some a' ->
  wf_archive a' = true /\ parse (format a') = a'.
Proof.
  intros Hwf Hrep Ha.
  assert (wf_archive a' = true) as Hwf'.
  { unfold apply_updates in Ha. destruct (update_files U (files a)) as [fs|] eqn:E; [|discriminate].
    inversion Ha; subst. unfold wf_archive in *. simpl.
    apply andb_true_iff in Hwf. destruct Hwf as [Hc Hfs]. rewrite Hc. simpl.
    eapply forallb_Forall2_wf; [apply update_files_spec; exact E|exact Hfs|].
    intros [n d] c Hin Hc'. simpl in Hc'. apply fix_nl_fixed. eapply Hrep; eauto. }
  split; [exact Hwf'|apply parse_format_wf; exact Hwf'].
Qed.

(* in particular for the archive of a script file *)
Theorem update_reparses_file file U a' :
  (forall n d c, In (n, d) (files (parse file)) -> assoc_get U n = Some c -> c = [] \/ last_byte c = Some NL) ->
  apply_updates (parse file) U = Some a' ->
  parse (format a') = a'.
Proof. intros Hrep Ha. eapply update_reparses; eauto. apply parse_wf_archive. Qed.

(* ---- cmp: when an update is recorded *)

Lemma set_updates_updates st U : s_updates (set_updates st U) = U.
Proof. reflexivity. Qed.

(* cmp_records_only_when: a negated cmp, cmpenv, a run without UpdateScripts, and a cmp
   against a path that is not an archive entry leave the recorded updates untouched *)
Theorem cmp_records_only_when upd envsubst neg args st :
  neg = true \/ envsubst = true \/ upd = false
  \/ (forall n1 n2, args = [n1; n2] -> assoc_get (s_files st) (clean (mkabs st n2)) = None) ->
  s_updates (outcome_state (cmd_cmp upd envsubst neg args st)) = s_updates st.
Proof.
  intros H. unfold cmd_cmp.
  destruct args as [|n1 [|n2 [|x r]]]; try reflexivity.
  destruct (bytes_eqb n1 n2); [reflexivity|].
  destruct (ts_read st n1) as [t1|]; [|reflexivity].
  destruct (read_file (s_fs st) (mkabs st n2)) as [data|]; [|reflexivity].
  destruct neg.
  - destruct (bytes_eqb t1 _); reflexivity.
  - destruct (bytes_eqb t1 _); [reflexivity|].
    destruct H as [H|[H|[H|H]]]; [discriminate|subst envsubst|subst upd|].
    + rewrite andb_false_r. reflexivity.
    + reflexivity.
    + destruct (upd && negb envsubst); [|reflexivity]. rewrite (H n1 n2 eq_refl). reflexivity.
Qed.

(* ... and they never make a differing comparison pass *)
Theorem cmp_differs_fails (upd envsubst : bool) args st n1 n2 t1 data :
  args = [n1; n2] -> bytes_eqb n1 n2 = false ->
  ts_read st n1 = Some t1 -> read_file (s_fs st) (mkabs st n2) = Some data ->
  bytes_eqb t1 (if envsubst then expand (s_env st) data else data) = false ->
  envsubst = true \/ upd = false \/ assoc_get (s_files st) (clean (mkabs st n2)) = None ->
  cmd_cmp upd envsubst false args st = Failed st.
Proof.
  intros -> Hn H1 H2 Hd H. unfold cmd_cmp. rewrite Hn, H1, H2, Hd.
  destruct H as [->|[->|H]].
  - rewrite andb_false_r. reflexivity.
  - reflexivity.
  - destruct (upd && negb envsubst); [|reflexivity]. rewrite H. reflexivity.
Qed.

(* update_mode_passes: with UpdateScripts a plain cmp against an archive entry passes, and
   records (entry name -> actual text) exactly when the texts differ *)
Theorem update_mode_passes st n1 n2 t1 t2 entry :
  bytes_eqb n1 n2 = false ->
  ts_read st n1 = Some t1 -> read_file (s_fs st) (mkabs st n2) = Some t2 ->
  assoc_get (s_files st) (clean (mkabs st n2)) = Some entry ->
  cmd_cmp true false false [n1; n2] st
  = Done (if bytes_eqb t1 t2 then st else set_updates st (assoc_set (s_updates st) entry t1)).
Proof.
  intros Hn H1 H2 He. unfold cmd_cmp. rewrite Hn, H1, H2. destruct (bytes_eqb t1 t2); [reflexivity|].
  simpl. rewrite He. reflexivity.
Qed.

Lemma assoc_get_set m k v : assoc_get (assoc_set m k v) k = Some v.
Proof.
  induction m as [|[k' v'] r IH]; simpl.
  - rewrite bytes_eqb_refl. reflexivity.
  - destruct (bytes_eqb k k') eqn:E; simpl; rewrite ?bytes_eqb_refl, ?E; auto.
Qed.

Lemma assoc_get_set_other m k v k2 : bytes_eqb k2 k = false -> assoc_get (assoc_set m k v) k2 = assoc_get m k2.
Proof.
  intros Hne. induction m as [|[k' v'] r IH]; simpl.
  - rewrite Hne. reflexivity.
  - destruct (bytes_eqb k k') eqn:E; simpl.
    + apply bytes_eqb_eq in E. subst k'. rewrite Hne. reflexivity.
    + destruct (bytes_eqb k2 k'); auto.
Qed.

(* the recorded text is what a later rewriting stores *)
Theorem recorded_is_stored st entry t1 :
  assoc_get (s_updates (set_updates st (assoc_set (s_updates st) entry t1))) entry = Some t1.
Proof. apply assoc_get_set. Qed.

(* ---- without UpdateScripts nothing is ever recorded *)

Definition U (o : outcome) := s_updates (outcome_state o).

Ltac dm := match goal with |- context [match ?x with _ => _ end] => destruct x end.
Ltac crush := repeat (simpl; try reflexivity; dm); simpl; try reflexivity.

Lemma mark_racy_updates st b : s_updates (mark_racy st b) = s_updates st.
Proof. destruct b; reflexivity. Qed.

Lemma upd_cd args st : U (cmd_cd args st) = s_updates st.
Proof. unfold U, cmd_cd. crush. Qed.
Lemma upd_chmod args st : U (cmd_chmod args st) = s_updates st.
Proof. unfold U, cmd_chmod. crush. Qed.
Lemma upd_cmp envs neg args st : U (cmd_cmp false envs neg args st) = s_updates st.
Proof. unfold U, cmd_cmp. crush. Qed.
Lemma upd_cp_loop dst dd srcs st : U (cp_loop dst dd srcs st) = s_updates st.
Proof.
  revert st. induction srcs as [|a r IH]; intros st; simpl; [reflexivity|].
  destruct (cp_source st a) as [[[src data] mode]|]; [|reflexivity].
  destruct (write_file _ _ _ _); [|reflexivity]. rewrite IH. reflexivity.
Qed.
Lemma upd_cp args st : U (cmd_cp args st) = s_updates st.
Proof.
  unfold cmd_cp. destruct args as [|a [|b r]]; try reflexivity.
  destruct (_ && _); [reflexivity|]. apply upd_cp_loop.
Qed.
Lemma upd_env args st : U (cmd_env args st) = s_updates st.
Proof. reflexivity. Qed.
Lemma upd_exists neg args st : U (cmd_exists neg args st) = s_updates st.
Proof. unfold U, cmd_exists. crush. Qed.
Lemma upd_mkdir_loop args st : U (mkdir_loop args st) = s_updates st.
Proof.
  revert st. induction args as [|a r IH]; intros st; simpl; [reflexivity|].
  destruct (mkdir_all _ _ _) as [t [|]]; [|reflexivity]. rewrite IH. reflexivity.
Qed.
Lemma upd_rm_loop args st : U (rm_loop args st) = s_updates st.
Proof.
  revert st. induction args as [|a r IH]; intros st; simpl; [reflexivity|].
  destruct (remove_all _ _); [|reflexivity]. rewrite IH. reflexivity.
Qed.
Lemma upd_unquote_loop args st : U (unquote_loop args st) = s_updates st.
Proof.
  revert st. induction args as [|a r IH]; intros st; simpl; [reflexivity|].
  destruct (read_file _ _); [|reflexivity]. destruct (unquote _); [|reflexivity].
  destruct (write_file _ _ _ _); [|reflexivity]. rewrite IH. reflexivity.
Qed.
Lemma upd_unix2dos_loop args st : U (unix2dos_loop args st) = s_updates st.
Proof.
  revert st. induction args as [|a r IH]; intros st; simpl; [reflexivity|].
  destruct (read_file _ _); [|reflexivity].
  destruct (write_file _ _ _ _); [|reflexivity]. rewrite IH. reflexivity.
Qed.
Lemma upd_mv args st : U (cmd_mv args st) = s_updates st.
Proof. unfold U, cmd_mv. crush. Qed.
Lemma upd_stdin args st : U (cmd_stdin args st) = s_updates st.
Proof. unfold U, cmd_stdin. crush. Qed.
Lemma upd_stop args st : U (cmd_stop args st) = s_updates st.
Proof. unfold U, cmd_stop. crush. Qed.
Lemma upd_symlink args st : U (cmd_symlink args st) = s_updates st.
Proof. unfold U, cmd_symlink. crush. Qed.
Lemma upd_match neg args text g st : U (script_match neg args text g st) = s_updates st.
Proof. unfold U, script_match. crush. Qed.
Lemma upd_wait_all chk st : U (wait_all chk st) = s_updates st.
Proof.
  unfold U, wait_all. destruct (wait_loop chk (s_bg st)) as [[[[bgs o] e] bad] racy].
  destruct bad; simpl; rewrite mark_racy_updates; reflexivity.
Qed.
Lemma upd_wait_one n st : U (wait_one n st) = s_updates st.
Proof.
  unfold U, wait_one. destruct (find_bg _ _); [|reflexivity].
  destruct (reap _) as [p racy]. destruct (status_wrong _); simpl; rewrite mark_racy_updates; reflexivity.
Qed.
Lemma upd_wait cfg args st : U (cmd_wait cfg args st) = s_updates st.
Proof.
  unfold cmd_wait, timed_out_state. destruct args as [|a [|b r]]; [| |reflexivity].
  - destruct (wait_times_out _ _); [unfold U; simpl; apply mark_racy_updates|apply upd_wait_all].
  - destruct (find_bg _ _); [|apply upd_wait_one].
    destruct (wait_times_out _ _); [unfold U; simpl; apply mark_racy_updates|apply upd_wait_one].
Qed.
Lemma upd_skip args st : U (cmd_skip args st) = s_updates st.
Proof.
  unfold cmd_skip. destruct args as [|a [|b r]]; try reflexivity;
    (pose proof (upd_wait_all true (interrupt_all st)) as H; unfold U in *;
     destruct (wait_all true (interrupt_all st)); simpl in *; exact H).
Qed.
Lemma upd_kill args st : U (cmd_kill args st) = s_updates st.
Proof.
  unfold U, cmd_kill. destruct (kill_args args) as [[|b r]|]; [| |reflexivity].
  - destruct (kill_loop _) as [[bgs err] racy]. destruct err; simpl; rewrite mark_racy_updates; reflexivity.
  - destruct (find_bg _ _); [|reflexivity]. destruct (signal _) as [[p err] racy].
    destruct err; simpl; rewrite mark_racy_updates; reflexivity.
Qed.
Lemma upd_exec cfg neg args st : U (cmd_exec cfg neg args st) = s_updates st.
Proof.
  unfold U, cmd_exec. destruct args as [|prog rest]; [reflexivity|].
  destruct (bg_spec _) as [name|].
  - destruct rest; [destruct name; reflexivity|].
    destruct (find_bg _ _); [reflexivity|].
    destruct (can_start _ _ _); [simpl; rewrite mark_racy_updates; reflexivity|].
    unfold start_failed_state; destruct (is_bare _ && _), neg; reflexivity.
  - destruct (can_start _ _ _).
    + destruct (meets _ _); simpl; rewrite mark_racy_updates; reflexivity.
    + unfold start_failed_state; destruct (is_bare _ && _), neg; reflexivity.
Qed.
Lemma upd_custom cfg k neg args st : U (cmd_custom cfg k neg args st) = s_updates st.
Proof. unfold U, cmd_custom. crush. Qed.

Lemma upd_builtin cfg name neg args st :
  c_update cfg = false -> U (builtin_sem cfg name neg args st) = s_updates st.
Proof.
  intros Hu. unfold builtin_sem. rewrite Hu.
  destruct (neg && _); [reflexivity|].
  repeat (match goal with |- context [if bytes_eqb name ?l then _ else _] => destruct (bytes_eqb name l) end;
          [first [apply upd_cd|apply upd_chmod|apply upd_cmp|apply upd_cp|apply upd_env|apply upd_exec
                 |apply upd_exists|apply upd_match|apply upd_kill|apply upd_mv|apply upd_skip|apply upd_stdin
                 |apply upd_stop|apply upd_symlink|apply upd_unquote_loop|apply upd_wait
                 |(unfold cmd_mkdir; destruct args; [reflexivity|apply upd_mkdir_loop])
                 |(unfold cmd_rm; destruct args; [reflexivity|apply upd_rm_loop])
                 |(unfold cmd_unix2dos; destruct args; [reflexivity|apply upd_unix2dos_loop])]|]).
  reflexivity.
Qed.

Lemma upd_cmd_sem cfg c neg args st :
  c_update cfg = false -> U (cmd_sem cfg c neg args st) = s_updates st.
Proof.
  intros Hu. destruct c as [name|name|k]; cbn [cmd_sem].
  - apply upd_builtin. exact Hu.
  - destruct (c_explicit_exec cfg); [reflexivity|apply upd_exec].
  - apply upd_custom.
Qed.

Lemma upd_run_guards cfg st words :
  c_update cfg = false -> U (run_guards cfg st words) = s_updates st.
Proof.
  intros Hu. induction words as [|w rest IH]; simpl; [reflexivity|].
  destruct (guard_of w) as [[want c]|].
  - destruct rest as [|r0 rest']; [reflexivity|].
    destruct (cond_eval cfg st c) as [b|]; [|reflexivity].
    destruct (Bool.eqb b want); [exact IH|reflexivity].
  - unfold run_neg, run_cmd.
    destruct (bytes_eqb w bang).
    + destruct rest as [|n a]; [reflexivity|]. destruct (lookup_cmd cfg n); [apply upd_cmd_sem; exact Hu|reflexivity].
    + destruct (lookup_cmd cfg w); [apply upd_cmd_sem; exact Hu|reflexivity].
Qed.

Lemma upd_run_line cfg st line :
  c_update cfg = false -> U (run_line cfg st line) = s_updates st.
Proof.
  intros Hu. unfold run_line. destruct (tokenise _ _) as [[|w ws]|]; try reflexivity.
  apply upd_run_guards. exact Hu.
Qed.

Lemma upd_end_bg st : s_updates (end_bg st) = s_updates st.
Proof. unfold end_bg. exact (upd_wait_all false (interrupt_all st)). Qed.

Lemma upd_run_lines cfg ls n f st :
  c_update cfg = false -> s_updates (snd (fst (run_lines cfg ls n f st))) = s_updates st.
Proof.
  intros Hu. revert n f st. induction ls as [|l ls IH]; intros n f st; simpl.
  - rewrite upd_end_bg. reflexivity.
  - destruct (is_comment l); [apply IH|].
    pose proof (upd_run_line cfg (at_line (S n) f st) l Hu) as Hl. unfold U in Hl.
    destruct (run_line cfg (at_line (S n) f st) l) as [s|s|s]; simpl in Hl.
    + destruct (s_stopped s); simpl; [rewrite upd_end_bg|rewrite IH]; exact Hl.
    + destruct (c_continue cfg); [|exact Hl].
      destruct (s_stopped s); simpl; [rewrite upd_end_bg; exact Hl|].
      specialize (IH (S n) true s). destruct (run_lines cfg ls (S n) true s) as [[k s'] fl]. simpl in *.
      rewrite IH. exact Hl.
    + exact Hl.
Qed.

Lemma upd_unpack u work fs st : s_updates (fst (unpack u work fs st)) = s_updates st.
Proof.
  revert st. induction fs as [|[n d] r IH]; intros st; simpl; [reflexivity|].
  destruct (beneath work _); [|reflexivity]. cbn [negb].
  destruct (mkdir_all _ _ _) as [t1 [|]]; [|reflexivity].
  destruct u.
  - destruct (write_file_excl _ _ _ _); [rewrite IH|]; reflexivity.
  - destruct (write_file _ _ _ _); [rewrite IH|]; reflexivity.
Qed.

Lemma upd_run_archive cfg work env a :
  c_update cfg = false -> s_updates (r_final (run_archive cfg work env a)) = [].
Proof.
  intros Hu. unfold run_archive.
  assert (s_updates (fst (setup cfg work env a)) = []) as Hs.
  { unfold setup. destruct (mkdir_all _ _ _) as [t [|]]; [|reflexivity]. rewrite upd_unpack. reflexivity. }
  destruct (setup cfg work env a) as [st ok]. simpl in Hs. destruct ok; [|exact Hs].
  unfold run_script.
  pose proof (upd_run_lines cfg (script_lines (comment a)) 0 false st Hu) as H.
  destruct (run_lines cfg (script_lines (comment a)) 0 false st) as [[k s] fl]. simpl in *. congruence.
Qed.

(* without UpdateScripts the script file is never written *)
Theorem no_flag_no_write cfg work env file :
  c_update cfg = false -> f_change (run_file_full cfg work env file) = Untouched.
Proof.
  intros Hu. unfold run_file_full. simpl. rewrite (upd_run_archive cfg work env (parse file) Hu). reflexivity.
Qed.

(* an update that cannot be stored ends the run as failed (never as passed or skipped), with
   one more FAIL line, and nothing is written *)
Theorem update_error_fails cfg work env file :
  f_change (run_file_full cfg work env file) = UpdateError ->
  (exists n, r_verdict (f_run (run_file_full cfg work env file)) = Fail n)
  /\ r_fail_lines (f_run (run_file_full cfg work env file))
     = r_fail_lines (run_file cfg work env file) ++ [s_lineno (r_final (run_file cfg work env file))].
Proof.
  unfold run_file_full, run_file. simpl.
  destruct (change_of _ _); try discriminate. intros _. simpl. split; [|reflexivity].
  destruct (r_verdict _); eauto.
Qed.

(* ... and in every other case the verdict is that of the script *)
Theorem update_ok_verdict cfg work env file :
  f_change (run_file_full cfg work env file) <> UpdateError ->
  f_run (run_file_full cfg work env file) = run_file cfg work env file.
Proof.
  unfold run_file_full, run_file. simpl. destruct (change_of _ _); try reflexivity. congruence.
Qed.

(* ---- the re-run fix-point *)

(* The unrestricted reading of "re-running the updated script without UpdateScripts passes
   whenever the content is representable": for every script, if the update run passes, rewrites
   the file, and every recorded content is empty or newline-terminated and needs no quoting,
   then the second run of the rewritten file (flag off) passes and leaves the file alone. *)
Definition with_update (cfg : config) (u : bool) : config :=
  {| c_continue := c_continue cfg; c_explicit_exec := c_explicit_exec cfg; c_unique := c_unique cfg;
     c_update := u; c_host_conds := c_host_conds cfg; c_goos := c_goos cfg; c_goarch := c_goarch cfg; c_go_minor := c_go_minor cfg; c_custom_cond := c_custom_cond cfg;
     c_cmds := c_cmds cfg; c_main_cmds := c_main_cmds cfg; c_helper := c_helper cfg;
     c_helper_dir := c_helper_dir cfg; c_watch := c_watch cfg; c_deadline := c_deadline cfg; c_cancelled := c_cancelled cfg |}.

Definition representable (c : bytes) : Prop := (c = [] \/ last_byte c = Some NL) /\ needs_quote c = false.

Definition rerun_fixpoint_unrestricted_statement : Prop :=
  forall cfg work env file file',
    let r := run_file_full (with_update cfg true) work env file in
    r_verdict (f_run r) = Pass ->
    f_change r = Rewritten file' ->
    (forall n c, assoc_get (s_updates (r_final (f_run r))) n = Some c -> representable c) ->
    let r2 := run_file_full (with_update cfg false) work env file' in
    r_verdict (f_run r2) = Pass /\ f_change r2 = Untouched.

Module Examples.
Import String.
Local Open Scope string_scope.
Local Open Scope list_scope.
Definition b (s : string) : bytes := list_byte_of_string s.
Definition nl : string := String (Ascii.ascii_of_nat 10) EmptyString.
Definition text (ls : list string) : bytes := List.concat (List.map (fun l => b (String.append l nl)) ls).

Definition cfg0 : config :=
  {| c_continue := false; c_explicit_exec := false; c_unique := false; c_update := true;
     c_host_conds := []; c_goos := b "linux"; c_goarch := b "amd64"; c_go_minor := 23; c_custom_cond := None; c_cmds := []; c_main_cmds := [];
     c_helper := b "tshelper"; c_helper_dir := b "/h"; c_watch := []; c_deadline := false; c_cancelled := false |}.
Definition env0 : list (bytes * bytes) := [(b "WORK", b "/w"); (b "PATH", b "/h")].
Definition work : bytes := b "/w".
Definition gname : bytes := b "g.txt".

(* one golden entry updated, one untouched, one needing quotation *)
Definition f1 := text ["exec tshelper echo new"; "cmp stdout g.txt"; "exec tshelper lines '-- x --'"; "cmp stdout q.txt";
                       "-- g.txt --"; "old"; "-- keep.txt --"; "kept"; "-- q.txt --"; "plain"].
Example ex_update :
  let r := run_file_full cfg0 (b "/w") env0 f1 in
  r_verdict (f_run r) = Pass
  /\ f_change r = Rewritten (text ["exec tshelper echo new"; "cmp stdout g.txt"; "exec tshelper lines '-- x --'"; "cmp stdout q.txt";
                                   "-- g.txt --"; "new"; "-- keep.txt --"; "kept"; "-- q.txt --"; ">-- x --"]).
Proof. vm_compute. split; reflexivity. Qed.

(* the hypotheses of update_reparses are satisfiable *)
Example ex_reparses_hyp :
  wf_archive (parse f1) = true
  /\ exists a', apply_updates (parse f1) [(b "g.txt", text ["new"])] = Some a' /\ parse (format a') = a'.
Proof.
  split; [vm_compute; reflexivity|].
  eexists. split; [vm_compute; reflexivity|]. vm_compute. reflexivity.
Qed.

(* negated cmp, cmpenv and a cmp against a file outside the archive never write *)
Definition f2 := text ["exec tshelper echo new"; "! cmp stdout g.txt"; "-- g.txt --"; "old"].
Definition f3 := text ["exec tshelper echo new"; "cmpenv stdout g.txt"; "-- g.txt --"; "old"].
Definition f4 := text ["exec tshelper echo new"; "cp g.txt out.txt"; "cmp stdout out.txt"; "-- g.txt --"; "old"].
Example ex_no_update :
  f_change (run_file_full cfg0 (b "/w") env0 f2) = Untouched
  /\ r_verdict (f_run (run_file_full cfg0 (b "/w") env0 f2)) = Pass
  /\ f_change (run_file_full cfg0 (b "/w") env0 f3) = Untouched
  /\ r_verdict (f_run (run_file_full cfg0 (b "/w") env0 f3)) = Fail 2
  /\ f_change (run_file_full cfg0 (b "/w") env0 f4) = Untouched
  /\ r_verdict (f_run (run_file_full cfg0 (b "/w") env0 f4)) = Fail 3.
Proof. vm_compute. repeat split; reflexivity. Qed.

(* a content that needs quoting but has no final newline cannot be stored: nothing is written *)
Definition f5 := text ["exec tshelper print '-- x --'"; "cmp stdout g.txt"; "-- g.txt --"; "old"].
Example ex_unquotable :
  f_change (run_file_full cfg0 (b "/w") env0 f5) = UpdateError
  /\ r_verdict (f_run (run_file_full cfg0 (b "/w") env0 f5)) = Fail 2
  /\ r_fail_lines (f_run (run_file_full cfg0 (b "/w") env0 f5)) = [2].
Proof. vm_compute. repeat split; reflexivity. Qed.

(* the witness against the unrestricted fix-point: one entry compared with two outputs *)
Definition f6 := text ["exec tshelper echo one"; "cmp stdout g.txt"; "exec tshelper echo two"; "cmp stdout g.txt";
                       "-- g.txt --"; "zero"].
Definition f6' := text ["exec tshelper echo one"; "cmp stdout g.txt"; "exec tshelper echo two"; "cmp stdout g.txt";
                        "-- g.txt --"; "two"].
Example ex_f6_first :
  let r := run_file_full cfg0 work env0 f6 in
  r_verdict (f_run r) = Pass /\ f_change r = Rewritten f6'
  /\ s_updates (r_final (f_run r)) = [(gname, text ["two"])].
Proof. vm_compute. repeat split; reflexivity. Qed.
Example ex_f6_second :
  r_verdict (f_run (run_file_full (with_update cfg0 false) work env0 f6')) = Fail 2.
Proof. vm_compute. reflexivity. Qed.
End Examples.

Theorem rerun_fixpoint_unrestricted_refuted : ~ rerun_fixpoint_unrestricted_statement.
Proof.
  intros H.
  specialize (H Examples.cfg0 Examples.work Examples.env0 Examples.f6 Examples.f6').
  assert (with_update Examples.cfg0 true = Examples.cfg0) as E by reflexivity. rewrite E in H.
  destruct Examples.ex_f6_first as [Hv [Hc Hu]].
  specialize (H Hv Hc).
  assert (forall n c, assoc_get (s_updates (r_final (f_run (run_file_full Examples.cfg0 Examples.work Examples.env0 Examples.f6)))) n = Some c -> representable c) as Hr.
  { rewrite Hu. intros n c. simpl.
    destruct (bytes_eqb n Examples.gname); [|discriminate].
    intros Hc'. inversion Hc'; subst. vm_compute. repeat split; auto. }
  destruct (H Hr) as [Hp _]. rewrite Examples.ex_f6_second in Hp. discriminate.
Qed.

(* ---- no update recorded: the file is not written, whatever its text (canonical or not) *)

Theorem no_update_no_write cfg work env file :
  s_updates (r_final (run_file cfg work env file)) = [] ->
  f_change (run_file_full cfg work env file) = Untouched
  /\ f_run (run_file_full cfg work env file) = run_file cfg work env file.
Proof.
  intros Hu. unfold run_file_full, run_file in *. simpl. rewrite Hu. simpl. split; reflexivity.
Qed.

(* ... and conversely a file is only ever written when some cmp recorded an update *)
Theorem write_only_on_update cfg work env file d :
  f_change (run_file_full cfg work env file) = Rewritten d ->
  s_updates (r_final (run_file cfg work env file)) <> [].
Proof.
  unfold run_file_full, run_file. simpl. intros H Hu. rewrite Hu in H. discriminate.
Qed.

(* ---- what IS written is always the canonical text of the updated archive: re-parsing and
   re-formatting it changes nothing, whatever the spelling of the file was before *)
Theorem update_written_canonical file U d :
  (forall n d0 c, In (n, d0) (files (parse file)) -> assoc_get U n = Some c -> c = [] \/ last_byte c = Some NL) ->
  change_of (parse file) U = Rewritten d -> format (parse d) = d.
Proof.
  intros Hrep. unfold change_of. destruct U as [|u0 U']; [discriminate|].
  destruct (apply_updates (parse file) (u0 :: U')) as [a'|] eqn:Ha; [|discriminate].
  intros H. inversion H; subst. rewrite (update_reparses_file file (u0 :: U') a' Hrep Ha). reflexivity.
Qed.

Module NonCanonical.
Import String.
Local Open Scope string_scope.
Local Open Scope list_scope.
Import Examples.
(* a script file that is not in Format's canonical form: a marker line with extra blanks, a
   marker line ending in CR LF, no final newline *)
Definition nc := b ("exec tshelper echo new" ++ nl ++ "cmp stdout a" ++ nl
                     ++ "-- a --" ++ nl ++ "new" ++ nl ++ "--  c  --" ++ String (Ascii.ascii_of_nat 13) nl ++ "keep").
Example ex_nc_not_canonical : bytes_eqb (format (parse nc)) nc = false.
Proof. vm_compute. reflexivity. Qed.
(* nothing mismatches: it is left alone, byte for byte (the file is not written) *)
Example ex_nc_untouched :
  f_change (run_file_full cfg0 work env0 nc) = Untouched
  /\ r_verdict (f_run (run_file_full cfg0 work env0 nc)) = Pass.
Proof. vm_compute. split; reflexivity. Qed.
(* one entry mismatches: the whole archive is written in canonical form, so the spelling of
   the marker line of the untouched entry c and its missing final newline do not survive *)
Definition nc1 := b ("exec tshelper echo newer" ++ nl ++ "cmp stdout a" ++ nl
                     ++ "-- a --" ++ nl ++ "new" ++ nl ++ "--  c  --" ++ String (Ascii.ascii_of_nat 13) nl ++ "keep").
Definition nc1_tail := b ("--  c  --" ++ String (Ascii.ascii_of_nat 13) nl ++ "keep").
Definition nc1_written := b ("exec tshelper echo newer" ++ nl ++ "cmp stdout a" ++ nl
                     ++ "-- a --" ++ nl ++ "newer" ++ nl ++ "-- c --" ++ nl ++ "keep" ++ nl).
Example ex_nc1 :
  f_change (run_file_full cfg0 work env0 nc1) = Rewritten nc1_written
  /\ s_updates (r_final (f_run (run_file_full cfg0 work env0 nc1))) = [(b "a", b ("newer" ++ nl))]
  /\ files (parse nc1_written) = [(b "a", b ("newer" ++ nl)); (b "c", b ("keep" ++ nl))]
  /\ files (parse nc1) = [(b "a", b ("new" ++ nl)); (b "c", b ("keep" ++ nl))].
Proof. vm_compute. repeat split; reflexivity. Qed.
Definition upd1 : list (bytes * bytes) := [(b "a", b ("newer" ++ nl))].
Definition fs1 : list (bytes * bytes) := [(b "a", b ("new" ++ nl))].
End NonCanonical.

(* byte-for-byte survival of the untouched entries' text does NOT hold of applyScriptUpdates:
   the parsed entries are unchanged (update_frame), their spelling in the file is normalised *)
Theorem update_keeps_untouched_bytes_refuted : ~ update_keeps_untouched_bytes_statement.
Proof.
  intros H.
  specialize (H NonCanonical.nc1 NonCanonical.upd1
                NonCanonical.nc1_written NonCanonical.nc1_tail).
  assert (has_suffix NonCanonical.nc1_tail NonCanonical.nc1_written = false) as E by (vm_compute; reflexivity).
  rewrite H in E; [discriminate| |].
  - vm_compute. reflexivity.
  - exists (firstn (length NonCanonical.nc1 - length NonCanonical.nc1_tail) NonCanonical.nc1),
           NonCanonical.fs1.
    split; [vm_compute; reflexivity|]. split; [vm_compute; reflexivity|].
    split; [vm_compute; reflexivity|]. split; [vm_compute; discriminate|].
    intros n d Hin. vm_compute in Hin. destruct Hin as [Hin|[]]. inversion Hin; subst. vm_compute. reflexivity.
Qed.

(* The receiver of the pure segments of testscript's runLine for the translation Gen/TsRunSrc.v
   (table: harness/cmd/genconsts/gen_tsrun_src.go).  Definitions only.

   The segments call two methods of *TestScript that are not part of them: ts.parse(line) (the
   tokenizer, translated on its own in Gen/TsParseSrc.v) and ts.condition(cond).  Both may end
   in ts.Fatalf instead of returning.  Their answers depend on state of the script that the
   segments do not change (the environment, the host, Params), so the value of *TestScript is,
   for these segments, the pair of these two functions: an oracle carried by the receiver.
   res (exitm T): Ok (DoneM r) a normal return of r, Ok (FailedM msg) the call ended in
   ts.Fatalf(msg, ...) (Lib/GoSemFail.v). *)
From Coq Require Import List Bool.
From Coq.Strings Require Import Byte.
From GI Require Import Lib.Bytes Lib.GoSem Lib.GoSemFail.
Import ListNotations.

Record ts_rrecv := {
  r_parse : bytes -> res (exitm (list bytes));          (* ts.parse(line) *)
  r_condition : bytes -> res (exitm (bool * bool))      (* ts.condition(cond): (ok, err != nil) *)
}.

Definition go_ts_parse (ts : ts_rrecv) (line : bytes) : res (exitm (list bytes)) := r_parse ts line.
Definition go_ts_condition (ts : ts_rrecv) (cond : bytes) : res (exitm (bool * bool)) := r_condition ts cond.

(* More about single lines (C01).  (1) The built-in conditions: GOOS / GOARCH names, unix, go1.N --
   proofs about [cond_eval] (TsRun.v); the name lists and the text of goVersionRegex are
   regenerated from the checked tree (Gen/TsRunConsts.v).  (2) `exists`: every operand counts.
   (3) A program that cannot be started: the line fails (or meets "!"), the pending standard input
   is consumed, the previous output is gone.  (4) Commands that return their status (RunMain). *)
From Coq Require Import List Bool Arith NArith Lia.
From Coq.Strings Require Import Byte.
From GI Require Import Lib.Bytes Lib.BytesFacts Gen.TsRunConsts Txtar.Txtar
  TsRun.TsFs TsRun.TsState TsRun.TsCmds TsRun.TsRun TsRun.TsSpec TsRun.TsRunFacts.
Import ListNotations.

(* the model's reader of version names was written against this text of goVersionRegex *)
Lemma go_version_regex_current :
  go_version_regex = [x5e; x67; x6f; x28; x5b; x31; x2d; x39; x5d; x5b; x30; x2d; x39; x5d; x2a; x29; x5c; x2e;
                      x28; x5b; x31; x2d; x39; x5d; x5b; x30; x2d; x39; x5d; x2a; x29; x24].
Proof. reflexivity. Qed.

(* ---- the classes of names are disjoint (checked on the regenerated lists), so the order of the
   cases in condition() does not matter *)
Definition is_version_name (c : bytes) : bool := match go_version c with Some _ => true | None => false end.

Lemma classes_disjoint :
  forallb (fun n => negb (mem_bytes n known_arch_names) && negb (bytes_eqb n unix_name)
                    && negb (mem_bytes n cond_exact_names) && negb (is_version_name n)) known_os_names = true
  /\ forallb (fun n => negb (bytes_eqb n unix_name) && negb (mem_bytes n cond_exact_names) && negb (is_version_name n)) known_arch_names = true
  /\ forallb (fun n => negb (is_version_name n)) cond_exact_names = true
  /\ mem_bytes unix_name known_os_names = false
  /\ forallb (fun p => match p with c1 :: _ => negb (beq c1 x67) | [] => false end) cond_prefixes = true
  /\ forallb (fun n => mem_bytes n known_os_names) unix_os_names = true.
Proof. vm_compute. repeat split; reflexivity. Qed.

Lemma mem_forallb (f : bytes -> bool) l c : forallb f l = true -> mem_bytes c l = true -> f c = true.
Proof.
  intros H Hm. apply mem_bytes_In in Hm. rewrite forallb_forall in H. apply H. exact Hm.
Qed.

Lemma version_not_in (f : bytes -> bool) l c :
  forallb f l = true -> (forall n, f n = true -> is_version_name n = false) -> is_version_name c = true -> mem_bytes c l = false.
Proof.
  intros H Hf Hc. destruct (mem_bytes c l) eqn:E; [|reflexivity].
  rewrite (Hf c (mem_forallb f l c H E)) in Hc. discriminate.
Qed.

(* ---- GOOS *)
Theorem cond_goos cfg st c :
  In c known_os_names -> cond_eval cfg st c = CondVal (bytes_eqb c (c_goos cfg)).
Proof. intros H. apply mem_bytes_In in H. unfold cond_eval. rewrite H. reflexivity. Qed.

(* of all GOOS names exactly the target's holds *)
Theorem cond_goos_unique cfg st c1 c2 :
  In c1 known_os_names -> In c2 known_os_names ->
  cond_eval cfg st c1 = CondVal true -> cond_eval cfg st c2 = CondVal true -> c1 = c2.
Proof.
  intros H1 H2 E1 E2. rewrite (cond_goos _ _ _ H1) in E1. rewrite (cond_goos _ _ _ H2) in E2.
  inversion E1 as [A]. inversion E2 as [B]. apply bytes_eqb_eq in A. apply bytes_eqb_eq in B. congruence.
Qed.

Theorem cond_unix cfg st :
  cond_eval cfg st unix_name = CondVal (mem_bytes (c_goos cfg) unix_os_names).
Proof.
  unfold cond_eval. destruct classes_disjoint as (_ & _ & _ & H & _). rewrite H. rewrite bytes_eqb_refl. reflexivity.
Qed.

(* ---- GOARCH *)
Theorem cond_goarch cfg st c :
  In c known_arch_names -> cond_eval cfg st c = CondVal (bytes_eqb c (c_goarch cfg)).
Proof.
  intros H. apply mem_bytes_In in H. unfold cond_eval.
  destruct classes_disjoint as (Hos & Har & _).
  destruct (mem_bytes c known_os_names) eqn:Eo.
  - pose proof (mem_forallb _ _ c Hos Eo) as K. cbv beta in K. rewrite H in K. discriminate K.
  - pose proof (mem_forallb _ _ c Har H) as K. cbv beta in K.
    apply andb_true_iff in K. destruct K as [K _]. apply andb_true_iff in K. destruct K as [K _].
    apply negb_true_iff in K. rewrite K, H. reflexivity.
Qed.

(* ---- go1.N: "the Go version is 1.N or later" *)
Lemma version_starts_with_g c v : go_version c = Some v -> exists r, c = x67 :: r.
Proof.
  unfold go_version. destruct c as [|g [|o r]]; try discriminate.
  destruct (beq g x67) eqn:E; [|discriminate]. intros _. exists (o :: r). f_equal.
  destruct g; try discriminate E. reflexivity.
Qed.

Theorem cond_go_version cfg st c v :
  go_version c = Some v -> cond_eval cfg st c = CondVal (release_tag_holds (c_go_minor cfg) v).
Proof.
  intros Hv. assert (is_version_name c = true) as Hn by (unfold is_version_name; rewrite Hv; reflexivity).
  destruct classes_disjoint as (Hos & Har & Hex & Hux & Hpre & _).
  unfold cond_eval.
  rewrite (version_not_in _ _ c Hos); [|intros n K; repeat (apply andb_true_iff in K; destruct K as [K ?]); apply negb_true_iff; assumption|exact Hn].
  assert (bytes_eqb c unix_name = false) as ->.
  { destruct (bytes_eqb c unix_name) eqn:E; [|reflexivity]. apply bytes_eqb_eq in E. subst c. discriminate Hv. }
  rewrite (version_not_in _ _ c Har); [|intros n K; repeat (apply andb_true_iff in K; destruct K as [K ?]); apply negb_true_iff; assumption|exact Hn].
  rewrite (version_not_in _ _ c Hex); [|intros n K; apply negb_true_iff; exact K|exact Hn].
  assert (strip_any_prefix cond_prefixes c = None) as ->.
  { destruct (version_starts_with_g c v Hv) as [r ->]. clear -Hpre.
    induction cond_prefixes as [|p ps IH]; [reflexivity|]. cbn [forallb] in Hpre. apply andb_true_iff in Hpre. destruct Hpre as [Hp Hps].
    cbn [strip_any_prefix]. destruct p as [|c1 p']; [discriminate|]. cbn [has_prefix]. apply negb_true_iff in Hp.
    assert (beq c1 x67 = false) as -> by exact Hp. cbn [andb]. exact (IH Hps). }
  rewrite Hv. reflexivity.
Qed.

(* the tags are an initial segment: a version condition that holds, holds for every earlier minor *)
Theorem release_tags_downward m a b :
  release_tag_holds m (1%N, a) = true -> (1 <= b)%N -> (b <= a)%N -> release_tag_holds m (1%N, b) = true.
Proof.
  unfold release_tag_holds. cbn [fst snd]. intros H Hb Hab.
  apply andb_true_iff in H. destruct H as [H H2]. apply andb_true_iff in H. destruct H as [_ H1].
  apply N.leb_le in H1, H2. rewrite N.eqb_refl. cbn [andb].
  apply andb_true_iff. split; apply N.leb_le; lia.
Qed.

Theorem release_tag_spec m major minor :
  release_tag_holds m (major, minor) = true <-> major = 1%N /\ (1 <= minor <= m)%N.
Proof.
  unfold release_tag_holds. cbn [fst snd]. rewrite !andb_true_iff, N.eqb_eq, !N.leb_le. tauto.
Qed.

(* ---- the statement for every N: the condition spelled "go1." followed by the decimal numeral of
   N holds exactly when 1 <= N <= the minor version of the toolchain *)
Definition digit_byte (d : N) : byte := match Byte.of_N (48 + d) with Some b => b | None => x30 end.
(* the decimal digits of n, least significant first *)
Fixpoint dec_rev (fuel : nat) (n : N) : bytes :=
  match fuel with
  | O => []
  | S f => digit_byte (n mod 10) :: (if N.ltb n 10 then [] else dec_rev f (n / 10))
  end.
Definition dec (n : N) : bytes := rev (dec_rev (S (N.to_nat n)) n).
Definition go1_prefix : bytes := (* "go1." *) [x67; x6f; x31; x2e].

Fixpoint val_le (l : bytes) : N :=
  match l with
  | [] => 0
  | b :: r => (match digit_val b with Some d => d | None => 0 end) + 10 * val_le r
  end%N.
Definition all_digits (l : bytes) : bool := forallb (fun b => match digit_val b with Some _ => true | None => false end) l.

Lemma digit_val_byte d : (d < 10)%N -> digit_val (digit_byte d) = Some d.
Proof.
  intros H. assert (d = 0 \/ d = 1 \/ d = 2 \/ d = 3 \/ d = 4 \/ d = 5 \/ d = 6 \/ d = 7 \/ d = 8 \/ d = 9)%N as C by lia.
  repeat (destruct C as [->|C]; [reflexivity|]). subst d. reflexivity.
Qed.

Lemma dec_rev_spec : forall fuel n, (N.to_nat n < fuel)%nat ->
  val_le (dec_rev fuel n) = n /\ all_digits (dec_rev fuel n) = true.
Proof.
  induction fuel as [|f IH]; intros n Hf; [lia|].
  cbn [dec_rev val_le all_digits forallb].
  assert (n mod 10 < 10)%N as Hm by (apply N.mod_lt; lia).
  rewrite (digit_val_byte _ Hm). destruct (N.ltb n 10) eqn:E.
  - apply N.ltb_lt in E. cbn [val_le forallb]. rewrite N.mod_small by exact E. split; [lia|reflexivity].
  - apply N.ltb_ge in E.
    assert (N.to_nat (n / 10) < f)%nat as Hq.
    { assert (n / 10 < n)%N by (apply N.div_lt; lia). lia. }
    destruct (IH (n / 10)%N Hq) as [Hv Hd]. fold (all_digits (dec_rev f (n / 10))). rewrite Hv, Hd.
    split; [|reflexivity]. pose proof (N.div_mod n 10 ltac:(lia)). lia.
Qed.

Lemma parse_digits_app : forall x y a,
  parse_digits 10 a (x ++ y) = match parse_digits 10 a x with Some v => parse_digits 10 v y | None => None end.
Proof.
  induction x as [|b r IH]; intros y a; cbn [app parse_digits]; [reflexivity|].
  destruct (digit_val b) as [v|]; [|reflexivity]. destruct (N.ltb v 10); [apply IH|reflexivity].
Qed.

Lemma parse_digits_rev : forall l a, all_digits l = true ->
  parse_digits 10 a (rev l) = Some (a * 10 ^ N.of_nat (length l) + val_le l)%N.
Proof.
  induction l as [|b r IH]; intros a Hd.
  - cbn. f_equal. lia.
  - cbn [all_digits forallb] in Hd. apply andb_true_iff in Hd. destruct Hd as [Hb Hr].
    cbn [rev]. rewrite parse_digits_app, (IH a Hr). cbn [parse_digits val_le length].
    destruct (digit_val b) as [v|] eqn:E; [|discriminate].
    assert (v < 10)%N as Hv.
    { unfold digit_val in E. destruct (N.leb 48 (bN b) && N.leb (bN b) 57) eqn:R; [|discriminate].
      apply andb_true_iff in R. destruct R as [R1 R2]. apply N.leb_le in R1, R2. inversion E. lia. }
    apply N.ltb_lt in Hv. rewrite Hv. f_equal. rewrite Nat2N.inj_succ, N.pow_succ_r by lia. lia.
Qed.

(* the most significant digit of a positive number is not 0 *)
Lemma dec_rev_last : forall fuel n, (N.to_nat n < fuel)%nat -> (1 <= n)%N ->
  exists d, (1 <= d <= 9)%N /\ last (dec_rev fuel n) x30 = digit_byte d.
Proof.
  induction fuel as [|f IH]; intros n Hf Hn; [lia|].
  cbn [dec_rev]. destruct (N.ltb n 10) eqn:E.
  - apply N.ltb_lt in E. exists n. rewrite N.mod_small by exact E. split; [lia|reflexivity].
  - apply N.ltb_ge in E.
    assert (N.to_nat (n / 10) < f)%nat as Hq.
    { assert (n / 10 < n)%N by (apply N.div_lt; lia). lia. }
    assert (1 <= n / 10)%N as Hq1.
    { apply N.div_le_lower_bound; lia. }
    destruct (IH (n / 10)%N Hq Hq1) as (d & Hd & Hl). exists d. split; [exact Hd|].
    destruct (dec_rev f (n / 10)) as [|c r] eqn:R.
    + destruct f; [lia|]. cbn [dec_rev] in R. discriminate R.
    + exact Hl.
Qed.

Lemma canonical_num_dec n : (1 <= n)%N -> canonical_num (dec n) = Some n.
Proof.
  intros Hn. unfold dec.
  assert (N.to_nat n < S (N.to_nat n))%nat as Hf by lia.
  destruct (dec_rev_spec _ n Hf) as [Hv Hd].
  destruct (dec_rev_last _ n Hf Hn) as (d & Hd19 & Hl).
  set (l := dec_rev (S (N.to_nat n)) n) in *.
  assert (l <> []) as Hne by (unfold l; cbn [dec_rev]; discriminate).
  assert (exists r, rev l = digit_byte d :: r) as [r Hr].
  { destruct (exists_last Hne) as (l' & a & El). rewrite El in Hl |- *. rewrite last_last in Hl. subst a.
    rewrite rev_app_distr. cbn. eauto. }
  unfold canonical_num. rewrite Hr.
  assert (N.leb 49 (bN (digit_byte d)) && N.leb (bN (digit_byte d)) 57 = true) as ->.
  { assert (d = 1 \/ d = 2 \/ d = 3 \/ d = 4 \/ d = 5 \/ d = 6 \/ d = 7 \/ d = 8 \/ d = 9)%N as C by lia.
    repeat (destruct C as [->|C]; [reflexivity|]). subst d. reflexivity. }
  rewrite <- Hr, (parse_digits_rev l 0 Hd), Hv. f_equal; try lia.
Qed.

Lemma dec_no_dot n : forall fuel, split_dot (rev (dec_rev fuel n)) = None.
Proof.
  intros fuel. assert (forall l, (forall b, In b l -> exists d, (d < 10)%N /\ b = digit_byte d) -> split_dot l = None) as H.
  { induction l as [|c r IH]; intros Hl; [reflexivity|]. cbn [split_dot].
    destruct (Hl c (or_introl eq_refl)) as (d & Hd & ->).
    assert (beq (digit_byte d) x2e = false) as ->.
    { assert (d = 0 \/ d = 1 \/ d = 2 \/ d = 3 \/ d = 4 \/ d = 5 \/ d = 6 \/ d = 7 \/ d = 8 \/ d = 9)%N as C by lia.
      repeat (destruct C as [->|C]; [reflexivity|]). subst d. reflexivity. }
    rewrite IH; [reflexivity|]. intros b Hb. apply Hl. right. exact Hb. }
  apply H. intros b Hb. apply in_rev in Hb. revert n b Hb.
  induction fuel as [|f IH]; intros n b Hb; [destruct Hb|].
  cbn [dec_rev] in Hb. destruct Hb as [<-|Hb].
  - exists (n mod 10)%N. split; [apply N.mod_lt; lia|reflexivity].
  - destruct (N.ltb n 10); [destruct Hb|]. exact (IH _ _ Hb).
Qed.

Lemma go_version_go1 n : (1 <= n)%N -> go_version (go1_prefix ++ dec n) = Some (1%N, n).
Proof.
  intros Hn. unfold go1_prefix. cbn [app go_version]. change (beq x67 x67 && beq x6f x6f) with true. cbv iota.
  cbn [split_dot]. change (beq x31 x2e) with false. change (beq x2e x2e) with true. cbv iota.
  rewrite (canonical_num_dec n Hn). reflexivity.
Qed.

(* [go1.N] for every N >= 1: it holds exactly up to the toolchain's minor version *)
Theorem cond_go1_every_minor cfg st n :
  (1 <= n)%N -> cond_eval cfg st (go1_prefix ++ dec n) = CondVal (N.leb n (c_go_minor cfg)).
Proof.
  intros Hn. rewrite (cond_go_version cfg st _ _ (go_version_go1 n Hn)).
  unfold release_tag_holds. cbn [fst snd]. rewrite N.eqb_refl. cbn [andb].
  assert (N.leb 1 n = true) as -> by (apply N.leb_le; exact Hn). reflexivity.
Qed.

(* a guard [c] lets the command run exactly when the condition has the wanted value *)
Theorem guard_runs_iff cfg st (want : bool) c b w rest :
  guard_of w = Some (want, c) -> rest <> [] -> cond_eval cfg st c = CondVal b ->
  run_guards cfg st (w :: rest) = (if Bool.eqb b want then run_guards cfg st rest else Done st).
Proof.
  intros Hg Hr Hc. cbn [run_guards]. rewrite Hg. destruct rest as [|x r]; [contradiction|]. rewrite Hc. reflexivity.
Qed.

Module CondExamples.
Import String.
Local Open Scope string_scope.
Local Open Scope list_scope.
Import TsRunFacts.Examples.

Definition cfgc : config := cfg0 false.   (* linux / amd64 / go1.23 *)
Definition st0 : state := empty_state env0 (b "/w") [].
Definition holds (c : string) : cond_res := cond_eval cfgc st0 (b c).

(* version order is not string order: go1.3 .. go1.9 hold with a go1.23 toolchain, go1.100 does not *)
Example ex_versions :
  map holds ["go1.1"; "go1.2"; "go1.3"; "go1.9"; "go1.10"; "go1.22"; "go1.23"]
  = repeat (CondVal true) 7
  /\ map holds ["go1.24"; "go1.99"; "go1.100"; "go1.229"; "go2.1"; "go3.23"; "go10.1"]
  = repeat (CondVal false) 7
  /\ map holds ["go1.0"; "go1.05"; "go1"; "go1.x"; "go1.2.3"; "go01.2"; "Go1.2"; "go1.-1"; "go1.+1"]
  = repeat CondErr 9.
Proof. vm_compute. repeat split; reflexivity. Qed.

Example ex_dec : map dec [1; 9; 10; 23; 100; 229; 1234]%N = map b ["1"; "9"; "10"; "23"; "100"; "229"; "1234"].
Proof. vm_compute. reflexivity. Qed.

Example ex_os_arch :
  map holds ["linux"; "unix"; "amd64"] = repeat (CondVal true) 3
  /\ map holds ["windows"; "darwin"; "android"; "js"; "plan9"; "386"; "arm64"; "wasm"; "short"; "gccgo"] = repeat (CondVal false) 10
  /\ map holds ["Linux"; "linux "; "amd65"; "nosuchcond"] = repeat CondErr 4.
Proof. vm_compute. repeat split; reflexivity. Qed.

(* a script: the failing command behind [go1.9] runs (FAIL at line 1); behind [!go1.9] it is skipped *)
Example ex_guarded_script :
  r_verdict (run false ["[go1.9] exists nope"]) = Fail 1
  /\ r_verdict (run false ["[!go1.9] exists nope"; "[go1.100] exists nope"; "[!go1.100] mkdir d"; "exists d"]) = Pass.
Proof. vm_compute. split; reflexivity. Qed.
End CondExamples.

(* ---- exists / ! exists: every operand counts, whatever its position *)
Lemma exists_loop_neg ro fs st :
  exists_loop true ro fs st = true <-> forall f, In f fs -> stat (s_fs st) (mkabs st f) = None.
Proof.
  induction fs as [|f r IH]; cbn [exists_loop].
  - split; [intros _ f []|reflexivity].
  - destruct (stat (s_fs st) (mkabs st f)) as [n|] eqn:E.
    + split; [discriminate|]. intros H. specialize (H f (or_introl eq_refl)). congruence.
    + rewrite IH. split.
      * intros H g [<-|Hg]; [exact E|exact (H g Hg)].
      * intros H g Hg. apply H. right. exact Hg.
Qed.

Lemma exists_loop_pos fs st :
  exists_loop false false fs st = true <-> forall f, In f fs -> stat (s_fs st) (mkabs st f) <> None.
Proof.
  induction fs as [|f r IH]; cbn [exists_loop].
  - split; [intros _ f []|reflexivity].
  - destruct (stat (s_fs st) (mkabs st f)) as [n|] eqn:E; cbn [andb].
    + rewrite IH. split.
      * intros H g [<-|Hg]; [rewrite E; discriminate|exact (H g Hg)].
      * intros H g Hg. apply H. right. exact Hg.
    + split; [discriminate|]. intros H. exfalso. apply (H f (or_introl eq_refl)). exact E.
Qed.

Definition readonly_flag : bytes := (* "-readonly" *) [x2d; x72; x65; x61; x64; x6f; x6e; x6c; x79].

(* `! exists f1 ... fn` returns normally exactly when NONE of the operands exists ... *)
Theorem not_exists_iff st f fs :
  bytes_eqb f readonly_flag = false ->
  cmd_exists true (f :: fs) st = Done st <-> forall g, In g (f :: fs) -> stat (s_fs st) (mkabs st g) = None.
Proof.
  intros Hf. unfold cmd_exists. fold readonly_flag. rewrite Hf. rewrite <- (exists_loop_neg false).
  destruct (exists_loop true false (f :: fs) st); split; try reflexivity; discriminate.
Qed.

(* ... and `exists f1 ... fn` exactly when EVERY operand exists *)
Theorem exists_iff st f fs :
  bytes_eqb f readonly_flag = false ->
  cmd_exists false (f :: fs) st = Done st <-> forall g, In g (f :: fs) -> stat (s_fs st) (mkabs st g) <> None.
Proof.
  intros Hf. unfold cmd_exists. fold readonly_flag. rewrite Hf. rewrite <- exists_loop_pos.
  destruct (exists_loop false false (f :: fs) st); split; try reflexivity; discriminate.
Qed.

(* the command never changes the state: it fails or returns with the state it found *)
Theorem exists_state neg args st : outcome_state (cmd_exists neg args st) = st.
Proof.
  unfold cmd_exists. destruct args as [|a r]; [reflexivity|].
  destruct (bytes_eqb a _).
  - destruct r; [reflexivity|]. destruct (exists_loop _ _ _ _); reflexivity.
  - destruct (exists_loop _ _ _ _); reflexivity.
Qed.

(* ---- a program that cannot be started *)
Theorem exec_cannot_start cfg neg prog rest st :
  bg_spec (last (prog :: rest) []) = None -> can_start cfg st prog = false ->
  cmd_exec cfg neg (prog :: rest) st
  = (if neg then Done (start_failed_state cfg st prog) else Failed (start_failed_state cfg st prog)).
Proof.
  intros Hb Hc. unfold cmd_exec.
  match goal with |- match ?x with _ => _ end = _ => replace x with (@None bytes) by (symmetry; exact Hb) end.
  rewrite Hc. reflexivity.
Qed.

(* started with a path (a word with a slash): the command is past the lookup, the standard input
   set by `stdin` is consumed by it and the output of the previous command is gone; the rest of the
   state is untouched *)
Theorem start_failure_consumes_stdin cfg st prog :
  has_slash prog = true ->
  let st' := start_failed_state cfg st prog in
  s_in st' = [] /\ s_out st' = [] /\ s_err st' = [] /\ s_fs st' = s_fs st /\ s_env st' = s_env st /\ s_cd st' = s_cd st /\ s_bg st' = s_bg st.
Proof.
  intros Hs. unfold start_failed_state, is_bare. rewrite Hs. cbn [negb andb]. repeat split; reflexivity.
Qed.

(* a bare name that the lookup does not find: the input stays for the next command *)
Theorem lookup_failure_keeps_stdin cfg st prog :
  is_bare prog = true -> prog_found cfg st prog = false ->
  s_in (start_failed_state cfg st prog) = s_in st /\ s_out (start_failed_state cfg st prog) = [].
Proof. intros Hb Hf. unfold start_failed_state. rewrite Hb, Hf. split; reflexivity. Qed.

(* ---- registered commands that RETURN their status (testscript.RunMain): the status the script
   engine sees is the returned integer modulo 256 *)
Module RetExamples.
Import String.
Local Open Scope string_scope.
Local Open Scope list_scope.
Import TsRunFacts.Examples.
Example ex_parse_ret :
  map (fun s => parse_ret (b s)) ["0"; "1"; "255"; "256"; "257"; "1000"; "-1"; "-2"; "-255"; "-256"; "-257"; "-"; ""; "+1"; "1x"]
  = [Some 0; Some 1; Some 255; Some 0; Some 1; Some 232; Some 255; Some 254; Some 1; Some 0; Some 255; None; None; None; None]%N.
Proof. vm_compute. reflexivity. Qed.
(* a negative status is a failure like any other: through exec, as a registered command, in the
   background, and negated *)
Example ex_ret_scripts :
  r_verdict (run false ["exec tshelper ret -1"]) = Fail 1
  /\ r_verdict (run false ["tshelper ret -1"]) = Fail 1
  /\ r_verdict (run false ["! exec tshelper ret -1"; "! tshelper ret -3"; "exec tshelper ret 256"; "! exec tshelper ret 257"]) = Pass
  /\ r_verdict (run false ["exec tshelper ret -1 &"; "wait"]) = Fail 2
  /\ r_verdict (run false ["! exec tshelper ret -1 &w&"; "wait w"]) = Pass.
Proof. vm_compute. repeat split; reflexivity. Qed.
End RetExamples.

Module StartExamples.
Import String.
Local Open Scope string_scope.
Local Open Scope list_scope.
Import TsRunFacts.Examples.
(* the pending input is consumed by the exec that cannot start: cat prints nothing *)
Example ex_stdin_consumed :
  r_verdict (run false ["stdin in.txt"; "! exec ./in.txt"; "exec tshelper cat"; "! stdout ."; "-- in.txt --"; "pending"]) = Pass
  /\ r_verdict (run false ["mkdir d"; "stdin in.txt"; "! exec ./d"; "exec tshelper cat"; "stdout pending"; "-- in.txt --"; "pending"]) = Fail 5
  /\ r_verdict (run false ["stdin in.txt"; "! exec nosuchprog"; "exec tshelper cat"; "stdout pending"; "-- in.txt --"; "pending"]) = Pass.
Proof. vm_compute. repeat split; reflexivity. Qed.
(* every operand of exists counts *)
Example ex_exists_operands :
  r_verdict (run false ["! exists nofile a.txt"; "-- a.txt --"; "x"]) = Fail 1
  /\ r_verdict (run false ["exists a.txt nofile"; "-- a.txt --"; "x"]) = Fail 1
  /\ r_verdict (run false ["! exists nofile nodir/x other"; "exists a.txt b.txt"; "-- a.txt --"; "x"; "-- b.txt --"; "y"]) = Pass.
Proof. vm_compute. repeat split; reflexivity. Qed.
End StartExamples.

(* Read-after-write facts about the file-tree model for the unpacking of an archive, and with them
   Params.RequireUniqueNames for the WHOLE archive: two entries -- anywhere in the archive, spelled
   alike or not -- that are unpacked at the same location make setup fail (FAIL file:0).

   While setup runs the tree only grows, by directories and regular files (no symbolic link exists
   yet), so a path that resolves to an existing node keeps resolving to it. *)
From Coq Require Import List Bool Arith NArith Lia.
From Coq.Strings Require Import Byte.
From GI Require Import Lib.Bytes Lib.BytesFacts Gen.TsRunConsts Txtar.Txtar
  TsRun.TsFs TsRun.TsState TsRun.TsCmds TsRun.TsRun TsRun.TsSpec TsRun.TsRunFacts
  TsRun.TsUpdate TsRun.TsUpdateFacts TsRun.TsRerun TsRun.TsRerunFacts TsRun.TsNamesFacts.
Import ListNotations.

(* ---- trees without links that only grow *)
Definition nolinks (t : tree) : Prop := forall q tg, lookup t q <> Some (NLink tg).
Definition extends (t t' : tree) : Prop := forall q n, lookup t q = Some n -> lookup t' q = Some n.

Lemma extends_refl t : extends t t.
Proof. intros q n H. exact H. Qed.
Lemma extends_trans a b c : extends a b -> extends b c -> extends a c.
Proof. intros H1 H2 q n H. apply H2, H1, H. Qed.

Lemma path_eqb_refl p : path_eqb p p = true.
Proof. induction p as [|x p IH]; [reflexivity|]. cbn. rewrite bytes_eqb_refl, IH. reflexivity. Qed.

Lemma path_eqb_sym p q : path_eqb p q = path_eqb q p.
Proof.
  destruct (path_eqb p q) eqn:E.
  - apply path_eqb_eq in E. subst q. symmetry. apply path_eqb_refl.
  - destruct (path_eqb q p) eqn:E2; [|reflexivity]. apply path_eqb_eq in E2. subst q. rewrite path_eqb_refl in E. discriminate.
Qed.

Lemma lookup_app t1 t2 q : lookup (t1 ++ t2) q = match lookup t1 q with Some n => Some n | None => lookup t2 q end.
Proof.
  induction t1 as [|[p n] r IH]; [reflexivity|]. cbn [app lookup]. destruct (path_eqb p q); [reflexivity|exact IH].
Qed.

Lemma lookup_remove_exact t p q : lookup (remove_exact t p) q = if path_eqb p q then None else lookup t q.
Proof.
  unfold remove_exact. induction t as [|[p0 n] r IH]; cbn [filter lookup fst].
  - destruct (path_eqb p q); reflexivity.
  - destruct (path_eqb p0 p) eqn:E0; cbn [negb].
    + apply path_eqb_eq in E0. subst p0. rewrite IH. destruct (path_eqb p q); reflexivity.
    + cbn [lookup]. destruct (path_eqb p0 q) eqn:E1.
      * apply path_eqb_eq in E1. subst p0. rewrite path_eqb_sym, E0. reflexivity.
      * exact IH.
Qed.

Lemma lookup_set_node t p n q : lookup (set_node t p n) q = if path_eqb p q then Some n else lookup t q.
Proof.
  unfold set_node. rewrite lookup_app, lookup_remove_exact. destruct (path_eqb p q) eqn:E.
  - cbn [lookup]. rewrite E. reflexivity.
  - destruct (lookup t q); [reflexivity|]. cbn [lookup]. rewrite E. reflexivity.
Qed.

Lemma set_node_extends t p n : lookup t p = None -> extends t (set_node t p n).
Proof.
  intros Hp q m Hq. rewrite lookup_set_node. destruct (path_eqb p q) eqn:E; [|exact Hq].
  apply path_eqb_eq in E. subst q. congruence.
Qed.

Lemma set_node_nolinks t p n : nolinks t -> (forall tg, n <> NLink tg) -> nolinks (set_node t p n).
Proof.
  intros Hn Hl q tg. rewrite lookup_set_node. destruct (path_eqb p q); [|apply Hn].
  intros H. inversion H. apply (Hl tg). assumption.
Qed.

Lemma node_at_lookup_none t p : node_at t p = None -> lookup t p = None.
Proof. destruct p; [discriminate|]. intros H; exact H. Qed.

Lemma extends_node_at t t' p : extends t t' -> forall n, node_at t p = Some n -> node_at t' p = Some n.
Proof. intros H n. destruct p; [intros E; exact E|]. cbn [node_at]. apply H. Qed.

Lemma extends_is_dir t t' p : extends t t' -> is_dir_node (node_at t p) = true -> is_dir_node (node_at t' p) = true.
Proof.
  intros H. destruct (node_at t p) as [n|] eqn:E; [|discriminate]. rewrite (extends_node_at _ _ _ H _ E). intros X; exact X.
Qed.

(* ---- the walk, unfolded once *)
Lemma walk_unfold b t fl cur rest :
  walk b t fl cur rest =
  match rest with
  | [] => WPath cur
  | c :: rest' =>
      if negb (is_dir_node (node_at t cur)) then WErr
      else if is_empty c || is_dot c then walk b t fl cur rest'
      else if is_dotdot c then walk b t fl (parent cur) rest'
      else
        let p := cur ++ [c] in
        match lookup t p with
        | Some (NLink target) =>
            let last := match rest' with [] => true | _ => false end in
            if last && negb fl then WPath p
            else match b with
                 | 0 => WErr
                 | S b' =>
                     match target with
                     | [] => WNoEnt
                     | _ => walk b' t fl (if is_abs target then [] else cur) (split_slash target ++ rest')
                     end
                 end
        | Some _ => walk b t fl p rest'
        | None => match rest' with [] => WPath p | _ => WNoEnt end
        end
  end.
Proof. destruct b; destruct rest; reflexivity. Qed.

(* a path that resolves to an existing node in a link-free tree resolves to the same node in every
   link-free tree that extends it *)
Lemma walk_extends b t t' fl : extends t t' -> nolinks t' ->
  forall rest cur q, walk b t fl cur rest = WPath q -> node_at t q <> None -> walk b t' fl cur rest = WPath q.
Proof.
  intros He Hn. induction rest as [|c rest' IH]; intros cur q Hw Hq.
  - rewrite walk_unfold in Hw |- *. exact Hw.
  - rewrite walk_unfold in Hw. rewrite walk_unfold.
    destruct (is_dir_node (node_at t cur)) eqn:Ed; cbn [negb] in Hw; [|discriminate].
    rewrite (extends_is_dir _ _ _ He Ed). cbn [negb].
    destruct (is_empty c || is_dot c); [exact (IH _ _ Hw Hq)|].
    destruct (is_dotdot c); [exact (IH _ _ Hw Hq)|].
    cbv zeta in Hw |- *.
    destruct (lookup t (cur ++ [c])) as [n|] eqn:El.
    + rewrite (He _ _ El). destruct n as [d m|m|tg].
      * exact (IH _ _ Hw Hq).
      * exact (IH _ _ Hw Hq).
      * exfalso. apply (Hn (cur ++ [c]) tg). apply He. exact El.
    + destruct rest' as [|c2 r2]; [|discriminate]. inversion Hw; subst q.
      exfalso. apply Hq. destruct (cur ++ [c]) eqn:E; [destruct cur; discriminate|]. exact El.
Qed.

Lemma lstat_extends t t' d : extends t t' -> nolinks t' -> lstat t d <> None -> lstat t' d <> None.
Proof.
  intros He Hn. unfold lstat, resolve, resolve3. destruct (is_abs d); [|intros H; exact H].
  destruct (walk max_links t false [] (split_slash d)) as [q| |] eqn:Ew; try (intros H; exfalso; apply H; reflexivity).
  destruct (node_at t q) as [n|] eqn:En; [|intros H; exfalso; apply H; reflexivity].
  assert (node_at t q <> None) as Hq by congruence.
  rewrite (walk_extends _ _ _ _ He Hn _ _ _ Ew Hq), (extends_node_at _ _ _ He _ En).
  destruct (ends_in_slash d && negb (is_dir_node (Some n))); intros H; exact H.
Qed.

(* ---- what setup does to the tree: it grows, and stays free of links *)
Lemma mkdir1_grows t d perm t' : nolinks t -> mkdir1 t d perm = Some t' -> extends t t' /\ nolinks t'.
Proof.
  intros Hn. unfold mkdir1. destruct (resolve t false d) as [p|]; [|discriminate].
  destruct (node_at t p) eqn:En; [discriminate|]. destruct (is_dir_node _); [|discriminate].
  intros H. inversion H. split.
  - apply set_node_extends. apply node_at_lookup_none. exact En.
  - apply set_node_nolinks; [exact Hn|discriminate].
Qed.

Lemma mkdir_chain_grows perm : forall ps t, nolinks t -> extends t (fst (mkdir_chain t ps perm)) /\ nolinks (fst (mkdir_chain t ps perm)).
Proof.
  induction ps as [|p r IH]; intros t Hn; cbn [mkdir_chain]; [split; [apply extends_refl|exact Hn]|].
  destruct (stat t p) as [[d m|m|tg]|].
  - split; [apply extends_refl|exact Hn].
  - apply IH. exact Hn.
  - split; [apply extends_refl|exact Hn].
  - destruct (mkdir1 t p perm) as [t1|] eqn:E; [|split; [apply extends_refl|exact Hn]].
    destruct (mkdir1_grows _ _ _ _ Hn E) as [He1 Hn1]. destruct (IH t1 Hn1) as [He2 Hn2].
    split; [exact (extends_trans _ _ _ He1 He2)|exact Hn2].
Qed.

Lemma mkdir_all_grows t d perm : nolinks t -> extends t (fst (mkdir_all t d perm)) /\ nolinks (fst (mkdir_all t d perm)).
Proof.
  intros Hn. unfold mkdir_all. destruct (stat t d) as [[x m|m|tg]|]; try (split; [apply extends_refl|exact Hn]).
  destruct (is_abs d); [apply mkdir_chain_grows; exact Hn|split; [apply extends_refl|exact Hn]].
Qed.

Lemma write_file_excl_grows t d data perm t' : nolinks t -> write_file_excl t d data perm = Some t' -> extends t t' /\ nolinks t'.
Proof.
  intros Hn. unfold write_file_excl. destruct (ends_in_slash d || ends_in_dots d); [discriminate|].
  destruct (resolve t false d) as [p|]; [|discriminate]. destruct p as [|c p']; [discriminate|].
  destruct (node_at t (c :: p')) eqn:En; [discriminate|]. destruct (is_dir_node _); [|discriminate].
  intros H. inversion H. split.
  - apply set_node_extends. exact En.
  - apply set_node_nolinks; [exact Hn|discriminate].
Qed.

(* the file just created is there *)
Lemma walk_new_leaf b t t' fl p data m : extends t t' -> nolinks t -> lookup t' p = Some (NFile data m) ->
  forall rest cur, walk b t fl cur rest = WPath p -> node_at t p = None -> walk b t' fl cur rest = WPath p.
Proof.
  intros He Hn Hp. induction rest as [|x rest' IH]; intros cur Hw Hnone.
  - rewrite walk_unfold in Hw |- *. exact Hw.
  - rewrite walk_unfold in Hw. rewrite walk_unfold.
    destruct (is_dir_node (node_at t cur)) eqn:Ed; cbn [negb] in Hw; [|discriminate].
    rewrite (extends_is_dir _ _ _ He Ed). cbn [negb].
    destruct (is_empty x || is_dot x); [exact (IH _ Hw Hnone)|].
    destruct (is_dotdot x); [exact (IH _ Hw Hnone)|].
    cbv zeta in Hw |- *.
    destruct (lookup t (cur ++ [x])) as [n|] eqn:El.
    + rewrite (He _ _ El). destruct n as [dd mm|mm|tg].
      * exact (IH _ Hw Hnone).
      * exact (IH _ Hw Hnone).
      * exfalso. apply (Hn (cur ++ [x]) tg). exact El.
    + destruct rest' as [|c2 r2]; [|discriminate]. inversion Hw as [Hq]. rewrite Hq, Hp.
      rewrite walk_unfold. reflexivity.
Qed.

Lemma write_file_excl_lstat t d data perm t' : nolinks t -> write_file_excl t d data perm = Some t' -> lstat t' d <> None.
Proof.
  intros Hn Hw. destruct (write_file_excl_grows _ _ _ _ _ Hn Hw) as [He Hn'].
  revert Hw. unfold write_file_excl. destruct (ends_in_slash d || ends_in_dots d) eqn:Es; [discriminate|].
  apply orb_false_iff in Es. destruct Es as [Es _].
  unfold lstat, resolve, resolve3. destruct (is_abs d); [|discriminate].
  destruct (walk max_links t false [] (split_slash d)) as [p| |] eqn:Ew; try discriminate.
  destruct p as [|c p']; [discriminate|].
  destruct (node_at t (c :: p')) eqn:En; [discriminate|]. destruct (is_dir_node _); [|discriminate].
  intros H. inversion H as [Ht]. clear H.
  assert (lookup t' (c :: p') = Some (NFile data (apply_umask perm))) as Hl.
  { subst t'. rewrite lookup_set_node, path_eqb_refl. reflexivity. }
  rewrite Ht. rewrite (walk_new_leaf _ _ _ _ _ _ _ He Hn Hl _ _ Ew En).
  cbn [node_at]. rewrite Hl. rewrite Es. cbn [andb]. discriminate.
Qed.

(* ---- unpack with RequireUniqueNames: a location that is taken stays taken *)
Lemma unpack_unique_taken work : forall fs st n d,
  nolinks (s_fs st) -> In (n, d) fs ->
  lstat (s_fs st) (mkabs st (expand (s_env st) n)) <> None ->
  snd (unpack true work fs st) = false.
Proof.
  induction fs as [|[n0 d0] r IH]; intros st n d Hn Hin Hl; [destruct Hin|].
  cbn [unpack]. set (p0 := mkabs st (expand (s_env st) n0)).
  destruct (beneath work p0); cbn [negb]; [|reflexivity].
  change (s_fs (set_files st (assoc_set (s_files st) (clean p0) n0))) with (s_fs st).
  destruct (mkdir_all (s_fs st) (dir p0) 511) as [t1 ok] eqn:Em.
  pose proof (mkdir_all_grows (s_fs st) (dir p0) 511 Hn) as Hg. rewrite Em in Hg. cbn [fst] in Hg. destruct Hg as [He1 Hn1].
  destruct ok; [|reflexivity].
  destruct (write_file_excl t1 p0 d0 438) as [t2|] eqn:Ew; [|reflexivity].
  destruct (write_file_excl_grows _ _ _ _ _ Hn1 Ew) as [He2 Hn2].
  destruct Hin as [Heq|Hin].
  - (* the head is the entry whose place is taken: its exclusive creation fails *)
    inversion Heq; subst n0 d0. exfalso.
    assert (lstat t1 p0 <> None) as Hl1 by (apply (lstat_extends _ _ _ He1 Hn1); exact Hl).
    revert Ew. unfold write_file_excl. unfold lstat in Hl1.
    destruct (ends_in_slash p0 || ends_in_dots p0); [discriminate|].
    destruct (resolve t1 false p0) as [q|]; [|discriminate]. destruct q as [|c q']; [discriminate|].
    destruct (node_at t1 (c :: q')); [discriminate|]. exfalso. apply Hl1. reflexivity.
  - apply (IH _ n d); [exact Hn2|exact Hin|].
    cbn [s_fs set_fs]. change (mkabs (set_fs (set_files st (assoc_set (s_files st) (clean p0) n0)) t2) (expand (s_env (set_fs (set_files st (assoc_set (s_files st) (clean p0) n0)) t2)) n))
      with (mkabs st (expand (s_env st) n)).
    apply (lstat_extends _ _ _ (extends_trans _ _ _ He1 He2) Hn2). exact Hl.
Qed.

Lemma unpack_unique_dup work : forall fs st pre n1 d1 mid n2 d2 post,
  nolinks (s_fs st) ->
  fs = pre ++ (n1, d1) :: mid ++ (n2, d2) :: post ->
  mkabs st (expand (s_env st) n1) = mkabs st (expand (s_env st) n2) ->
  snd (unpack true work fs st) = false.
Proof.
  intros fs st pre. revert fs st. induction pre as [|[n0 d0] pre IH]; intros fs st n1 d1 mid n2 d2 post Hn Hfs Hloc; subst fs.
  - cbn [app unpack]. set (p := mkabs st (expand (s_env st) n1)) in *.
    destruct (beneath work p); cbn [negb]; [|reflexivity].
    change (s_fs (set_files st (assoc_set (s_files st) (clean p) n1))) with (s_fs st).
    destruct (mkdir_all (s_fs st) (dir p) 511) as [t1 ok] eqn:Em.
    pose proof (mkdir_all_grows (s_fs st) (dir p) 511 Hn) as Hg. rewrite Em in Hg. cbn [fst] in Hg. destruct Hg as [He1 Hn1].
    destruct ok; [|reflexivity].
    destruct (write_file_excl t1 p d1 438) as [t2|] eqn:Ew; [|reflexivity].
    destruct (write_file_excl_grows _ _ _ _ _ Hn1 Ew) as [He2 Hn2].
    apply (unpack_unique_taken work _ _ n2 d2); [exact Hn2|apply in_or_app; right; left; reflexivity|].
    cbn [s_fs set_fs]. change (mkabs (set_fs (set_files st (assoc_set (s_files st) (clean p) n1)) t2) (expand (s_env (set_fs (set_files st (assoc_set (s_files st) (clean p) n1)) t2)) n2))
      with (mkabs st (expand (s_env st) n2)).
    rewrite <- Hloc. fold p. exact (write_file_excl_lstat _ _ _ _ _ Hn1 Ew).
  - cbn [app unpack]. set (p0 := mkabs st (expand (s_env st) n0)).
    destruct (beneath work p0); cbn [negb]; [|reflexivity].
    change (s_fs (set_files st (assoc_set (s_files st) (clean p0) n0))) with (s_fs st).
    destruct (mkdir_all (s_fs st) (dir p0) 511) as [t1 ok] eqn:Em.
    pose proof (mkdir_all_grows (s_fs st) (dir p0) 511 Hn) as Hg. rewrite Em in Hg. cbn [fst] in Hg. destruct Hg as [He1 Hn1].
    destruct ok; [|reflexivity].
    destruct (write_file_excl t1 p0 d0 438) as [t2|] eqn:Ew; [|reflexivity].
    destruct (write_file_excl_grows _ _ _ _ _ Hn1 Ew) as [He2 Hn2].
    apply (IH _ _ n1 d1 mid n2 d2 post); [exact Hn2|reflexivity|exact Hloc].
Qed.

Lemma nolinks_nil : nolinks [].
Proof. intros q tg H. discriminate H. Qed.

(* Params.RequireUniqueNames, the whole archive: two entries with the same location -- spelled alike
   or not ("a.txt" and "./a.txt", "$WORK/a.txt") -- fail setup: FAIL file:0 *)
Theorem unique_names_whole_archive cfg work env a pre n1 d1 mid n2 d2 post :
  c_unique cfg = true ->
  files a = pre ++ (n1, d1) :: mid ++ (n2, d2) :: post ->
  location work env n1 = location work env n2 ->
  snd (setup cfg work env a) = false
  /\ r_verdict (run_archive cfg work env a) = Fail 0 /\ r_fail_lines (run_archive cfg work env a) = [0].
Proof.
  intros Hu Hf Hloc.
  assert (snd (setup cfg work env a) = false) as Hs.
  { unfold setup. rewrite Hu.
    pose proof (mkdir_all_grows [] (work ++ [x2f; x2e; x74; x6d; x70]) 511 nolinks_nil) as Hg.
    destruct (mkdir_all [] (work ++ [x2f; x2e; x74; x6d; x70]) 511) as [t ok]. cbn [fst] in Hg. destruct Hg as [_ Hn].
    destruct ok; [|reflexivity].
    apply (unpack_unique_dup work _ _ pre n1 d1 mid n2 d2 post); [exact Hn|exact Hf|].
    rewrite !mkabs_location. exact Hloc. }
  split; [exact Hs|].
  destruct (setup cfg work env a) as [st ok] eqn:E. cbn [snd] in Hs. subst ok.
  apply (setup_failure_is_fail_0 _ _ _ _ _ E).
Qed.

Module UniqueExamples.
Import String.
Local Open Scope string_scope.
Local Open Scope list_scope.
Import TsRunFacts.Examples.
Import TsRunFacts.ParamsExamples.
Definition env1 : list (bytes * bytes) := [(b "WORK", b "/w"); (b "PATH", b "/h"); (b "exe", b ""); (b "/", b "/")].
(* the hypothesis about the locations holds of differently spelled names, and the conclusion is
   what the interpreter computes *)
Example ex_same_location :
  location (b "/w") env1 (b "a.txt") = location (b "/w") env1 (b "./a.txt")
  /\ location (b "/w") env1 (b "a.txt") = location (b "/w") env1 (b "$WORK/a.txt")
  /\ location (b "/w") env1 (b "sub/a.txt") = location (b "/w") env1 (b "sub//a$exe.txt").
Proof. vm_compute. repeat split; reflexivity. Qed.
Example ex_unique_respelled :
  r_verdict (run_file (cfgp false true) (b "/w") env1 (script ["exists a.txt"; "-- a.txt --"; "one"; "-- other --"; "o"; "-- $WORK/a.txt --"; "two"])) = Fail 0
  /\ r_verdict (run_file (cfgp false false) (b "/w") env1 (script ["exists a.txt"; "-- a.txt --"; "one"; "-- other --"; "o"; "-- $WORK/a.txt --"; "two"])) = Pass.
Proof. vm_compute. split; reflexivity. Qed.
End UniqueExamples.

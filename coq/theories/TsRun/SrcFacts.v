(* C01 -- the translated pure segments of runLine (Gen/TsRunSrc.v, regenerated from
   testscript/testscript.go on every run by harness/go2coq) are equal to the hand-written
   model TsRun/TsRun.v (run_line, run_guards, guard_of, run_neg).

   What is translated (table: harness/cmd/genconsts/gen_tsrun_src.go):
     src_TestScript_runLine_words    args := ts.parse(line); if len(args) == 0 { return true }
     src_TestScript_runLine_guards   the loop over the [cond] prefixes (slicing off the brackets,
                                     TrimSpace, the ! inside the brackets, ts.condition, the three
                                     ways out) and the ! prefix, up to the command lookup
   ts.parse and ts.condition are oracles carried by the receiver (TsRun/SrcLib.v); the theorems
   hold for every receiver whose oracles answer as the model computes (Section hypotheses
   parse_ok / cond_ok: ts.parse is itself translated and proved equal to the model's tokenizer in
   TsParse/SrcFacts.v; ts.condition is hand-modelled by cond_eval).
   Fuel: each iteration of the guard loop consumes a word, so  length words + 1 <= fuel
   suffices.  The proofs name no generated bound variable. *)
From Coq Require Import List Bool Arith ZArith Lia.
From Coq.Strings Require Import Byte.
From GI Require Import Lib.Bytes Lib.BytesFacts Lib.GoSem Lib.GoSemExt Lib.GoSemSeg Lib.GoSemState Lib.GoSemFail.
From GI Require Import Gen.TsRunConsts TsRun.TsFs TsRun.TsState TsRun.TsCmds TsRun.TsRun TsRun.SrcLib Gen.TsRunSrc.
Import ListNotations.

(* ------------------------------------------------------------------ the model, as a view *)

(* what the prefixes of a line decide: the line fails, it is skipped, or a command runs *)
Inductive gview := GFail | GSkip | GRun (neg : bool) (words : list bytes).

Definition neg_view (words : list bytes) : gview :=
  match words with
  | [] => GFail
  | w :: rest =>
      if bytes_eqb w bang then (match rest with [] => GFail | _ => GRun true rest end)
      else GRun false words
  end.

Fixpoint guards_view (cfg : config) (st : state) (words : list bytes) : gview :=
  match words with
  | [] => GFail
  | w :: rest =>
      match guard_of w with
      | Some (want, c) =>
          match rest with
          | [] => GFail
          | _ =>
              match cond_eval cfg st c with
              | CondErr => GFail
              | CondVal b => if Bool.eqb b want then guards_view cfg st rest else GSkip
              end
          end
      | None => neg_view words
      end
  end.

Definition view_outcome (cfg : config) (st : state) (v : gview) : TsCmds.outcome :=
  match v with
  | GFail => TsCmds.Failed st
  | GSkip => TsCmds.Done st
  | GRun neg ws => run_cmd cfg st neg ws
  end.

(* the view IS the model's run_guards *)
Lemma run_guards_view cfg st words :
  run_guards cfg st words = view_outcome cfg st (guards_view cfg st words).
Proof.
  induction words as [|w rest IH]; [reflexivity|].
  cbn [run_guards guards_view]. destruct (guard_of w) as [[want c]|].
  - destruct rest as [|w2 rest2]; [reflexivity|].
    destruct (cond_eval cfg st c) as [b|]; [|reflexivity].
    destruct (Bool.eqb b want); [exact IH | reflexivity].
  - cbn [run_neg neg_view]. destruct (bytes_eqb w bang); [|reflexivity].
    destruct rest; reflexivity.
Qed.

(* ------------------------------------------------------------------ slices of words *)

Lemma len_of_zero {A} (l : list A) : (len_of l =? 0)%Z = match l with [] => true | _ => false end.
Proof. destruct l; [reflexivity|]. unfold len_of. cbn [length]. destruct (Z.eqb_spec (Z.of_nat (S (length l))) 0); [lia|reflexivity]. Qed.

Lemma go_index_of_head {A} (w : A) rest : go_index_of (w :: rest) 0 = Ok w.
Proof.
  unfold go_index_of, index_of_z, len_of. cbn [length].
  replace ((0 <=? 0)%Z && (0 <? Z.of_nat (S (length rest)))%Z) with true; [reflexivity|].
  symmetry. apply andb_true_iff. split; [reflexivity | apply Z.ltb_lt; lia].
Qed.

Lemma go_slice_of_tail {A} (w : A) rest : go_slice_of (w :: rest) 1 (len_of (w :: rest)) = Ok rest.
Proof.
  unfold go_slice_of, slice_of_z, len_of. cbn [length].
  replace ((0 <=? 1)%Z && (1 <=? Z.of_nat (S (length rest)))%Z && (Z.of_nat (S (length rest)) <=? Z.of_nat (S (length rest)))%Z)
    with true.
  - rewrite Nat2Z.id. change (Z.to_nat 1) with 1. cbn [skipn]. replace (S (length rest) - 1) with (length rest) by lia.
    rewrite firstn_all. reflexivity.
  - symmetry. rewrite !andb_true_iff. repeat split; [apply Z.leb_le; lia | apply Z.leb_le; lia].
Qed.

(* a word in brackets has at least two bytes, so cond[1 : len(cond)-1] does not panic *)
Lemma bracket_len w : has_prefix [x5b] w = true -> has_suffix [x5d] w = true -> 2 <= length w.
Proof.
  intros P S. destruct w as [|c1 [|c2 w]]; [discriminate P | | cbn [length]; lia].
  cbn [has_prefix] in P. unfold has_suffix in S. cbn [rev app has_prefix] in S.
  rewrite andb_true_r in P, S. apply beq_eq in P. apply beq_eq in S. subst c1. discriminate S.
Qed.

Lemma go_slice_inner w : 2 <= length w ->
  go_slice w 1 (len w - 1) = Ok (firstn (length w - 2) (skipn 1 w)).
Proof.
  intros H. unfold go_slice, slice_z, len.
  replace ((0 <=? 1)%Z && (1 <=? Z.of_nat (length w) - 1)%Z && (Z.of_nat (length w) - 1 <=? Z.of_nat (length w))%Z) with true.
  - replace (Z.to_nat (Z.of_nat (length w) - 1) - Z.to_nat 1) with (length w - 2) by lia. reflexivity.
  - symmetry. rewrite !andb_true_iff. repeat split; apply Z.leb_le; lia.
Qed.

Lemma go_slice_from1 c r : go_slice (c :: r) 1 (len (c :: r)) = Ok r.
Proof.
  unfold go_slice, slice_z, len. cbn [length].
  replace ((0 <=? 1)%Z && (1 <=? Z.of_nat (S (length r)))%Z && (Z.of_nat (S (length r)) <=? Z.of_nat (S (length r)))%Z) with true.
  - rewrite Nat2Z.id. change (Z.to_nat 1) with 1. cbn [skipn]. replace (S (length r) - 1) with (length r) by lia.
    rewrite firstn_all. reflexivity.
  - symmetry. rewrite !andb_true_iff. repeat split; apply Z.leb_le; lia.
Qed.

(* ------------------------------------------------------------------ the segments *)

(* the oracles answer as the model computes: ts.parse returns the model's words or ends in
   Fatalf where the model's tokenizer refuses the line; ts.condition returns the model's value
   with a nil error, and where the model has no value it returns an error or ends in Fatalf *)
Definition parse_agrees (st : state) (ts : ts_rrecv) : Prop := forall line,
  match tokenise (s_env st) line with
  | Some ws => r_parse ts line = Ok (DoneM ws)
  | None => exists m, r_parse ts line = Ok (FailedM m)
  end.
Definition cond_agrees (cfg : config) (st : state) (ts : ts_rrecv) : Prop := forall c,
  match cond_eval cfg st c with
  | CondVal b => r_condition ts c = Ok (DoneM (b, false))
  | CondErr => (exists m, r_condition ts c = Ok (FailedM m)) \/ (exists b, r_condition ts c = Ok (DoneM (b, true)))
  end.

Section Line.
Variables (cfg : config) (st : state) (ts : ts_rrecv).
Hypothesis parse_ok : parse_agrees st ts.
Hypothesis cond_ok : cond_agrees cfg st ts.

(* how a segment's value is read as a view *)
Definition view_of_guards (o : GoSem.outcome (list bytes * bool) unit (exitm bool)) : option gview :=
  match o with
  | Normal (ws, neg) => Some (GRun neg ws)
  | Return (DoneM true) => Some GSkip
  | Return (FailedM _) => Some GFail
  | _ => None
  end.

(* what the translated guard test and the model's guard_of agree on *)
Lemma guard_of_none w : has_prefix [x5b] w && has_suffix [x5d] w = false -> guard_of w = None.
Proof. intros H. unfold guard_of. rewrite H. reflexivity. Qed.

Lemma guard_of_some w : has_prefix [x5b] w && has_suffix [x5d] w = true ->
  guard_of w =
    (let inner := trim_space (firstn (length w - 2) (skipn 1 w)) in
     if has_prefix [x21] inner then Some (false, trim_space (skipn 1 inner)) else Some (true, inner)).
Proof.
  intros H. unfold guard_of. rewrite H. cbv zeta.
  destruct (trim_space (firstn (length w - 2) (skipn 1 w))) as [|b r]; [reflexivity|].
  cbn [has_prefix skipn]. rewrite andb_true_r. rewrite beq_sym. reflexivity.
Qed.

(* the loop over the [cond] prefixes: it ends the function as the view says, or hands the words
   that are left (none of them a guard at the front, not empty) to the ! test *)
Lemma guards_loop_eq {L : Type} fuel : forall words n, words <> [] -> length words + 1 <= n ->
  (exists ws, ws <> [] /\ (match ws with w :: _ => guard_of w = None | [] => True end) /\
      src_TestScript_runLine_guards_loop1 (L := L) fuel n ts words = Ok (Normal ws) /\
      guards_view cfg st words = neg_view ws) \/
  (src_TestScript_runLine_guards_loop1 (L := L) fuel n ts words = Ok (Return (DoneM true)) /\
      guards_view cfg st words = GSkip) \/
  (exists m, src_TestScript_runLine_guards_loop1 (L := L) fuel n ts words = Ok (Return (FailedM m)) /\
      guards_view cfg st words = GFail).
Proof.
  induction words as [|w rest IH]; intros n NE Hn; [contradiction|].
  destruct n as [|n]; [cbn [length] in Hn; lia|].
  cbn [src_TestScript_runLine_guards_loop1].
  rewrite !go_index_of_head. cbn [bind].
  unfold go_bytes_HasPrefix, go_bytes_HasSuffix.
  destruct (has_prefix [x5b] w) eqn:P; cbn [bind].
  2:{ left. exists (w :: rest). split; [discriminate|]. split; [apply guard_of_none; rewrite P; reflexivity|].
      split; [reflexivity|]. cbn [guards_view]. rewrite guard_of_none by (rewrite P; reflexivity). reflexivity. }
  rewrite ?go_index_of_head. cbn [bind].
  destruct (has_suffix [x5d] w) eqn:S.
  2:{ left. exists (w :: rest). split; [discriminate|]. split; [apply guard_of_none; rewrite P, S; reflexivity|].
      split; [reflexivity|]. cbn [guards_view]. rewrite guard_of_none by (rewrite P, S; reflexivity). reflexivity. }
  (* a guard *)
  cbn [bindL]. rewrite ?go_index_of_head. cbn [bind].
  rewrite (go_slice_inner w (bracket_len w P S)). cbn [bind].
  rewrite go_slice_of_tail. cbn [bind]. rewrite len_of_zero.
  cbn [guards_view]. rewrite (guard_of_some w) by (rewrite P, S; reflexivity). cbv zeta.
  unfold go_strings_TrimSpace.
  set (inner := trim_space (firstn (length w - 2) (skipn 1 w))).
  destruct rest as [|w2 rest2].
  { right. right. eexists. split; [reflexivity|]. destruct (has_prefix [x21] inner); reflexivity. }
  (* the condition name and the wanted value *)
  assert (E : exists want c,
     (if has_prefix [x21] inner then Some (false, trim_space (skipn 1 inner)) else Some (true, inner)) = Some (want, c) /\
     (if go_bytes_HasPrefix inner [x21]
      then bind (go_slice inner 1 (len inner)) (fun t4 => Ok (trim_space t4, false))
      else Ok (inner, true)) = Ok (c, want)).
  { unfold go_bytes_HasPrefix. destruct (has_prefix [x21] inner) eqn:B.
    - exists false, (trim_space (skipn 1 inner)). split; [reflexivity|].
      destruct inner as [|b r]; [discriminate B|]. rewrite go_slice_from1. reflexivity.
    - exists true, inner. split; reflexivity. }
  destruct E as (want & c & Em & Es).
  unfold go_bytes_HasPrefix in Es |- *. rewrite Em.
  (* the generated text binds (cond, want) from the same conditional *)
  match goal with
  | |- context [bind (if has_prefix [x21] inner then ?a else ?b) ?k] =>
      replace (bind (if has_prefix [x21] inner then a else b) k) with (k (c, want))
  end.
  2:{ symmetry. destruct (has_prefix [x21] inner); cbn [bind] in Es |- *.
      - destruct (go_slice inner 1 (len inner)) as [t4| |]; cbn [bind] in Es |- *; try discriminate Es.
        injection Es as <- <-. reflexivity.
      - injection Es as <- <-. reflexivity. }
  cbv beta iota. unfold go_ts_condition.
  pose proof (cond_ok c) as CO. destruct (cond_eval cfg st c) as [bv|].
  - rewrite CO. cbn [bindFO].
    destruct (Bool.eqb bv want) eqn:Q; cbn [negb].
    + (* the guard holds: go on with the rest *)
      destruct (IH n ltac:(discriminate) ltac:(cbn [length] in *; lia)) as [(ws & NEw & Gw & Lw & Vw)|[(Lw & Vw)|(m & Lw & Vw)]].
      * left. exists ws. split; [exact NEw|]. split; [exact Gw|]. split; [exact Lw | exact Vw].
      * right. left. split; [exact Lw | exact Vw].
      * right. right. exists m. split; [exact Lw | exact Vw].
    + right. left. split; reflexivity.
  - right. right. destruct CO as [(m & CO)|(bv & CO)]; rewrite CO; cbn [bindFO]; eexists; split; reflexivity.
Qed.

(* the segment from the guard loop to the ! prefix is the model's view *)
Theorem src_guards_eq fuel words : words <> [] -> length words + 1 <= fuel ->
  exists o, src_TestScript_runLine_guards fuel ts words = Ok o /\
            view_of_guards o = Some (guards_view cfg st words).
Proof.
  intros NE Hf. unfold src_TestScript_runLine_guards.
  destruct (guards_loop_eq (L := unit) fuel words fuel NE Hf) as [(ws & NEw & Gw & Lw & Vw)|[(Lw & Vw)|(m & Lw & Vw)]];
    rewrite Lw, Vw; cbn [bindO].
  - destruct ws as [|w rest]; [contradiction|]. rewrite go_index_of_head. cbn [bind neg_view].
    change [x21] with bang. destruct (bytes_eqb w bang).
    + rewrite go_slice_of_tail. cbn [bind]. rewrite len_of_zero.
      destruct rest; cbn [bindO]; eexists; split; reflexivity.
    + cbn [bindO]. eexists. split; reflexivity.
  - eexists. split; reflexivity.
  - eexists. split; reflexivity.
Qed.

(* ------------------------------------------------------------------ the line *)

(* runLine up to the command lookup, by the translated segments in the order of the source
   (between them runLine only writes the echo "> line" to the log) *)
Definition src_run_line_prefix (fuel : nat) (line : bytes)
  : res (GoSem.outcome (list bytes * bool) unit (exitm bool)) :=
  bind (src_TestScript_runLine_words ts line) (fun o =>
  match o with
  | Normal args => src_TestScript_runLine_guards fuel ts args
  | Return r => Ok (Return r)
  | _ => Panic
  end).

(* the model's run_line, read through the same view: the line is blank (Done), refused by the
   tokenizer (Failed), or its words go through the prefixes *)
Definition line_view (line : bytes) : gview :=
  match tokenise (s_env st) line with
  | None => GFail
  | Some [] => GSkip
  | Some words => guards_view cfg st words
  end.

Lemma run_line_view line : run_line cfg st line = view_outcome cfg st (line_view line).
Proof.
  unfold run_line, line_view. destruct (tokenise (s_env st) line) as [[|w ws]|]; try reflexivity.
  apply run_guards_view.
Qed.

(* For every line: with fuel for one iteration per word the translated prefix of runLine never
   panics and never runs out of fuel, and it decides what the model's run_line decides: fail,
   skip the line, or run the command words with this negation. *)
Theorem src_run_line_prefix_eq fuel line :
  (forall ws, tokenise (s_env st) line = Some ws -> length ws + 1 <= fuel) ->
  exists o, src_run_line_prefix fuel line = Ok o /\ view_of_guards o = Some (line_view line) /\
            run_line cfg st line = view_outcome cfg st (line_view line).
Proof.
  intros Hf. unfold src_run_line_prefix, src_TestScript_runLine_words, go_ts_parse, line_view.
  pose proof (parse_ok line) as PO. rewrite run_line_view. unfold line_view.
  destruct (tokenise (s_env st) line) as [ws|] eqn:T.
  - rewrite PO. cbn [bindFO bind]. rewrite len_of_zero.
    destruct ws as [|w ws].
    + eexists. split; [reflexivity|]. split; reflexivity.
    + cbn [bind]. destruct (src_guards_eq fuel (w :: ws) ltac:(discriminate) (Hf _ eq_refl)) as (o & E & V).
      exists o. split; [exact E|]. split; [exact V | reflexivity].
  - destruct PO as (m & PO). rewrite PO. cbn [bindFO bind]. eexists. split; [reflexivity|]. split; reflexivity.
Qed.

End Line.

(* ------------------------------------------------------------------ examples *)

Example oracles_exist :
  (* a receiver whose oracles answer as the hypotheses ask exists for every model state: take the
     model's own functions *)
  forall cfg st, exists ts, parse_agrees st ts /\ cond_agrees cfg st ts.
Proof.
  intros cfg st.
  exists {| r_parse := fun line => match tokenise (s_env st) line with Some ws => Ok (DoneM ws) | None => Ok (FailedM []) end;
            r_condition := fun c => match cond_eval cfg st c with CondVal b => Ok (DoneM (b, false)) | CondErr => Ok (FailedM []) end |}.
  split.
  - intros line. cbn [r_parse]. destruct (tokenise (s_env st) line); [reflexivity | eexists; reflexivity].
  - intros c. cbn [r_condition]. destruct (cond_eval cfg st c); [reflexivity | left; eexists; reflexivity].
Qed.

(* Lemmas about the shared byte-string vocabulary of Lib/Bytes.v: byte equality,
   last_byte / fix_nl, split_lines, prefix / suffix tests and trim_space. *)
From Coq Require Import List Bool Arith Lia.
From Coq.Strings Require Import Byte.
From GI Require Import Lib.Bytes.
Import ListNotations.

(* ------------------------------------------------------------------ *)
(* byte and byte-string equality                                       *)

Lemma beq_refl b : beq b b = true.
Proof. unfold beq. apply Byte.byte_dec_lb. reflexivity. Qed.

Lemma beq_eq a b : beq a b = true -> a = b.
Proof. unfold beq. apply Byte.byte_dec_bl. Qed.

Lemma beq_neq a b : beq a b = false -> a <> b.
Proof. intros H E. subst b. rewrite beq_refl in H. discriminate. Qed.

Lemma beq_false a b : a <> b -> beq a b = false.
Proof.
  intros H. destruct (beq a b) eqn:E; [|reflexivity].
  apply beq_eq in E. contradiction.
Qed.

Lemma beq_sym a b : beq a b = beq b a.
Proof.
  destruct (beq a b) eqn:E.
  - apply beq_eq in E. subst. symmetry. apply beq_refl.
  - symmetry. apply beq_false. intros H. subst. rewrite beq_refl in E. discriminate.
Qed.

Lemma bytes_eqb_refl a : bytes_eqb a a = true.
Proof. induction a as [|x a IH]; [reflexivity|]. cbn [bytes_eqb]. now rewrite beq_refl, IH. Qed.

Lemma bytes_eqb_eq a b : bytes_eqb a b = true <-> a = b.
Proof.
  split.
  - revert b. induction a as [|x a IH]; intros [|y b] H; cbn [bytes_eqb] in H; try discriminate.
    + reflexivity.
    + apply andb_true_iff in H. destruct H as [H1 H2].
      apply beq_eq in H1. apply IH in H2. now subst.
  - intros ->. apply bytes_eqb_refl.
Qed.

Lemma mem_byte_In b d : mem_byte b d = true <-> In b d.
Proof.
  unfold mem_byte. rewrite existsb_exists. split.
  - intros [x [Hin Hx]]. apply beq_eq in Hx. now subst.
  - intros H. exists b. split; [assumption|apply beq_refl].
Qed.

Lemma mem_byte_false b d : mem_byte b d = false <-> ~ In b d.
Proof.
  rewrite <- mem_byte_In. destruct (mem_byte b d); split; intros H.
  - discriminate.
  - exfalso. now apply H.
  - discriminate.
  - reflexivity.
Qed.

(* ------------------------------------------------------------------ *)
(* last_byte and fix_nl                                                *)

Lemma last_byte_nil : last_byte [] = None.
Proof. reflexivity. Qed.

Lemma last_byte_snoc d b : last_byte (d ++ [b]) = Some b.
Proof. unfold last_byte. rewrite rev_app_distr. reflexivity. Qed.

Lemma last_byte_app a b : b <> [] -> last_byte (a ++ b) = last_byte b.
Proof.
  intros Hb. unfold last_byte. rewrite rev_app_distr.
  destruct (rev b) as [|x r] eqn:E; [|reflexivity].
  exfalso. apply Hb. rewrite <- (rev_involutive b), E. reflexivity.
Qed.

Lemma last_byte_cons x d : d <> [] -> last_byte (x :: d) = last_byte d.
Proof. intros H. change (x :: d) with ([x] ++ d). now apply last_byte_app. Qed.

Lemma last_byte_single x : last_byte [x] = Some x.
Proof. reflexivity. Qed.

Lemma last_byte_Some d b : last_byte d = Some b -> exists d', d = d' ++ [b].
Proof.
  unfold last_byte. intros H. destruct (rev d) as [|x r] eqn:E; [discriminate|].
  injection H as ->. exists (rev r). rewrite <- (rev_involutive d), E. reflexivity.
Qed.

Lemma last_byte_None d : last_byte d = None -> d = [].
Proof.
  unfold last_byte. intros H. destruct (rev d) as [|x r] eqn:E; [|discriminate].
  rewrite <- (rev_involutive d), E. reflexivity.
Qed.

Lemma last_byte_In d b : last_byte d = Some b -> In b d.
Proof. intros H. apply last_byte_Some in H. destruct H as [d' ->]. apply in_or_app. right. now left. Qed.

Lemma fix_nl_nil : fix_nl [] = [].
Proof. reflexivity. Qed.

Lemma fix_nl_term d : last_byte d = Some NL -> fix_nl d = d.
Proof. intros H. unfold fix_nl. rewrite H. reflexivity. Qed.

Lemma fix_nl_unterm d : d <> [] -> last_byte d <> Some NL -> fix_nl d = d ++ [NL].
Proof.
  intros Hd Hl. unfold fix_nl. destruct (last_byte d) as [b|] eqn:E.
  - destruct (beq b NL) eqn:Eb; [|reflexivity].
    apply beq_eq in Eb. subst b. contradiction.
  - apply last_byte_None in E. contradiction.
Qed.

Lemma fix_nl_cases d :
  (d = [] /\ fix_nl d = []) \/
  (last_byte d = Some NL /\ fix_nl d = d) \/
  (d <> [] /\ last_byte d <> Some NL /\ fix_nl d = d ++ [NL]).
Proof.
  destruct d as [|x d'] eqn:Ed; [left; split; reflexivity|]. rewrite <- Ed.
  assert (Hne : d <> []) by (subst; discriminate).
  destruct (last_byte d) as [b|] eqn:E.
  - destruct (beq b NL) eqn:Eb.
    + apply beq_eq in Eb. subst b. right; left. split; [reflexivity|]. now apply fix_nl_term.
    + right; right. apply beq_neq in Eb. split; [assumption|]. split.
      * congruence.
      * apply fix_nl_unterm; [assumption|]. rewrite E. congruence.
  - apply last_byte_None in E. contradiction.
Qed.

Lemma fix_nl_last d : fix_nl d = [] \/ last_byte (fix_nl d) = Some NL.
Proof.
  destruct (fix_nl_cases d) as [[_ H]|[[Hl H]|[_ [_ H]]]]; rewrite H.
  - now left.
  - now right.
  - right. apply last_byte_snoc.
Qed.

Lemma fix_nl_fixed d : fix_nl d = d <-> d = [] \/ last_byte d = Some NL.
Proof.
  split.
  - intros H. destruct (fix_nl_last d) as [H1|H1]; rewrite H in H1; auto.
  - intros [->|H]; [reflexivity|now apply fix_nl_term].
Qed.

Lemma fix_nl_idem d : fix_nl (fix_nl d) = fix_nl d.
Proof. apply fix_nl_fixed. apply fix_nl_last. Qed.

(* ------------------------------------------------------------------ *)
(* split_lines                                                         *)

(* a terminated line: NL-free text followed by NL *)
Inductive tline : bytes -> Prop :=
| tline_intro l0 : ~ In NL l0 -> tline (l0 ++ [NL]).
(* an unterminated (necessarily last) line *)
Definition uline (l : bytes) : Prop := l <> [] /\ ~ In NL l.
Definition is_line (l : bytes) : Prop := tline l \/ uline l.

(* every line terminated, except possibly the last *)
Fixpoint lines_ok (ls : list bytes) : Prop :=
  match ls with
  | [] => True
  | l :: rest =>
      match rest with
      | [] => is_line l
      | _ :: _ => tline l /\ lines_ok rest
      end
  end.

Lemma tline_cons b l : b <> NL -> tline l -> tline (b :: l).
Proof.
  intros Hb [l0 H0]. change (b :: l0 ++ [NL]) with ((b :: l0) ++ [NL]).
  constructor. intros [H|H]; [now apply Hb|now apply H0].
Qed.

Lemma uline_cons b l : b <> NL -> uline l -> uline (b :: l).
Proof.
  intros Hb [H1 H2]. split; [discriminate|].
  intros [H|H]; [now apply Hb|now apply H2].
Qed.

Lemma tline_nl : tline [NL].
Proof. change [NL] with ([] ++ [NL]). constructor. intros []. Qed.

Lemma tline_nonempty l : tline l -> l <> [].
Proof. intros [l0 _]. destruct l0; discriminate. Qed.

Lemma tline_last l : tline l -> last_byte l = Some NL.
Proof. intros [l0 _]. apply last_byte_snoc. Qed.

Lemma uline_last l : uline l -> last_byte l <> Some NL.
Proof. intros [_ H] E. apply H. now apply last_byte_In. Qed.

Lemma is_line_nonempty l : is_line l -> l <> [].
Proof. intros [H|[H _]]; [now apply tline_nonempty|assumption]. Qed.

Lemma lines_ok_cons l rest : tline l -> lines_ok rest -> lines_ok (l :: rest).
Proof. intros Hl Hr. destruct rest; cbn [lines_ok]; [now left|now split]. Qed.

Lemma lines_ok_inv l rest : lines_ok (l :: rest) -> is_line l /\ lines_ok rest.
Proof.
  destruct rest; cbn [lines_ok].
  - intros H. split; [assumption|exact I].
  - intros [H1 H2]. split; [now left|assumption].
Qed.

Lemma lines_ok_inv2 l l2 rest : lines_ok (l :: l2 :: rest) -> tline l /\ lines_ok (l2 :: rest).
Proof. cbn [lines_ok]. intros H. exact H. Qed.

Lemma lines_ok_In ls l : lines_ok ls -> In l ls -> is_line l.
Proof.
  induction ls as [|x ls IH]; intros Hok Hin; [destruct Hin|].
  apply lines_ok_inv in Hok. destruct Hok as [Hx Hls].
  destruct Hin as [->|Hin]; [assumption|now apply IH].
Qed.

Lemma split_lines_tline_app l0 rest :
  ~ In NL l0 -> split_lines (l0 ++ NL :: rest) = (l0 ++ [NL]) :: split_lines rest.
Proof.
  induction l0 as [|b l0 IH]; intros H.
  - reflexivity.
  - cbn [app split_lines]. rewrite beq_false by (intros E; apply H; now left).
    rewrite IH by (intros E; apply H; now right). reflexivity.
Qed.

Lemma split_lines_tline l : tline l -> split_lines l = [l].
Proof. intros [l0 H]. now rewrite split_lines_tline_app. Qed.

Lemma split_lines_uline l : uline l -> split_lines l = [l].
Proof.
  intros [Hne Hnl]. induction l as [|b l IH]; [contradiction|].
  cbn [split_lines]. rewrite beq_false by (intros E; apply Hnl; now left).
  destruct l as [|c l'].
  - reflexivity.
  - rewrite IH; [reflexivity|discriminate|intros E; apply Hnl; now right].
Qed.

Lemma split_lines_line l : is_line l -> split_lines l = [l].
Proof. intros [H|H]; [now apply split_lines_tline|now apply split_lines_uline]. Qed.

Lemma split_lines_concat ls : lines_ok ls -> split_lines (concat ls) = ls.
Proof.
  induction ls as [|l rest IH]; intros Hok; [reflexivity|].
  destruct rest as [|l2 rest'].
  - cbn [concat]. rewrite app_nil_r. apply split_lines_line. exact Hok.
  - apply lines_ok_inv2 in Hok. destruct Hok as [[l0 H0] Hrest].
    cbn [concat]. rewrite <- app_assoc. cbn [app].
    rewrite split_lines_tline_app by assumption. f_equal. now apply IH.
Qed.

Lemma split_lines_ok d : lines_ok (split_lines d).
Proof.
  induction d as [|b r IH]; [exact I|].
  cbn [split_lines]. destruct (beq b NL) eqn:Eb.
  - apply beq_eq in Eb. subst b. apply lines_ok_cons; [apply tline_nl|assumption].
  - apply beq_neq in Eb. destruct (split_lines r) as [|l ls].
    + right. split; [discriminate|]. intros [H|[]]. now apply Eb.
    + destruct ls as [|l2 ls'].
      * cbn [lines_ok] in *. destruct IH as [H|H]; [left; now apply tline_cons|right; now apply uline_cons].
      * apply lines_ok_inv2 in IH. destruct IH as [H1 H2].
        cbn [lines_ok]. split; [now apply tline_cons|exact H2].
Qed.

Lemma concat_split_lines d : concat (split_lines d) = d.
Proof.
  induction d as [|b r IH]; [reflexivity|].
  cbn [split_lines]. destruct (beq b NL).
  - cbn [concat app]. now rewrite IH.
  - destruct (split_lines r) as [|l ls]; cbn [concat app] in *; now rewrite <- IH.
Qed.

Lemma split_lines_nil_iff d : split_lines d = [] <-> d = [].
Proof.
  split; [|intros ->; reflexivity].
  intros H. rewrite <- (concat_split_lines d), H. reflexivity.
Qed.

Lemma split_lines_In_line d l : In l (split_lines d) -> is_line l.
Proof. apply lines_ok_In. apply split_lines_ok. Qed.

Lemma split_lines_In_incl d l : In l (split_lines d) -> incl l d.
Proof.
  intros H x Hx. rewrite <- (concat_split_lines d). apply in_concat. now exists l.
Qed.

Lemma split_lines_app a b :
  a = [] \/ last_byte a = Some NL ->
  split_lines (a ++ b) = split_lines a ++ split_lines b.
Proof.
  induction a as [|x a' IH]; intros H; [reflexivity|].
  destruct H as [H|H]; [discriminate|].
  destruct a' as [|y a''].
  - cbn in H. injection H as ->. reflexivity.
  - rewrite last_byte_cons in H by discriminate.
    specialize (IH (or_intror H)).
    cbn [app split_lines] in *. destruct (beq x NL).
    + now rewrite IH.
    + rewrite IH. destruct (beq y NL).
      * reflexivity.
      * destruct (split_lines a''); reflexivity.
Qed.

(* appending the missing final NL changes the last line only *)
Lemma split_lines_snoc_nl d :
  d <> [] -> last_byte d <> Some NL ->
  exists ls u, split_lines d = ls ++ [u] /\ split_lines (d ++ [NL]) = ls ++ [u ++ [NL]]
               /\ uline u.
Proof.
  induction d as [|x d' IH]; intros Hne Hl; [contradiction|].
  destruct d' as [|y d''].
  - assert (Hx : x <> NL) by (intros ->; now apply Hl).
    exists [], [x]. cbn [app split_lines]. rewrite (beq_false x NL Hx), beq_refl.
    repeat split; try reflexivity; try discriminate.
    intros [E|[]]. now apply Hx.
  - rewrite last_byte_cons in Hl by discriminate.
    destruct (IH ltac:(discriminate) Hl) as [ls [u [H1 [H2 H3]]]].
    change ((x :: y :: d'') ++ [NL]) with (x :: ((y :: d'') ++ [NL])).
    remember (y :: d'') as d' eqn:Ed.
    cbn [split_lines]. rewrite H1, H2. destruct (beq x NL) eqn:Ex.
    + exists ([x] :: ls), u. repeat split; try reflexivity; apply H3.
    + apply beq_neq in Ex. destruct ls as [|l ls'].
      * exists [], (x :: u). cbn [app]. repeat split; try reflexivity.
        -- discriminate.
        -- intros [E|E]; [now apply Ex|now apply (proj2 H3)].
      * exists ((x :: l) :: ls'), u. cbn [app]. repeat split; try reflexivity; apply H3.
Qed.

(* ------------------------------------------------------------------ *)
(* has_prefix / has_suffix                                             *)

Lemma has_prefix_app p x : has_prefix p (p ++ x) = true.
Proof. induction p as [|b p IH]; [reflexivity|]. cbn [app has_prefix]. now rewrite beq_refl, IH. Qed.

Lemma has_prefix_iff p d : has_prefix p d = true <-> exists x, d = p ++ x.
Proof.
  split.
  - revert d. induction p as [|b p IH]; intros d H.
    + now exists d.
    + destruct d as [|c d]; cbn [has_prefix] in H; [discriminate|].
      apply andb_true_iff in H. destruct H as [H1 H2].
      apply beq_eq in H1. subst c. destruct (IH _ H2) as [x ->]. now exists x.
  - intros [x ->]. apply has_prefix_app.
Qed.

Lemma has_prefix_app_mono p d x : has_prefix p d = true -> has_prefix p (d ++ x) = true.
Proof.
  intros H. apply has_prefix_iff in H. destruct H as [y ->].
  rewrite <- app_assoc. apply has_prefix_app.
Qed.

Lemma has_suffix_app s x : has_suffix s (x ++ s) = true.
Proof. unfold has_suffix. rewrite rev_app_distr. apply has_prefix_app. Qed.

Lemma has_suffix_iff s d : has_suffix s d = true <-> exists x, d = x ++ s.
Proof.
  unfold has_suffix. rewrite has_prefix_iff. split.
  - intros [x H]. exists (rev x). rewrite <- (rev_involutive d), H, rev_app_distr.
    now rewrite rev_involutive.
  - intros [x ->]. exists (rev x). apply rev_app_distr.
Qed.

Lemma skipn_length_app {A} (a b : list A) : skipn (length a) (a ++ b) = b.
Proof. induction a; [reflexivity|assumption]. Qed.

Lemma firstn_length_app {A} (a b : list A) : firstn (length a) (a ++ b) = a.
Proof. induction a as [|x a IH]; [now destruct b|]. cbn. now rewrite IH. Qed.

(* ------------------------------------------------------------------ *)
(* trim_space                                                          *)

Lemma skipn_skipn' {A} (n m : nat) (l : list A) : skipn n (skipn m l) = skipn (m + n) l.
Proof.
  revert l. induction m as [|m IH]; intros l; [reflexivity|].
  destruct l as [|x l]; [now rewrite !skipn_nil|]. cbn [skipn plus]. apply IH.
Qed.

Lemma trim_left_fuel_zero f d :
  length d <= f -> space_prefix (trim_left_fuel f d) = 0.
Proof.
  revert d. induction f as [|f IH]; intros d Hlen.
  - destruct d; [reflexivity|cbn in Hlen; lia].
  - cbn [trim_left_fuel]. destruct (space_prefix d) as [|n] eqn:E; [exact E|].
    apply IH. rewrite skipn_length. destruct d; cbn [length] in *; lia.
Qed.

Lemma trim_left_fuel_fixed f d : space_prefix d = 0 -> trim_left_fuel f d = d.
Proof. intros H. destruct f; cbn [trim_left_fuel]; [reflexivity|now rewrite H]. Qed.

Lemma trim_left_fuel_skipn f d : exists k, trim_left_fuel f d = skipn k d.
Proof.
  revert d. induction f as [|f IH]; intros d.
  - now exists 0.
  - cbn [trim_left_fuel]. destruct (space_prefix d) as [|n]; [now exists 0|].
    destruct (IH (skipn (S n) d)) as [k Hk]. exists (S n + k). now rewrite Hk, skipn_skipn'.
Qed.

Lemma trim_right_rev_fuel_zero f r :
  length r <= f -> space_suffix_rev' (trim_right_rev_fuel f r) = 0.
Proof.
  revert r. induction f as [|f IH]; intros r Hlen.
  - destruct r; [reflexivity|cbn in Hlen; lia].
  - cbn [trim_right_rev_fuel]. destruct (space_suffix_rev' r) as [|n] eqn:E; [exact E|].
    apply IH. rewrite skipn_length. destruct r; cbn [length] in *; lia.
Qed.

Lemma trim_right_rev_fuel_fixed f r : space_suffix_rev' r = 0 -> trim_right_rev_fuel f r = r.
Proof. intros H. destruct f; cbn [trim_right_rev_fuel]; [reflexivity|now rewrite H]. Qed.

Lemma trim_right_rev_fuel_skipn f r : exists k, trim_right_rev_fuel f r = skipn k r.
Proof.
  revert r. induction f as [|f IH]; intros r.
  - now exists 0.
  - cbn [trim_right_rev_fuel]. destruct (space_suffix_rev' r) as [|n]; [now exists 0|].
    destruct (IH (skipn (S n) r)) as [k Hk]. exists (S n + k). now rewrite Hk, skipn_skipn'.
Qed.

Lemma trim_left_zero d : space_prefix (trim_left d) = 0.
Proof. apply trim_left_fuel_zero. lia. Qed.

Lemma trim_left_suffix d : exists pfx, d = pfx ++ trim_left d.
Proof.
  unfold trim_left. destruct (trim_left_fuel_skipn (length d) d) as [k ->].
  exists (firstn k d). symmetry. apply firstn_skipn.
Qed.

Lemma trim_right_zero d : space_suffix_rev' (rev (trim_right d)) = 0.
Proof.
  unfold trim_right. rewrite rev_involutive. apply trim_right_rev_fuel_zero.
  rewrite rev_length. lia.
Qed.

Lemma trim_right_prefix d : exists sfx, d = trim_right d ++ sfx.
Proof.
  unfold trim_right. destruct (trim_right_rev_fuel_skipn (length d) (rev d)) as [k ->].
  exists (rev (firstn k (rev d))). rewrite <- rev_app_distr, firstn_skipn.
  symmetry. apply rev_involutive.
Qed.

Lemma trim_left_fixed d : space_prefix d = 0 -> trim_left d = d.
Proof. apply trim_left_fuel_fixed. Qed.

Lemma trim_right_fixed d : space_suffix_rev' (rev d) = 0 -> trim_right d = d.
Proof.
  intros H. unfold trim_right. rewrite trim_right_rev_fuel_fixed by assumption.
  apply rev_involutive.
Qed.

(* a white-space rune at the start of d is still there when d is extended *)
Lemma space_prefix_app_nonzero d x : space_prefix d <> 0 -> space_prefix (d ++ x) <> 0.
Proof.
  destruct d as [|b r]; [intros H; now contradiction H|].
  cbn [app]. unfold space_prefix.
  destruct (ascii_space b); [intros _; discriminate|].
  destruct b; try (intros H; now contradiction H);
    (destruct r as [|c r]; [intros H; now contradiction H|]; cbn [app];
     destruct c; try (intros H; now contradiction H); try (intros _; discriminate);
     (destruct r as [|c r]; [intros H; now contradiction H|]; cbn [app];
      destruct c; try (intros H; now contradiction H); intros _; discriminate)).
Qed.

Lemma space_prefix_prefix_zero p x : space_prefix (p ++ x) = 0 -> space_prefix p = 0.
Proof.
  intros H. destruct (space_prefix p) eqn:E; [reflexivity|].
  exfalso. apply (space_prefix_app_nonzero p x); [now rewrite E|assumption].
Qed.

Lemma trim_space_idem d : trim_space (trim_space d) = trim_space d.
Proof.
  unfold trim_space. set (L := trim_left d). set (t := trim_right L).
  assert (Ht0 : space_prefix t = 0).
  { destruct (trim_right_prefix L) as [sfx Hs]. fold t in Hs.
    apply (space_prefix_prefix_zero t sfx). rewrite <- Hs. apply trim_left_zero. }
  rewrite (trim_left_fixed t Ht0). apply trim_right_fixed. apply trim_right_zero.
Qed.

Lemma trim_space_incl d : incl (trim_space d) d.
Proof.
  unfold trim_space. intros x Hx.
  destruct (trim_left_suffix d) as [pfx Hd].
  destruct (trim_right_prefix (trim_left d)) as [sfx Hs].
  rewrite Hd. apply in_or_app. right. rewrite Hs. apply in_or_app. now left.
Qed.

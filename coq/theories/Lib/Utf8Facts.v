(* Proofs about Lib/Utf8.v: the byte-level trim_space / utf8_valid of Lib/Bytes.v are
   the rune-level functions (decode, unicode.IsSpace from the regenerated tables,
   TrimLeftFunc / TrimRightFunc, "every rune decodes"); the decoder accepts exactly
   the shortest-form encodings of Unicode scalar values. *)
From Coq Require Import List Bool Arith NArith ZArith Lia.
From Coq.Strings Require Import Byte.
From GI Require Import Lib.Bytes Lib.BytesFacts Gen.UnicodeConsts Lib.Utf8.
Import ListNotations.
Open Scope N_scope.

Ltac b2p :=
  repeat (rewrite ?orb_true_iff, ?andb_true_iff, ?N.leb_le, ?N.eqb_eq, ?N.ltb_lt, ?negb_true_iff,
          ?orb_false_iff, ?andb_false_iff, ?N.leb_gt, ?N.eqb_neq, ?N.ltb_ge in * ).

(* ------------------------------------------------------------------ *)
(* unicode.IsSpace: the regenerated tables denote this set of code points
   (a changed table breaks this lemma) *)

Definition space_points (r : N) : bool :=
  ((9 <=? r) && (r <=? 13)) || (r =? 32) || (r =? 133) || (r =? 160) || (r =? 5760)
  || ((8192 <=? r) && (r <=? 8202)) || (r =? 8232) || (r =? 8233) || (r =? 8239)
  || (r =? 8287) || (r =? 12288).

Lemma stride_two lo hi st r :
  hi = lo + st -> 0 < st ->
  ((lo <=? r) && (r <=? hi) && ((r - lo) mod st =? 0)) = ((r =? lo) || (r =? hi)).
Proof.
  intros -> Hst. apply Bool.eq_iff_eq_true. b2p. split.
  - intros [[H1 H2] H3].
    destruct (N.eq_dec r lo) as [|Hne]; [now left|right].
    destruct (N.eq_dec r (lo + st)) as [|Hne2]; [assumption|exfalso].
    rewrite N.mod_small in H3 by lia. lia.
  - intros [->| ->].
    + rewrite N.sub_diag, N.mod_0_l by lia. lia.
    + replace (lo + st - lo) with st by lia. rewrite N.mod_same by lia. lia.
Qed.

Lemma stride_one lo hi r :
  ((lo <=? r) && (r <=? hi) && ((r - lo) mod 1 =? 0)) = ((lo <=? r) && (r <=? hi)).
Proof. rewrite N.mod_1_r. cbn. now rewrite andb_true_r. Qed.

Lemma is_space_rune_points r : is_space_rune r = space_points r.
Proof.
  unfold is_space_rune, space_points, in_ranges, max_latin1, latin1_space, white_space_ranges.
  cbn [existsb]. rewrite !stride_one, !(stride_two _ _ _ r) by (reflexivity || lia).
  apply Bool.eq_iff_eq_true. rewrite !orb_false_r.
  destruct (r <=? 255) eqn:E; b2p; lia.
Qed.

Lemma rune_consts : rune_self = 128 /\ rune_error = 65533 /\ max_rune = 1114111.
Proof. repeat split. Qed.

(* ------------------------------------------------------------------ *)
(* the white-space byte table of Lib/Bytes.v, as a table over byte codes *)

Definition sp1 (n0 : N) : bool := ((9 <=? n0) && (n0 <=? 13)) || (n0 =? 32).
Definition sp2 (n0 n1 : N) : bool := (n0 =? 194) && ((n1 =? 133) || (n1 =? 160)).
Definition sp3 (n0 n1 n2 : N) : bool :=
  ((n0 =? 225) && ((n1 =? 154) && (n2 =? 128)))
  || ((n0 =? 226) && (((n1 =? 128) && (((128 <=? n2) && (n2 <=? 138)) || (n2 =? 168) || (n2 =? 169) || (n2 =? 175)))
                      || ((n1 =? 129) && (n2 =? 159))))
  || ((n0 =? 227) && ((n1 =? 128) && (n2 =? 128))).

Definition sp_table (b0 : byte) (r : bytes) : nat :=
  if sp1 (bN b0) then 1%nat else
  match r with
  | c1 :: r1 =>
      if sp2 (bN b0) (bN c1) then 2%nat else
      match r1 with
      | c2 :: _ => if sp3 (bN b0) (bN c1) (bN c2) then 3%nat else 0%nat
      | [] => 0%nat
      end
  | [] => 0%nat
  end.

(* read forwards: b0 is the first byte *)
Lemma space_prefix_table b0 r : space_prefix (b0 :: r) = sp_table b0 r.
Proof.
  destruct r as [|c1 [|c2 r2]].
  - destruct b0; reflexivity.
  - destruct b0; try reflexivity; destruct c1; reflexivity.
  - destruct b0; try reflexivity; destruct c1; try reflexivity; destruct c2; reflexivity.
Qed.

(* read backwards: l0 is the last byte, q the bytes in front of it, nearest first *)
Definition sp_table_rev (l0 : byte) (q : bytes) : nat :=
  if sp1 (bN l0) then 1%nat else
  match q with
  | b1 :: q1 =>
      if sp2 (bN b1) (bN l0) then 2%nat else
      match q1 with
      | b2 :: _ => if sp3 (bN b2) (bN b1) (bN l0) then 3%nat else 0%nat
      | [] => 0%nat
      end
  | [] => 0%nat
  end.


(* Proofs about Lib/Utf8.v: the byte-level trim_space / utf8_valid of Lib/Bytes.v are
   the rune-level functions (decode, unicode.IsSpace from the regenerated tables,
   TrimLeftFunc / TrimRightFunc, "every rune decodes"); the decoder accepts exactly
   the shortest-form encodings of Unicode scalar values. *)
From Coq Require Import List Bool Arith NArith ZArith Lia.
From Coq.Strings Require Import Byte.
From GI Require Import Lib.Bytes Lib.BytesFacts Gen.UnicodeConsts Lib.Utf8 Lib.Utf8Tables.
Import ListNotations.
Open Scope N_scope.

(* ------------------------------------------------------------------ *)
(* which decoded runes are white space, in terms of the encoding bytes  *)

Lemma space1 n0 : n0 < 128 -> space_points n0 = sp1 n0.
Proof. intros H. apply Bool.eq_iff_eq_true. unfold space_points, sp1. b2p. lia. Qed.

Lemma space2 n0 n1 :
  194 <= n0 <= 223 -> 128 <= n1 <= 191 ->
  space_points ((n0 - 192) * 64 + (n1 - 128)) = sp2 n0 n1.
Proof. intros H0 H1. apply Bool.eq_iff_eq_true. unfold space_points, sp2. b2p. lia. Qed.

Lemma space3 n0 n1 n2 :
  224 <= n0 <= 239 -> 128 <= n1 <= 191 -> 128 <= n2 <= 191 -> (n0 = 224 -> 160 <= n1) ->
  space_points ((n0 - 224) * 4096 + (n1 - 128) * 64 + (n2 - 128)) = sp3 n0 n1 n2.
Proof. intros H0 H1 H2 H3. apply Bool.eq_iff_eq_true. unfold space_points, sp3. b2p. lia. Qed.

Lemma space_big r : 12288 < r -> space_points r = false.
Proof. intros H. apply Bool.not_true_iff_false. unfold space_points. b2p. lia. Qed.

Lemma space_err : is_space_rune rune_error = false.
Proof. reflexivity. Qed.

Lemma sp1_lt n : sp1 n = true -> n < 128.
Proof. unfold sp1. b2p. lia. Qed.
Lemma sp2_inv n0 n1 : sp2 n0 n1 = true -> n0 = 194 /\ 128 <= n1 <= 191.
Proof. unfold sp2. b2p. lia. Qed.
Lemma sp3_inv n0 n1 n2 :
  sp3 n0 n1 n2 = true -> 225 <= n0 <= 227 /\ 128 <= n1 <= 191 /\ 128 <= n2 <= 191.
Proof. unfold sp3. b2p. lia. Qed.

Lemma in_range_iff lo hi b : in_range lo hi b = true <-> lo <= bN b <= hi.
Proof. unfold in_range. b2p. tauto. Qed.
Lemma in_range_false lo hi b : in_range lo hi b = false <-> bN b < lo \/ hi < bN b.
Proof. unfold in_range. b2p. tauto. Qed.
Lemma cont_iff b : cont b = true <-> 128 <= bN b <= 191.
Proof. apply in_range_iff. Qed.
Lemma cont_false b : cont b = false <-> bN b < 128 \/ 191 < bN b.
Proof. apply in_range_false. Qed.

Lemma second3_true b c1 :
  second3 b c1 = true ->
  128 <= bN c1 <= 191 /\ (bN b = 224 -> 160 <= bN c1) /\ (bN b = 237 -> bN c1 <= 159).
Proof.
  unfold second3, cont.
  destruct (bN b =? 224) eqn:E1; [|destruct (bN b =? 237) eqn:E2];
    rewrite in_range_iff; b2p; lia.
Qed.

Lemma second3_plain b c1 : 225 <= bN b <= 227 -> second3 b c1 = cont c1.
Proof.
  intros H. unfold second3.
  replace (bN b =? 224) with false by (symmetry; b2p; lia).
  replace (bN b =? 237) with false by (symmetry; b2p; lia). reflexivity.
Qed.

Lemma second4_true b c1 :
  second4 b c1 = true ->
  128 <= bN c1 <= 191 /\ (bN b = 240 -> 144 <= bN c1) /\ (bN b = 244 -> bN c1 <= 143).
Proof.
  unfold second4, cont.
  destruct (bN b =? 240) eqn:E1; [|destruct (bN b =? 244) eqn:E2];
    rewrite in_range_iff; b2p; lia.
Qed.

(* ------------------------------------------------------------------ *)
(* the byte tables of Lib/Bytes.v recognise exactly the encodings of    *)
(* white-space runes, read forwards and backwards                       *)

Definition space_width (d : bytes) : nat :=
  match decode_rune d with
  | Some (r, w) => if is_space_rune r then w else 0%nat
  | None => 0%nat
  end.

Ltac sp_false t :=
  replace t with false
    by (symmetry; apply Bool.not_true_iff_false; unfold sp1, sp2, sp3; b2p; lia).
Ltac kill_sp :=
  repeat match goal with
  | |- context [sp1 ?a] => sp_false (sp1 a)
  | |- context [sp2 ?a ?b] => sp_false (sp2 a b)
  | |- context [sp3 ?a ?b ?c] => sp_false (sp3 a b c)
  end.
Ltac hyps :=
  repeat match goal with
  | H : in_range _ _ _ = true |- _ => apply in_range_iff in H
  | H : in_range _ _ _ = false |- _ => apply in_range_false in H
  | H : cont _ = true |- _ => apply cont_iff in H
  | H : cont _ = false |- _ => apply cont_false in H
  | H : second3 _ _ = true |- _ => apply second3_true in H
  | H : second4 _ _ = true |- _ => apply second4_true in H
  | H : (_ <? _) = true |- _ => apply N.ltb_lt in H
  | H : (_ <? _) = false |- _ => apply N.ltb_ge in H
  | H : (_ && _) = true |- _ => apply andb_true_iff in H; destruct H
  end.

Lemma space_prefix_decode d : space_prefix d = space_width d.
Proof.
  destruct d as [|b0 r]; [reflexivity|].
  rewrite space_prefix_table. unfold sp_table, space_width, decode_rune, err1, rune_self.
  destruct (bN b0 <? 128) eqn:E0.
  { hyps. rewrite is_space_rune_points, space1 by assumption.
    destruct (sp1 (bN b0)); [reflexivity|].
    destruct r as [|c1 [|c2 r2]]; kill_sp; reflexivity. }
  destruct (in_range 194 223 b0) eqn:E2.
  { hyps. destruct r as [|c1 r1]; [rewrite space_err; kill_sp; reflexivity|].
    destruct (cont c1) eqn:Ec1; hyps.
    - rewrite is_space_rune_points, space2 by assumption.
      destruct r1 as [|c2 r2]; kill_sp; reflexivity.
    - rewrite space_err. destruct r1 as [|c2 r2]; kill_sp; reflexivity. }
  destruct (in_range 224 239 b0) eqn:E3.
  { hyps. destruct r as [|c1 [|c2 r2]]; try (rewrite space_err; kill_sp; reflexivity).
    destruct (second3 b0 c1 && cont c2) eqn:Ec.
    - hyps. rewrite is_space_rune_points, space3 by tauto. kill_sp. reflexivity.
    - rewrite space_err. kill_sp.
      destruct (sp3 (bN b0) (bN c1) (bN c2)) eqn:E; [|reflexivity].
      apply sp3_inv in E. rewrite second3_plain in Ec by tauto.
      apply andb_false_iff in Ec. destruct Ec as [Ec|Ec]; apply cont_false in Ec; lia. }
  destruct (in_range 240 244 b0) eqn:E4.
  { hyps. destruct r as [|c1 [|c2 [|c3 r3]]]; try (rewrite space_err; kill_sp; reflexivity).
    destruct (second4 b0 c1 && cont c2 && cont c3) eqn:Ec.
    - hyps. rewrite is_space_rune_points, space_big by lia. kill_sp. reflexivity.
    - rewrite space_err. kill_sp. reflexivity. }
  hyps. rewrite space_err. destruct r as [|c1 [|c2 r2]]; kill_sp; reflexivity.
Qed.

Definition space_width_last (d : bytes) : nat :=
  match decode_last_rune d with
  | Some (r, w) => if is_space_rune r then w else 0%nat
  | None => 0%nat
  end.

Lemma decode_rune_width d r w : decode_rune d = Some (r, w) -> (1 <= w <= 4)%nat.
Proof.
  unfold decode_rune, err1. destruct d as [|b0 rest]; [discriminate|].
  repeat match goal with
  | |- context [if ?c then _ else _] => destruct c
  | |- context [match ?l with [] => _ | _ :: _ => _ end] => destruct l
  end; intros H; inversion H; lia.
Qed.

Lemma last_rune_back_le q : (last_rune_back q <= length q)%nat.
Proof.
  unfold last_rune_back.
  repeat match goal with
  | |- context [if ?c then _ else _] => destruct c
  | |- context [match ?l with [] => _ | _ :: _ => _ end] => destruct l
  end; cbn [length]; lia.
Qed.

Lemma decode_last_rune_rev l0 q :
  decode_last_rune (rev (l0 :: q)) =
  if bN l0 <? rune_self then Some (bN l0, 1%nat) else
  match decode_rune (rev (l0 :: firstn (last_rune_back q) q)) with
  | Some (r, w) => if Nat.eqb w (S (last_rune_back q)) then Some (r, w) else err1
  | None => err1
  end.
Proof.
  unfold decode_last_rune. rewrite rev_involutive. cbv zeta.
  pose proof (last_rune_back_le q) as Hk.
  replace (skipn (length (rev (l0 :: q)) - S (last_rune_back q)) (rev (l0 :: q)))
    with (rev (l0 :: firstn (last_rune_back q) q)); [reflexivity|].
  rewrite skipn_rev. f_equal. rewrite rev_length. cbn [length].
  replace (S (length q) - (S (length q) - S (last_rune_back q)))%nat
    with (S (last_rune_back q)) by lia.
  reflexivity.
Qed.

(* the width reported for the last rune, through the forward table *)
Lemma final_width cand k :
  match
    match decode_rune cand with
    | Some (r, w) => if Nat.eqb w (S k) then Some (r, w) else err1
    | None => err1
    end
  with
  | Some (r, w) => if is_space_rune r then w else 0%nat
  | None => 0%nat
  end = if Nat.eqb (space_width cand) (S k) then S k else 0%nat.
Proof.
  unfold space_width, err1. destruct (decode_rune cand) as [[r w]|] eqn:E.
  - destruct (Nat.eqb w (S k)) eqn:Ew.
    + apply Nat.eqb_eq in Ew. subst w. destruct (is_space_rune r); [now rewrite Nat.eqb_refl|reflexivity].
    + rewrite space_err. destruct (is_space_rune r); [now rewrite Ew|reflexivity].
  - rewrite space_err. reflexivity.
Qed.

Lemma rune_start_true b : rune_start b = true <-> bN b < 128 \/ 191 < bN b.
Proof. unfold rune_start. rewrite negb_true_iff. apply in_range_false. Qed.
Lemma rune_start_false b : rune_start b = false <-> 128 <= bN b <= 191.
Proof. unfold rune_start. rewrite negb_false_iff. apply in_range_iff. Qed.

Ltac sp_cases :=
  repeat match goal with
  | |- context [sp1 ?a] => let E := fresh "E" in destruct (sp1 a) eqn:E; [apply sp1_lt in E|]
  | |- context [sp2 ?a ?b] => let E := fresh "E" in destruct (sp2 a b) eqn:E; [apply sp2_inv in E|]
  | |- context [sp3 ?a ?b ?c] => let E := fresh "E" in destruct (sp3 a b c) eqn:E; [apply sp3_inv in E|]
  end.
Ltac finish := kill_sp; sp_cases; cbn [Nat.eqb]; first [reflexivity | exfalso; lia].

Lemma space_suffix_decode d : space_suffix_rev' (rev d) = space_width_last d.
Proof.
  rewrite <- (rev_involutive d) at 2. destruct (rev d) as [|l0 q]; [reflexivity|].
  rewrite space_suffix_table. unfold space_width_last. rewrite decode_last_rune_rev.
  unfold rune_self. destruct (bN l0 <? 128) eqn:E0.
  { hyps. rewrite is_space_rune_points, space1 by assumption. unfold sp_table_rev.
    destruct (sp1 (bN l0)); [reflexivity|]. destruct q as [|b1 [|b2 q2]]; finish. }
  hyps. rewrite final_width, <- space_prefix_decode.
  unfold last_rune_back, sp_table_rev.
  destruct q as [|b1 q1]; [cbn [firstn rev app]; rewrite space_prefix_table; unfold sp_table; finish|].
  destruct (rune_start b1) eqn:S1;
    [apply rune_start_true in S1; cbn [firstn rev app]; rewrite space_prefix_table; unfold sp_table;
     destruct q1 as [|b2 q2]; finish|apply rune_start_false in S1].
  destruct q1 as [|b2 q2]; [cbn [firstn rev app]; rewrite space_prefix_table; unfold sp_table; finish|].
  destruct (rune_start b2) eqn:S2;
    [apply rune_start_true in S2; cbn [firstn rev app]; rewrite space_prefix_table; unfold sp_table; finish
    |apply rune_start_false in S2].
  destruct q2 as [|b3 q3]; [cbn [firstn rev app]; rewrite space_prefix_table; unfold sp_table; finish|].
  destruct (rune_start b3) eqn:S3;
    [apply rune_start_true in S3; cbn [firstn rev app]; rewrite space_prefix_table; unfold sp_table; finish
    |apply rune_start_false in S3].
  destruct q3 as [|b4 q4]; cbn [firstn rev app]; rewrite space_prefix_table; unfold sp_table; finish.
Qed.

(* ------------------------------------------------------------------ *)
(* strings.TrimSpace                                                   *)

Lemma decode_last_rune_width d r w : decode_last_rune d = Some (r, w) -> (1 <= w)%nat.
Proof.
  unfold decode_last_rune, err1. destruct (rev d) as [|l0 q]; [discriminate|].
  destruct (bN l0 <? rune_self); [intros H; inversion H; lia|]. cbv zeta.
  destruct (decode_rune _) as [[r' w']|] eqn:E; [|intros H; inversion H; lia].
  destruct (Nat.eqb w' _); intros H; inversion H; subst; [|lia].
  apply decode_rune_width in E. lia.
Qed.

Lemma trim_left_fuel_eq f : forall d, trim_left_fuel f d = trim_left_runes_fuel f d.
Proof.
  induction f as [|f IH]; intros d; [reflexivity|].
  cbn [trim_left_fuel trim_left_runes_fuel]. rewrite space_prefix_decode. unfold space_width.
  destruct (decode_rune d) as [[r w]|] eqn:E; [|reflexivity].
  destruct (is_space_rune r); [|reflexivity].
  apply decode_rune_width in E. destruct w as [|w]; [lia|]. apply IH.
Qed.

(* TrimLeftFunc(d, unicode.IsSpace) *)
Theorem trim_left_eq d : trim_left d = trim_left_runes d.
Proof. apply trim_left_fuel_eq. Qed.

Lemma trim_right_fuel_eq f : forall d,
  rev (trim_right_rev_fuel f (rev d)) = trim_right_runes_fuel f d.
Proof.
  induction f as [|f IH]; intros d; [apply rev_involutive|].
  cbn [trim_right_rev_fuel trim_right_runes_fuel]. rewrite space_suffix_decode.
  unfold space_width_last.
  destruct (decode_last_rune d) as [[r w]|] eqn:E; [|apply rev_involutive].
  destruct (is_space_rune r); [|apply rev_involutive].
  apply decode_last_rune_width in E. destruct w as [|w]; [lia|].
  rewrite skipn_rev. apply IH.
Qed.

(* TrimRightFunc(d, unicode.IsSpace) *)
Theorem trim_right_eq d : trim_right d = trim_right_runes d.
Proof. apply trim_right_fuel_eq. Qed.

(* strings.TrimSpace: the byte-table implementation of Lib/Bytes.v strips exactly the
   white-space runes (unicode.IsSpace of the regenerated tables) at both ends *)
Theorem trim_space_eq d : trim_space d = trim_space_runes d.
Proof. unfold trim_space, trim_space_runes. now rewrite trim_left_eq, trim_right_eq. Qed.

Theorem trim_all_eq d :
  trim_space d = trim_space_runes d /\ trim_left d = trim_left_runes d /\ trim_right d = trim_right_runes d.
Proof. split; [apply trim_space_eq|split; [apply trim_left_eq|apply trim_right_eq]]. Qed.

(* ------------------------------------------------------------------ *)
(* utf8.Valid                                                          *)

Lemma is_err1_wide r w : (2 <= w)%nat -> is_err1 (r, w) = false.
Proof.
  intros H. unfold is_err1. cbn [fst snd]. destruct w as [|[|w]]; try lia.
  apply andb_false_r.
Qed.

Lemma utf8_valid_fuel_eq f : forall d, utf8_valid_fuel f d = runes_ok_fuel f d.
Proof.
  induction f as [|f IH]; intros d; [reflexivity|].
  cbn [utf8_valid_fuel runes_ok_fuel]. destruct d as [|b r]; [reflexivity|].
  unfold decode_rune, err1, rune_self. fold (second3 b) (second4 b).
  destruct (bN b <? 128) eqn:E0.
  { unfold is_err1. cbn [fst snd skipn]. apply N.ltb_lt in E0.
    replace (bN b =? rune_error) with false by (symmetry; apply N.eqb_neq; unfold rune_error; lia).
    apply IH. }
  destruct (in_range 194 223 b).
  { destruct r as [|c1 r']; [reflexivity|]. destruct (cont c1); [|reflexivity].
    rewrite is_err1_wide by lia. cbn [snd skipn andb]. apply IH. }
  destruct (in_range 224 239 b).
  { destruct r as [|c1 [|c2 r']]; try reflexivity.
    change (if bN b =? 224 then in_range 160 191 c1
            else if bN b =? 237 then in_range 128 159 c1 else cont c1) with (second3 b c1).
    destruct (second3 b c1 && cont c2); [|reflexivity].
    rewrite is_err1_wide by lia. cbn [snd skipn andb]. apply IH. }
  destruct (in_range 240 244 b); [|reflexivity].
  destruct r as [|c1 [|c2 [|c3 r']]]; try reflexivity.
  change (if bN b =? 240 then in_range 144 191 c1
          else if bN b =? 244 then in_range 128 143 c1 else cont c1) with (second4 b c1).
  destruct (second4 b c1 && cont c2 && cont c3); [|reflexivity].
  rewrite is_err1_wide by lia. cbn [snd skipn andb]. apply IH.
Qed.

(* utf8.Valid: the DFA of Lib/Bytes.v accepts exactly the byte strings that decode
   rune by rune without the error answer *)
Theorem utf8_valid_eq d : utf8_valid d = runes_ok d.
Proof. apply utf8_valid_fuel_eq. Qed.

Lemma runes_ok_fuel_valid f : forall d, (length d <= f)%nat -> runes_ok_fuel f d = true -> valid_runes d.
Proof.
  induction f as [|f IH]; intros d Hl H.
  - destruct d; [constructor|discriminate].
  - cbn [runes_ok_fuel] in H. destruct (decode_rune d) as [[r w]|] eqn:E.
    + destruct (is_err1 (r, w)) eqn:Ee; [discriminate|]. cbn [snd] in H.
      apply (valid_rune d r w E Ee). apply IH; [|assumption].
      assert (Hw := decode_rune_width d r w E). rewrite skipn_length.
      destruct d; [discriminate|]. cbn [length] in *. lia.
    + destruct d; [constructor|]. unfold decode_rune in E.
      repeat match type of E with
      | context [if ?c then _ else _] => destruct c
      | context [match ?l with [] => _ | _ :: _ => _ end] => destruct l
      end; discriminate.
Qed.

Lemma valid_runes_ok d : valid_runes d -> forall f, (length d <= f)%nat -> runes_ok_fuel f d = true.
Proof.
  induction 1 as [|d r w E Ee Hv IH]; intros f Hl.
  - destruct f; reflexivity.
  - assert (Hw := decode_rune_width d r w E).
    destruct d as [|b d']; [discriminate|]. destruct f as [|f]; [cbn [length] in Hl; lia|].
    cbn [runes_ok_fuel]. rewrite E, Ee. cbn [snd]. apply IH.
    rewrite skipn_length. cbn [length] in *. lia.
Qed.

Theorem utf8_valid_iff d : utf8_valid d = true <-> valid_runes d.
Proof.
  rewrite utf8_valid_eq. unfold runes_ok. split.
  - apply runes_ok_fuel_valid. lia.
  - intros H. now apply valid_runes_ok.
Qed.

(* Extension of Lib/GoSem.v and Lib/GoSemSeg.v (the semantic library of the Go subset that
   harness/go2coq translates): arithmetic on int64 and on named types over it (time.Duration),
   for tables that set Config.Int64Arith (go2coq/int64.go).  Definitions only, each with the Go
   construct it denotes.

   An int64 value is the Z it denotes, in [-2^63, 2^63).  The language specification
   ("Integer overflow"): for signed integers the operations +, -, * and << may legally overflow
   and the resulting value is deterministically defined by the signed integer representation
   (two's complement, wrap-around), without a run-time panic; x / y truncates towards zero and
   panics at run time when y = 0; the one overflowing quotient, the most negative value divided
   by -1, is that value itself (and the remainder 0). *)
From Coq Require Import ZArith.
From GI Require Import Lib.GoSem.
Local Open Scope Z_scope.

Definition i64_two63 : Z := 9223372036854775808.
Definition i64_two64 : Z := 18446744073709551616.

(* the int64 with the bit pattern of the low 64 bits of z *)
Definition go_wrap64 (z : Z) : Z := (z + i64_two63) mod i64_two64 - i64_two63.

(* a + b, a - b, a * b, -a on int64 operands *)
Definition go_i64_add (a b : Z) : Z := go_wrap64 (a + b).
Definition go_i64_sub (a b : Z) : Z := go_wrap64 (a - b).
Definition go_i64_mul (a b : Z) : Z := go_wrap64 (a * b).
Definition go_i64_neg (a : Z) : Z := go_wrap64 (- a).

(* a / b and a % b on int64 operands: run-time panic for b = 0 *)
Definition go_i64_quo (a b : Z) : res Z :=
  if b =? 0 then Panic else Ok (go_wrap64 (Z.quot a b)).
Definition go_i64_rem (a b : Z) : res Z :=
  if b =? 0 then Panic else Ok (Z.rem a b).

(* the values of the type *)
Definition is_i64 (z : Z) : Prop := - i64_two63 <= z < i64_two63.

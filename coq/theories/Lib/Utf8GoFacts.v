(* decode_rune_tab (Lib/Utf8Go.v: utf8.DecodeRune with the regenerated tables first /
   acceptRanges, mask tricks, shifts and ors) never fails on an index and equals the
   arithmetic decode_rune of Lib/Utf8.v on every byte string. *)
From Coq Require Import List Bool Arith NArith ZArith Lia.
From Coq.Strings Require Import Byte.
From GI Require Import Lib.Bytes Lib.BytesFacts Gen.UnicodeConsts Gen.Utf8TablesConsts Lib.Utf8
  Lib.Utf8Tables Lib.Utf8Facts Lib.Utf8Go.
Import ListNotations.
Open Scope N_scope.

(* the regenerated constants of unicode/utf8 agree with those of Gen/UnicodeConsts.v *)
Lemma utf8_consts :
  utf8_rune_error = rune_error /\ utf8_rune_self = rune_self /\ utf8_locb = 128 /\ utf8_hicb = 191
  /\ utf8_maskx = 63 /\ utf8_mask2 = 31 /\ utf8_mask3 = 15 /\ utf8_mask4 = 7 /\ utf8_as = 240.
Proof. repeat split. Qed.

(* ------------------------------------------------------------------ *)
(* the table first, by classes of the first byte (256 look-ups)        *)

Definition first_class (b : byte) : N :=
  if bN b <? 128 then 240
  else if in_range 194 223 b then 2
  else if in_range 224 239 b then
    (if bN b =? 224 then 19 else if bN b =? 237 then 35 else 3)
  else if in_range 240 244 b then
    (if bN b =? 240 then 52 else if bN b =? 244 then 68 else 4)
  else 241.

Lemma first_lookup b : nthN utf8_first (bN b) = Some (first_class b).
Proof. destruct b; reflexivity. Qed.

(* ------------------------------------------------------------------ *)
(* masks, shifts and ors as arithmetic                                 *)

Lemma land_pow2_disjoint x k m : m < 2 ^ k -> N.land (x * 2 ^ k) m = 0.
Proof.
  intros Hm. apply N.bits_inj. intros i. rewrite N.land_spec, N.bits_0.
  destruct (N.lt_ge_cases i k) as [Hi|Hi].
  - now rewrite N.mul_pow2_bits_low.
  - rewrite andb_comm. destruct (N.eq_dec m 0) as [->|Hne]; [now rewrite N.bits_0|].
    rewrite N.bits_above_log2; [reflexivity|].
    apply N.lt_le_trans with k; [|assumption]. apply N.log2_lt_pow2; lia.
Qed.

Lemma lor_add_low x k m : m < 2 ^ k -> N.lor (x * 2 ^ k) m = x * 2 ^ k + m.
Proof.
  intros Hm. pose proof (land_pow2_disjoint x k m Hm) as H.
  rewrite (N.add_nocarry_lxor _ _ H). symmetry. now apply N.lxor_lor.
Qed.

Lemma shiftl6 a : N.shiftl a 6 = a * 2 ^ 6.   Proof. apply N.shiftl_mul_pow2. Qed.
Lemma shiftl12 a : N.shiftl a 12 = a * 2 ^ 12. Proof. apply N.shiftl_mul_pow2. Qed.
Lemma shiftl18 a : N.shiftl a 18 = a * 2 ^ 18. Proof. apply N.shiftl_mul_pow2. Qed.

Lemma join2 a b : b < 64 -> N.lor (N.shiftl a 6) b = a * 64 + b.
Proof. intros H. rewrite shiftl6, lor_add_low by (cbn; lia). reflexivity. Qed.

Lemma join3 a b c : b < 64 -> c < 64 ->
  N.lor (N.lor (N.shiftl a 12) (N.shiftl b 6)) c = a * 4096 + b * 64 + c.
Proof.
  intros Hb Hc. rewrite shiftl12, shiftl6.
  rewrite (lor_add_low a 12 (b * 2 ^ 6)) by (cbn; lia).
  replace (a * 2 ^ 12 + b * 2 ^ 6) with ((a * 64 + b) * 2 ^ 6) by (cbn; lia).
  rewrite lor_add_low by (cbn; lia). cbn. lia.
Qed.

Lemma join4 a b c d : b < 64 -> c < 64 -> d < 64 ->
  N.lor (N.lor (N.lor (N.shiftl a 18) (N.shiftl b 12)) (N.shiftl c 6)) d
  = a * 262144 + b * 4096 + c * 64 + d.
Proof.
  intros Hb Hc Hd. rewrite shiftl18, shiftl12, shiftl6.
  rewrite (lor_add_low a 18 (b * 2 ^ 12)) by (cbn; lia).
  replace (a * 2 ^ 18 + b * 2 ^ 12) with ((a * 64 + b) * 2 ^ 12) by (cbn; lia).
  rewrite (lor_add_low _ 12 (c * 2 ^ 6)) by (cbn; lia).
  replace ((a * 64 + b) * 2 ^ 12 + c * 2 ^ 6) with ((a * 4096 + b * 64 + c) * 2 ^ 6) by (cbn; lia).
  rewrite lor_add_low by (cbn; lia). cbn. lia.
Qed.

(* p0 & mask for the leaders, b & maskx for continuation bytes (256 cases each) *)
Lemma land_cont c : cont c = true -> N.land (bN c) 63 = bN c - 128.
Proof. destruct c; try discriminate; reflexivity. Qed.
Lemma land_lead2 b : in_range 194 223 b = true -> N.land (bN b) 31 = bN b - 192.
Proof. destruct b; try discriminate; reflexivity. Qed.
Lemma land_lead3 b : in_range 224 239 b = true -> N.land (bN b) 15 = bN b - 224.
Proof. destruct b; try discriminate; reflexivity. Qed.
Lemma land_lead4 b : in_range 240 244 b = true -> N.land (bN b) 7 = bN b - 240.
Proof. destruct b; try discriminate; reflexivity. Qed.

Lemma cont_lt64 c : cont c = true -> bN c - 128 < 64.
Proof. intros H. apply cont_iff in H. lia. Qed.

(* b < lo || hi < b  is the negation of the range test *)
Lemma out_of_range lo hi b : ((bN b <? lo) || (hi <? bN b)) = negb (in_range lo hi b).
Proof.
  unfold in_range. rewrite negb_andb, <- !N.ltb_antisym. reflexivity.
Qed.

(* ------------------------------------------------------------------ *)

Definition dres_of (o : option (N * nat)) : dres :=
  match o with Some (r, w) => DOk r w | None => DEmpty end.

Theorem decode_rune_tab_eq p : decode_rune_tab p = dres_of (decode_rune p).
Proof.
  destruct p as [|b0 rest]; [reflexivity|].
  unfold decode_rune_tab, decode_rune, err1. cbv zeta. rewrite first_lookup. unfold first_class.
  destruct utf8_consts as [K1 [K2 [K3 [K4 [K5 [K6 [K7 [K8 K9]]]]]]]].
  rewrite ?K1, ?K2, ?K3, ?K4, ?K5, ?K6, ?K7, ?K8, ?K9. unfold rune_self.
  destruct (bN b0 <? 128) eqn:E0.
  { cbn [N.leb N.odd dres_of]. replace (240 <=? 240) with true by reflexivity. cbn [N.odd].
    now rewrite N.ldiff_0_r, N.land_0_r, N.lor_0_r. }
  destruct (in_range 194 223 b0) eqn:E2.
  { replace (240 <=? 2) with false by reflexivity.
    change (N.to_nat (N.land 2 7)) with 2%nat. change (nthN utf8_accept_ranges (N.shiftr 2 4)) with (Some (128, 191)).
    destruct rest as [|c1 r1]; [reflexivity|]. cbn [length nth_error Nat.ltb Nat.leb].
    rewrite out_of_range. fold (cont c1). destruct (cont c1) eqn:Ec; cbn [negb dres_of]; [|reflexivity].
    rewrite land_lead2, land_cont by assumption. rewrite join2 by (now apply cont_lt64). reflexivity. }
  destruct (in_range 224 239 b0) eqn:E3.
  { assert (Hx : exists x acc, (if bN b0 =? 224 then 19 else if bN b0 =? 237 then 35 else 3) = x /\
               (240 <=? x) = false /\ N.to_nat (N.land x 7) = 3%nat /\
               nthN utf8_accept_ranges (N.shiftr x 4) = Some acc /\
               (forall c, negb (in_range (fst acc) (snd acc) c) = negb (second3 b0 c))).
    { unfold second3. destruct (bN b0 =? 224); [|destruct (bN b0 =? 237)];
        eexists; eexists; repeat split; reflexivity. }
    destruct Hx as [x [[lo hi] [-> [-> [-> [-> Hacc]]]]]]. cbn [fst snd] in Hacc.
    destruct rest as [|c1 [|c2 r2]]; try reflexivity.
    cbn [length nth_error Nat.ltb Nat.leb]. rewrite out_of_range, Hacc.
    destruct (second3 b0 c1) eqn:Es; cbn [negb andb dres_of]; [|reflexivity].
    rewrite out_of_range. fold (cont c2). destruct (cont c2) eqn:Ec2; cbn [negb dres_of]; [|reflexivity].
    assert (Ec1 : cont c1 = true) by (apply cont_iff; apply second3_true in Es; lia).
    rewrite land_lead3, !land_cont by assumption.
    rewrite join3 by (now apply cont_lt64). reflexivity. }
  destruct (in_range 240 244 b0) eqn:E4.
  { assert (Hx : exists x acc, (if bN b0 =? 240 then 52 else if bN b0 =? 244 then 68 else 4) = x /\
               (240 <=? x) = false /\ N.to_nat (N.land x 7) = 4%nat /\
               nthN utf8_accept_ranges (N.shiftr x 4) = Some acc /\
               (forall c, negb (in_range (fst acc) (snd acc) c) = negb (second4 b0 c))).
    { unfold second4. destruct (bN b0 =? 240); [|destruct (bN b0 =? 244)];
        eexists; eexists; repeat split; reflexivity. }
    destruct Hx as [x [[lo hi] [-> [-> [-> [-> Hacc]]]]]]. cbn [fst snd] in Hacc.
    destruct rest as [|c1 [|c2 [|c3 r3]]]; try reflexivity.
    cbn [length nth_error Nat.ltb Nat.leb]. rewrite out_of_range, Hacc.
    destruct (second4 b0 c1) eqn:Es; cbn [negb andb dres_of]; [|reflexivity].
    rewrite out_of_range. fold (cont c2). destruct (cont c2) eqn:Ec2; cbn [negb andb dres_of]; [|reflexivity].
    rewrite out_of_range. fold (cont c3). destruct (cont c3) eqn:Ec3; cbn [negb dres_of]; [|reflexivity].
    assert (Ec1 : cont c1 = true) by (apply cont_iff; apply second4_true in Es; lia).
    rewrite land_lead4, !land_cont by assumption.
    rewrite join4 by (now apply cont_lt64). reflexivity. }
  (* not a leader: first[p0] = xx, the mask is all ones *)
  replace (240 <=? 241) with true by reflexivity. cbn [N.odd dres_of].
  assert (Hb : bN b0 < 256) by (destruct b0; reflexivity).
  assert (Hl : N.ldiff (bN b0) 4294967295 = 0).
  { apply N.bits_inj. intros i. rewrite N.ldiff_spec, N.bits_0.
    destruct (N.lt_ge_cases i 32) as [Hi|Hi].
    - replace 4294967295 with (N.ones 32) by reflexivity. rewrite N.ones_spec_low by assumption.
      apply andb_false_r.
    - destruct (N.eq_dec (bN b0) 0) as [->|Hne]; [now rewrite N.bits_0|].
      rewrite N.bits_above_log2; [reflexivity|].
      apply N.lt_le_trans with 32; [|assumption]. apply N.log2_lt_pow2; [lia|].
      apply N.lt_trans with 256; [assumption|reflexivity]. }
  change (N.odd 241) with true. cbv iota. rewrite Hl. reflexivity.
Qed.

Theorem decode_rune_tab_no_panic p : decode_rune_tab p <> DPanic.
Proof. rewrite decode_rune_tab_eq. destruct (decode_rune p) as [[r w]|]; discriminate. Qed.

(* Rune-level specifications for the byte-level functions of Lib/Bytes.v
   (trim_space, utf8_valid): a UTF-8 decoder with the semantics of Go's
   utf8.DecodeRune / utf8.DecodeLastRune (invalid or short encoding -> RuneError,
   width 1), unicode.IsSpace read from the regenerated tables of the Go standard
   library (Gen/UnicodeConsts.v), strings.TrimSpace as "drop white-space runes from
   both ends" (TrimLeftFunc / TrimRightFunc over decoded runes) and utf8.Valid as
   "every rune decodes without error".  Definitions only; Utf8Facts.v proves the
   byte-level functions equal to these.  The decoder itself is compared with the Go
   library by the correspondence run of harness/cmd/txtar. *)
From Coq Require Import List Bool Arith NArith.
From Coq.Strings Require Import Byte.
From GI Require Import Lib.Bytes Gen.UnicodeConsts.
Import ListNotations.

(* (RuneError, 1): what DecodeRune returns for an invalid or truncated encoding *)
Definition err1 : option (N * nat) := Some (rune_error, 1).

(* the second byte of a 3- and 4-byte encoding is restricted for four leaders
   (acceptRanges of unicode/utf8): E0 A0..BF (no overlong), ED 80..9F (no surrogate),
   F0 90..BF (no overlong), F4 80..8F (<= U+10FFFF) *)
Definition second3 (b c1 : byte) : bool :=
  if N.eqb (bN b) 224 then in_range 160 191 c1
  else if N.eqb (bN b) 237 then in_range 128 159 c1
  else cont c1.
Definition second4 (b c1 : byte) : bool :=
  if N.eqb (bN b) 240 then in_range 144 191 c1
  else if N.eqb (bN b) 244 then in_range 128 143 c1
  else cont c1.

(* utf8.DecodeRune(d): None stands for (RuneError, 0), the answer for empty input *)
Definition decode_rune (d : bytes) : option (N * nat) :=
  match d with
  | [] => None
  | b :: r =>
      if N.ltb (bN b) rune_self then Some (bN b, 1)
      else if in_range 194 223 b then
        match r with
        | c1 :: _ =>
            if cont c1 then Some (((bN b - 192) * 64 + (bN c1 - 128))%N, 2) else err1
        | _ => err1
        end
      else if in_range 224 239 b then
        match r with
        | c1 :: c2 :: _ =>
            if second3 b c1 && cont c2
            then Some (((bN b - 224) * 4096 + (bN c1 - 128) * 64 + (bN c2 - 128))%N, 3)
            else err1
        | _ => err1
        end
      else if in_range 240 244 b then
        match r with
        | c1 :: c2 :: c3 :: _ =>
            if second4 b c1 && cont c2 && cont c3
            then Some (((bN b - 240) * 262144 + (bN c1 - 128) * 4096
                        + (bN c2 - 128) * 64 + (bN c3 - 128))%N, 4)
            else err1
        | _ => err1
        end
      else err1
  end.

(* utf8.RuneStart: not a continuation byte *)
Definition rune_start (b : byte) : bool := negb (in_range 128 191 b).

(* DecodeLastRune steps back from the last byte over at most UTFMax-1 = 3 bytes until
   it meets a byte that can start a rune (or the start of the input; with four
   non-starting bytes in front of it the loop leaves start one further back).
   [q] = the bytes in front of the last one, nearest first; result = how many of
   them belong to the candidate encoding. *)
Definition last_rune_back (q : bytes) : nat :=
  match q with
  | [] => 0
  | b1 :: q1 =>
      if rune_start b1 then 1 else
      match q1 with
      | [] => 1
      | b2 :: q2 =>
          if rune_start b2 then 2 else
          match q2 with
          | [] => 2
          | b3 :: q3 =>
              if rune_start b3 then 3 else
              match q3 with [] => 3 | _ :: _ => 4 end
          end
      end
  end.

(* utf8.DecodeLastRune(d) *)
Definition decode_last_rune (d : bytes) : option (N * nat) :=
  match rev d with
  | [] => None
  | l0 :: q =>
      if N.ltb (bN l0) rune_self then Some (bN l0, 1) else
      let k := last_rune_back q in
      (* r, size = DecodeRune(p[start:end]); if start+size != end { return RuneError, 1 } *)
      match decode_rune (skipn (length d - S k) d) with
      | Some (r, w) => if Nat.eqb w (S k) then Some (r, w) else err1
      | None => err1
      end
  end.

(* membership in a unicode.RangeTable *)
Definition in_ranges (t : list (N * N * N)) (r : N) : bool :=
  existsb (fun x => let '(lo, hi, stride) := x in
                    N.leb lo r && N.leb r hi && N.eqb ((r - lo) mod stride) 0) t.

(* unicode.IsSpace *)
Definition is_space_rune (r : N) : bool :=
  if N.leb r max_latin1 then existsb (N.eqb r) latin1_space
  else in_ranges white_space_ranges r.

(* bytes.TrimLeftFunc(d, unicode.IsSpace): drop leading white-space runes *)
Fixpoint trim_left_runes_fuel (fuel : nat) (d : bytes) : bytes :=
  match fuel with
  | 0 => d
  | S f =>
      match decode_rune d with
      | Some (r, w) => if is_space_rune r then trim_left_runes_fuel f (skipn w d) else d
      | None => d
      end
  end.
Definition trim_left_runes (d : bytes) : bytes := trim_left_runes_fuel (length d) d.

(* bytes.TrimRightFunc(d, unicode.IsSpace): drop trailing white-space runes *)
Fixpoint trim_right_runes_fuel (fuel : nat) (d : bytes) : bytes :=
  match fuel with
  | 0 => d
  | S f =>
      match decode_last_rune d with
      | Some (r, w) =>
          if is_space_rune r then trim_right_runes_fuel f (firstn (length d - w) d) else d
      | None => d
      end
  end.
Definition trim_right_runes (d : bytes) : bytes := trim_right_runes_fuel (length d) d.

(* strings.TrimSpace = TrimFunc(s, unicode.IsSpace) = TrimRightFunc(TrimLeftFunc(s)) *)
Definition trim_space_runes (d : bytes) : bytes := trim_right_runes (trim_left_runes d).

(* utf8.Valid: the input is a sequence of runes each of which decodes without error
   (RuneError with width 1 is the error answer; U+FFFD properly encoded has width 3) *)
Definition is_err1 (rw : N * nat) : bool := N.eqb (fst rw) rune_error && Nat.eqb (snd rw) 1.

Fixpoint runes_ok_fuel (fuel : nat) (d : bytes) : bool :=
  match fuel with
  | 0 => match d with [] => true | _ => false end
  | S f =>
      match decode_rune d with
      | None => true
      | Some rw => if is_err1 rw then false else runes_ok_fuel f (skipn (snd rw) d)
      end
  end.
Definition runes_ok (d : bytes) : bool := runes_ok_fuel (length d) d.

(* the same as a relation *)
Inductive valid_runes : bytes -> Prop :=
| valid_nil : valid_runes []
| valid_rune d r w :
    decode_rune d = Some (r, w) -> is_err1 (r, w) = false ->
    valid_runes (skipn w d) -> valid_runes d.

(* Unicode scalar values and the length of their (shortest-form) UTF-8 encoding *)
Definition is_scalar (r : N) : bool :=
  N.ltb r 55296 || (N.leb 57344 r && N.leb r max_rune).
Definition rune_len (r : N) : nat :=
  if N.ltb r 128 then 1 else if N.ltb r 2048 then 2 else if N.ltb r 65536 then 3 else 4.

Definition byte_of_N (n : N) : byte := match Byte.of_N n with Some b => b | None => x00 end.

(* utf8.AppendRune for a scalar value *)
Definition encode_rune (r : N) : bytes :=
  (if N.ltb r 128 then [byte_of_N r]
   else if N.ltb r 2048 then [byte_of_N (192 + r / 64); byte_of_N (128 + r mod 64)]
   else if N.ltb r 65536 then
     [byte_of_N (224 + r / 4096); byte_of_N (128 + (r / 64) mod 64); byte_of_N (128 + r mod 64)]
   else
     [byte_of_N (240 + r / 262144); byte_of_N (128 + (r / 4096) mod 64);
      byte_of_N (128 + (r / 64) mod 64); byte_of_N (128 + r mod 64)])%N.

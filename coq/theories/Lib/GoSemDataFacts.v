(* Facts about the vocabulary of Lib/GoSemData.v (and the slice operations of GoSemExt.v) at
   natural-number indexes: what the checked operations compute when the Z index is the image
   of a nat, used by the proofs that tie generated translations to models written over nat. *)
From Coq Require Import List Bool Arith ZArith Lia.
From Coq.Strings Require Import Byte.
From GI Require Import Lib.Bytes Lib.BytesFacts Lib.GoSem Lib.GoSemExt Lib.GoSemData.
Import ListNotations.

(* ---------------------------------------------------------------- index / slice / store / make *)

Lemma go_index_of_nat {A} (l : list A) (i : nat) :
  go_index_of l (Z.of_nat i) = match nth_error l i with Some a => Ok a | None => Panic end.
Proof.
  unfold go_index_of, index_of_z, len_of. rewrite Nat2Z.id.
  destruct (Z.ltb_spec (Z.of_nat i) (Z.of_nat (length l))) as [H|H];
    destruct (Z.leb_spec 0 (Z.of_nat i)); try lia; cbn [andb].
  - reflexivity.
  - assert (E : nth_error l i = None) by (apply nth_error_None; lia). now rewrite E.
Qed.

Lemma go_index_of_map_nat {A B} (f : A -> B) (l : list A) (i : nat) :
  go_index_of (map f l) (Z.of_nat i) = match nth_error l i with Some a => Ok (f a) | None => Panic end.
Proof. rewrite go_index_of_nat, nth_error_map. now destruct (nth_error l i). Qed.

Lemma go_index_of_neg {A} (l : list A) (i : Z) : (i < 0)%Z -> go_index_of l i = Panic.
Proof.
  intro H. unfold go_index_of, index_of_z. destruct (Z.leb_spec 0 i); [lia|]. reflexivity.
Qed.

Lemma go_slice_of_nat {A} (l : list A) (a b : nat) :
  go_slice_of l (Z.of_nat a) (Z.of_nat b) =
  if (a <=? b) && (b <=? length l) then Ok (firstn (b - a) (skipn a l)) else Panic.
Proof.
  unfold go_slice_of, slice_of_z, len_of. rewrite !Nat2Z.id.
  destruct (Nat.leb_spec a b), (Nat.leb_spec b (length l)); cbn [andb];
    destruct (Z.leb_spec 0 (Z.of_nat a)); try lia;
    destruct (Z.leb_spec (Z.of_nat a) (Z.of_nat b)); try lia;
    destruct (Z.leb_spec (Z.of_nat b) (Z.of_nat (length l))); try lia; reflexivity.
Qed.

Lemma go_store_of_nat {A} (l : list A) (i : nat) (v : A) :
  go_store_of l (Z.of_nat i) v =
  if i <? length l then Ok (firstn i l ++ v :: skipn (S i) l) else Panic.
Proof.
  unfold go_store_of, len_of. rewrite Nat2Z.id.
  destruct (Nat.ltb_spec i (length l));
    destruct (Z.leb_spec 0 (Z.of_nat i)); try lia;
    destruct (Z.ltb_spec (Z.of_nat i) (Z.of_nat (length l))); try lia; reflexivity.
Qed.

Lemma go_store_of_at {A} (pre : list A) (a : A) (rest : list A) (v : A) :
  go_store_of (pre ++ a :: rest) (len_of pre) v = Ok (pre ++ v :: rest).
Proof.
  unfold len_of. rewrite go_store_of_nat, app_length. cbn [length].
  destruct (Nat.ltb_spec (length pre) (length pre + S (length rest))); [|lia].
  rewrite firstn_app, Nat.sub_diag, firstn_all, skipn_app, skipn_all2 by lia.
  cbn [firstn]. rewrite app_nil_r. replace (S (length pre) - length pre) with 1 by lia. reflexivity.
Qed.

Lemma go_make_of_nat {A} (z : A) (n : nat) : go_make_of z (Z.of_nat n) = Ok (repeat z n).
Proof.
  unfold go_make_of. destruct (Z.ltb_spec (Z.of_nat n) 0); [lia|]. now rewrite Nat2Z.id.
Qed.

Lemma len_of_map {A B} (f : A -> B) (l : list A) : len_of (map f l) = len_of l.
Proof. unfold len_of. now rewrite map_length. Qed.

Lemma len_of_pos_iff {A} (l : list A) : (len_of l >? 0)%Z = match l with [] => false | _ => true end.
Proof. destruct l; [reflexivity|]. unfold len_of. cbn [length]. apply Z.gtb_lt. lia. Qed.

Lemma go_int_range_nat (n : nat) : go_int_range (Z.of_nat n) = map Z.of_nat (seq 0 n).
Proof. unfold go_int_range. now rewrite Nat2Z.id. Qed.

(* ---------------------------------------------------------------- maps *)

Lemma go_map_find_set {V} (m : gomap V) k v k' :
  go_map_find (go_map_set m k v) k' = if bytes_eqb k k' then Some v else go_map_find m k'.
Proof.
  induction m as [|[a w] m IH]; cbn [go_map_set go_map_find].
  - reflexivity.
  - destruct (bytes_eqb a k) eqn:E; cbn [go_map_find].
    + apply bytes_eqb_eq in E. subst a. now destruct (bytes_eqb k k').
    + rewrite IH. destruct (bytes_eqb a k') eqn:E'; [|reflexivity].
      apply bytes_eqb_eq in E'. subst k'. destruct (bytes_eqb k a) eqn:E2; [|reflexivity].
      apply bytes_eqb_eq in E2. subst k. rewrite bytes_eqb_refl in E. discriminate.
Qed.

Lemma go_map_lookup_get {V} (z : V) m k :
  go_map_lookup z m k = (go_map_get z m k, match go_map_find m k with Some _ => true | None => false end).
Proof. unfold go_map_lookup, go_map_get. now destruct (go_map_find m k). Qed.

(* ---------------------------------------------------------------- sort.Search at nat bounds *)

(* the search loop of the library on nat: the reference the Z loop is compared with *)
Fixpoint search_loop_nat (steps : nat) (f : nat -> res bool) (i j : nat) : res nat :=
  if i <? j then
    match steps with
    | O => OutOfFuel
    | S k =>
        let h := Nat.div2 (i + j) in
        bind (f h) (fun b => if negb b then search_loop_nat k f (h + 1) j else search_loop_nat k f i h)
    end
  else Ok i.

Definition res_map {A B} (f : A -> B) (r : res A) : res B :=
  match r with Ok a => Ok (f a) | Panic => Panic | OutOfFuel => OutOfFuel end.

Lemma div2_of_nat (a : nat) : Z.div2 (Z.of_nat a) = Z.of_nat (Nat.div2 a).
Proof. rewrite Z.div2_div, Nat.div2_div, Nat2Z.inj_div. reflexivity. Qed.

Lemma go_search_loop_nat (fz : Z -> res bool) (fn : nat -> res bool) :
  (forall k, fz (Z.of_nat k) = fn k) ->
  forall steps i j,
    go_search_loop steps fz (Z.of_nat i) (Z.of_nat j) = res_map Z.of_nat (search_loop_nat steps fn i j).
Proof.
  intros Hf. induction steps as [|s IH]; intros i j; cbn [go_search_loop search_loop_nat].
  - destruct (Nat.ltb_spec i j), (Z.ltb_spec (Z.of_nat i) (Z.of_nat j)); try lia; reflexivity.
  - destruct (Nat.ltb_spec i j), (Z.ltb_spec (Z.of_nat i) (Z.of_nat j)); try lia; [|reflexivity].
    replace (Z.of_nat i + Z.of_nat j)%Z with (Z.of_nat (i + j)) by lia.
    rewrite div2_of_nat, Hf.
    destruct (fn (Nat.div2 (i + j))) as [b| |]; cbn [bind]; [|reflexivity|reflexivity].
    destruct b; cbn [negb].
    + apply IH.
    + replace (Z.of_nat (Nat.div2 (i + j)) + 1)%Z with (Z.of_nat (Nat.div2 (i + j) + 1)) by lia. apply IH.
Qed.

Lemma go_sort_Search_nat (fz : Z -> res bool) (fn : nat -> res bool) (n : nat) :
  (forall k, fz (Z.of_nat k) = fn k) ->
  go_sort_Search (Z.of_nat n) fz = res_map Z.of_nat (search_loop_nat n fn 0 n).
Proof.
  intro Hf. unfold go_sort_Search. rewrite Nat2Z.id. apply (go_search_loop_nat fz fn Hf n 0 n).
Qed.

(* ---------------------------------------------------------------- fmt *)

Lemma go_fmt_int_nat (n : nat) : go_fmt_int (Z.of_nat n) = uint_digits (Nat.to_uint n).
Proof.
  unfold go_fmt_int. destruct (Z.ltb_spec (Z.of_nat n) 0); [lia|]. now rewrite Nat2Z.id.
Qed.

Example go_fmt_Sprintf_ex :
  go_fmt_Sprintf [x40; x25; x64; x2c; x25; x73; x25; x25] [FmtInt (-12)%Z; FmtStr [x61]] =
  Ok [x40; x2d; x31; x32; x2c; x61; x25].
Proof. reflexivity. Qed.

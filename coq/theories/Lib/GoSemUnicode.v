(* Semantic library of the Go subset that harness/go2coq translates, part 3: the calls
   into package unicode that classify a rune.  Definitions only.

   unicode.IsLetter(r) / unicode.IsDigit(r) answer from the range tables unicode.Letter
   (category L) and unicode.Digit (category Nd); for r <= unicode.MaxLatin1 the library
   consults a 256-entry property table instead, which agrees with the range tables.  The
   tables are regenerated from the toolchain's standard library on every run
   (Gen/UnicodeLettersConsts.v; the generator checks membership in the dumped table
   against the library function on every code point before it writes the file), and
   [in_ranges] is the membership test of Lib/Utf8.v already used for unicode.IsSpace.
   A rune is a Z (GoSemExt.v); a negative value is no code point. *)
From Coq Require Import List Bool ZArith NArith.
From GI Require Import Lib.Utf8 Gen.UnicodeLettersConsts.

(* unicode.IsLetter(r) *)
Definition go_unicode_IsLetter (r : Z) : bool :=
  (0 <=? r)%Z && in_ranges letter_ranges (Z.to_N r).

(* unicode.IsDigit(r) *)
Definition go_unicode_IsDigit (r : Z) : bool :=
  (0 <=? r)%Z && in_ranges digit_ranges (Z.to_N r).

(* utf8.DecodeRune as the Go standard library codes it: the tables first /
   acceptRanges and the masks of unicode/utf8 (regenerated from the toolchain's source,
   Gen/Utf8TablesConsts.v), table look-ups and indexing with explicit failure, the
   mask-and-or trick for the ASCII / invalid case, shifts and ors for the rune value.
   Definitions only; Utf8GoFacts.v proves it equal to decode_rune of Lib/Utf8.v. *)
From Coq Require Import List Bool Arith NArith.
From Coq.Strings Require Import Byte.
From GI Require Import Lib.Bytes Gen.Utf8TablesConsts.
Import ListNotations.
Open Scope N_scope.

Inductive dres : Type :=
| DOk (r : N) (w : nat)
| DEmpty               (* (RuneError, 0) for empty input *)
| DPanic.              (* an index expression out of range *)

Definition nthN {A : Type} (l : list A) (i : N) : option A := nth_error l (N.to_nat i).

(* func DecodeRune(p []byte) (r rune, size int) *)
Definition decode_rune_tab (p : bytes) : dres :=
  match p with
  | [] => DEmpty
  | p0b :: _ =>
      let n := length p in
      let p0 := bN p0b in
      (* x := first[p0] *)
      match nthN utf8_first p0 with
      | None => DPanic
      | Some x =>
          if utf8_as <=? x then
            (* mask := rune(x) << 31 >> 31 (int32: all ones iff bit 0 of x is set);
               return rune(p[0])&^mask | RuneError&mask, 1 *)
            let mask := if N.odd x then 4294967295 else 0 in
            DOk (N.lor (N.ldiff p0 mask) (N.land utf8_rune_error mask)) 1
          else
            (* sz := int(x & 7); accept := acceptRanges[x>>4] *)
            let sz := N.to_nat (N.land x 7) in
            match nthN utf8_accept_ranges (N.shiftr x 4) with
            | None => DPanic
            | Some (lo, hi) =>
                if Nat.ltb n sz then DOk utf8_rune_error 1 else
                match nth_error p 1 with
                | None => DPanic
                | Some b1b =>
                    let b1 := bN b1b in
                    if (b1 <? lo) || (hi <? b1) then DOk utf8_rune_error 1 else
                    if Nat.leb sz 2 then
                      DOk (N.lor (N.shiftl (N.land p0 utf8_mask2) 6) (N.land b1 utf8_maskx)) 2
                    else
                    match nth_error p 2 with
                    | None => DPanic
                    | Some b2b =>
                        let b2 := bN b2b in
                        if (b2 <? utf8_locb) || (utf8_hicb <? b2) then DOk utf8_rune_error 1 else
                        if Nat.leb sz 3 then
                          DOk (N.lor (N.lor (N.shiftl (N.land p0 utf8_mask3) 12)
                                            (N.shiftl (N.land b1 utf8_maskx) 6))
                                     (N.land b2 utf8_maskx)) 3
                        else
                        match nth_error p 3 with
                        | None => DPanic
                        | Some b3b =>
                            let b3 := bN b3b in
                            if (b3 <? utf8_locb) || (utf8_hicb <? b3) then DOk utf8_rune_error 1 else
                            DOk (N.lor (N.lor (N.lor (N.shiftl (N.land p0 utf8_mask4) 18)
                                                     (N.shiftl (N.land b1 utf8_maskx) 12))
                                              (N.shiftl (N.land b2 utf8_maskx) 6))
                                       (N.land b3 utf8_maskx)) 4
                        end
                    end
                end
            end
      end
  end.

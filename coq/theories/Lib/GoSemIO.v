(* Third extension of Lib/GoSem.v (the semantic library of the Go subset that harness/go2coq
   translates; see also Lib/GoSemExt.v, Lib/GoSemState.v): state passing in full, for code
   written around a reader (translator side: harness/go2coq/state.go, Config.StatePassing).
   Definitions only, each with the Go construct it denotes.

   Conventions added to those of GoSem.v / GoSemExt.v / GoSemState.v
   - a method with a pointer receiver  func (r T-pointer) m(x) (y)  (T a struct type of the
     translator's table) is the function  m : T -> X -> res (T * Y): it takes the value of
     the receiver's target and returns the value afterwards in front of its results, whether
     it changes it or not; a call r.m(x) may stand anywhere in an expression and rebinds the
     caller's r.  The translator checks the discipline that makes this exact: the pointer
     is the receiver or is held in one local variable assigned once (from a struct literal,
     new(T) or a translated function that returns a fresh pointer), is used for field
     access and method calls only, is never stored, compared, passed as an ordinary
     argument or returned by the callee, and is not read in a statement in which a call
     changes it (Go leaves that order open; the right operand of && and || excepted);
   - a parameter of type pointer-to-[]T is [option (list T)] (None = nil), passed in and
     returned like a receiver; the pointee is only ever extended (the only form: append to
     the pointee, stored back) and the pointer tested against nil.  That the caller passes
     pointers to distinct variables is assumed at exported entry points and checked at the
     calls between translated functions;
   - panic(constant) is [Panic];
   - with Config.ErrorValues an error value is a [goerr]: nil, or the value held by a
     package-level variable  var e = errors.New("...")  of the translated package or named in
     the table (io.EOF).  Every such variable holds a value of its own (errors.New returns
     a new pointer each time), so == on them is equality of the names.  Error values made
     anywhere else are rejected by the translator in this mode;
   - a value of a library type named in Config.StateTypes (bufio.Reader behind its pointer,
     io.Reader) is state used linearly, denoted by what it still has to deliver: the list of
     the bytes not yet read.  A library method marked State takes that value and returns the
     new one in front of its results.  The input behind an io.Reader is assumed to deliver
     its bytes and then io.EOF, for ever: a reader that fails with another error, or returns
     (0, nil) for ever, is outside this semantics. *)
From Coq Require Import List Bool Arith ZArith.
From Coq.Strings Require Import Byte.
From GI Require Import Lib.Bytes Lib.GoSem.
Import ListNotations.

(* ------------------------------------------------------------------ *)
(* error values                                                        *)

Inductive goerr : Type :=
| ErrNil                      (* nil *)
| ErrVal (name : bytes).      (* the value of the package-level variable "importpath.Name" *)

(* e1 == e2 *)
Definition goerr_eqb (a b : goerr) : bool :=
  match a, b with
  | ErrNil, ErrNil => true
  | ErrVal x, ErrVal y => bytes_eqb x y
  | _, _ => false
  end.

(* ------------------------------------------------------------------ *)
(* pointer parameters                                                  *)

(* p == nil *)
Definition go_ptr_is_nil {A : Type} (p : option A) : bool :=
  match p with None => true | Some _ => false end.
(* *p: a nil pointer dereference panics *)
Definition go_ptr_load {A : Type} (p : option A) : res A :=
  match p with Some a => Ok a | None => Panic end.
(* *p = v; the value is p (its pointee) afterwards *)
Definition go_ptr_store {A : Type} (p : option A) (v : A) : res (option A) :=
  match p with Some _ => Ok (Some v) | None => Panic end.

(* ------------------------------------------------------------------ *)
(* io, bufio: a reader is the list of the bytes it has not delivered yet *)

(* io.EOF *)
Definition go_io_EOF : goerr := ErrVal [x69; x6f; x2e; x45; x4f; x46].

(* bufio.NewReader(rd) *)
Definition go_bufio_NewReader (rd : bytes) : bytes := rd.

(* b.ReadByte(): the next byte, or (0, io.EOF) at the end of the input *)
Definition go_bufio_ReadByte (b : bytes) : bytes * byte * goerr :=
  match b with
  | [] => ([], x00, go_io_EOF)
  | c :: r => (r, c, ErrNil)
  end.

(* the smallest buffer a bufio.Reader can have: Peek and Discard are modelled for counts up
   to it (a larger Peek can fail with ErrBufferFull, which is not modelled) *)
Definition bufio_min_buffer : Z := 16.

(* b.Peek(n), 0 <= n <= 16: the next n bytes without consuming them; fewer, with io.EOF,
   when the input ends before *)
Definition go_bufio_Peek (b : bytes) (n : Z) : res (bytes * bytes * goerr) :=
  if ((0 <=? n) && (n <=? bufio_min_buffer))%Z then
    Ok (b, firstn (Z.to_nat n) b, if (len b <? n)%Z then go_io_EOF else ErrNil)
  else Panic.

(* b.Discard(n), 0 <= n <= 16: skips the next n bytes; fewer, with io.EOF, when the input
   ends before; the int is the number skipped *)
Definition go_bufio_Discard (b : bytes) (n : Z) : res (bytes * Z * goerr) :=
  if ((0 <=? n) && (n <=? bufio_min_buffer))%Z then
    Ok (skipn (Z.to_nat n) b, Z.min n (len b), if (len b <? n)%Z then go_io_EOF else ErrNil)
  else Panic.

(* Extension of Lib/GoSem.v (the semantic library of the Go subset that harness/go2coq
   translates) for pure segments of functions that otherwise do file I/O (go2coq/segment.go,
   go2coq/ext.go).  Definitions only, each with the Go construct it denotes.

   Conventions added to those of GoSem.v and GoSemExt.v
   - int64, and a named type over it such as time.Duration, is Z; the translator accepts
     constants and comparisons only (no arithmetic, so no wrap-around);
   - [N]byte, and a named type over it, is [bytes] (a list of exactly N bytes).  Arrays are
     values in Go (assignment, parameter passing and struct fields copy them), so no aliasing
     condition is needed; the one way to alias an array, x[:], is accepted only as the written
     argument of a library function whose table entry says that it writes there, and the
     denotation of such a function returns the array's new value next to its results;
   - a named library type with a table entry (time.Time, fs.FileInfo) is the Coq type given
     there; values of it are only passed on;
   - an argument for a variadic parameter of interface type (fmt.Sprintf's a ...any) is wrapped
     by its static kind in [go_any];
   - &T{...} used where an error is wanted is [true] (a non-nil error) when *T implements error;
   - a local function constant f := func(...) ... { return e } is inlined at its calls;
   - a call of a table-designated input function (time.Now, a clock field) inside a segment is
     one more parameter of the segment. *)
From Coq Require Import List ZArith.
From Coq.Strings Require Import Byte.
From GI Require Import Lib.Bytes Lib.GoSem.
Import ListNotations.

(* var x [N]byte: N zero bytes *)
Definition go_zero_array (n : Z) : bytes := repeat x00 (Z.to_nat n).

(* one argument of a variadic parameter of interface type, by the static kind of the argument:
   string / []byte / [N]byte; int / int64; byte; bool *)
Inductive go_any :=
| GoAnyBytes (b : bytes)
| GoAnyInt (z : Z)
| GoAnyByte (b : byte)
| GoAnyBool (b : bool).

(* Shared byte-string vocabulary: definitions only (proofs live in BytesFacts.v so
   that the executable model keeps building when a proof is being edited). *)
From Coq Require Import List Bool Arith NArith.
From Coq.Strings Require Import Byte.
Import ListNotations.

Definition bytes := list byte.

Definition NL : byte := x0a.
Definition CR : byte := x0d.
Definition SP : byte := x20.
Definition TAB : byte := x09.

Definition beq (a b : byte) : bool := Byte.eqb a b.

Fixpoint bytes_eqb (a b : bytes) : bool :=
  match a, b with
  | [], [] => true
  | x :: a', y :: b' => beq x y && bytes_eqb a' b'
  | _, _ => false
  end.

(* bytes.HasPrefix *)
Fixpoint has_prefix (p d : bytes) : bool :=
  match p, d with
  | [], _ => true
  | x :: p', y :: d' => beq x y && has_prefix p' d'
  | _ :: _, [] => false
  end.

(* bytes.HasSuffix *)
Definition has_suffix (s d : bytes) : bool := has_prefix (rev s) (rev d).

(* the byte code, as N *)
Definition bN (b : byte) : N := Byte.to_N b.

(* strings.TrimSpace / bytes.TrimSpace: the code points Go's unicode.IsSpace accepts,
   in UTF-8: 09-0D, 20, U+0085, U+00A0, U+1680, U+2000-200A, U+2028, U+2029, U+202F,
   U+205F, U+3000. [space_prefix d] is the length of the white-space rune d starts
   with, 0 if it starts with none. *)
Definition ascii_space (b : byte) : bool :=
  match b with
  | x09 | x0a | x0b | x0c | x0d | x20 => true
  | _ => false
  end.

Definition space_prefix (d : bytes) : nat :=
  match d with
  | b :: r =>
      if ascii_space b then 1 else
      match b, r with
      | xc2, x85 :: _ => 2
      | xc2, xa0 :: _ => 2
      | xe1, x9a :: x80 :: _ => 3
      | xe2, x80 :: c :: _ =>
          match c with
          | x80 | x81 | x82 | x83 | x84 | x85 | x86 | x87 | x88 | x89 | x8a
          | xa8 | xa9 | xaf => 3
          | _ => 0
          end
      | xe2, x81 :: x9f :: _ => 3
      | xe3, x80 :: x80 :: _ => 3
      | _, _ => 0
      end
  | [] => 0
  end.

(* the same rune table read from the end of the (reversed) string *)
Definition space_suffix_rev (r : bytes) : nat :=
  match r with
  | b :: q =>
      if ascii_space b then 1 else
      match b, q with
      | x85, xc2 :: _ => 2
      | xa0, xc2 :: _ => 2
      | x80, x9a :: xe1 :: _ => 3
      | c, x80 :: xe2 :: _ =>
          match c with
          | x80 | x81 | x82 | x83 | x84 | x85 | x86 | x87 | x88 | x89 | x8a
          | xa8 | xa9 | xaf => 3
          | _ => 0
          end
      | x9f, x81 :: xe2 :: _ => 3
      | _, _ => 0
      end
  | [] => 0
  end.

(* U+3000 = e3 80 80 has last byte 80 and is caught by the [c, x80 :: xe2] row only
   for e2; give it its own test *)
Definition space_suffix_rev' (r : bytes) : nat :=
  match r with
  | x80 :: x80 :: xe3 :: _ => 3
  | _ => space_suffix_rev r
  end.

Fixpoint trim_left_fuel (fuel : nat) (d : bytes) : bytes :=
  match fuel with
  | 0 => d
  | S f =>
      match space_prefix d with
      | 0 => d
      | n => trim_left_fuel f (skipn n d)
      end
  end.
Definition trim_left (d : bytes) : bytes := trim_left_fuel (length d) d.

Fixpoint trim_right_rev_fuel (fuel : nat) (r : bytes) : bytes :=
  match fuel with
  | 0 => r
  | S f =>
      match space_suffix_rev' r with
      | 0 => r
      | n => trim_right_rev_fuel f (skipn n r)
      end
  end.
Definition trim_right (d : bytes) : bytes :=
  rev (trim_right_rev_fuel (length d) (rev d)).

Definition trim_space (d : bytes) : bytes := trim_right (trim_left d).

(* utf8.Valid: the DFA of Go's unicode/utf8 (no overlongs, no surrogates, <= U+10FFFF) *)
Definition in_range (lo hi : N) (b : byte) : bool := (N.leb lo (bN b) && N.leb (bN b) hi)%N.
Definition cont (b : byte) : bool := in_range 128 191 b.

Fixpoint utf8_valid_fuel (fuel : nat) (d : bytes) : bool :=
  match fuel with
  | 0 => match d with [] => true | _ => false end
  | S f =>
      match d with
      | [] => true
      | b :: r =>
          if N.ltb (bN b) 128 then utf8_valid_fuel f r
          else if in_range 194 223 b then
            match r with c1 :: r' => cont c1 && utf8_valid_fuel f r' | _ => false end
          else if in_range 224 239 b then
            match r with
            | c1 :: c2 :: r' =>
                (if N.eqb (bN b) 224 then in_range 160 191 c1
                 else if N.eqb (bN b) 237 then in_range 128 159 c1
                 else cont c1) && cont c2 && utf8_valid_fuel f r'
            | _ => false
            end
          else if in_range 240 244 b then
            match r with
            | c1 :: c2 :: c3 :: r' =>
                (if N.eqb (bN b) 240 then in_range 144 191 c1
                 else if N.eqb (bN b) 244 then in_range 128 143 c1
                 else cont c1) && cont c2 && cont c3 && utf8_valid_fuel f r'
            | _ => false
            end
          else false
      end
  end.
Definition utf8_valid (d : bytes) : bool := utf8_valid_fuel (length d) d.

(* split after every NL; the last line may be unterminated; no empty line is produced *)
Fixpoint split_lines (d : bytes) : list bytes :=
  match d with
  | [] => []
  | b :: r =>
      if beq b NL then [b] :: split_lines r
      else match split_lines r with
           | [] => [[b]]
           | l :: ls => (b :: l) :: ls
           end
  end.

Definition last_byte (d : bytes) : option byte :=
  match rev d with [] => None | b :: _ => Some b end.

(* txtar fixNL *)
Definition fix_nl (d : bytes) : bytes :=
  match last_byte d with
  | None => d
  | Some b => if beq b NL then d else d ++ [NL]
  end.

Definition mem_byte (b : byte) (d : bytes) : bool := existsb (beq b) d.

(* Facts about Lib/GoSemWorldVal.v. *)
From Coq Require Import List ZArith NArith Lia.
From Coq.Strings Require Import Byte.
From GI Require Import Lib.Bytes Lib.GoSem Lib.GoSemSeg Lib.GoSemWorld Lib.GoSemWorldVal.
Import ListNotations.

Lemma Z_byte_byte_Z b : Z_byte (byte_Z b) = b.
Proof. unfold Z_byte, byte_Z. rewrite N2Z.id, Byte.of_to_N. reflexivity. Qed.

Lemma byte_Z_eqb b c : (byte_Z b =? byte_Z c)%Z = Byte.eqb b c.
Proof.
  unfold byte_Z. destruct (Byte.eqb b c) eqn:E.
  - apply Byte.byte_dec_bl in E. subst. apply Z.eqb_refl.
  - apply Z.eqb_neq. intros H. apply N2Z.inj in H.
    assert (Some b = Some c) as [= ->] by (rewrite <- (Byte.of_to_N b), <- (Byte.of_to_N c), H; reflexivity).
    rewrite (Byte.byte_dec_lb eq_refl) in E. discriminate.
Qed.

Lemma splice_all (x s : bytes) : length s = length x -> splice x 0 (Z.of_nat (length x)) s = s.
Proof.
  intros _. unfold splice. rewrite Nat2Z.id, skipn_all. cbn [Z.to_nat firstn app]. apply app_nil_r.
Qed.

(* The Go-literal TrimLeftFunc / TrimRightFunc of Lib/Utf8Trim.v compute
   trim_left_runes / trim_right_runes (hence, by Utf8Facts.v, the byte-table
   trim_left / trim_right of Lib/Bytes.v), never run out of fuel and never index out
   of range.  The point of the right-hand side: the width obtained by decoding forwards
   at the last non-space rune equals the size DecodeLastRune reported for it. *)
From Coq Require Import List Bool Arith NArith ZArith Lia.
From Coq.Strings Require Import Byte.
From GI Require Import Lib.Bytes Lib.BytesFacts Gen.UnicodeConsts Lib.Utf8 Lib.Utf8Tables
  Lib.Utf8Facts Lib.Utf8Trim.
Import ListNotations.
Open Scope N_scope.

(* ------------------------------------------------------------------ *)
(* TrimLeftFunc                                                        *)

Lemma decode_rune_None d : decode_rune d = None -> d = [].
Proof.
  destruct d as [|b r]; [reflexivity|]. unfold decode_rune, err1.
  repeat match goal with
  | |- context [if ?c then _ else _] => destruct c
  | |- context [match ?l with [] => _ | _ :: _ => _ end] => destruct l
  end; discriminate.
Qed.

Lemma index_not_space_spec f : forall d start,
  (length (skipn start d) <= f)%nat ->
  match index_not_space f d start with
  | LFound i => trim_left_runes_fuel f (skipn start d) = skipn i d
  | LNone => trim_left_runes_fuel f (skipn start d) = []
  | LOutOfFuel => False
  end.
Proof.
  induction f as [|f IH]; intros d start Hl.
  - cbn [index_not_space trim_left_runes_fuel]. destruct (skipn start d); [reflexivity|cbn in Hl; lia].
  - cbn [index_not_space trim_left_runes_fuel].
    destruct (decode_rune (skipn start d)) as [[r w]|] eqn:E.
    + destruct (is_space_rune r); [|reflexivity].
      assert (Hw := decode_rune_width _ _ _ E).
      specialize (IH d (start + w)%nat). rewrite <- skipn_skipn' in IH. apply IH.
      rewrite skipn_length. destruct (skipn start d); [discriminate|]. cbn [length] in *. lia.
    + now apply decode_rune_None in E.
Qed.

Theorem trim_left_func_eq d : trim_left_func d = Some (trim_left_runes d).
Proof.
  unfold trim_left_func, trim_left_runes.
  pose proof (index_not_space_spec (length d) d 0 (Nat.le_refl _)) as H. cbn [skipn] in H.
  destruct (index_not_space (length d) d 0); [now rewrite H|now rewrite H|contradiction].
Qed.

(* ------------------------------------------------------------------ *)
(* forward and backward decoding agree                                 *)

Lemma err1_is_err : is_err1 (rune_error, 1%nat) = true.
Proof. reflexivity. Qed.

(* a successful decode looks at the bytes it consumes only *)
Lemma decode_rune_app enc tail r w :
  decode_rune enc = Some (r, w) -> is_err1 (r, w) = false ->
  decode_rune (enc ++ tail) = Some (r, w).
Proof.
  intros H He. destruct enc as [|b0 e]; [discriminate|]. cbn [app]. unfold decode_rune, err1 in *.
  assert (Hbad : Some (rune_error, 1%nat) = Some (r, w) -> False).
  { intros E. inversion E; subst. now rewrite err1_is_err in He. }
  destruct (bN b0 <? rune_self); [exact H|].
  destruct (in_range 194 223 b0).
  { destruct e as [|c1 e]; [now apply Hbad in H|]. exact H. }
  destruct (in_range 224 239 b0).
  { destruct e as [|c1 [|c2 e]]; try (now apply Hbad in H). exact H. }
  destruct (in_range 240 244 b0); [|now apply Hbad in H].
  destruct e as [|c1 [|c2 [|c3 e]]]; try (now apply Hbad in H). exact H.
Qed.

(* the first byte of a successfully decoded rune is not a continuation byte *)
Lemma decode_rune_start b0 e r w :
  decode_rune (b0 :: e) = Some (r, w) -> is_err1 (r, w) = false -> rune_start b0 = true.
Proof.
  intros H He. unfold decode_rune, err1, rune_self in H. apply rune_start_true.
  destruct (bN b0 <? 128) eqn:E0; [apply N.ltb_lt in E0; lia|].
  destruct (in_range 194 223 b0) eqn:E2; [apply in_range_iff in E2; lia|].
  destruct (in_range 224 239 b0) eqn:E3; [apply in_range_iff in E3; lia|].
  destruct (in_range 240 244 b0) eqn:E4; [apply in_range_iff in E4; lia|].
  inversion H; subst. now rewrite err1_is_err in He.
Qed.

(* what follows position i: nothing, or a byte that starts a rune *)
Definition tail_ok (t : bytes) : Prop :=
  match t with [] => True | b :: _ => rune_start b = true end.

(* a byte >= 0x80 followed by such a tail decodes, forwards, to the error of width 1 *)
Lemma decode_rune_lone b tail :
  128 <= bN b -> tail_ok tail -> decode_rune [b] = err1 -> decode_rune (b :: tail) = err1.
Proof.
  intros Hb Ht _. unfold decode_rune, rune_self.
  replace (bN b <? 128) with false by (symmetry; apply N.ltb_ge; lia).
  destruct tail as [|t ts]; [now repeat destruct (in_range _ _ b)|].
  cbn [tail_ok] in Ht. apply rune_start_true in Ht.
  assert (Hc : cont t = false) by (apply cont_false; lia).
  destruct (in_range 194 223 b); [now rewrite Hc|].
  destruct (in_range 224 239 b).
  { destruct ts as [|c2 ts]; [reflexivity|].
    destruct (second3 b t) eqn:E; [apply second3_true in E; lia|reflexivity]. }
  destruct (in_range 240 244 b); [|reflexivity].
  destruct ts as [|c2 [|c3 ts]]; try reflexivity.
  destruct (second4 b t) eqn:E; [apply second4_true in E; lia|reflexivity].
Qed.

(* DecodeLastRune(x) = (r, size): x ends with [size] bytes that either decode
   forwards to (r, size), or x ends with a lone byte >= 0x80 and the answer is the
   error of width 1 *)
Lemma decode_last_rune_cases x r size :
  decode_last_rune x = Some (r, size) ->
  exists pre enc, x = pre ++ enc /\ length enc = size /\
    (decode_rune enc = Some (r, size) \/
     (is_err1 (r, size) = true /\ exists b, enc = [b] /\ 128 <= bN b /\ decode_rune [b] = err1)).
Proof.
  unfold decode_last_rune. destruct (rev x) as [|l0 q] eqn:Er; [discriminate|].
  assert (Hx : x = rev q ++ [l0]).
  { rewrite <- (rev_involutive x), Er. reflexivity. }
  unfold rune_self. destruct (bN l0 <? 128) eqn:E0.
  { intros H. inversion H; subst r size. exists (rev q), [l0]. repeat split; [assumption|].
    left. unfold decode_rune, rune_self. now rewrite E0. }
  apply N.ltb_ge in E0. cbv zeta.
  assert (Hlone : decode_rune [l0] = err1).
  { unfold decode_rune, rune_self. replace (bN l0 <? 128) with false by (symmetry; apply N.ltb_ge; lia).
    now repeat destruct (in_range _ _ l0). }
  set (k := last_rune_back q).
  assert (Hk : (k <= length q)%nat) by apply last_rune_back_le.
  assert (Hlen : length x = S (length q)).
  { rewrite Hx, app_length, rev_length. cbn. lia. }
  destruct (decode_rune (skipn (length x - S k) x)) as [[r' w']|] eqn:Ed.
  - destruct (Nat.eqb w' (S k)) eqn:Ew.
    + apply Nat.eqb_eq in Ew. intros H. inversion H; subst r' w'. subst size.
      exists (firstn (length x - S k) x), (skipn (length x - S k) x).
      repeat split; [now rewrite firstn_skipn|rewrite skipn_length; lia|now left].
    + intros H. inversion H; subst r size. exists (rev q), [l0]. repeat split; [assumption|].
      right. split; [reflexivity|]. exists l0. repeat split; assumption.
  - intros H. inversion H; subst r size. exists (rev q), [l0]. repeat split; [assumption|].
    right. split; [reflexivity|]. exists l0. repeat split; assumption.
Qed.

(* ------------------------------------------------------------------ *)
(* TrimRightFunc                                                       *)

Lemma firstn_firstn_le {A} (l : list A) i j : (j <= i)%nat -> firstn j (firstn i l) = firstn j l.
Proof. intros H. rewrite firstn_firstn. now rewrite Nat.min_l. Qed.

Lemma last_index_loop_spec f : forall d i,
  (i <= length d)%nat -> (i <= f)%nat -> tail_ok (skipn i d) ->
  match last_index_loop f d i with
  | LOutOfFuel => False
  | LNone => trim_right_runes_fuel f (firstn i d) = []
  | LFound j =>
      exists size r,
        decode_last_rune (firstn (j + size) d) = Some (r, size) /\ is_space_rune r = false /\
        (j + size <= i)%nat /\ (1 <= size)%nat /\
        trim_right_runes_fuel f (firstn i d) = firstn (j + size) d /\
        tail_ok (skipn (j + size) d)
  end.
Proof.
  induction f as [|f IH]; intros d i Hi Hf Ht.
  - assert (i = 0)%nat by lia. subst i. reflexivity.
  - destruct i as [|i']; [cbn [last_index_loop firstn]; now destruct f|].
    set (i := S i') in *. cbn [last_index_loop]. fold i. cbn [trim_right_runes_fuel].
    assert (Hlen : length (firstn i d) = i) by (rewrite firstn_length; lia).
    destruct (decode_last_rune (firstn i d)) as [[r size]|] eqn:E.
    2:{ unfold decode_last_rune in E. destruct (rev (firstn i d)) as [|l0 q] eqn:Er.
        - apply (f_equal (@length _)) in Er. rewrite rev_length, Hlen in Er. discriminate.
        - destruct (bN l0 <? rune_self); [discriminate|]. cbv zeta in E.
          destruct (decode_rune _) as [[r' w']|]; [destruct (Nat.eqb w' _)|]; discriminate. }
    assert (Hs := decode_last_rune_width _ _ _ E).
    destruct (decode_last_rune_cases _ _ _ E) as [pre [enc [Hx [Hel Hcase]]]].
    assert (Hsz : (size <= i)%nat).
    { apply (f_equal (@length _)) in Hx. rewrite Hlen, app_length in Hx. lia. }
    rewrite Hlen.
    destruct (is_space_rune r) eqn:Esp.
    + (* a white-space rune: strip it and go on *)
      rewrite firstn_firstn_le by lia.
      assert (Ht' : tail_ok (skipn (i - size) d)).
      { (* the stripped rune was decoded successfully: its first byte starts a rune *)
        assert (Hskip : skipn (i - size) d = enc ++ skipn i d).
        { rewrite <- (firstn_skipn i d) at 1. rewrite Hx.
          assert (Hp : length pre = (i - size)%nat).
          { apply (f_equal (@length _)) in Hx. rewrite Hlen, app_length in Hx. lia. }
          rewrite <- app_assoc, <- Hp. apply skipn_length_app. }
        rewrite Hskip. destruct enc as [|b0 e]; [cbn in Hel; lia|]. cbn [app tail_ok].
        destruct Hcase as [Hd|[He _]].
        - apply (decode_rune_start b0 e r size Hd).
          destruct (is_err1 (r, size)) eqn:Ee; [|reflexivity].
          unfold is_err1 in Ee. cbn [fst snd] in Ee. apply andb_true_iff in Ee. destruct Ee as [Ee _].
          apply N.eqb_eq in Ee. subst r. now rewrite space_err in Esp.
        - unfold is_err1 in He. cbn [fst snd] in He. apply andb_true_iff in He. destruct He as [He _].
          apply N.eqb_eq in He. subst r. now rewrite space_err in Esp. }
      specialize (IH d (i - size)%nat ltac:(lia) ltac:(lia) Ht').
      destruct (last_index_loop f d (i - size)) as [j| |]; [|assumption|assumption].
      destruct IH as [sz [r0 [H1 [H2 [H3 [H4 [H5 H6]]]]]]].
      exists sz, r0. repeat split; try assumption. lia.
    + (* the last rune that is not white space *)
      exists size, r. replace (i - size + size)%nat with i by lia.
      repeat split; try assumption; lia.
Qed.

Theorem trim_right_func_eq d : trim_right_func d = Some (trim_right_runes d).
Proof.
  unfold trim_right_func, trim_right_runes.
  assert (Ht0 : tail_ok (skipn (length d) d)) by (now rewrite skipn_all).
  pose proof (last_index_loop_spec (length d) d (length d) (Nat.le_refl _) (Nat.le_refl _) Ht0) as H.
  rewrite firstn_all in H.
  destruct (last_index_loop (length d) d (length d)) as [j| |]; [|now rewrite H|contradiction].
  destruct H as [size [r [Hd [Hsp [Hle [H1 [Htrim Htail]]]]]]]. rewrite Htrim.
  destruct (decode_last_rune_cases _ _ _ Hd) as [pre [enc [Hx [Hel Hcase]]]].
  assert (Hfl : length (firstn (j + size) d) = (j + size)%nat) by (rewrite firstn_length; lia).
  assert (Hp : length pre = j).
  { apply (f_equal (@length _)) in Hx. rewrite Hfl, app_length in Hx. lia. }
  (* d = pre ++ enc ++ tail, the rune found starts at j = |pre| *)
  assert (Hdsplit : d = pre ++ enc ++ skipn (j + size) d).
  { rewrite <- (firstn_skipn (j + size) d) at 1. rewrite Hx. now rewrite <- app_assoc. }
  assert (Hskip : skipn j d = enc ++ skipn (j + size) d).
  { rewrite Hdsplit at 1. rewrite <- Hp. apply skipn_length_app. }
  destruct enc as [|b0 e]; [cbn in Hel; lia|].
  assert (Hnth : nth_error d j = Some b0).
  { rewrite Hdsplit, <- Hp. rewrite nth_error_app2 by lia. now rewrite Nat.sub_diag. }
  rewrite Hnth, Hskip. unfold rune_self.
  destruct Hcase as [Hdec|[He [b [Hb [Hb128 Hlone]]]]].
  - destruct (is_err1 (r, size)) eqn:Ee.
    + (* a lone byte >= 0x80 reported as the error: forwards it is the error as well *)
      unfold is_err1 in Ee. cbn [fst snd] in Ee. apply andb_true_iff in Ee. destruct Ee as [Er Es].
      apply N.eqb_eq in Er. apply Nat.eqb_eq in Es. rewrite Es in *. rewrite Er in *.
      destruct e; [|cbn in Hel; lia].
      assert (H128 : 128 <= bN b0).
      { unfold decode_rune, rune_self in Hdec. destruct (bN b0 <? 128) eqn:E0; [|now apply N.ltb_ge in E0].
        inversion Hdec as [Hr]. apply N.ltb_lt in E0. unfold rune_error in Hr. lia. }
      replace (128 <=? bN b0) with true by (symmetry; apply N.leb_le; lia).
      cbn [app]. rewrite (decode_rune_lone b0 _ H128 Htail Hdec). reflexivity.
    + (* a properly decoded rune *)
      rewrite (decode_rune_app (b0 :: e) _ r size Hdec Ee).
      destruct (128 <=? bN b0) eqn:E0; [reflexivity|].
      (* ASCII: size = 1 *)
      apply N.leb_gt in E0. unfold decode_rune, rune_self in Hdec.
      replace (bN b0 <? 128) with true in Hdec by (symmetry; apply N.ltb_lt; lia).
      inversion Hdec; subst. reflexivity.
  - injection Hb as -> ->.
    unfold is_err1 in He. cbn [fst snd] in He. apply andb_true_iff in He. destruct He as [_ Es].
    apply Nat.eqb_eq in Es. rewrite Es in *.
    replace (128 <=? bN b) with true by (symmetry; apply N.leb_le; lia).
    cbn [app]. rewrite (decode_rune_lone b _ Hb128 Htail Hlone). reflexivity.
Qed.

(* strings.TrimSpace as the Go code computes it = the byte-table trim_space *)
Theorem trim_func_eq d : trim_func d = Some (trim_space d).
Proof.
  unfold trim_func. rewrite trim_left_func_eq, trim_right_func_eq.
  now rewrite trim_space_eq.
Qed.

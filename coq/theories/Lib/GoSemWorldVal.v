(* Extension of Lib/GoSemWorld.v (world mode of harness/go2coq): VALUES that effectful code moves
   between its library calls (translator side: harness/go2coq/world_values.go, whose header
   states the constructs and their conditions).  Definitions only.

   - [N]byte, and a named type over it, is [bytes] (exactly N bytes; zero value
     [go_zero_array N] of Lib/GoSemSeg.v): arrays are values in Go;
   - uint8 is an integer like the others: x[i] on a string of bytes is [byte_Z] of the element,
     and an integer handed over where a byte is wanted goes through [Z_byte];
   - an argument of a variadic parameter of interface type is wrapped by its static kind:
     [wany] adds error values to [go_any] of Lib/GoSemSeg.v;
   - an argument a library function writes through (a buffer, a slice of a local array) is
     handed over as the whole value with the bounds of the slice, and the function's
     denotation returns the whole value afterwards in front of the results. *)
From Coq Require Import List ZArith NArith.
From Coq.Strings Require Import Byte.
From GI Require Import Lib.Bytes Lib.GoSem Lib.GoSemSeg Lib.GoSemWorld.
Import ListNotations.

(* int(b), and b as an operand of a comparison with an integer constant *)
Definition byte_Z (b : byte) : Z := Z.of_N (Byte.to_N b).
(* byte(z) for 0 <= z < 256 (the translator hands over only values that came from a byte) *)
Definition Z_byte (z : Z) : byte :=
  match Byte.of_N (Z.to_N z) with Some b => b | None => x00 end.

(* one argument of  a ...any  *)
Inductive wany : Type :=
| WAnyV (a : go_any)
| WAnyE (e : werr).

(* the arguments that are not errors, if none is *)
Fixpoint wany_values (l : list wany) : option (list go_any) :=
  match l with
  | [] => Some []
  | WAnyV a :: r => option_map (cons a) (wany_values r)
  | WAnyE _ :: _ => None
  end.

(* x[lo:hi] written over by s (same length): the value of x afterwards *)
Definition splice (x : bytes) (lo hi : Z) (s : bytes) : bytes :=
  firstn (Z.to_nat lo) x ++ s ++ skipn (Z.to_nat hi) x.

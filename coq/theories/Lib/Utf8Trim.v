(* bytes.TrimRightFunc(s, unicode.IsSpace) as the Go code computes it: lastIndexFunc
   walks backwards with DecodeLastRune to the start i of the last rune that is not
   white space, then the width of that rune is obtained by decoding FORWARDS at i
   (DecodeRune(s[i:]), whose argument includes the white space that follows).
   Definitions only; Utf8TrimFacts.v proves the result equal to trim_right_runes
   ("drop trailing white-space runes"), i.e. the forward width always agrees with the
   backward one. *)
From Coq Require Import List Bool Arith NArith.
From Coq.Strings Require Import Byte.
From GI Require Import Lib.Bytes Gen.UnicodeConsts Lib.Utf8.
Import ListNotations.

Inductive lres : Type :=
| LFound (i : nat)   (* index of the start of the rune *)
| LNone              (* -1 *)
| LOutOfFuel.

(* func lastIndexFunc(s, unicode.IsSpace, false):
     for i := len(s); i > 0; { r, size := DecodeLastRune(s[0:i]) (ASCII fast path
     included in decode_last_rune); i -= size; if !IsSpace(r) { return i } }; return -1 *)
Fixpoint last_index_loop (fuel : nat) (d : bytes) (i : nat) : lres :=
  match i with
  | 0 => LNone
  | S _ =>
      match fuel with
      | 0 => LOutOfFuel
      | S f =>
          match decode_last_rune (firstn i d) with
          | Some (r, size) =>
              if is_space_rune r then last_index_loop f d (i - size) else LFound (i - size)
          | None => LOutOfFuel   (* not reachable: i > 0 *)
          end
      end
  end.

(* func TrimRightFunc(s, unicode.IsSpace):
     i := lastIndexFunc(s, f, false)
     if i >= 0 && s[i] >= utf8.RuneSelf { _, wid := utf8.DecodeRune(s[i:]); i += wid } else { i++ }
     return s[0:i]
   None = fuel exhausted or s[i] out of range *)
Definition trim_right_func (d : bytes) : option bytes :=
  match last_index_loop (length d) d (length d) with
  | LOutOfFuel => None
  | LNone => Some (firstn 0 d)
  | LFound i =>
      match nth_error d i with
      | None => None
      | Some b =>
          if N.leb rune_self (bN b) then
            match decode_rune (skipn i d) with
            | Some (_, wid) => Some (firstn (i + wid) d)
            | None => Some (firstn i d)
            end
          else Some (firstn (i + 1) d)
      end
  end.

(* bytes.TrimLeftFunc(s, unicode.IsSpace) through indexFunc: the index of the first rune
   that is not white space (None = -1: the result is nil) *)
Fixpoint index_not_space (fuel : nat) (d : bytes) (start : nat) : lres :=
  match fuel with
  | 0 => match skipn start d with [] => LNone | _ => LOutOfFuel end
  | S f =>
      match decode_rune (skipn start d) with
      | None => LNone
      | Some (r, wid) => if is_space_rune r then index_not_space f d (start + wid) else LFound start
      end
  end.

Definition trim_left_func (d : bytes) : option bytes :=
  match index_not_space (length d) d 0 with
  | LOutOfFuel => None
  | LNone => Some []
  | LFound i => Some (skipn i d)
  end.

(* strings.TrimSpace = TrimFunc = TrimRightFunc(TrimLeftFunc(s, f), f) *)
Definition trim_func (d : bytes) : option bytes :=
  match trim_left_func d with
  | Some l => trim_right_func l
  | None => None
  end.

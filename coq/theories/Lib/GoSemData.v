(* Semantic library of the Go subset that harness/go2coq translates, part 4: data that a
   function builds and changes in place -- slices of any element type made by make and
   stored into, maps that are written, function literals handed to a library function, the
   append-only bytes.Buffer and the fmt verbs %s %d %%.  Definitions only, each with the Go
   construct it denotes.

   Conventions added to those of GoSem.v / GoSemExt.v
   - x[i] = v on a []T that the function OWNS (a local made by make or returned by a library
     function whose result shares no memory with anything else; every later assignment to it
     is a slice expression of itself; it is used only as x[i], x[i] = v, len(x), range x,
     return x) is the list with the element replaced: nothing else can observe the store;
   - a map[string]T that the function makes (make(map[string]T)) and writes is the association
     list of its bindings in insertion order [gomap T]; m[k] is the bound value or T's zero
     value, v, ok := m[k] the pair of that and "k is bound", m[k] = v replaces the binding or
     adds one at the end.  The translator accepts such a map only as a local that never
     leaves the function (no range, len, delete, comparison, passing on or return), so Go's
     reference semantics cannot be observed.  (With the translator option that selects this
     denotation every map type of the translated functions is a [gomap]; a map parameter is
     then only read.)
   - a function literal handed to a library function closes over the locals read-only and is
     the Coq function [args -> res T] (it may panic);
   - bytes.Buffer used through Fprintf / WriteString / Bytes only is the byte string written
     so far. *)
From Coq Require Import List Bool Arith ZArith.
From Coq.Strings Require Import Byte.
From GI Require Import Lib.Bytes Lib.GoSem.
Import ListNotations.

(* ------------------------------------------------------------------ *)
(* slices of any element type: make and element store                  *)

(* make([]T, n): n zero values; panics if n < 0 *)
Definition go_make_of {A : Type} (zero : A) (n : Z) : res (list A) :=
  if (n <? 0)%Z then Panic else Ok (repeat zero (Z.to_nat n)).

(* x[i] = v for x of type []T: panics unless 0 <= i < len(x); the value is x afterwards *)
Definition go_store_of {A : Type} (x : list A) (i : Z) (v : A) : res (list A) :=
  if ((0 <=? i) && (i <? len_of x))%Z
  then Ok (firstn (Z.to_nat i) x ++ v :: skipn (S (Z.to_nat i)) x)
  else Panic.

(* ------------------------------------------------------------------ *)
(* maps that are written                                               *)

Definition gomap (V : Type) : Type := list (bytes * V).

(* make(map[string]T), and a nil map that is only read *)
Definition go_map_empty {V : Type} : gomap V := [].

Fixpoint go_map_find {V : Type} (m : gomap V) (k : bytes) : option V :=
  match m with
  | [] => None
  | (k', v) :: m' => if bytes_eqb k' k then Some v else go_map_find m' k
  end.

(* m[k] *)
Definition go_map_get {V : Type} (zero : V) (m : gomap V) (k : bytes) : V :=
  match go_map_find m k with Some v => v | None => zero end.

(* v, ok := m[k] *)
Definition go_map_lookup {V : Type} (zero : V) (m : gomap V) (k : bytes) : V * bool :=
  match go_map_find m k with Some v => (v, true) | None => (zero, false) end.

(* m[k] = v *)
Fixpoint go_map_set {V : Type} (m : gomap V) (k : bytes) (v : V) : gomap V :=
  match m with
  | [] => [(k, v)]
  | (k', w) :: m' => if bytes_eqb k' k then (k', v) :: m' else (k', w) :: go_map_set m' k v
  end.

(* ------------------------------------------------------------------ *)
(* sort.Search                                                         *)

(* sort.Search(n, f):
     i, j := 0, n
     for i < j { h := int(uint(i+j) >> 1); if !f(h) { i = h + 1 } else { j = h } }
     return i
   j - i at least halves in every iteration, so [Z.to_nat n] iterations suffice and the
   bound needs no fuel from outside; f may panic. *)
Fixpoint go_search_loop (steps : nat) (f : Z -> res bool) (i j : Z) : res Z :=
  if (i <? j)%Z then
    match steps with
    | O => OutOfFuel
    | S k =>
        let h := Z.div2 (i + j) in
        bind (f h) (fun b => if negb b then go_search_loop k f (h + 1)%Z j else go_search_loop k f i h)
    end
  else Ok i.

Definition go_sort_Search (n : Z) (f : Z -> res bool) : res Z :=
  go_search_loop (Z.to_nat n) f 0%Z n.

(* ------------------------------------------------------------------ *)
(* fmt: the verbs %s (string operand), %d (int operand), %%             *)

(* an operand of a formatting call, by its static Go type *)
Inductive fmt_arg : Type :=
| FmtStr (s : bytes)     (* string *)
| FmtInt (z : Z).        (* int *)

Fixpoint uint_digits (u : Decimal.uint) : bytes :=
  match u with
  | Decimal.Nil => []
  | Decimal.D0 u => x30 :: uint_digits u
  | Decimal.D1 u => x31 :: uint_digits u
  | Decimal.D2 u => x32 :: uint_digits u
  | Decimal.D3 u => x33 :: uint_digits u
  | Decimal.D4 u => x34 :: uint_digits u
  | Decimal.D5 u => x35 :: uint_digits u
  | Decimal.D6 u => x36 :: uint_digits u
  | Decimal.D7 u => x37 :: uint_digits u
  | Decimal.D8 u => x38 :: uint_digits u
  | Decimal.D9 u => x39 :: uint_digits u
  end.

(* %d of an int: decimal digits, '-' in front of a negative number *)
Definition go_fmt_int (z : Z) : bytes :=
  if (z <? 0)%Z then x2d :: uint_digits (Nat.to_uint (Z.to_nat (- z)))
  else uint_digits (Nat.to_uint (Z.to_nat z)).

(* fmt.Sprintf(format, args...) for formats made of literal bytes, %%, %s with a string
   operand and %d with an int operand, with exactly as many operands as verbs.  Everything
   else (other verbs, flags, widths, a verb of the wrong kind, missing or extra operands --
   where Go prints a %!verb(...) diagnostic) is outside the modelled domain: Panic. *)
Fixpoint go_fmt_Sprintf (f : bytes) (args : list fmt_arg) : res bytes :=
  match f with
  | [] => match args with [] => Ok [] | _ :: _ => Panic end
  | c :: r =>
      if beq c x25 then
        match r with
        | v :: r' =>
            if beq v x25 then bind (go_fmt_Sprintf r' args) (fun t => Ok (x25 :: t))
            else match args with
                 | FmtStr s :: args' =>
                     if beq v x73 then bind (go_fmt_Sprintf r' args') (fun t => Ok (s ++ t)) else Panic
                 | FmtInt z :: args' =>
                     if beq v x64 then bind (go_fmt_Sprintf r' args') (fun t => Ok (go_fmt_int z ++ t)) else Panic
                 | [] => Panic
                 end
        | [] => Panic
        end
      else bind (go_fmt_Sprintf r args) (fun t => Ok (c :: t))
  end.

(* ------------------------------------------------------------------ *)
(* bytes.Buffer, append-only                                           *)

(* var b bytes.Buffer *)
Definition go_buffer_empty : bytes := [].
(* fmt.Fprintf(&b, format, args...); the value is b's contents afterwards (a write into a
   bytes.Buffer does not fail; the results n, err of the call are not used) *)
Definition go_fmt_Fprintf_buffer (b : bytes) (f : bytes) (args : list fmt_arg) : res bytes :=
  bind (go_fmt_Sprintf f args) (fun t => Ok (b ++ t)).
(* b.WriteString(s) *)
Definition go_buffer_WriteString (b s : bytes) : bytes := b ++ s.
(* b.Bytes() *)
Definition go_buffer_Bytes (b : bytes) : bytes := b.

(* bytes.Equal(a, b) *)
Definition go_bytes_Equal (a b : bytes) : bool := bytes_eqb a b.

(* Extension of Lib/GoSem.v (the semantic library of the Go subset that harness/go2coq
   translates): EFFECTFUL code -- functions that are a sequence of library / operating-system
   calls with control flow in between (translator side: harness/go2coq/world.go, entry point
   TranslateWorld).  Definitions only, each with the Go construct it denotes.

   Conventions of the world mode
   - every effect goes through a library call the table names; the table gives such a call as
     a function of an ABSTRACT WORLD: a value of a type the generated file is parameterised
     over (a Section variable, or the carrier of a record of operations), taken as first
     argument and handed back, changed, in front of the results.  Nothing is assumed of the
     operations: a translated function is a state-passing function over ANY behaviour of the
     library / operating system;
   - a function (or method) that performs such a call -- directly or through a translated
     function -- takes the world [w] first (after [fuel]) and returns
     [res (World * R1 * ... * Rn)]: the world afterwards in front of its Go results;
     a function that performs none is a plain [res R] (it can still panic);
   - a method with a pointer receiver takes the VALUE of its receiver's target (a record
     generated from the struct declaration) after the world and returns the value afterwards
     right behind the world, whether it changes it or not; the caller rebinds its variable;
   - a pointer to a struct of the translated packages held in a local variable is
     [option T]: [None] is nil, field access and method calls go through [go_deref] (a nil
     dereference is [Panic]).  The translator checks that such a pointer is never copied
     (it is made by new(T) / a struct literal behind & / a translated call, used for field
     access, method calls, as an argument of library calls, and returned);
   - an error value is a [werr] (below): nil, a named value of the library (an errno, a
     package-level sentinel), or an error made by a struct literal of a library error type
     with its string fields and the error it wraps.  == / != on errors is accepted against
     nil and against named values only;
   - integers of every Go type are Z.  Accepted on them: constants, comparisons, & | &^,
     conversions that cannot change the value (and those the table vouches for), + - * on
     int (no wrap-around, as in GoSem.v);
   - defer at the top level of a function body: the statements after the defer statement
     are a computation of the function's results; the deferred call runs on its outcome
     (world, receiver, results -- named results are variables it may read and assign),
     and what it leaves is the function's outcome.  A Go panic in the rest would still run
     the deferred call; here it is [Panic] at once (Panic carries no world): the theorems
     proved about translated functions exclude Panic;
   - a parameter of function type is a pure total Coq function of its arguments. *)
From Coq Require Import List Bool Arith ZArith.
From Coq.Strings Require Import Byte.
From GI Require Import Lib.Bytes Lib.GoSem.
Import ListNotations.

(* ------------------------------------------------------------------ *)
(* error values                                                        *)

Inductive werr : Type :=
| WNil                                                    (* nil *)
| WVal (name : bytes)                                     (* "importpath.Name": syscall.EINTR, fs.ErrClosed *)
| WMade (ty : bytes) (strs : list bytes) (inner : werr).  (* &fs.PathError{Op, Path, Err} *)

(* err == nil *)
Definition werr_is_nil (e : werr) : bool :=
  match e with WNil => true | _ => false end.

Fixpoint list_bytes_eqb (a b : list bytes) : bool :=
  match a, b with
  | [], [] => true
  | x :: a', y :: b' => bytes_eqb x y && list_bytes_eqb a' b'
  | _, _ => false
  end.

(* e1 == e2 where one side is nil or a named value (the translator accepts nothing else;
   on two made errors Go compares pointers, which this structural test does not model) *)
Fixpoint werr_eqb (a b : werr) : bool :=
  match a, b with
  | WNil, WNil => true
  | WVal x, WVal y => bytes_eqb x y
  | WMade t1 s1 i1, WMade t2 s2 i2 => bytes_eqb t1 t2 && list_bytes_eqb s1 s2 && werr_eqb i1 i2
  | _, _ => false
  end.

(* ------------------------------------------------------------------ *)
(* pointers to structs                                                 *)

(* p.f, p.m(...): a nil pointer dereference panics *)
Definition go_deref {A : Type} (p : option A) : res A :=
  match p with Some a => Ok a | None => Panic end.

(* p == nil *)
Definition go_is_nil {A : Type} (p : option A) : bool :=
  match p with None => true | Some _ => false end.

(* ------------------------------------------------------------------ *)
(* sync.Mutex as a value: true = locked.  Lock on a locked mutex waits for ever when
   nobody else can unlock it (one goroutine): the computation does not end; Unlock of an
   unlocked mutex is a fatal error *)

Definition go_sync_Lock (m : bool) : res bool :=
  if m then OutOfFuel else Ok true.
Definition go_sync_Unlock (m : bool) : res bool :=
  if m then Ok false else Panic.

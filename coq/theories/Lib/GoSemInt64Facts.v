(* Facts about Lib/GoSemInt64.v: wrapping is the identity on the values of the type, lands in
   the type, and differs from its argument by a multiple of 2^64. *)
From Coq Require Import ZArith Lia.
From GI Require Import Lib.GoSem Lib.GoSemInt64.
Local Open Scope Z_scope.

Lemma go_wrap64_id : forall z, is_i64 z -> go_wrap64 z = z.
Proof.
  intros z H. unfold go_wrap64, is_i64, i64_two63, i64_two64 in *.
  rewrite Z.mod_small by lia. lia.
Qed.

Lemma go_wrap64_range : forall z, is_i64 (go_wrap64 z).
Proof.
  intros z. unfold go_wrap64, is_i64, i64_two63, i64_two64.
  pose proof (Z.mod_pos_bound (z + 9223372036854775808) 18446744073709551616 ltac:(lia)). lia.
Qed.

Lemma go_wrap64_eq : forall z, exists k, go_wrap64 z = z + k * i64_two64.
Proof.
  intros z. unfold go_wrap64.
  exists (- ((z + i64_two63) / i64_two64)).
  pose proof (Z.div_mod (z + i64_two63) i64_two64 ltac:(unfold i64_two64; lia)). lia.
Qed.

Lemma go_wrap64_low : forall z, - i64_two63 - i64_two64 <= z < - i64_two63 -> go_wrap64 z = z + i64_two64.
Proof.
  intros z H. destruct (go_wrap64_eq z) as [k Hk]. pose proof (go_wrap64_range z) as R.
  unfold is_i64, i64_two63, i64_two64 in *. nia.
Qed.

Lemma go_wrap64_high : forall z, i64_two63 <= z < i64_two63 + i64_two64 -> go_wrap64 z = z - i64_two64.
Proof.
  intros z H. destruct (go_wrap64_eq z) as [k Hk]. pose proof (go_wrap64_range z) as R.
  unfold is_i64, i64_two63, i64_two64 in *. nia.
Qed.

(* division by a non-zero constant other than -1 never wraps *)
Lemma go_i64_quo_pos : forall a b, is_i64 a -> 0 < b -> go_i64_quo a b = Ok (Z.quot a b).
Proof.
  intros a b Ha Hb. unfold go_i64_quo.
  destruct (Z.eqb_spec b 0) as [E|_]; [lia|]. f_equal. apply go_wrap64_id.
  unfold is_i64, i64_two63 in *.
  destruct (Z_le_gt_dec 0 a) as [P|N].
  - pose proof (Z.quot_pos a b P Hb). pose proof (Z.quot_le_upper_bound a b a ltac:(lia)). 
    assert (a <= b * a) by nia. lia.
  - assert (Hq : Z.quot a b = - Z.quot (- a) b) by (rewrite Z.quot_opp_l by lia; lia).
    pose proof (Z.quot_pos (- a) b ltac:(lia) Hb).
    assert (Z.quot (- a) b <= - a) by (apply Z.quot_le_upper_bound; nia). lia.
Qed.

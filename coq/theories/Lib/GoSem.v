(* Semantic library for the Go subset that harness/go2coq translates (the generated files
   Gen/*Src.v are written in this vocabulary).  Definitions only, each with the Go
   construct it denotes.  This file, together with the translator, is the trusted reading
   of the Go source; everything generated from a source file is then PROVED equal to the
   hand-written models (Txtar/SrcFacts.v).

   Conventions of the denotation
   - a Go computation is a value of [res A]: [Ok a] = it ends normally with a; [Panic] =
     Go raises a run-time panic (index or slice expression out of range, make with a
     negative size) or the construct is used outside the domain modelled here;
     [OutOfFuel] = a loop did not end within the iteration bound [fuel];
   - int is Z (no wrap-around: the denotation is Go's as long as every int stays inside
     64 bits, which holds for index arithmetic bounded by slice lengths);
     byte is [byte]; bool is [bool]; string and []byte are both [bytes] = list byte;
     an error value is the bool "is not nil" (error texts are not observable);
     a struct is the Coq type the translator's table names; *T made by new(T) is T;
   - slices are values: a nil slice and an empty one are both [[]] (the translator
     rejects comparisons of slices with nil), slice expressions are checked against
     len (Go: cap; the stricter check, so "never Panic" is the stronger statement), and
     the translator rejects every program in which two live slices could observe a
     store through a shared backing array (stores only into a slice made by make and
     used linearly; append only as x = append(x, ...) on a variable that starts empty).

   The list functions behind the library calls are the ones of Lib/Bytes.v (validated
   against the Go library by the txtar correspondence run and, for TrimSpace and
   utf8.Valid, proved against rune-level specifications in Lib/Utf8*.v). *)
From Coq Require Import List Bool Arith ZArith.
From Coq.Strings Require Import Byte.
From GI Require Import Lib.Bytes.
Import ListNotations.

(* ------------------------------------------------------------------ *)
(* results of computations                                             *)

Inductive res (A : Type) : Type :=
| Ok (a : A)
| Panic
| OutOfFuel.
Arguments Ok {A} a.
Arguments Panic {A}.
Arguments OutOfFuel {A}.

(* e1 evaluated, then e2 with its value: operands, statement sequences *)
Definition bind {A B : Type} (m : res A) (k : A -> res B) : res B :=
  match m with
  | Ok a => k a
  | Panic => Panic
  | OutOfFuel => OutOfFuel
  end.

(* how a block (the body of an if, of a loop, of a function) ends.
   S = the tuple of the variables declared outside the block that it may assign,
   L = the same for the innermost enclosing loop, R = the function's results *)
Inductive outcome (S L R : Type) : Type :=
| Normal (s : S)        (* control reaches the end of the block *)
| Break (l : L)         (* break *)
| Continue (l : L)      (* continue *)
| Return (r : R).       (* return *)
Arguments Normal {S L R} s.
Arguments Break {S L R} l.
Arguments Continue {S L R} l.
Arguments Return {S L R} r.

(* { block }; rest   inside a block: rest runs only if the block ends normally *)
Definition bindO {S S' L R : Type} (m : res (outcome S L R)) (k : S -> res (outcome S' L R))
  : res (outcome S' L R) :=
  match m with
  | Ok (Normal s) => k s
  | Ok (Break l) => Ok (Break l)
  | Ok (Continue l) => Ok (Continue l)
  | Ok (Return r) => Ok (Return r)
  | Panic => Panic
  | OutOfFuel => OutOfFuel
  end.

(* { block }; rest   at function level (no enclosing loop: break/continue cannot occur) *)
Definition bindT {S R : Type} (m : res (outcome S unit R)) (k : S -> res R) : res R :=
  match m with
  | Ok (Normal s) => k s
  | Ok (Return r) => Ok r
  | Ok (Break _) => Panic
  | Ok (Continue _) => Panic
  | Panic => Panic
  | OutOfFuel => OutOfFuel
  end.

(* one iteration of a loop body, then [next] = post statement and the following
   iterations: continue and normal end go on, break leaves the loop normally *)
Definition bindL {S L R : Type} (m : res (outcome S S R)) (next : S -> res (outcome S L R))
  : res (outcome S L R) :=
  match m with
  | Ok (Normal s) => next s
  | Ok (Continue s) => next s
  | Ok (Break s) => Ok (Normal s)
  | Ok (Return r) => Ok (Return r)
  | Panic => Panic
  | OutOfFuel => OutOfFuel
  end.

(* the end of a function body that Go's terminating-statement rule proves unreachable
   (after  for { ... }  without break) *)
Definition unreachable {A : Type} : res A := Panic.

Module GoNotations.
  Declare Scope go_scope.
  Delimit Scope go_scope with go.
  Notation "x <- c1 ;; c2" := (bind c1 (fun x => c2))
    (at level 61, c1 at next level, right associativity) : go_scope.
  Notation "' pat <- c1 ;; c2" := (bind c1 (fun x => match x with pat => c2 end))
    (at level 61, pat pattern, c1 at next level, right associativity) : go_scope.
End GoNotations.

(* ------------------------------------------------------------------ *)
(* built-in operations on []byte / string                              *)

(* len(d) *)
Definition len (d : bytes) : Z := Z.of_nat (length d).

(* len(x) for a slice of any other element type *)
Definition len_of {A : Type} (x : list A) : Z := Z.of_nat (length x).

(* d[lo:hi]: Go panics unless 0 <= lo <= hi <= len(d) (cap(d) for a slice: see above) *)
Definition slice_z (d : bytes) (lo hi : Z) : option bytes :=
  if ((0 <=? lo) && (lo <=? hi) && (hi <=? len d))%Z
  then Some (firstn (Z.to_nat hi - Z.to_nat lo) (skipn (Z.to_nat lo) d))
  else None.

(* d[i]: Go panics unless 0 <= i < len(d) *)
Definition index_z (d : bytes) (i : Z) : option byte :=
  if ((0 <=? i) && (i <? len d))%Z then nth_error d (Z.to_nat i) else None.

(* d[lo:hi], d[lo:] (hi = len d), d[:hi] (lo = 0), d[:] as a computation *)
Definition go_slice (d : bytes) (lo hi : Z) : res bytes :=
  match slice_z d lo hi with Some s => Ok s | None => Panic end.

(* d[i] as a computation *)
Definition go_index (d : bytes) (i : Z) : res byte :=
  match index_z d i with Some b => Ok b | None => Panic end.

(* append(x, y1, ..., yn)  and  append(x, ys...) *)
Definition go_append {A : Type} (x ys : list A) : list A := x ++ ys.

(* make([]byte, n): n zero bytes; panics if n < 0 *)
Definition go_make_bytes (n : Z) : res bytes :=
  if (n <? 0)%Z then Panic else Ok (repeat x00 (Z.to_nat n)).

(* copy(dst, src) as a statement: the first min(len dst, len src) elements of dst are
   replaced; the value is dst afterwards *)
Definition go_copy (dst src : bytes) : bytes :=
  firstn (length dst) src ++ skipn (length src) dst.

(* d[i] = v: panics unless 0 <= i < len(d); the value is d afterwards *)
Definition go_store (d : bytes) (i : Z) (v : byte) : res bytes :=
  if ((0 <=? i) && (i <? len d))%Z
  then Ok (firstn (Z.to_nat i) d ++ v :: skipn (S (Z.to_nat i)) d)
  else Panic.

(* comparisons: == on byte is [beq], on string [bytes_eqb], on int [Z.eqb], on bool
   [Bool.eqb]; < <= > >= on int are [Z.ltb] [Z.leb] [Z.gtb] [Z.geb]; on byte: *)
Definition byte_ltb (a b : byte) : bool := N.ltb (bN a) (bN b).
Definition byte_leb (a b : byte) : bool := N.leb (bN a) (bN b).

(* ------------------------------------------------------------------ *)
(* library calls                                                       *)

(* bytes.IndexByte(d, c): first position of c, None for -1 *)
Fixpoint index_byte (c : byte) (d : bytes) : option nat :=
  match d with
  | [] => None
  | b :: r => if beq b c then Some 0 else option_map S (index_byte c r)
  end.

(* bytes.Index(d, p): first position at which p occurs, None for -1 *)
Fixpoint index_sub (p d : bytes) : option nat :=
  if has_prefix p d then Some 0 else
  match d with
  | [] => None
  | _ :: r => option_map S (index_sub p r)
  end.

(* the int an index search returns *)
Definition opt_pos (o : option nat) : Z :=
  match o with Some i => Z.of_nat i | None => (-1)%Z end.

(* bytes.HasPrefix(s, p), strings.HasPrefix(s, p) *)
Definition go_bytes_HasPrefix (s p : bytes) : bool := has_prefix p s.
(* bytes.HasSuffix(s, p), strings.HasSuffix(s, p) *)
Definition go_bytes_HasSuffix (s p : bytes) : bool := has_suffix p s.
(* bytes.IndexByte(s, c), strings.IndexByte(s, c) *)
Definition go_bytes_IndexByte (s : bytes) (c : byte) : Z := opt_pos (index_byte c s).
(* bytes.Index(s, sep), strings.Index(s, sep) *)
Definition go_bytes_Index (s sep : bytes) : Z := opt_pos (index_sub sep s).
(* strings.TrimSpace(s), bytes.TrimSpace(s) *)
Definition go_strings_TrimSpace (s : bytes) : bytes := trim_space s.
(* utf8.Valid(p), utf8.ValidString(s) *)
Definition go_utf8_Valid (p : bytes) : bool := utf8_valid p.

(* bytes.Count(s, sep), len(sep) >= 2, as the library computes it:
     n := 0; for { i := Index(s, sep); if i == -1 { return n }; n++; s = s[i+len(sep):] } *)
Fixpoint count_loop (fuel : nat) (sep s : bytes) (n : nat) : res nat :=
  match fuel with
  | 0 => OutOfFuel
  | S f =>
      match index_sub sep s with
      | None => Ok n
      | Some i =>
          match slice_z s (Z.of_nat i + len sep) (len s) with
          | None => Panic
          | Some s' => count_loop f sep s' (S n)
          end
      end
  end.
Definition count_sub (s sep : bytes) : res nat := count_loop (length s + 1) sep s 0.

(* copy(t[w:], x) where t was allocated with [alloc] bytes and w = len of what was
   written so far: copies min(len(x), alloc-w) bytes; t[w:] panics if w > alloc *)
Definition copy_into (alloc : nat) (t x : bytes) : option bytes :=
  if Nat.leb (length t) alloc then Some (t ++ firstn (alloc - length t) x) else None.

(* the loop of bytes.Replace for len(old) > 0:
     for i := 0; i < n; i++ { j := start + Index(s[start:], old);
       w += copy(t[w:], s[start:j]); w += copy(t[w:], new); start = j + len(old) }
     w += copy(t[w:], s[start:]); return t[0:w] *)
Fixpoint replace_loop (n alloc : nat) (s old new : bytes) (start : Z) (t : bytes) : res bytes :=
  match n with
  | 0 =>
      match slice_z s start (len s) with
      | None => Panic
      | Some rest => match copy_into alloc t rest with Some t' => Ok t' | None => Panic end
      end
  | S n' =>
      match slice_z s start (len s) with
      | None => Panic
      | Some rest =>
          let j := (start + match index_sub old rest with Some k => Z.of_nat k | None => -1 end)%Z in
          match slice_z s start j with
          | None => Panic
          | Some seg =>
              match copy_into alloc t seg with
              | None => Panic
              | Some t1 =>
                  match copy_into alloc t1 new with
                  | None => Panic
                  | Some t2 => replace_loop n' alloc s old new (j + len old) t2
                  end
              end
          end
      end
  end.

(* bytes.Replace(s, old, new, -1), len(old) >= 2 *)
Definition replace_all (s old new : bytes) : res bytes :=
  match count_sub s old with
  | Ok m =>
      if Nat.eqb m 0 then Ok s   (* append([]byte(nil), s...) *)
      else
        (* t := make([]byte, len(s)+n*(len(new)-len(old))): panics if negative *)
        let alloc := (len s + Z.of_nat m * (len new - len old))%Z in
        if (alloc <? 0)%Z then Panic
        else replace_loop m (Z.to_nat alloc) s old new 0 []
  | Panic => Panic
  | OutOfFuel => OutOfFuel
  end.

(* bytes.TrimPrefix *)
Definition trim_prefix (p s : bytes) : res bytes :=
  if has_prefix p s then
    match slice_z s (len p) (len s) with Some r => Ok r | None => Panic end
  else Ok s.

(* bytes.Replace(s, old, new, n): modelled for n < 0 (replace all) and len(old) >= 2
   only; any other use is outside the modelled domain *)
Definition go_bytes_Replace (s old new : bytes) (n : Z) : res bytes :=
  if ((n <? 0) && (2 <=? len old))%Z then replace_all s old new else Panic.
(* bytes.TrimPrefix(s, p), strings.TrimPrefix(s, p) *)
Definition go_bytes_TrimPrefix (s p : bytes) : res bytes := trim_prefix p s.

(* What utf8.DecodeRune accepts (Lib/Utf8.v): exactly the shortest-form encodings of
   Unicode scalar values -- no overlong forms, no surrogates, nothing above U+10FFFF.
   Together with utf8_valid_iff (Utf8Facts.v) this is the specification of utf8.Valid. *)
From Coq Require Import List Bool Arith NArith ZArith Lia.
From Coq.Strings Require Import Byte.
From GI Require Import Lib.Bytes Lib.BytesFacts Gen.UnicodeConsts Lib.Utf8 Lib.Utf8Tables Lib.Utf8Facts.
Import ListNotations.
Open Scope N_scope.

Ltac Zify.zify_post_hook ::= Z.to_euclidean_division_equations.

Lemma bN_lt b : bN b < 256.
Proof. destruct b; reflexivity. Qed.

Lemma byte_of_bN b : byte_of_N (bN b) = b.
Proof. unfold byte_of_N, bN. now rewrite Byte.of_to_N. Qed.

Lemma bN_byte_of_N n : n < 256 -> bN (byte_of_N n) = n.
Proof.
  intros H. unfold byte_of_N, bN. destruct (Byte.of_N n) as [b|] eqn:E.
  - now apply Byte.to_of_N.
  - apply Byte.of_N_None_iff in E. lia.
Qed.

Lemma is_err1_err : is_err1 (rune_error, 1%nat) = true.
Proof. reflexivity. Qed.

Lemma is_scalar_iff r : is_scalar r = true <-> r < 55296 \/ 57344 <= r <= 1114111.
Proof. unfold is_scalar, max_rune. b2p. tauto. Qed.

(* a successful decode: the rune is a scalar value, the width is the length of its
   shortest encoding, and the bytes consumed are that encoding *)
Theorem decode_rune_sound d r w :
  decode_rune d = Some (r, w) -> is_err1 (r, w) = false ->
  is_scalar r = true /\ w = rune_len r /\ firstn w d = encode_rune r.
Proof.
  unfold decode_rune, err1, rune_self. destruct d as [|b0 rest]; [discriminate|].
  pose proof (bN_lt b0) as B0.
  destruct (bN b0 <? 128) eqn:E0.
  { intros H _. inversion H; subst. hyps. unfold rune_len, encode_rune.
    replace (bN b0 <? 128) with true by (symmetry; b2p; lia).
    rewrite byte_of_bN. rewrite is_scalar_iff. repeat split. lia. }
  destruct (in_range 194 223 b0) eqn:E2.
  { destruct rest as [|c1 r1]; [intros H He; inversion H; subst; now rewrite is_err1_err in He|].
    destruct (cont c1) eqn:Ec; [|intros H He; inversion H; subst; now rewrite is_err1_err in He].
    intros H _. inversion H; subst. clear H. hyps.
    set (rn := (bN b0 - 192) * 64 + (bN c1 - 128)).
    assert (Hr : 128 <= rn < 2048) by (unfold rn; lia).
    unfold rune_len, encode_rune.
    replace (rn <? 128) with false by (symmetry; b2p; lia).
    replace (rn <? 2048) with true by (symmetry; b2p; lia).
    replace (192 + rn / 64) with (bN b0) by (unfold rn; lia).
    replace (128 + rn mod 64) with (bN c1) by (unfold rn; lia).
    rewrite !byte_of_bN, is_scalar_iff. repeat split. lia. }
  destruct (in_range 224 239 b0) eqn:E3.
  { destruct rest as [|c1 [|c2 r2]]; try (intros H He; inversion H; subst; now rewrite is_err1_err in He).
    destruct (second3 b0 c1 && cont c2) eqn:Ec;
      [|intros H He; inversion H; subst; now rewrite is_err1_err in He].
    intros H _. inversion H; subst. clear H. hyps.
    set (rn := (bN b0 - 224) * 4096 + (bN c1 - 128) * 64 + (bN c2 - 128)).
    assert (Hr : 2048 <= rn < 65536 /\ (rn < 55296 \/ 57344 <= rn)) by (unfold rn; lia).
    unfold rune_len, encode_rune.
    replace (rn <? 128) with false by (symmetry; b2p; lia).
    replace (rn <? 2048) with false by (symmetry; b2p; lia).
    replace (rn <? 65536) with true by (symmetry; b2p; lia).
    replace (224 + rn / 4096) with (bN b0) by (unfold rn; lia).
    replace (128 + (rn / 64) mod 64) with (bN c1) by (unfold rn; lia).
    replace (128 + rn mod 64) with (bN c2) by (unfold rn; lia).
    rewrite !byte_of_bN, is_scalar_iff. repeat split. lia. }
  destruct (in_range 240 244 b0) eqn:E4;
    [|intros H He; inversion H; subst; now rewrite is_err1_err in He].
  destruct rest as [|c1 [|c2 [|c3 r3]]]; try (intros H He; inversion H; subst; now rewrite is_err1_err in He).
  destruct (second4 b0 c1 && cont c2 && cont c3) eqn:Ec;
    [|intros H He; inversion H; subst; now rewrite is_err1_err in He].
  intros H _. inversion H; subst. clear H. hyps.
  set (rn := (bN b0 - 240) * 262144 + (bN c1 - 128) * 4096 + (bN c2 - 128) * 64 + (bN c3 - 128)).
  assert (Hr : 65536 <= rn <= 1114111) by (unfold rn; lia).
  unfold rune_len, encode_rune.
  replace (rn <? 128) with false by (symmetry; b2p; lia).
  replace (rn <? 2048) with false by (symmetry; b2p; lia).
  replace (rn <? 65536) with false by (symmetry; b2p; lia).
  replace (240 + rn / 262144) with (bN b0) by (unfold rn; lia).
  replace (128 + (rn / 4096) mod 64) with (bN c1) by (unfold rn; lia).
  replace (128 + (rn / 64) mod 64) with (bN c2) by (unfold rn; lia).
  replace (128 + rn mod 64) with (bN c3) by (unfold rn; lia).
  rewrite !byte_of_bN, is_scalar_iff. repeat split. lia.
Qed.

(* the error answer is (RuneError, 1) *)
Lemma is_err1_iff r w : is_err1 (r, w) = true <-> r = rune_error /\ w = 1%nat.
Proof.
  unfold is_err1. cbn [fst snd]. rewrite andb_true_iff, N.eqb_eq, Nat.eqb_eq. tauto.
Qed.

Ltac range_true t := replace t with true by (symmetry; unfold cont, in_range; b2p; lia).
Ltac range_false t := replace t with false by (symmetry; unfold cont, in_range; b2p; lia).

(* conversely every scalar value, encoded in shortest form, decodes to itself *)
Theorem decode_encode r rest :
  is_scalar r = true -> decode_rune (encode_rune r ++ rest) = Some (r, rune_len r).
Proof.
  rewrite is_scalar_iff. intros Hs. unfold encode_rune, rune_len.
  destruct (r <? 128) eqn:E1.
  { cbn [app]. unfold decode_rune, rune_self.
    rewrite bN_byte_of_N by (apply N.ltb_lt in E1; lia). now rewrite E1. }
  apply N.ltb_ge in E1. destruct (r <? 2048) eqn:E2.
  { apply N.ltb_lt in E2. cbn [app]. unfold decode_rune, rune_self.
    set (b0 := byte_of_N (192 + r / 64)). set (c1 := byte_of_N (128 + r mod 64)).
    assert (H0 : bN b0 = 192 + r / 64) by (apply bN_byte_of_N; lia).
    assert (H1 : bN c1 = 128 + r mod 64) by (apply bN_byte_of_N; lia).
    range_false (bN b0 <? 128). range_true (in_range 194 223 b0). range_true (cont c1).
    f_equal. f_equal. lia. }
  apply N.ltb_ge in E2. destruct (r <? 65536) eqn:E3.
  { apply N.ltb_lt in E3. cbn [app]. unfold decode_rune, rune_self.
    set (b0 := byte_of_N (224 + r / 4096)). set (c1 := byte_of_N (128 + (r / 64) mod 64)).
    set (c2 := byte_of_N (128 + r mod 64)).
    assert (H0 : bN b0 = 224 + r / 4096) by (apply bN_byte_of_N; lia).
    assert (H1 : bN c1 = 128 + (r / 64) mod 64) by (apply bN_byte_of_N; lia).
    assert (H2 : bN c2 = 128 + r mod 64) by (apply bN_byte_of_N; lia).
    range_false (bN b0 <? 128). range_false (in_range 194 223 b0). range_true (in_range 224 239 b0).
    replace (second3 b0 c1) with true.
    2:{ symmetry. unfold second3.
        destruct (bN b0 =? 224) eqn:Ea; [|destruct (bN b0 =? 237) eqn:Eb];
          unfold cont, in_range; b2p; lia. }
    range_true (cont c2). cbn [andb]. f_equal. f_equal. lia. }
  apply N.ltb_ge in E3. cbn [app]. unfold decode_rune, rune_self.
  set (b0 := byte_of_N (240 + r / 262144)). set (c1 := byte_of_N (128 + (r / 4096) mod 64)).
  set (c2 := byte_of_N (128 + (r / 64) mod 64)). set (c3 := byte_of_N (128 + r mod 64)).
  assert (H0 : bN b0 = 240 + r / 262144) by (apply bN_byte_of_N; lia).
  assert (H1 : bN c1 = 128 + (r / 4096) mod 64) by (apply bN_byte_of_N; lia).
  assert (H2 : bN c2 = 128 + (r / 64) mod 64) by (apply bN_byte_of_N; lia).
  assert (H3 : bN c3 = 128 + r mod 64) by (apply bN_byte_of_N; lia).
  range_false (bN b0 <? 128). range_false (in_range 194 223 b0). range_false (in_range 224 239 b0).
  range_true (in_range 240 244 b0).
  replace (second4 b0 c1) with true.
  2:{ symmetry. unfold second4.
      destruct (bN b0 =? 240) eqn:Ea; [|destruct (bN b0 =? 244) eqn:Eb];
        unfold cont, in_range; b2p; lia. }
  range_true (cont c2). range_true (cont c3). cbn [andb]. f_equal. f_equal. lia.
Qed.

(* the two together: DecodeRune succeeds on d exactly when d starts with the
   shortest-form encoding of a scalar value *)
Theorem decode_rune_spec d r w :
  (decode_rune d = Some (r, w) /\ is_err1 (r, w) = false) <->
  (is_scalar r = true /\ w = rune_len r /\ exists rest, d = encode_rune r ++ rest).
Proof.
  split.
  - intros [H He]. destruct (decode_rune_sound d r w H He) as [Hs [Hw Hf]].
    repeat split; try assumption. exists (skipn w d). now rewrite <- Hf, firstn_skipn.
  - intros [Hs [-> [rest ->]]]. split; [now apply decode_encode|].
    unfold is_err1. cbn [fst snd]. apply andb_false_iff.
    destruct (N.eq_dec r rune_error) as [->|Hne]; [right; reflexivity|left; now apply N.eqb_neq].
Qed.

(* Examples: overlong forms, surrogates and values above U+10FFFF are refused, the
   properly encoded U+FFFD is not an error *)
Example ex_decode :
  decode_rune [xc0; x80] = err1 /\ decode_rune [xe0; x80; x80] = err1 /\
  decode_rune [xed; xa0; x80] = err1 /\ decode_rune [xf4; x90; x80; x80] = err1 /\
  decode_rune [xef; xbf; xbd] = Some (rune_error, 3%nat) /\
  decode_rune [xf4; x8f; xbf; xbf] = Some (max_rune, 4%nat) /\
  decode_last_rune [x41; xe2; x80; xa8] = Some (8232, 3%nat) /\
  decode_last_rune [xe2; x80] = err1.
Proof. vm_compute. repeat split; reflexivity. Qed.

(* Extension of Lib/GoSemState.v (the semantic library of the Go subset that harness/go2coq
   translates): which no-return call ended a function, for tables that set Config.FailMsgs
   (go2coq/segfail.go).  Definitions only.

   A function the table declares no-return (Config.NoReturn; checked by the translator: its body
   ends in panic(...) and has neither a return statement nor a recover) ends the translated
   function or segment that calls it as a statement.  With Config.FailMsgs the value says which
   call it was: [FailedM msg], msg the first argument of the call, a constant string (for
   testscript's ts.Fatalf the format of the message); [DoneM r] is a normal return of r.  As
   with GoSemState.exit, FailedM is not Panic (a Go run-time panic or a use outside the modelled
   domain): it is the orderly end "this input is refused, for this reason", and what the
   no-return function did before it left is not represented. *)
From Coq Require Import List.
From Coq.Strings Require Import Byte.
From GI Require Import Lib.Bytes.

Inductive exitm (A : Type) : Type :=
| DoneM (a : A)            (* return a *)
| FailedM (msg : bytes).   (* a no-return call with this first argument was reached *)
Arguments DoneM {A} a.
Arguments FailedM {A} msg.

(* Extension of Lib/GoSemState.v (the semantic library of the Go subset that harness/go2coq
   translates): which no-return call ended a function, for tables that set Config.FailMsgs
   (go2coq/segfail.go).  Definitions only.

   A function the table declares no-return (Config.NoReturn; checked by the translator: its body
   ends in panic(...) and has neither a return statement nor a recover) ends the translated
   function or segment that calls it as a statement.  With Config.FailMsgs the value says which
   call it was: [FailedM msg], msg the first argument of the call, a constant string (for
   testscript's ts.Fatalf the format of the message); [DoneM r] is a normal return of r.  As
   with GoSemState.exit, FailedM is not Panic (a Go run-time panic or a use outside the modelled
   domain): it is the orderly end "this input is refused, for this reason", and what the
   no-return function did before it left is not represented. *)
From Coq Require Import List.
From Coq.Strings Require Import Byte.
From GI Require Import Lib.Bytes.

Inductive exitm (A : Type) : Type :=
| DoneM (a : A)            (* return a *)
| FailedM (msg : bytes).   (* a no-return call with this first argument was reached *)
Arguments DoneM {A} a.
Arguments FailedM {A} msg.

(* a call, as a whole statement, of a function that may end in a no-return call (table entry
   LibFunc.MayFail: its denotation has the type res (exitm A)), followed by the rest of the
   block: FailedM msg ends the enclosing function with that value, DoneM a goes on with a *)
From GI Require Import Lib.GoSem.

Definition bindFO {A S L R : Type} (m : res (exitm A)) (k : A -> res (outcome S L (exitm R)))
  : res (outcome S L (exitm R)) :=
  match m with
  | Ok (DoneM a) => k a
  | Ok (FailedM msg) => Ok (Return (FailedM msg))
  | Panic => Panic
  | OutOfFuel => OutOfFuel
  end.

(* the same at the top level of a function *)
Definition bindFT {A R : Type} (m : res (exitm A)) (k : A -> res (exitm R)) : res (exitm R) :=
  match m with
  | Ok (DoneM a) => k a
  | Ok (FailedM msg) => Ok (FailedM msg)
  | Panic => Panic
  | OutOfFuel => OutOfFuel
  end.

(* v, ok := m[k] on a map that is read and written (GoSemState.mapref): the newest binding of
   k and true, or the zero value d and false for an absent key or the nil map *)
From GI Require Import Lib.GoSemState.

Fixpoint assoc_find {V : Type} (l : list (bytes * V)) (k : bytes) : option V :=
  match l with
  | nil => None
  | cons (k', v) r => if bytes_eqb k' k then Some v else assoc_find r k
  end.

Definition go_mapref_lookup {V : Type} (d : V) (m : mapref V) (k : bytes) : V * bool :=
  match m with
  | Some l => match assoc_find l k with Some v => (v, true) | None => (d, false) end
  | None => (d, false)
  end.

(* Extension of Lib/GoSem.v (the semantic library of the Go subset that harness/go2coq
   translates): slices of any element type, maps that are only read, range over a string
   and over an int, recursion.  Definitions only, each with the Go construct it denotes.
   Kept in a file of its own so that the files generated from txtar/archive.go do not
   depend on the rune decoder.

   Conventions added to those of GoSem.v
   - []T (T not byte) is [list T] with the same value semantics as []byte; the translator
     accepts no store into such a slice, so sharing a backing array is unobservable;
   - a map[string]T that a function only reads (m[k], passing it on; the translator rejects
     stores, delete, len, range, the two-result index and comparison with nil) is the total
     function [bytes -> T]: m[k] is [m k], an absent key gives T's zero value, a nil map is
     the constant zero function.  Go's maps are references: that nobody else writes the map
     while the function runs is assumed;
   - rune (int32) is Z; the translator accepts rune constants and comparisons only (no
     arithmetic, so no wrap-around);
   - a function that calls itself is a Fixpoint on [fuel], the bound on the depth of the
     recursion: OutOfFuel at 0, otherwise its body with fuel-1 for every loop and call
     inside.  (No definition is needed here: the generated text is
       Fixpoint f (fuel : nat) ... := match fuel with O => OutOfFuel | S fuel => body end.) *)
From Coq Require Import List Bool Arith ZArith NArith.
From Coq.Strings Require Import Byte.
From GI Require Import Lib.Bytes Lib.GoSem Lib.Utf8.
Import ListNotations.

(* ------------------------------------------------------------------ *)
(* slices of any element type                                          *)

(* x[i] for x of type []T: Go panics unless 0 <= i < len(x) *)
Definition index_of_z {A : Type} (x : list A) (i : Z) : option A :=
  if ((0 <=? i) && (i <? len_of x))%Z then nth_error x (Z.to_nat i) else None.
Definition go_index_of {A : Type} (x : list A) (i : Z) : res A :=
  match index_of_z x i with Some a => Ok a | None => Panic end.

(* x[lo:hi], x[lo:] (hi = len x), x[:hi] (lo = 0) for x of type []T: Go panics unless
   0 <= lo <= hi <= len(x) (cap(x) in Go; the stricter check, as for []byte) *)
Definition slice_of_z {A : Type} (x : list A) (lo hi : Z) : option (list A) :=
  if ((0 <=? lo) && (lo <=? hi) && (hi <=? len_of x))%Z
  then Some (firstn (Z.to_nat hi - Z.to_nat lo) (skipn (Z.to_nat lo) x))
  else None.
Definition go_slice_of {A : Type} (x : list A) (lo hi : Z) : res (list A) :=
  match slice_of_z x lo hi with Some s => Ok s | None => Panic end.

(* ------------------------------------------------------------------ *)
(* range                                                               *)

(* for i := range n (n an int, evaluated once): i = 0, 1, ..., n-1; no iteration if n <= 0 *)
Definition go_int_range (n : Z) : list Z := map Z.of_nat (seq 0 (Z.to_nat n)).

(* for i, c := range s (s a string): Go decodes one UTF-8 sequence at a time with
   utf8.DecodeRuneInString; i is the byte offset at which the sequence starts, c the rune
   (utf8.RuneError = U+FFFD, and the offset advances by one byte, where the bytes are not
   a valid encoding).  [decode_rune] is the decoder of Lib/Utf8.v (proved to accept exactly
   the shortest-form encodings of Unicode scalar values, Lib/Utf8EncodeFacts.v); it
   consumes at least one byte of a non-empty string, so [length s] steps suffice. *)
Fixpoint go_runes_from (steps : nat) (pos : Z) (s : bytes) : list (Z * Z) :=
  match steps with
  | O => []
  | S k =>
      match decode_rune s with
      | None => []
      | Some (r, w) => (pos, Z.of_N r) :: go_runes_from k (pos + Z.of_nat w)%Z (skipn w s)
      end
  end.
Definition go_runes (s : bytes) : list (Z * Z) := go_runes_from (length s) 0%Z s.

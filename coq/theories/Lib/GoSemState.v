(* Second extension of Lib/GoSem.v (the semantic library of the Go subset that harness/go2coq
   translates; first extension: Lib/GoSemExt.v): methods with a pointer receiver, calls that
   do not return, maps that are written.  Definitions only, each with the Go construct it
   denotes (translator side: harness/go2coq/methods.go).

   Conventions added to those of GoSem.v and GoSemExt.v
   - a method  func (x *T) m(params) R  is a function of the value of *x at entry (a record of
     the fields the table names; x is assumed not to be nil) and of its parameters; when the
     method, or a translated method it calls on x, assigns a field of x, the value of *x at
     return is the first component of its result: res T (no Go results) or res (T * R).
     (No definition is needed here.)
   - a function the table declares no-return (checked by the translator: its body ends in
     panic(...) and has no return statement and no recover) ends the translated function that
     calls it as a statement: that function has the result type res (exit R), [Done r] for a
     normal return of r and [Failed] where the no-return call is reached.  [Failed] is not
     [Panic]: Panic is a Go run-time panic (index out of range, store into a nil map) or a
     use outside the modelled domain, Failed is the orderly end "this input is refused"
     (testscript: ts.Fatalf, recovered by the caller of runLine).  What the no-return function
     did to the receiver before it left is not represented.
   - a map[string]V that is read AND written is [mapref V]: None is the nil map, Some l the
     bindings, newest first (an older binding of the same key stays in the list and is never
     seen again; the translator accepts neither len nor range nor delete, so the multiplicity
     is unobservable).  Go's maps are references: the translator checks that such a map is
     never copied (it only occurs as the operand of an index expression or as the target of
     m = make(...)), so that the value semantics is sound. *)
From Coq Require Import List Bool.
From Coq.Strings Require Import Byte.
From GI Require Import Lib.Bytes Lib.GoSem.
Import ListNotations.

(* ------------------------------------------------------------------ *)
(* how a function that contains a no-return call ends                  *)

Inductive exit (A : Type) : Type :=
| Done (a : A)     (* return a *)
| Failed.          (* a call of a no-return function was reached *)
Arguments Done {A} a.
Arguments Failed {A}.

(* ------------------------------------------------------------------ *)
(* maps with string keys that are read and written                     *)

Definition mapref (V : Type) : Type := option (list (bytes * V)).

(* the zero value of a map type: the nil map *)
Definition go_mapref_nil {V : Type} : mapref V := None.

(* make(map[string]V) *)
Definition go_mapref_make {V : Type} : mapref V := Some [].

(* the newest binding of k, or the zero value d *)
Fixpoint assoc_get {V : Type} (d : V) (l : list (bytes * V)) (k : bytes) : V :=
  match l with
  | [] => d
  | (k', v) :: r => if bytes_eqb k' k then v else assoc_get d r k
  end.

(* m[k] (d = the zero value of V): reading the nil map gives the zero value, as in Go *)
Definition go_mapref_get {V : Type} (d : V) (m : mapref V) (k : bytes) : V :=
  match m with
  | Some l => assoc_get d l k
  | None => d
  end.

(* m[k] = v: the value is m afterwards; Go panics on the nil map *)
Definition go_mapref_set {V : Type} (m : mapref V) (k : bytes) (v : V) : res (mapref V) :=
  match m with
  | Some l => Ok (Some ((k, v) :: l))
  | None => Panic
  end.

(* Table lemmas for Lib/Utf8Facts.v: unicode.IsSpace as a set of code points, and the
   white-space byte tables of Lib/Bytes.v (space_prefix, space_suffix_rev') as tables
   over byte codes, by exhaustive case analysis on the bytes involved. *)
From Coq Require Import List Bool Arith NArith ZArith Lia.
From Coq.Strings Require Import Byte.
From GI Require Import Lib.Bytes Lib.BytesFacts Gen.UnicodeConsts Lib.Utf8.
Import ListNotations.
Open Scope N_scope.

Ltac b2p :=
  repeat (rewrite ?orb_true_iff, ?andb_true_iff, ?N.leb_le, ?N.eqb_eq, ?N.ltb_lt, ?negb_true_iff,
          ?orb_false_iff, ?andb_false_iff, ?N.leb_gt, ?N.eqb_neq, ?N.ltb_ge in * ).

(* ------------------------------------------------------------------ *)
(* unicode.IsSpace: the regenerated tables denote this set of code points
   (a changed table breaks this lemma) *)

Definition space_points (r : N) : bool :=
  ((9 <=? r) && (r <=? 13)) || (r =? 32) || (r =? 133) || (r =? 160) || (r =? 5760)
  || ((8192 <=? r) && (r <=? 8202)) || (r =? 8232) || (r =? 8233) || (r =? 8239)
  || (r =? 8287) || (r =? 12288).

Lemma stride_two lo hi st r :
  hi = lo + st -> 0 < st ->
  ((lo <=? r) && (r <=? hi) && ((r - lo) mod st =? 0)) = ((r =? lo) || (r =? hi)).
Proof.
  intros -> Hst. apply Bool.eq_iff_eq_true. b2p. split.
  - intros [[H1 H2] H3].
    destruct (N.eq_dec r lo) as [|Hne]; [now left|right].
    destruct (N.eq_dec r (lo + st)) as [|Hne2]; [assumption|exfalso].
    rewrite N.mod_small in H3 by lia. lia.
  - intros [->| ->].
    + rewrite N.sub_diag, N.mod_0_l by lia. lia.
    + replace (lo + st - lo) with st by lia. rewrite N.mod_same by lia. lia.
Qed.

Lemma stride_one lo hi r :
  ((lo <=? r) && (r <=? hi) && ((r - lo) mod 1 =? 0)) = ((lo <=? r) && (r <=? hi)).
Proof. rewrite N.mod_1_r. cbn. now rewrite andb_true_r. Qed.

Lemma is_space_rune_points r : is_space_rune r = space_points r.
Proof.
  unfold is_space_rune, space_points, in_ranges, max_latin1, latin1_space, white_space_ranges.
  cbn [existsb]. rewrite !stride_one, !(stride_two _ _ _ r) by (reflexivity || lia).
  apply Bool.eq_iff_eq_true. rewrite !orb_false_r.
  destruct (r <=? 255) eqn:E; b2p; lia.
Qed.

Lemma rune_consts : rune_self = 128 /\ rune_error = 65533 /\ max_rune = 1114111.
Proof. repeat split. Qed.

(* ------------------------------------------------------------------ *)
(* the white-space byte table of Lib/Bytes.v, as a table over byte codes *)

Definition sp1 (n0 : N) : bool := ((9 <=? n0) && (n0 <=? 13)) || (n0 =? 32).
Definition sp2 (n0 n1 : N) : bool := (n0 =? 194) && ((n1 =? 133) || (n1 =? 160)).
Definition sp3 (n0 n1 n2 : N) : bool :=
  ((n0 =? 225) && ((n1 =? 154) && (n2 =? 128)))
  || ((n0 =? 226) && (((n1 =? 128) && (((128 <=? n2) && (n2 <=? 138)) || (n2 =? 168) || (n2 =? 169) || (n2 =? 175)))
                      || ((n1 =? 129) && (n2 =? 159))))
  || ((n0 =? 227) && ((n1 =? 128) && (n2 =? 128))).

Definition sp_table (b0 : byte) (r : bytes) : nat :=
  if sp1 (bN b0) then 1%nat else
  match r with
  | c1 :: r1 =>
      if sp2 (bN b0) (bN c1) then 2%nat else
      match r1 with
      | c2 :: _ => if sp3 (bN b0) (bN c1) (bN c2) then 3%nat else 0%nat
      | [] => 0%nat
      end
  | [] => 0%nat
  end.

(* read forwards: b0 is the first byte *)
Lemma space_prefix_table b0 r : space_prefix (b0 :: r) = sp_table b0 r.
Proof.
  destruct r as [|c1 [|c2 r2]].
  - destruct b0; reflexivity.
  - destruct b0; try reflexivity; destruct c1; reflexivity.
  - destruct b0; try reflexivity; destruct c1; try reflexivity; destruct c2; reflexivity.
Qed.

(* read backwards: l0 is the last byte, q the bytes in front of it, nearest first *)
Definition sp_table_rev (l0 : byte) (q : bytes) : nat :=
  if sp1 (bN l0) then 1%nat else
  match q with
  | b1 :: q1 =>
      if sp2 (bN b1) (bN l0) then 2%nat else
      match q1 with
      | b2 :: _ => if sp3 (bN b2) (bN b1) (bN l0) then 3%nat else 0%nat
      | [] => 0%nat
      end
  | [] => 0%nat
  end.

(* the same tables with the tests ordered from the last byte (so that they compute
   when only the last bytes are known) *)
Definition sp2r (n0 n1 : N) : bool := ((n1 =? 133) || (n1 =? 160)) && (n0 =? 194).
Definition sp3r (n0 n1 n2 : N) : bool :=
  ((n2 =? 128) && ((n1 =? 154) && (n0 =? 225)))
  || (((((128 <=? n2) && (n2 <=? 138)) || (n2 =? 168) || (n2 =? 169) || (n2 =? 175))
       && ((n1 =? 128) && (n0 =? 226)))
  || ((n2 =? 159) && ((n1 =? 129) && (n0 =? 226))))
  || ((n2 =? 128) && ((n1 =? 128) && (n0 =? 227))).

Lemma sp2r_eq n0 n1 : sp2r n0 n1 = sp2 n0 n1.
Proof. unfold sp2r, sp2. apply andb_comm. Qed.

Lemma sp3r_eq n0 n1 n2 : sp3r n0 n1 n2 = sp3 n0 n1 n2.
Proof. apply Bool.eq_iff_eq_true. unfold sp3r, sp3. b2p. tauto. Qed.

Definition sp_table_rev' (l0 : byte) (q : bytes) : nat :=
  if sp1 (bN l0) then 1%nat else
  match q with
  | b1 :: q1 =>
      if sp2r (bN b1) (bN l0) then 2%nat else
      match q1 with
      | b2 :: _ => if sp3r (bN b2) (bN b1) (bN l0) then 3%nat else 0%nat
      | [] => 0%nat
      end
  | [] => 0%nat
  end.

Lemma sp_table_rev_eq l0 q : sp_table_rev' l0 q = sp_table_rev l0 q.
Proof.
  unfold sp_table_rev', sp_table_rev. destruct q as [|b1 [|b2 q2]];
    now rewrite ?sp2r_eq, ?sp3r_eq.
Qed.

(* byte codes that end some white-space encoding *)
Definition last_special (n : N) : bool :=
  sp1 n || (n =? 133) || (n =? 160) || ((128 <=? n) && (n <=? 138)) || (n =? 168) || (n =? 169)
  || (n =? 175) || (n =? 159).

Lemma sp_table_rev_zero l0 q : last_special (bN l0) = false -> sp_table_rev l0 q = 0%nat.
Proof.
  intros H. unfold sp_table_rev.
  assert (H1 : sp1 (bN l0) = false).
  { unfold last_special in H. b2p. tauto. }
  assert (H2 : forall n1, sp2 n1 (bN l0) = false).
  { intros n1. apply Bool.not_true_iff_false. unfold sp2, last_special, sp1 in *. b2p. lia. }
  assert (H3 : forall n2 n1, sp3 n2 n1 (bN l0) = false).
  { intros n2 n1. apply Bool.not_true_iff_false. unfold sp3, last_special, sp1 in *. b2p. lia. }
  rewrite H1. destruct q as [|b1 [|b2 q2]]; [reflexivity| |]; now rewrite H2, ?H3.
Qed.

Lemma ssr_nonspecial q : space_suffix_rev' (x41 :: q) = 0%nat.
Proof.
  destruct q as [|b1 [|b2 q2]]; try reflexivity;
    destruct b1; try reflexivity; destruct b2; reflexivity.
Qed.

Ltac vr := (vm_compute; reflexivity).

Lemma space_suffix_table l0 q : space_suffix_rev' (l0 :: q) = sp_table_rev l0 q.
Proof.
  destruct (last_special (bN l0)) eqn:E.
  - rewrite <- sp_table_rev_eq.
    (destruct l0; try (vm_compute in E; discriminate E)).
    all: (destruct q as [|b1 [|b2 q2]]; try vr; destruct b1; try vr; destruct b2; vr).
  - rewrite (sp_table_rev_zero l0 q E).
    (destruct l0; try (vm_compute in E; discriminate E)).
    all: exact (ssr_nonspecial q).
Qed.

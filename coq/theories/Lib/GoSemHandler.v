(* Extension of Lib/GoSem.v (the semantic library of the Go subset that harness/go2coq
   translates) for segments of request handlers (go2coq/segstate.go).  Definitions only, each
   with the Go construct it denotes.

   Conventions added to those of GoSem.v, GoSemExt.v and GoSemSeg.v
   - a pointer type to a table struct that the table lists as Nullable (pointer to txtar.Archive) is
     [option T]: None is nil, Some s a pointer to a struct whose value is s.  Such a value is
     immutable inside a segment (the translator refuses a store through it, new and &), so
     copies of the pointer are copies of the value;
   - a state variable of a segment (Segment.State: the receiver when its fields are assigned,
     a parameter of an opaque library type such as http.ResponseWriter) is passed by value;
     a return statement inside the segment yields (state variables..., results): what the
     caller of the function observes after the return;
   - a call statement of a table function marked Discard (a log function) is dropped: its
     effect lies outside the denoted state, its arguments are checked to be pure;
   - the value of a call of a table function marked Oracle (a function that does I/O but
     changes none of the denoted state) is a parameter in_k of the segment; its arguments are
     not translated;
   - err.Error() is the table's stand-in for an unobservable text (errors are bools). *)
From Coq Require Import List.
From GI Require Import Lib.GoSem.

(* p == nil for p of a nullable pointer type *)
Definition go_is_nil {A : Type} (p : option A) : bool :=
  match p with None => true | Some _ => false end.

(* the struct a field selection p.f reads through p: Go panics (nil pointer dereference)
   when p is nil *)
Definition go_deref {A : Type} (p : option A) : res A :=
  match p with Some s => Ok s | None => Panic end.

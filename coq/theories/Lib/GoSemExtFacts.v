(* Lemmas and tactics about the vocabulary of Lib/GoSem.v and Lib/GoSemExt.v that the
   equality proofs between translated sources (Gen/*Src.v) and hand-written models share:
   checked slice and index expressions in terms of firstn / skipn / nth_error, the byte
   and substring searches, range over a string and over an int, the substring relation.
   (The txtar proofs, written first, carry their own copies in Txtar/TxtarIndexFacts.v.) *)
From Coq Require Import List Bool Arith ZArith NArith Lia ZifyBool.
From Coq.Strings Require Import Byte.
From GI Require Import Lib.Bytes Lib.BytesFacts Lib.GoSem Lib.GoSemExt Lib.Utf8 Lib.Utf8Facts.
Import ListNotations.
Local Open Scope nat_scope.

(* ------------------------------------------------------------------ *)
(* tactics (as in Txtar/SrcFacts.v)                                    *)

Definition opt_res {A : Type} (o : option A) : res A :=
  match o with Some a => Ok a | None => Panic end.

(* a function's result as the outcome of a block that returns it *)
Definition returned {S L R : Type} (r : res R) : res (outcome S L R) :=
  match r with Ok x => Ok (Return x) | Panic => Panic | OutOfFuel => OutOfFuel end.

Ltac go_red :=
  cbv beta iota zeta;
  cbn [bind bindT bindO bindL negb orb andb fst snd opt_res returned app].

(* case split on the innermost scrutinee *)
Ltac break_match :=
  match goal with
  | |- context [match ?x with _ => _ end] =>
      lazymatch x with
      | context [match _ with _ => _ end] => fail
      | _ => destruct x eqn:?
      end
  end.

Ltac go_cases tac :=
  go_red; repeat (break_match; go_red; try reflexivity; try discriminate; try lia; try tac).

Lemma bytes_eqb_nil x : bytes_eqb x [] = match x with [] => true | _ => false end.
Proof. now destruct x. Qed.

Lemma bytes_eqb_sym a : forall b, bytes_eqb a b = bytes_eqb b a.
Proof.
  induction a as [|x a IH]; intros [|y b]; cbn [bytes_eqb]; try reflexivity.
  now rewrite beq_sym, IH.
Qed.

(* ------------------------------------------------------------------ *)
(* len, slices and indices of byte strings                             *)

Lemma len_nil : len [] = 0%Z.
Proof. reflexivity. Qed.

Lemma len_pos_iff d : (len d >? 0)%Z = match d with [] => false | _ => true end.
Proof. unfold len. destruct d; cbn [length]; lia. Qed.

Lemma len_zero_iff d : (len d =? 0)%Z = match d with [] => true | _ => false end.
Proof. unfold len. destruct d; cbn [length]; lia. Qed.

Lemma slice_z_nat d lo hi : lo <= hi -> hi <= length d ->
  slice_z d (Z.of_nat lo) (Z.of_nat hi) = Some (firstn (hi - lo) (skipn lo d)).
Proof.
  intros H1 H2. unfold slice_z, len.
  destruct ((0 <=? Z.of_nat lo) && (Z.of_nat lo <=? Z.of_nat hi) && (Z.of_nat hi <=? Z.of_nat (length d)))%Z eqn:E; [|lia].
  now rewrite !Nat2Z.id.
Qed.

(* d[:k] *)
Lemma slice_z_to d k : k <= length d -> slice_z d 0 (Z.of_nat k) = Some (firstn k d).
Proof. intros H. change 0%Z with (Z.of_nat 0). rewrite (slice_z_nat d 0 k) by lia. now rewrite Nat.sub_0_r. Qed.

(* d[k:] *)
Lemma slice_z_from d k : k <= length d -> slice_z d (Z.of_nat k) (len d) = Some (skipn k d).
Proof.
  intros H. unfold len. rewrite slice_z_nat by lia. f_equal. apply firstn_all2. rewrite skipn_length. lia.
Qed.

(* d[len(d):] *)
Lemma slice_z_end d : slice_z d (len d) (len d) = Some [].
Proof. unfold len at 1. rewrite slice_z_from by lia. now rewrite skipn_all. Qed.

(* d[0] *)
Lemma index_z_head b r : index_z (b :: r) 0 = Some b.
Proof. unfold index_z, len. cbn [length]. destruct ((0 <=? 0) && (0 <? Z.of_nat (S (length r))))%Z eqn:E; [reflexivity|lia]. Qed.

Lemma index_z_nat d k : k < length d -> index_z d (Z.of_nat k) = nth_error d k.
Proof.
  intros H. unfold index_z, len.
  destruct ((0 <=? Z.of_nat k) && (Z.of_nat k <? Z.of_nat (length d)))%Z eqn:E; [|lia]. now rewrite Nat2Z.id.
Qed.

(* ------------------------------------------------------------------ *)
(* searches                                                            *)

Lemma index_byte_Some c d k : index_byte c d = Some k ->
  k < length d /\ ~ In c (firstn k d) /\ d = firstn k d ++ c :: skipn (S k) d.
Proof.
  revert k. induction d as [|b r IH]; intros k H; cbn [index_byte] in H; [discriminate|].
  destruct (beq b c) eqn:E.
  - injection H as <-. apply beq_eq in E. subst b. cbn. repeat split; [lia|tauto].
  - destruct (index_byte c r) as [j|]; [|discriminate]. injection H as <-.
    destruct (IH j eq_refl) as [H1 [H2 H3]]. cbn [length firstn skipn]. split; [lia|]. split.
    + intros [Hc|Hc]; [subst; now rewrite beq_refl in E|contradiction].
    + cbn [app]. f_equal. exact H3.
Qed.

Lemma index_byte_None c d : index_byte c d = None -> ~ In c d.
Proof.
  induction d as [|b r IH]; cbn [index_byte]; [tauto|]. destruct (beq b c) eqn:E; [discriminate|].
  destruct (index_byte c r); [discriminate|]. intros _ [H|H]; [subst; now rewrite beq_refl in E|now apply IH].
Qed.

Lemma index_byte_first c pre rest : ~ In c pre -> index_byte c (pre ++ c :: rest) = Some (length pre).
Proof.
  induction pre as [|b p IH]; intros H; cbn [app index_byte length].
  - now rewrite beq_refl.
  - rewrite beq_false by (intros ->; apply H; now left). rewrite IH; [reflexivity|]. intros Hin. apply H. now right.
Qed.

Lemma index_byte_notin c d : ~ In c d -> index_byte c d = None.
Proof.
  induction d as [|b r IH]; intros H; [reflexivity|]. cbn [index_byte].
  rewrite beq_false by (intros ->; apply H; now left). rewrite IH; [reflexivity|]. intros Hin. apply H. now right.
Qed.

(* strings.Index(s, "c") for a one-byte string is strings.IndexByte(s, 'c') *)
Lemma index_sub_byte c d : index_sub [c] d = index_byte c d.
Proof.
  induction d as [|b r IH]; [reflexivity|]. cbn [index_sub index_byte has_prefix].
  rewrite andb_true_r, beq_sym. destruct (beq b c); [reflexivity|]. now rewrite IH.
Qed.

(* the line that `i := IndexByte(p, c); if i >= 0 { line, p = p[:i], p[i+1:] } else { line, p = p, p[len(p):] }` cuts off *)
Definition cut_at (c : byte) (p : bytes) : bytes * bytes :=
  match index_byte c p with
  | Some k => (firstn k p, skipn (S k) p)
  | None => (p, [])
  end.

Lemma cut_at_length c p : p <> [] -> length (snd (cut_at c p)) < length p.
Proof.
  intros Hp. unfold cut_at. destruct (index_byte c p) as [k|] eqn:E; cbn [snd].
  - apply index_byte_Some in E. rewrite skipn_length. lia.
  - destruct p; [contradiction|cbn; lia].
Qed.

(* ------------------------------------------------------------------ *)
(* the substring relation                                              *)

Definition sub (x d : bytes) : Prop := exists a b, d = a ++ x ++ b.

Lemma sub_refl d : sub d d.
Proof. exists [], []. now rewrite app_nil_r. Qed.

Lemma sub_trans x y z : sub x y -> sub y z -> sub x z.
Proof.
  intros [a [b ->]] [c [e ->]]. exists (c ++ a), (b ++ e). now rewrite <- !app_assoc.
Qed.

Lemma sub_length x d : sub x d -> length x <= length d.
Proof. intros [a [b ->]]. rewrite !app_length. lia. Qed.

Lemma sub_incl x d : sub x d -> incl x d.
Proof. intros [a [b ->]] y Hy. apply in_or_app. right. apply in_or_app. now left. Qed.

Lemma sub_firstn k d : sub (firstn k d) d.
Proof. exists [], (skipn k d). cbn [app]. now rewrite firstn_skipn. Qed.

Lemma sub_skipn k d : sub (skipn k d) d.
Proof. exists (firstn k d), []. now rewrite app_nil_r, firstn_skipn. Qed.

Lemma sub_app_l x a d : sub x d -> sub x (a ++ d).
Proof. intros [p [q ->]]. exists (a ++ p), q. now rewrite <- app_assoc. Qed.

Lemma sub_app_r x a d : sub x d -> sub x (d ++ a).
Proof. intros [p [q ->]]. exists p, (q ++ a). now rewrite <- !app_assoc. Qed.

Lemma sub_cons x b d : sub x d -> sub x (b :: d).
Proof. apply (sub_app_l x [b] d). Qed.

Lemma sub_tail b r : sub r (b :: r).
Proof. exists [b], []. now rewrite app_nil_r. Qed.

Lemma sub_trim_space d : sub (trim_space d) d.
Proof.
  unfold trim_space. destruct (trim_left_suffix d) as [p Hp]. destruct (trim_right_prefix (trim_left d)) as [s Hs].
  exists p, s. rewrite <- Hs. exact Hp.
Qed.

Lemma sub_Forall (Q : byte -> Prop) x d : sub x d -> Forall Q d -> Forall Q x.
Proof. intros Hs Hd. apply Forall_forall. intros y Hy. rewrite Forall_forall in Hd. apply Hd. now apply (sub_incl x d). Qed.

Lemma cut_at_sub c p : sub (fst (cut_at c p)) p /\ sub (snd (cut_at c p)) p.
Proof.
  unfold cut_at. destruct (index_byte c p); cbn [fst snd].
  - split; [apply sub_firstn|apply sub_skipn].
  - split; [apply sub_refl|]. exists p, []. now rewrite app_nil_r.
Qed.

(* ------------------------------------------------------------------ *)
(* slices of any element type                                          *)

Lemma len_of_app {A} (x y : list A) : len_of (x ++ y) = (len_of x + len_of y)%Z.
Proof. unfold len_of. rewrite app_length. lia. Qed.

Lemma len_of_nonneg {A} (x : list A) : (0 <= len_of x)%Z.
Proof. unfold len_of. lia. Qed.

(* x[len(x)-1] *)
Lemma index_of_last {A} (q : list A) (a : A) : index_of_z (q ++ [a]) (len_of (q ++ [a]) - 1) = Some a.
Proof.
  unfold index_of_z, len_of. rewrite app_length. cbn [length].
  destruct ((0 <=? Z.of_nat (length q + 1) - 1) && (Z.of_nat (length q + 1) - 1 <? Z.of_nat (length q + 1)))%Z eqn:E; [|lia].
  replace (Z.to_nat (Z.of_nat (length q + 1) - 1)) with (length q) by lia.
  rewrite nth_error_app2 by lia. now rewrite Nat.sub_diag.
Qed.

(* x[len(x)-2] *)
Lemma index_of_last2 {A} (q : list A) (o a : A) : index_of_z (q ++ [o; a]) (len_of (q ++ [o; a]) - 2) = Some o.
Proof.
  unfold index_of_z, len_of. rewrite app_length. cbn [length].
  destruct ((0 <=? Z.of_nat (length q + 2) - 2) && (Z.of_nat (length q + 2) - 2 <? Z.of_nat (length q + 2)))%Z eqn:E; [|lia].
  replace (Z.to_nat (Z.of_nat (length q + 2) - 2)) with (length q) by lia.
  rewrite nth_error_app2 by lia. now rewrite Nat.sub_diag.
Qed.

(* x[:len(x)-1] *)
Lemma slice_of_init {A} (q : list A) (a : A) : slice_of_z (q ++ [a]) 0 (len_of (q ++ [a]) - 1) = Some q.
Proof.
  unfold slice_of_z, len_of. rewrite app_length. cbn [length].
  destruct ((0 <=? 0) && (0 <=? Z.of_nat (length q + 1) - 1) && (Z.of_nat (length q + 1) - 1 <=? Z.of_nat (length q + 1)))%Z eqn:E; [|lia].
  replace (Z.to_nat (Z.of_nat (length q + 1) - 1) - Z.to_nat 0) with (length q) by lia.
  cbn [Z.to_nat skipn]. now rewrite firstn_app, Nat.sub_diag, firstn_all, app_nil_r.
Qed.

(* x[0] and x[1:] *)
Lemma index_of_head {A} (a : A) (r : list A) : index_of_z (a :: r) 0 = Some a.
Proof.
  unfold index_of_z, len_of. cbn [length]. destruct ((0 <=? 0) && (0 <? Z.of_nat (S (length r))))%Z eqn:E; [reflexivity|lia].
Qed.

Lemma index_of_nil {A} i : @index_of_z A [] i = None.
Proof. unfold index_of_z, len_of. cbn [length]. destruct ((0 <=? i) && (i <? Z.of_nat 0))%Z eqn:E; [lia|reflexivity]. Qed.

Lemma slice_of_tail {A} (a : A) (r : list A) : slice_of_z (a :: r) 1 (len_of (a :: r)) = Some r.
Proof.
  unfold slice_of_z, len_of. cbn [length].
  destruct ((0 <=? 1) && (1 <=? Z.of_nat (S (length r))) && (Z.of_nat (S (length r)) <=? Z.of_nat (S (length r))))%Z eqn:E; [|lia].
  rewrite Nat2Z.id. change (Z.to_nat 1) with 1. cbn [skipn]. f_equal. apply firstn_all2. lia.
Qed.

(* ------------------------------------------------------------------ *)
(* range over an int                                                   *)

Lemma go_int_range_len d : go_int_range (len d) = map Z.of_nat (seq 0 (length d)).
Proof. unfold go_int_range, len. now rewrite Nat2Z.id. Qed.

(* ------------------------------------------------------------------ *)
(* range over a string                                                 *)

Lemma decode_rune_nonempty b r : exists c w, decode_rune (b :: r) = Some (c, w) /\ 1 <= w.
Proof.
  destruct (decode_rune (b :: r)) as [[c w]|] eqn:E.
  - exists c, w. split; [reflexivity|]. apply decode_rune_width in E. lia.
  - exfalso. unfold decode_rune, err1 in E.
    repeat match type of E with
           | (if ?c then _ else _) = None => destruct c
           | match ?x with _ => _ end = None => destruct x
           end; discriminate.
Qed.

(* the runes of a string, one decoding step unfolded; the number of steps is immaterial
   once it covers the string *)
Lemma go_runes_from_enough n : forall m pos s, length s <= n -> length s <= m ->
  go_runes_from n pos s = go_runes_from m pos s.
Proof.
  induction n as [|n IH]; intros m pos s Hn Hm.
  - destruct s; [|cbn in Hn; lia]. destruct m; reflexivity.
  - destruct s as [|b r]; [destruct m; reflexivity|]. destruct m as [|m]; [cbn in Hm; lia|].
    cbn [go_runes_from]. destruct (decode_rune_nonempty b r) as [c [w [E Hw]]]. rewrite E.
    f_equal. apply IH; rewrite skipn_length; cbn [length] in *; lia.
Qed.

Lemma go_runes_nil : go_runes [] = [].
Proof. reflexivity. Qed.

(* ------------------------------------------------------------------ *)
(* the last elements of a slice, in terms of the reversed list          *)

Lemma rev_cases {A} (l : list A) :
  (l = [] /\ rev l = []) \/ (exists q a, l = q ++ [a] /\ rev l = a :: rev q).
Proof.
  destruct (rev l) as [|a r] eqn:E.
  - left. split; [|reflexivity]. rewrite <- (rev_involutive l), E. reflexivity.
  - right. exists (rev r), a. rewrite rev_involutive. split; [|reflexivity].
    rewrite <- (rev_involutive l), E. reflexivity.
Qed.

(* len(x) > 0, len(x) >= 1, len(x) >= 2 *)
Lemma len_of_pos_rev {A} (l : list A) : (len_of l >? 0)%Z = match rev l with [] => false | _ => true end.
Proof.
  destruct (rev_cases l) as [[-> ->]|[q [a [-> ->]]]]; [reflexivity|]. unfold len_of. rewrite app_length. cbn [length]. lia.
Qed.
Lemma len_of_ge1_rev {A} (l : list A) : (len_of l >=? 1)%Z = match rev l with [] => false | _ => true end.
Proof.
  destruct (rev_cases l) as [[-> ->]|[q [a [-> ->]]]]; [reflexivity|]. unfold len_of. rewrite app_length. cbn [length]. lia.
Qed.
Lemma len_of_ge2_rev {A} (l : list A) : (len_of l >=? 2)%Z = match rev l with _ :: _ :: _ => true | _ => false end.
Proof.
  destruct (rev_cases l) as [[-> ->]|[q [a [-> ->]]]]; [reflexivity|].
  destruct (rev_cases q) as [[-> ->]|[q' [o [-> ->]]]]; [reflexivity|].
  unfold len_of. rewrite !app_length. cbn [length]. lia.
Qed.

(* x[len(x)-1], x[len(x)-2], x[:len(x)-1] *)
Lemma go_index_of_last_rev {A} (l : list A) :
  go_index_of l (len_of l - 1) = match rev l with a :: _ => Ok a | [] => Panic end.
Proof.
  unfold go_index_of. destruct (rev_cases l) as [[-> ->]|[q [a [-> ->]]]]; [now rewrite index_of_nil|].
  now rewrite index_of_last.
Qed.
Lemma go_index_of_last2_rev {A} (l : list A) :
  go_index_of l (len_of l - 2) = match rev l with _ :: o :: _ => Ok o | _ => Panic end.
Proof.
  unfold go_index_of. destruct (rev_cases l) as [[-> ->]|[q [a [-> ->]]]]; [now rewrite index_of_nil|].
  destruct (rev_cases q) as [[-> ->]|[q' [o [-> ->]]]].
  - unfold index_of_z, len_of. cbn [app length]. reflexivity.
  - rewrite <- app_assoc. cbn [app]. now rewrite index_of_last2.
Qed.
Lemma go_slice_of_init_rev {A} (l : list A) :
  go_slice_of l 0 (len_of l - 1) = match rev l with _ :: r => Ok (rev r) | [] => Panic end.
Proof.
  unfold go_slice_of. destruct (rev_cases l) as [[-> ->]|[q [a [-> ->]]]]; [reflexivity|].
  now rewrite slice_of_init, rev_involutive.
Qed.

(* Proofs about the model of imports/read.go (Read.v), part 1: for every byte string the
   reader terminates within its fuel, never reaches the "looping" panic, only returns
   bytes read from the input, and returns the whole input after an unreported syntax
   error. *)
From Coq Require Import List Bool Arith NArith Lia.
From Coq.Strings Require Import Byte.
From GI Require Import Lib.Bytes Lib.BytesFacts Imports.Read.
Import ListNotations.

(* ------------------------------------------------------------------ *)
(* loops                                                               *)

Lemma loop_inv {A} (J Post : A -> Prop) (m : A -> nat) fuel oof step (a : A) :
  (forall a, J a -> (snd (step a) = true -> J (fst (step a)) /\ m (fst (step a)) < m a)
                    /\ (snd (step a) = false -> Post (fst (step a)))) ->
  J a -> m a < fuel -> Post (loop fuel oof step a).
Proof.
  intros Hstep. revert a. induction fuel as [|f IH]; intros a HJ Hm; [lia|].
  cbn [loop]. destruct (Hstep a HJ) as [Hc He]. destruct (step a) as [a' again]. cbn [fst snd] in *.
  destruct again.
  - destruct (Hc eq_refl) as [HJ' Hlt]. apply IH; [exact HJ'|lia].
  - now apply He.
Qed.

(* ------------------------------------------------------------------ *)
(* measure, invariants                                                 *)

Definition mu0 (s : st) : nat :=
  2 * length (rest s) + (if beq (peek s) NUL then 0 else 1) + (if eof s then 0 else 2).
Definition mu (s : st) : nat := mu0 s + (if no_err s then 2 else 0).
Definition inp (s : st) : bytes := rev (rbuf s) ++ rest s.
Definition wf (s : st) : Prop :=
  (no_err s = true -> nerr s = 0%N) /\ (eof s = true -> rest s = []) /\ (peek s <> NUL -> rbuf s <> []).

Record trans (k : N) (s s' : st) : Prop := mk_trans {
  t_fail : fail s' = FNone;
  t_inp : inp s' = inp s;
  t_mu : mu0 s' <= mu0 s;
  t_err : no_err s' = true -> no_err s = true;
  t_nerr : (nerr s' <= nerr s + k)%N;
  t_wf : wf s'
}.

Lemma mu_le s s' : mu0 s' <= mu0 s -> (no_err s' = true -> no_err s = true) -> mu s' <= mu s.
Proof. unfold mu. intros H1 H2. destruct (no_err s'), (no_err s); try lia; specialize (H2 eq_refl); discriminate. Qed.

Lemma mu_lt_strict s s' : mu0 s' < mu0 s -> (no_err s' = true -> no_err s = true) -> mu s' < mu s.
Proof. unfold mu. intros H1 H2. destruct (no_err s'), (no_err s); try lia; specialize (H2 eq_refl); discriminate. Qed.

Lemma mu_lt_err s s' : mu0 s' <= mu0 s -> no_err s = true -> no_err s' = false -> mu s' < mu s.
Proof. unfold mu. intros H1 H2 H3. rewrite H2, H3. lia. Qed.

Lemma trans_mu k s s' : trans k s s' -> mu s' <= mu s.
Proof. intros T. apply mu_le; [apply (t_mu _ _ _ T)|apply (t_err _ _ _ T)]. Qed.

Lemma trans_refl s : wf s -> fail s = FNone -> trans 0 s s.
Proof. intros W Fl. constructor; auto. lia. Qed.

Lemma trans_trans k1 k2 s s1 s2 : trans k1 s s1 -> trans k2 s1 s2 -> trans (k1 + k2) s s2.
Proof.
  intros [a1 b1 c1 d1 e1 f1] [a2 b2 c2 d2 e2 f2]. constructor; auto; try congruence; lia.
Qed.

Lemma trans_weaken k k' s s' : trans k s s' -> (k <= k')%N -> trans k' s s'.
Proof. intros [a b c d e f] H. constructor; auto. lia. Qed.

Lemma trans_trans' k k1 k2 s s1 s2 :
  trans k1 s s1 -> trans k2 s1 s2 -> (k1 + k2 <= k)%N -> trans k s s2.
Proof. intros T1 T2 H. eapply trans_weaken; [eapply trans_trans; eauto|exact H]. Qed.

(* ------------------------------------------------------------------ *)
(* readByte, syntaxError                                               *)

Lemma beq_NUL_dec c : {c = NUL} + {c <> NUL}.
Proof. destruct (beq c NUL) eqn:E; [left; now apply beq_eq|right; now apply beq_neq]. Qed.

Lemma trans_set_err k s s1 e : trans k s s1 -> e <> ENone -> trans k s (set_err s1 e).
Proof.
  intros [a b c d f [w1 [w2 w3]]] He. apply mk_trans.
  - exact a.
  - exact b.
  - exact c.
  - unfold no_err. cbn. destruct e; [contradiction|discriminate|discriminate].
  - exact f.
  - split; [|split; [exact w2|exact w3]].
    unfold no_err. cbn. destruct e; [contradiction|discriminate|discriminate].
Qed.

Lemma syntax_error_trans s : wf s -> fail s = FNone -> trans 0 s (syntax_error s).
Proof.
  intros W Fl. unfold syntax_error. destruct (no_err s) eqn:E; [|now apply trans_refl].
  apply trans_set_err; [now apply trans_refl|discriminate].
Qed.

Lemma syntax_error_no_err s : no_err (syntax_error s) = false.
Proof. unfold syntax_error. destruct (no_err s) eqn:E; [reflexivity|exact E]. Qed.

Lemma read_byte_trans s : wf s -> fail s = FNone -> trans 0 s (snd (read_byte s)).
Proof.
  intros [W1 [W2 W3]] Fl. unfold read_byte. destruct (rest s) as [|c r] eqn:Er.
  - cbn [snd]. apply mk_trans.
    + exact Fl.
    + unfold inp. cbn. now rewrite Er.
    + unfold mu0. cbn. rewrite Er. destruct (eof s); cbn; lia.
    + intros H. exact H.
    + cbn. lia.
    + split; [exact W1|]. split; [intros _; exact Er|exact W3].
  - assert (T : trans 0 s (set_rest_buf s r (c :: rbuf s))).
    { apply mk_trans.
      - exact Fl.
      - unfold inp. cbn. rewrite Er. cbn [rev]. now rewrite <- app_assoc.
      - unfold mu0. cbn. rewrite Er. cbn [length]. lia.
      - intros H. exact H.
      - cbn. lia.
      - split; [exact W1|]. split.
        + cbn. intros H. specialize (W2 H). discriminate.
        + cbn. intros _. discriminate. }
    destruct (beq c NUL); cbn [snd]; [|exact T].
    destruct (no_err (set_rest_buf s r (c :: rbuf s))) eqn:En; [|exact T].
    apply trans_set_err; [exact T|discriminate].
Qed.

(* a read that does not hit a set eof flag strictly decreases the measure *)
Lemma read_byte_strict s : eof s = false -> mu0 (snd (read_byte s)) + 2 <= mu0 s.
Proof.
  intros He. unfold read_byte. destruct (rest s) as [|c r] eqn:Er.
  - cbn [snd]. unfold mu0. cbn. rewrite Er, He. cbn. lia.
  - assert (H : mu0 (set_rest_buf s r (c :: rbuf s)) + 2 <= mu0 s).
    { unfold mu0. cbn. rewrite Er. cbn [length]. lia. }
    destruct (beq c NUL); cbn [snd]; [|exact H].
    destruct (no_err _); exact H.
Qed.

Lemma read_byte_nonzero s : fst (read_byte s) <> NUL ->
  rbuf (snd (read_byte s)) <> [] /\ mu0 (snd (read_byte s)) + 2 <= mu0 s
  /\ no_err (snd (read_byte s)) = no_err s /\ eof (snd (read_byte s)) = eof s.
Proof.
  unfold read_byte. destruct (rest s) as [|c r] eqn:Er; cbn [fst snd]; [intros H; now elim H|].
  destruct (beq c NUL) eqn:Ec; cbn [fst snd]; [intros H; now elim H|]. intros _.
  repeat split; cbn; try discriminate. unfold mu0. cbn. rewrite Er. cbn [length]. lia.
Qed.

Lemma read_byte_zero s : fst (read_byte s) = NUL ->
  no_err (snd (read_byte s)) = false \/ eof (snd (read_byte s)) = true.
Proof.
  unfold read_byte. destruct (rest s) as [|c r] eqn:Er; cbn [fst snd]; [now right|].
  destruct (beq c NUL) eqn:Ec; cbn [fst snd].
  - intros _. left. destruct (no_err (set_rest_buf s r (c :: rbuf s))) eqn:En; [reflexivity|exact En].
  - intros ->. now rewrite beq_refl in Ec.
Qed.

Lemma read_byte_peek s : peek (snd (read_byte s)) = peek s.
Proof.
  unfold read_byte. destruct (rest s) as [|c r]; [reflexivity|].
  destruct (beq c NUL); cbn [snd]; [|reflexivity]. destruct (no_err _); reflexivity.
Qed.

Section WithFuel.
Variable F : nat.

Definition pre (k : N) (s : st) : Prop :=
  wf s /\ fail s = FNone /\ mu s < F /\ (nerr s + k <= looping_limit)%N.

Lemma pre_after k1 k2 s s1 : pre (k1 + k2) s -> trans k1 s s1 -> pre k2 s1.
Proof.
  intros [W [Fl [M N]]] T. repeat split; try apply (t_wf _ _ _ T).
  - apply (t_fail _ _ _ T).
  - pose proof (trans_mu _ _ _ T). lia.
  - pose proof (t_nerr _ _ _ T). lia.
Qed.

Lemma pre_weaken k k' s : pre k s -> (k' <= k)%N -> pre k' s.
Proof. intros [W [Fl [M N]]] H. repeat split; auto; try apply W. lia. Qed.

(* ------------------------------------------------------------------ *)
(* comments                                                            *)

(* transitions made of readByte / syntaxError only: peek is untouched *)
Definition rtrans (s s' : st) : Prop := trans 0 s s' /\ peek s' = peek s.

Lemma rtrans_refl s : wf s -> fail s = FNone -> rtrans s s.
Proof. intros. split; [now apply trans_refl|reflexivity]. Qed.

Lemma rtrans_trans s s1 s2 : rtrans s s1 -> rtrans s1 s2 -> rtrans s s2.
Proof. intros [T1 P1] [T2 P2]. split; [eapply trans_trans'; eauto; lia|congruence]. Qed.

Lemma read_byte_rtrans s : wf s -> fail s = FNone -> rtrans s (snd (read_byte s)).
Proof. intros. split; [now apply read_byte_trans|apply read_byte_peek]. Qed.

Lemma syntax_error_rtrans s : wf s -> fail s = FNone -> rtrans s (syntax_error s).
Proof.
  intros. split; [now apply syntax_error_trans|]. unfold syntax_error. destruct (no_err s); reflexivity.
Qed.

Lemma rtrans_wf s s' : rtrans s s' -> wf s' /\ fail s' = FNone.
Proof. intros [T _]. split; [apply (t_wf _ _ _ T)|apply (t_fail _ _ _ T)]. Qed.

Lemma line_comment_rtrans c s : pre 0 s -> rtrans s (snd (line_comment F c s)).
Proof.
  intros [W [Fl [M _]]]. unfold line_comment.
  apply (loop_inv (fun cs => rtrans s (snd cs)) (fun cs => rtrans s (snd cs)) (fun cs => mu (snd cs))).
  - intros [c' s'] T. cbn [snd] in T.
    destruct (negb (beq c' NL) && no_err s' && negb (eof s')) eqn:Ec; cbn [fst snd]; split; try discriminate.
    + intros _. apply andb_true_iff in Ec. destruct Ec as [Ec He]. apply negb_true_iff in He.
      destruct (rtrans_wf _ _ T) as [W' Fl'].
      pose proof (read_byte_rtrans s' W' Fl') as T'.
      split; [eapply rtrans_trans; eauto|].
      apply mu_lt_strict; [pose proof (read_byte_strict s' He); lia|apply (t_err _ _ _ (proj1 T'))].
    + intros _. exact T.
  - now apply rtrans_refl.
  - exact M.
Qed.

Lemma block_comment_rtrans c c1 s : pre 0 s -> rtrans s (snd (block_comment F c c1 s)).
Proof.
  intros [W [Fl [M _]]]. unfold block_comment.
  apply (loop_inv (fun x => rtrans s (snd x)) (fun x => rtrans s (snd x)) (fun x => mu (snd x))).
  - intros [[c' c1'] s'] T. cbn [snd] in T.
    destruct ((negb (beq c' STAR) || negb (beq c1' SLASH)) && no_err s') eqn:Ec.
    2:{ cbn [fst snd]. split; [discriminate|]. intros _. exact T. }
    apply andb_true_iff in Ec. destruct Ec as [_ Hn].
    destruct (rtrans_wf _ _ T) as [W' Fl'].
    set (s2 := if eof s' then syntax_error s' else s').
    assert (T2 : rtrans s' s2).
    { unfold s2. destruct (eof s'); [now apply syntax_error_rtrans|now apply rtrans_refl]. }
    destruct (rtrans_wf _ _ T2) as [W2 Fl2].
    pose proof (read_byte_rtrans s2 W2 Fl2) as T3.
    pose proof (read_byte_strict s2) as Hs.
    destruct (read_byte s2) as [b s3] eqn:Er. cbn [fst snd] in *.
    split; [|discriminate]. intros _.
    split; [eapply rtrans_trans; [exact T|eapply rtrans_trans; eauto]|].
    destruct (eof s') eqn:He.
    + (* the syntax error pays *)
      apply mu_lt_err; [pose proof (t_mu _ _ _ (proj1 T2)); pose proof (t_mu _ _ _ (proj1 T3)); lia|exact Hn|].
      destruct (no_err s3) eqn:E3; [|reflexivity].
      pose proof (t_err _ _ _ (proj1 T3) E3) as E2. unfold s2 in E2. now rewrite syntax_error_no_err in E2.
    + apply mu_lt_strict; [|apply (t_err _ _ _ (proj1 T3))].
      unfold s2 in Hs. specialize (Hs He). lia.
  - now apply rtrans_refl.
  - exact M.
Qed.

(* ------------------------------------------------------------------ *)
(* peekByte, nextByte                                                  *)

(* what the peek loop maintains about the byte in hand *)
Definition peek_ok (s0 : st) (cs : byte * st) : Prop :=
  rtrans s0 (snd cs)
  /\ (no_err (snd cs) = true -> eof (snd cs) = false -> fst cs <> NUL)
  /\ (fst cs <> NUL -> rbuf (snd cs) <> [])
  /\ (peek s0 = NUL -> fst cs <> NUL -> mu0 (snd cs) + 2 <= mu0 s0).

Lemma read_byte_peek_ok s0 s : rtrans s0 s -> peek_ok s0 (read_byte s).
Proof.
  intros T. destruct (rtrans_wf _ _ T) as [W Fl].
  pose proof (read_byte_rtrans s W Fl) as T'.
  pose proof (read_byte_zero s) as Hz. pose proof (read_byte_nonzero s) as Hnz.
  destruct (read_byte s) as [c' s'] eqn:Er. cbn [fst snd] in *.
  split; [eapply rtrans_trans; eauto|]. split; [|split].
  - intros Hn' He' Hc. cbn [fst snd] in *. destruct (Hz Hc); congruence.
  - intros Hc. cbn [fst snd] in *. now apply Hnz.
  - intros _ Hc. cbn [fst snd] in *. pose proof (t_mu _ _ _ (proj1 T)). destruct (Hnz Hc) as [_ [H2 _]]. lia.
Qed.

Lemma read_byte_mu_lt s : wf s -> fail s = FNone -> eof s = false -> mu (snd (read_byte s)) < mu s.
Proof.
  intros W Fl He. apply mu_lt_strict.
  - pose proof (read_byte_strict s He). lia.
  - apply (t_err _ _ _ (read_byte_trans s W Fl)).
Qed.

Lemma set_peek_trans k s0 s c :
  trans k s0 s -> peek s = peek s0 ->
  (c <> NUL -> rbuf s <> []) -> (peek s0 = NUL -> c <> NUL -> mu0 s + 2 <= mu0 s0) ->
  trans k s0 (set_peek s c).
Proof.
  intros [a b m d f [w1 [w2 w3]]] Hp Hr Hm. apply mk_trans.
  - exact a.
  - exact b.
  - unfold mu0 in *. cbn. rewrite Hp in m.
    destruct (beq c NUL) eqn:Ec; [destruct (beq (peek s0) NUL); lia|].
    apply beq_neq in Ec. destruct (beq (peek s0) NUL) eqn:Ep; [|lia].
    apply beq_eq in Ep. specialize (Hm Ep Ec). rewrite Hp, Ep in Hm. cbn in Hm. lia.
  - exact d.
  - exact f.
  - split; [exact w1|]. split; [exact w2|]. cbn. exact Hr.
Qed.

Lemma peek_byte_spec skip s : pre 1 s ->
  trans 1 s (snd (peek_byte F skip s))
  /\ (no_err s = true -> peek (snd (peek_byte F skip s)) = fst (peek_byte F skip s)
                         /\ nerr (snd (peek_byte F skip s)) = 0%N)
  /\ (no_err s = false -> fst (peek_byte F skip s) = NUL /\ peek (snd (peek_byte F skip s)) = peek s)
  /\ (no_err (snd (peek_byte F skip s)) = true -> eof (snd (peek_byte F skip s)) = false ->
      fst (peek_byte F skip s) <> NUL).
Proof.
  intros [W [Fl [M N]]]. unfold peek_byte. destruct (no_err s) eqn:Hn; cbn [negb].
  2:{ (* an error is pending: count and return 0 *)
    assert (Hlt : N.ltb looping_limit (N.succ (nerr s)) = false) by (apply N.ltb_ge; lia).
    rewrite Hlt. cbn [fst snd]. destruct W as [W1 [W2 W3]].
    split; [|split; [|split]].
    - apply mk_trans.
      + exact Fl.
      + reflexivity.
      + unfold mu0. cbn. lia.
      + unfold no_err. cbn. intros H. exact H.
      + cbn. lia.
      + split; [|split; [exact W2|exact W3]]. unfold no_err in *. cbn. rewrite Hn. discriminate.
    - discriminate.
    - intros _. split; reflexivity.
    - unfold no_err in *. cbn. rewrite Hn. discriminate. }
  (* the first byte in hand *)
  assert (H0 : peek_ok s (if beq (peek s) NUL then read_byte s else (peek s, s))).
  { destruct (beq (peek s) NUL) eqn:Ep.
    - apply read_byte_peek_ok. now apply rtrans_refl.
    - apply beq_neq in Ep. cbn [fst snd]. split; [now apply rtrans_refl|]. split; [|split].
      + intros _ _. exact Ep.
      + intros _. destruct W as [_ [_ W3]]. now apply W3.
      + intros H. contradiction. }
  (* the loop *)
  destruct (if beq (peek s) NUL then read_byte s else (peek s, s)) as [c0 s00].
  match goal with |- context [loop F oof1 ?st (c0, s00)] => set (step := st) end.
  assert (HL : peek_ok s (loop F oof1 step (c0, s00))).
  { apply (loop_inv (peek_ok s) (peek_ok s) (fun cs => mu (snd cs))); [|exact H0|].
    2:{ destruct H0 as [[T _] _]. pose proof (trans_mu _ _ _ T). lia. }
    intros [c s1] Hok. unfold step.
    destruct (no_err s1 && negb (eof s1) && skip) eqn:Ec.
    2:{ cbn [fst snd]. split; [discriminate|]. intros _. exact Hok. }
    apply andb_true_iff in Ec. destruct Ec as [Ec _]. apply andb_true_iff in Ec. destruct Ec as [Hn1 He1].
    apply negb_true_iff in He1.
    destruct Hok as [T1 Hrest]. destruct (rtrans_wf _ _ T1) as [W1 Fl1]. cbn [snd] in T1, W1, Fl1.
    destruct (is_spacec c).
    { cbn [fst snd]. split; [|discriminate]. intros _.
      split; [now apply read_byte_peek_ok|now apply read_byte_mu_lt]. }
    destruct (beq c SLASH).
    2:{ cbn [fst snd]. split; [discriminate|]. intros _. split; [exact T1|exact Hrest]. }
    pose proof (read_byte_rtrans s1 W1 Fl1) as T2.
    pose proof (read_byte_mu_lt s1 W1 Fl1 He1) as L2.
    destruct (read_byte s1) as [c2 s2] eqn:Er2. cbn [fst snd] in T2, L2.
    destruct (rtrans_wf _ _ T2) as [W2 Fl2].
    assert (T02 : rtrans s s2) by (eapply rtrans_trans; eauto).
    assert (P2 : pre 0 s2).
    { split; [exact W2|]. split; [exact Fl2|]. split.
      - pose proof (trans_mu _ _ _ (proj1 T02)). lia.
      - pose proof (t_nerr _ _ _ (proj1 T02)). lia. }
    set (s3 := if beq c2 SLASH then snd (line_comment F c2 s2)
               else if beq c2 STAR then snd (block_comment F c2 NUL s2) else syntax_error s2).
    assert (T3 : rtrans s2 s3).
    { unfold s3. destruct (beq c2 SLASH); [now apply line_comment_rtrans|].
      destruct (beq c2 STAR); [now apply block_comment_rtrans|now apply syntax_error_rtrans]. }
    assert (T03 : rtrans s s3) by (eapply rtrans_trans; eauto).
    destruct (rtrans_wf _ _ T3) as [W3 Fl3].
    pose proof (read_byte_peek_ok s s3 T03) as Hok4.
    pose proof (read_byte_rtrans s3 W3 Fl3) as T4.
    destruct (read_byte s3) as [c4 s4] eqn:Er4. cbn [fst snd] in *.
    split; [|discriminate]. intros _. split; [exact Hok4|].
    pose proof (trans_mu _ _ _ (proj1 T3)). pose proof (trans_mu _ _ _ (proj1 T4)). lia. }
  destruct (loop F oof1 step (c0, s00)) as [c s'] eqn:EL. cbn [fst snd].
  destruct HL as [[T Hp] [Hq [Hr Hm]]]. cbn [fst snd] in *.
  assert (TT : trans 1 s (set_peek s' c)).
  { eapply trans_weaken; [apply set_peek_trans; eauto|lia]. }
  split; [exact TT|]. split; [|split].
  - intros _. split; [reflexivity|]. cbn. destruct W as [W1 _]. pose proof (t_nerr _ _ _ T).
    rewrite (W1 Hn) in *. lia.
  - discriminate.
  - unfold no_err in *. cbn. exact Hq.
Qed.

Lemma next_byte_spec skip s : pre 1 s ->
  trans 1 s (snd (next_byte F skip s))
  /\ peek (snd (next_byte F skip s)) = NUL
  /\ (no_err s = true -> nerr (snd (next_byte F skip s)) = 0%N)
  /\ (no_err s = false -> fst (next_byte F skip s) = NUL)
  /\ (fst (next_byte F skip s) <> NUL -> mu0 (snd (next_byte F skip s)) < mu0 s)
  /\ (no_err (snd (next_byte F skip s)) = true -> eof (snd (next_byte F skip s)) = false ->
      fst (next_byte F skip s) <> NUL).
Proof.
  intros P. destruct (peek_byte_spec skip s P) as [T [H1 [H2 H3]]].
  unfold next_byte. destruct (peek_byte F skip s) as [c s1] eqn:Ep. cbn [fst snd] in *.
  destruct T as [a b m d f [w1 [w2 w3]]].
  split; [|split; [reflexivity|split; [|split; [|split]]]].
  - apply mk_trans.
    + exact a.
    + exact b.
    + unfold mu0 in *. cbn. destruct (beq (peek s1) NUL); lia.
    + exact d.
    + exact f.
    + split; [exact w1|]. split; [exact w2|]. cbn. intros H. now elim H.
  - intros Hn. cbn. now apply H1.
  - intros Hn. now apply H2.
  - intros Hc. destruct (no_err s) eqn:Hn.
    + destruct (H1 eq_refl) as [Hpk _]. unfold mu0 in *. cbn [set_peek peek rest eof].
      rewrite Hpk in m. apply beq_false in Hc. rewrite Hc in m. rewrite beq_refl. lia.
    + destruct (H2 eq_refl) as [Hz _]. contradiction.
  - cbn. exact H3.
Qed.

(* ------------------------------------------------------------------ *)
(* loops over reader states                                            *)

Lemma trans_restart k s a a' : trans k s a -> no_err a = true -> trans k a a' -> trans k s a'.
Proof.
  intros [a1 b1 c1 d1 e1 [w1 [w2 w3]]] Hn [a2 b2 c2 d2 e2 f2]. apply mk_trans; auto; try congruence; try lia.
  rewrite (w1 Hn) in e2. lia.
Qed.

Definition oofs (s : st) : st := set_fail s FFuel.

(* a loop whose step costs at most k pending-error calls of peekByte, goes round again only
   from an error-free state and then strictly decreases the measure *)
Lemma st_loop_trans (k : N) (Q : st -> Prop) step s :
  pre (k + k) s ->
  (forall a, pre k a ->
       trans k a (fst (step a))
       /\ (snd (step a) = true -> mu (fst (step a)) < mu a /\ no_err a = true)
       /\ (snd (step a) = false -> Q (fst (step a)))) ->
  trans (k + k) s (loop F oofs step s) /\ Q (loop F oofs step s).
Proof.
  intros P Hstep.
  apply (loop_inv (fun a => trans k s a) (fun a => trans (k + k) s a /\ Q a) mu).
  - intros a T.
    assert (Pa : pre k a).
    { destruct P as [W [Fl [M N]]]. split; [apply (t_wf _ _ _ T)|]. split; [apply (t_fail _ _ _ T)|]. split.
      - pose proof (trans_mu _ _ _ T). lia.
      - pose proof (t_nerr _ _ _ T). lia. }
    destruct (Hstep a Pa) as [T' [Hc He]]. split.
    + intros Hs. destruct (Hc Hs) as [Hlt Hn]. split; [|exact Hlt]. eapply trans_restart; eauto.
    + intros Hs. split; [eapply trans_trans; eauto|now apply He].
  - destruct P as [W [Fl _]]. eapply trans_weaken; [now apply trans_refl|lia].
  - apply P.
Qed.

Lemma set_peek_nul_trans s : wf s -> fail s = FNone -> trans 0 s (set_peek s NUL).
Proof.
  intros [w1 [w2 w3]] Fl. apply mk_trans.
  - exact Fl.
  - reflexivity.
  - unfold mu0. cbn. destruct (beq (peek s) NUL); lia.
  - intros H. exact H.
  - cbn. lia.
  - split; [exact w1|]. split; [exact w2|]. cbn. intros H. now elim H.
Qed.

Lemma set_peek_nul_strict s : peek s <> NUL -> mu0 (set_peek s NUL) < mu0 s.
Proof. intros H. unfold mu0. cbn. apply beq_false in H. rewrite H. lia. Qed.

Lemma add_imp_trans k s s' p : trans k s s' -> trans k s (add_imp s' p).
Proof. intros [a b c d e f]. apply mk_trans; auto. Qed.

Lemma is_ident_nul : is_ident NUL = false.
Proof. reflexivity. Qed.

Lemma is_ident_nonzero c : is_ident c = true -> c <> NUL.
Proof. intros H ->. now rewrite is_ident_nul in H. Qed.

(* ------------------------------------------------------------------ *)
(* readKeyword                                                         *)

Lemma keyword_chars_trans kw : forall s, pre (N.of_nat (length kw)) s ->
  trans (N.of_nat (length kw)) s (fst (keyword_chars F kw s)).
Proof.
  induction kw as [|k kw IH]; intros s P.
  - cbn. destruct P as [W [Fl _]]. now apply trans_refl.
  - cbn [keyword_chars].
    assert (P1 : pre 1 s) by (eapply pre_weaken; [exact P|cbn [length]; lia]).
    destruct (next_byte_spec false s P1) as [T1 _].
    destruct (next_byte F false s) as [c s1] eqn:En. cbn [fst snd] in T1.
    destruct (negb (beq c k)); cbn [fst].
    + eapply trans_trans'; [exact T1|apply syntax_error_trans; [apply (t_wf _ _ _ T1)|apply (t_fail _ _ _ T1)]|].
      cbn [length]. lia.
    + eapply trans_trans'; [exact T1|apply IH|cbn [length]; lia].
      eapply pre_after; [|exact T1]. eapply pre_weaken; [exact P|cbn [length]; lia].
Qed.

Lemma keyword_chars_strict k kw s : k <> NUL -> pre (N.of_nat (length (k :: kw))) s -> no_err s = true ->
  mu (fst (keyword_chars F (k :: kw) s)) < mu s.
Proof.
  intros Hk P Hn. cbn [keyword_chars].
  assert (P1 : pre 1 s) by (eapply pre_weaken; [exact P|cbn [length]; lia]).
  destruct (next_byte_spec false s P1) as [T1 [_ [_ [_ [Hst _]]]]].
  destruct (next_byte F false s) as [c s1] eqn:En. cbn [fst snd] in *.
  destruct (negb (beq c k)) eqn:Ec; cbn [fst].
  - apply mu_lt_err; [|exact Hn|apply syntax_error_no_err].
    pose proof (t_mu _ _ _ T1).
    pose proof (t_mu _ _ _ (syntax_error_trans s1 (t_wf _ _ _ T1) (t_fail _ _ _ T1))). lia.
  - apply negb_false_iff in Ec. apply beq_eq in Ec. subst c.
    assert (P2 : pre (N.of_nat (length kw)) s1).
    { eapply pre_after; [|exact T1]. eapply pre_weaken; [exact P|cbn [length]; lia]. }
    pose proof (keyword_chars_trans kw s1 P2) as T2.
    pose proof (trans_mu _ _ _ T2).
    assert (mu s1 < mu s) by (apply mu_lt_strict; [now apply Hst|apply (t_err _ _ _ T1)]). lia.
Qed.

Definition k_kw (kw : bytes) : N := N.of_nat (length kw) + 2.

Lemma read_keyword_trans kw s : pre (k_kw kw) s -> trans (k_kw kw) s (read_keyword F kw s).
Proof.
  unfold k_kw. intros P. unfold read_keyword.
  assert (P1 : pre 1 s) by (eapply pre_weaken; [exact P|lia]).
  destruct (peek_byte_spec true s P1) as [T1 _].
  destruct (peek_byte F true s) as [c0 s1] eqn:Ep. cbn [fst snd] in T1.
  assert (P2 : pre (N.of_nat (length kw)) s1).
  { eapply pre_after; [|exact T1]. eapply pre_weaken; [exact P|lia]. }
  pose proof (keyword_chars_trans kw s1 P2) as T2.
  destruct (keyword_chars F kw s1) as [s2 ok] eqn:Ek. cbn [fst] in T2.
  assert (T12 : trans (1 + N.of_nat (length kw)) s s2) by (eapply trans_trans; eauto).
  destruct ok; [|eapply trans_weaken; [exact T12|lia]].
  assert (P3 : pre 1 s2) by (eapply pre_after; [|exact T12]; eapply pre_weaken; [exact P|lia]).
  destruct (peek_byte_spec false s2 P3) as [T3 _].
  destruct (peek_byte F false s2) as [c3 s3] eqn:Ep3. cbn [fst snd] in T3.
  assert (T13 : trans (1 + N.of_nat (length kw) + 1) s s3) by (eapply trans_trans; eauto).
  destruct (is_ident c3).
  - eapply trans_trans'; [exact T13|apply syntax_error_trans; [apply (t_wf _ _ _ T3)|apply (t_fail _ _ _ T3)]|lia].
  - eapply trans_weaken; [exact T13|lia].
Qed.

Lemma read_keyword_strict k kw s : k <> NUL -> pre (k_kw (k :: kw)) s -> no_err s = true ->
  mu (read_keyword F (k :: kw) s) < mu s.
Proof.
  unfold k_kw. intros Hk P Hn. unfold read_keyword.
  assert (P1 : pre 1 s) by (eapply pre_weaken; [exact P|lia]).
  destruct (peek_byte_spec true s P1) as [T1 _].
  destruct (peek_byte F true s) as [c0 s1] eqn:Ep. cbn [fst snd] in T1.
  assert (P2 : pre (N.of_nat (length (k :: kw))) s1).
  { eapply pre_after; [|exact T1]. eapply pre_weaken; [exact P|lia]. }
  pose proof (keyword_chars_trans (k :: kw) s1 P2) as T2.
  assert (L2 : mu (fst (keyword_chars F (k :: kw) s1)) < mu s).
  { destruct (no_err s1) eqn:Hn1.
    - pose proof (keyword_chars_strict k kw s1 Hk P2 Hn1). pose proof (trans_mu _ _ _ T1). lia.
    - pose proof (trans_mu _ _ _ T2).
      assert (mu s1 < mu s) by (apply mu_lt_err; [apply (t_mu _ _ _ T1)|exact Hn|exact Hn1]). lia. }
  destruct (keyword_chars F (k :: kw) s1) as [s2 ok] eqn:Ek. cbn [fst] in T2, L2.
  destruct ok; [|exact L2].
  assert (T12 : trans (1 + N.of_nat (length (k :: kw))) s s2) by (eapply trans_trans; eauto).
  assert (P3 : pre 1 s2) by (eapply pre_after; [|exact T12]; eapply pre_weaken; [exact P|lia]).
  destruct (peek_byte_spec false s2 P3) as [T3 _].
  destruct (peek_byte F false s2) as [c3 s3] eqn:Ep3. cbn [fst snd] in T3.
  pose proof (trans_mu _ _ _ T3).
  destruct (is_ident c3); [|lia].
  pose proof (trans_mu _ _ _ (syntax_error_trans s3 (t_wf _ _ _ T3) (t_fail _ _ _ T3))). lia.
Qed.

(* ------------------------------------------------------------------ *)
(* readIdent                                                           *)

Lemma read_ident_trans s : pre 3 s -> trans 3 s (read_ident F s).
Proof.
  intros P. unfold read_ident.
  assert (P1 : pre 1 s) by (eapply pre_weaken; [exact P|lia]).
  destruct (peek_byte_spec true s P1) as [T1 _].
  destruct (peek_byte F true s) as [c s1] eqn:Ep. cbn [fst snd] in T1.
  destruct (negb (is_ident c)).
  - eapply trans_trans'; [exact T1|apply syntax_error_trans; [apply (t_wf _ _ _ T1)|apply (t_fail _ _ _ T1)]|lia].
  - assert (P2 : pre (1 + 1) s1) by (eapply pre_after; [|exact T1]; eapply pre_weaken; [exact P|lia]).
    eapply trans_trans'; [exact T1| |].
    2:{ instantiate (1 := (1 + 1)%N). lia. }
    change (fun s0 : st => set_fail s0 FFuel) with oofs.
    apply (st_loop_trans 1 (fun _ => True)); [exact P2|].
    intros a Pa. destruct (peek_byte_spec false a Pa) as [Ta [Ha1 [Ha2 _]]].
    destruct (peek_byte F false a) as [c' a1] eqn:Epa. cbn [fst snd] in *.
    destruct (is_ident c') eqn:Ei; cbn [fst snd].
    + pose proof (is_ident_nonzero _ Ei) as Hc.
      assert (Hna : no_err a = true).
      { destruct (no_err a) eqn:E; [reflexivity|]. destruct (Ha2 eq_refl) as [Hz _]. contradiction. }
      destruct (Ha1 Hna) as [Hpk _].
      split; [|split; [|discriminate]].
      * eapply trans_trans'; [exact Ta|apply set_peek_nul_trans; [apply (t_wf _ _ _ Ta)|apply (t_fail _ _ _ Ta)]|lia].
      * intros _. split; [|exact Hna]. apply mu_lt_strict.
        -- pose proof (t_mu _ _ _ Ta). assert (peek a1 <> NUL) by congruence.
           pose proof (set_peek_nul_strict a1 H0). lia.
        -- cbn. apply (t_err _ _ _ Ta).
    + split; [exact Ta|]. split; [discriminate|trivial].
Qed.

(* ------------------------------------------------------------------ *)
(* readString                                                          *)

(* one round of a string loop: the byte just taken was not the closing quote *)
Lemma next_byte_round a : pre 1 a -> no_err a = true ->
  let s1 := snd (next_byte F false a) in
  let c := fst (next_byte F false a) in
  trans 1 a s1 /\
  (c <> NUL -> mu s1 < mu a) /\
  (c = NUL -> no_err s1 = false \/ eof s1 = true).
Proof.
  intros Pa Hn. destruct (next_byte_spec false a Pa) as [T [_ [_ [_ [Hst Hz]]]]].
  destruct (next_byte F false a) as [c s1] eqn:En. cbn [fst snd] in *. cbv zeta.
  split; [exact T|]. split.
  - intros Hc. apply mu_lt_strict; [now apply Hst|apply (t_err _ _ _ T)].
  - intros Hc. destruct (no_err s1) eqn:E1; [|now left]. right.
    destruct (eof s1) eqn:E2; [reflexivity|]. elim (Hz eq_refl eq_refl Hc).
Qed.

Lemma quote_loop_step (q : byte) (save : bool) (start : nat) (esc : bool) a :
  q <> NUL -> pre (1 + 1) a ->
  let step := fun s : st =>
    if no_err s then
      let (c, s) := next_byte F false s in
      if beq c q then ((if save then add_imp s (buf_from s start) else s), false)
      else
        let s := if eof s || (esc && beq c NL) then syntax_error s else s in
        let s := if esc && beq c BSLASH then snd (next_byte F false s) else s in
        (s, true)
    else (s, false) in
  trans (1 + 1) a (fst (step a))
  /\ (snd (step a) = true -> mu (fst (step a)) < mu a /\ no_err a = true)
  /\ (snd (step a) = false -> True).
Proof.
  intros Hq Pa. cbv beta zeta. destruct (no_err a) eqn:Hn.
  2:{ cbn [fst snd]. destruct Pa as [W [Fl _]]. split; [|split; [discriminate|trivial]].
      eapply trans_weaken; [now apply trans_refl|lia]. }
  assert (P1 : pre 1 a) by (eapply pre_weaken; [exact Pa|lia]).
  destruct (next_byte_round a P1 Hn) as [T1 [Hlt Hz]].
  destruct (next_byte F false a) as [c s1] eqn:En. cbn [fst snd] in *.
  destruct (beq c q) eqn:Ec; cbn [fst snd].
  { split; [|split; [discriminate|trivial]].
    destruct save; [apply add_imp_trans|]; (eapply trans_weaken; [exact T1|lia]). }
  set (s2 := if eof s1 || (esc && beq c NL) then syntax_error s1 else s1).
  assert (T2 : trans 0 s1 s2).
  { unfold s2. destruct (eof s1 || (esc && beq c NL)); [apply syntax_error_trans|apply trans_refl];
      first [apply (t_wf _ _ _ T1)|apply (t_fail _ _ _ T1)]. }
  assert (T12 : trans 1 a s2) by (eapply trans_trans'; eauto; lia).
  assert (L2 : mu s2 < mu a).
  { destruct (beq_NUL_dec c) as [Hc|Hc].
    - destruct (Hz Hc) as [He|He].
      + pose proof (trans_mu _ _ _ T2).
        assert (mu s1 < mu a) by (apply mu_lt_err; [apply (t_mu _ _ _ T1)|exact Hn|exact He]). lia.
      + unfold s2. rewrite He. cbn [orb].
        apply mu_lt_err; [|exact Hn|apply syntax_error_no_err].
        pose proof (t_mu _ _ _ T1). fold s2. pose proof (t_mu _ _ _ T2). unfold s2 in H0. rewrite He in H0. cbn [orb] in H0. lia.
    - pose proof (trans_mu _ _ _ T2). specialize (Hlt Hc). lia. }
  set (s3 := if esc && beq c BSLASH then snd (next_byte F false s2) else s2).
  assert (T3 : trans 1 s2 s3).
  { unfold s3. destruct (esc && beq c BSLASH).
    - apply next_byte_spec. eapply pre_after; [|exact T12]. eapply pre_weaken; [exact Pa|lia].
    - eapply trans_weaken; [apply trans_refl; [apply (t_wf _ _ _ T12)|apply (t_fail _ _ _ T12)]|lia]. }
  split; [eapply trans_trans; eauto|]. split; [|discriminate].
  intros _. split; [|reflexivity]. pose proof (trans_mu _ _ _ T3). lia.
Qed.

Lemma read_string_trans save s : pre 5 s -> trans 5 s (read_string F save s).
Proof.
  intros P. unfold read_string.
  assert (P1 : pre 1 s) by (eapply pre_weaken; [exact P|lia]).
  destruct (next_byte_spec true s P1) as [T1 _].
  destruct (next_byte F true s) as [q s1] eqn:En. cbn [fst snd] in T1.
  assert (P2 : pre (1 + 1 + (1 + 1)) s1) by (eapply pre_after; [|exact T1]; eapply pre_weaken; [exact P|lia]).
  change (fun s0 : st => set_fail s0 FFuel) with oofs.
  destruct (beq q BQUOTE) eqn:E1.
  - eapply trans_trans'; [exact T1| |].
    2:{ instantiate (1 := (1 + 1 + (1 + 1))%N). lia. }
    apply (st_loop_trans (1 + 1) (fun _ => True)); [exact P2|].
    intros a Pa.
    pose proof (quote_loop_step BQUOTE save (length (rbuf s1) - 1) false a) as H.
    cbv beta zeta in H. cbn [andb] in H.
    assert (Hq : BQUOTE <> NUL) by discriminate. specialize (H Hq Pa).
    destruct (no_err a); [|exact H].
    destruct (next_byte F false a) as [c a1]. destruct (beq c BQUOTE); [exact H|].
    rewrite orb_false_r in H. exact H.
  - destruct (beq q DQUOTE) eqn:E2.
    + eapply trans_trans'; [exact T1| |].
      2:{ instantiate (1 := (1 + 1 + (1 + 1))%N). lia. }
      apply (st_loop_trans (1 + 1) (fun _ => True)); [exact P2|].
      intros a Pa.
      pose proof (quote_loop_step DQUOTE save (length (rbuf s1) - 1) true a) as H.
      cbv beta zeta in H. cbn [andb] in H.
      assert (Hq : DQUOTE <> NUL) by discriminate. exact (H Hq Pa).
    + eapply trans_trans'; [exact T1|apply syntax_error_trans; [apply (t_wf _ _ _ T1)|apply (t_fail _ _ _ T1)]|lia].
Qed.

Lemma read_string_strict save s : pre 5 s -> no_err s = true -> mu (read_string F save s) < mu s.
Proof.
  intros P Hn.
  assert (P1 : pre 1 s) by (eapply pre_weaken; [exact P|lia]).
  destruct (next_byte_spec true s P1) as [T1 [_ [_ [_ [Hst _]]]]].
  assert (P2 : pre 4 (snd (next_byte F true s))) by (eapply pre_after; [|exact T1]; eapply pre_weaken; [exact P|lia]).
  (* the whole function is a transition from the state after the opening byte *)
  assert (Tall : forall s1, pre 4 s1 -> forall q,
            trans 4 s1 (if beq q BQUOTE then read_string F save (set_peek s1 BQUOTE)
                        else if beq q DQUOTE then read_string F save (set_peek s1 DQUOTE) else s1) -> True) by trivial.
  clear Tall.
  pose proof (read_string_trans save s P) as Tfull.
  unfold read_string in *.
  destruct (next_byte F true s) as [q s1] eqn:En. cbn [fst snd] in *.
  destruct (beq q BQUOTE) eqn:E1; [|destruct (beq q DQUOTE) eqn:E2].
  - assert (Hq : q <> NUL) by (apply beq_eq in E1; subst q; discriminate).
    assert (L1 : mu s1 < mu s) by (apply mu_lt_strict; [now apply Hst|apply (t_err _ _ _ T1)]).
    assert (T2 : trans 4 s1 (loop F (fun s0 : st => set_fail s0 FFuel)
        (fun s0 : st => if no_err s0 then let (c, s2) := next_byte F false s0 in
           if beq c BQUOTE then (if save then add_imp s2 (buf_from s2 (length (rbuf s1) - 1)) else s2, false)
           else (if eof s2 then syntax_error s2 else s2, true) else (s0, false)) s1)).
    { change (fun s0 : st => set_fail s0 FFuel) with oofs.
      apply (st_loop_trans (1 + 1) (fun _ => True)); [exact P2|].
      intros a Pa.
      pose proof (quote_loop_step BQUOTE save (length (rbuf s1) - 1) false a) as H.
      cbv beta zeta in H. cbn [andb] in H.
      assert (Hq' : BQUOTE <> NUL) by discriminate. specialize (H Hq' Pa).
      destruct (no_err a); [|exact H].
      destruct (next_byte F false a) as [c a1]. destruct (beq c BQUOTE); [exact H|].
      rewrite orb_false_r in H. exact H. }
    pose proof (trans_mu _ _ _ T2). lia.
  - assert (Hq : q <> NUL) by (apply beq_eq in E2; subst q; discriminate).
    assert (L1 : mu s1 < mu s) by (apply mu_lt_strict; [now apply Hst|apply (t_err _ _ _ T1)]).
    assert (T2 : trans 4 s1 (loop F (fun s0 : st => set_fail s0 FFuel)
        (fun s0 : st => if no_err s0 then let (c, s2) := next_byte F false s0 in
           if beq c DQUOTE then (if save then add_imp s2 (buf_from s2 (length (rbuf s1) - 1)) else s2, false)
           else
             let s3 := if eof s2 || beq c NL then syntax_error s2 else s2 in
             let s4 := if beq c BSLASH then snd (next_byte F false s3) else s3 in (s4, true)
           else (s0, false)) s1)).
    { change (fun s0 : st => set_fail s0 FFuel) with oofs.
      apply (st_loop_trans (1 + 1) (fun _ => True)); [exact P2|].
      intros a Pa.
      pose proof (quote_loop_step DQUOTE save (length (rbuf s1) - 1) true a) as H.
      cbv beta zeta in H. cbn [andb] in H.
      assert (Hq' : DQUOTE <> NUL) by discriminate. exact (H Hq' Pa). }
    eapply Nat.le_lt_trans; [apply (trans_mu _ _ _ T2)|exact L1].
  - apply mu_lt_err; [|exact Hn|apply syntax_error_no_err].
    pose proof (t_mu _ _ _ T1).
    pose proof (t_mu _ _ _ (syntax_error_trans s1 (t_wf _ _ _ T1) (t_fail _ _ _ T1))). lia.
Qed.

(* ------------------------------------------------------------------ *)
(* readImport                                                          *)

Definition import_head (s : st) : st :=
  let (c, s) := peek_byte F true s in
  if beq c DOTB then set_peek s NUL else if is_ident c then read_ident F s else s.

Lemma import_head_trans s : pre 4 s -> trans 4 s (import_head s).
Proof.
  intros P. unfold import_head.
  assert (P1 : pre 1 s) by (eapply pre_weaken; [exact P|lia]).
  destruct (peek_byte_spec true s P1) as [T1 _].
  destruct (peek_byte F true s) as [c s1] eqn:Ep. cbn [fst snd] in T1.
  destruct (beq c DOTB).
  - eapply trans_trans'; [exact T1|apply set_peek_nul_trans; [apply (t_wf _ _ _ T1)|apply (t_fail _ _ _ T1)]|lia].
  - destruct (is_ident c).
    + eapply trans_trans'; [exact T1|apply read_ident_trans|lia].
      eapply pre_after; [|exact T1]. eapply pre_weaken; [exact P|lia].
    + eapply trans_weaken; [exact T1|lia].
Qed.

Lemma read_import_eq s : read_import F s = read_string F true (import_head s).
Proof. unfold read_import, import_head. destruct (peek_byte F true s) as [c s1]. reflexivity. Qed.

Lemma read_import_trans s : pre 9 s -> trans 9 s (read_import F s).
Proof.
  intros P. rewrite read_import_eq.
  assert (T1 : trans 4 s (import_head s)) by (apply import_head_trans; eapply pre_weaken; [exact P|lia]).
  eapply trans_trans'; [exact T1|apply read_string_trans|lia].
  eapply pre_after; [|exact T1]. eapply pre_weaken; [exact P|lia].
Qed.

Lemma read_import_strict s : pre 9 s -> no_err s = true -> mu (read_import F s) < mu s.
Proof.
  intros P Hn. rewrite read_import_eq.
  assert (T1 : trans 4 s (import_head s)) by (apply import_head_trans; eapply pre_weaken; [exact P|lia]).
  assert (P2 : pre 5 (import_head s)) by (eapply pre_after; [|exact T1]; eapply pre_weaken; [exact P|lia]).
  destruct (no_err (import_head s)) eqn:Hn1.
  - pose proof (read_string_strict true _ P2 Hn1). pose proof (trans_mu _ _ _ T1). lia.
  - pose proof (trans_mu _ _ _ (read_string_trans true _ P2)).
    assert (mu (import_head s) < mu s) by (apply mu_lt_err; [apply (t_mu _ _ _ T1)|exact Hn|exact Hn1]). lia.
Qed.

(* ------------------------------------------------------------------ *)
(* import declarations, the scan                                       *)

Lemma import_group_trans s : pre 22 s -> trans 22 s (import_group F s).
Proof.
  intros P. unfold import_group.
  assert (P1 : pre 1 s) by (eapply pre_weaken; [exact P|lia]).
  destruct (next_byte_spec false s P1) as [T1 _].
  destruct (next_byte F false s) as [c0 s1] eqn:En. cbn [fst snd] in T1.
  change (fun s0 : st => set_fail s0 FFuel) with oofs.
  match goal with |- context [loop F oofs ?st s1] => set (step := st) end.
  assert (T2 : trans (10 + 10) s1 (loop F oofs step s1)).
  { apply (st_loop_trans 10 (fun _ => True)).
    - eapply pre_after; [|exact T1]. eapply pre_weaken; [exact P|lia].
    - intros a Pa. unfold step.
      assert (Pa1 : pre 1 a) by (eapply pre_weaken; [exact Pa|lia]).
      destruct (peek_byte_spec true a Pa1) as [Ta _].
      destruct (peek_byte F true a) as [c a1] eqn:Ep. cbn [fst snd] in Ta.
      assert (Pa2 : pre 9 a1) by (eapply pre_after; [|exact Ta]; eapply pre_weaken; [exact Pa|lia]).
      destruct (negb (beq c RPAREN) && no_err a1) eqn:Ec; cbn [fst snd].
      + apply andb_true_iff in Ec. destruct Ec as [_ Hn1].
        split; [eapply trans_trans'; [exact Ta|now apply read_import_trans|lia]|].
        split; [|discriminate]. intros _. split; [|apply (t_err _ _ _ Ta Hn1)].
        pose proof (read_import_strict a1 Pa2 Hn1). pose proof (trans_mu _ _ _ Ta). lia.
      + split; [eapply trans_weaken; [exact Ta|lia]|]. split; [discriminate|trivial]. }
  assert (T12 : trans (1 + (10 + 10)) s (loop F oofs step s1)) by (eapply trans_trans; eauto).
  eapply trans_trans'; [exact T12|apply next_byte_spec|lia].
  eapply pre_after; [|exact T12]. eapply pre_weaken; [exact P|lia].
Qed.

Lemma kw_import_shape : exists k kw, kw_import = k :: kw /\ k <> NUL /\ k_kw kw_import = 8%N.
Proof. exists x69, [x6d; x70; x6f; x72; x74]. repeat split. discriminate. Qed.

Lemma import_decl_trans s : pre 31 s -> trans 31 s (import_decl F s).
Proof.
  intros P. unfold import_decl.
  destruct kw_import_shape as [k [kw [Ekw [Hk Hkk]]]].
  assert (T1 : trans 8 s (read_keyword F kw_import s)).
  { rewrite <- Hkk. apply read_keyword_trans. rewrite Hkk. eapply pre_weaken; [exact P|lia]. }
  set (s1 := read_keyword F kw_import s) in *.
  assert (P2 : pre 1 s1) by (eapply pre_after; [|exact T1]; eapply pre_weaken; [exact P|lia]).
  destruct (peek_byte_spec true s1 P2) as [T2 _].
  destruct (peek_byte F true s1) as [c s2] eqn:Ep. cbn [fst snd] in T2.
  assert (T12 : trans (8 + 1) s s2) by (eapply trans_trans; eauto).
  assert (P3 : pre 22 s2) by (eapply pre_after; [|exact T12]; eapply pre_weaken; [exact P|lia]).
  destruct (beq c LPAREN).
  - eapply trans_trans'; [exact T12|now apply import_group_trans|lia].
  - eapply trans_trans'; [exact T12|apply read_import_trans|lia]. eapply pre_weaken; [exact P3|lia].
Qed.

Lemma import_decl_strict s : pre 31 s -> no_err s = true -> mu (import_decl F s) < mu s.
Proof.
  intros P Hn.
  destruct kw_import_shape as [k [kw [Ekw [Hk Hkk]]]].
  assert (P1 : pre (k_kw kw_import) s) by (rewrite Hkk; eapply pre_weaken; [exact P|lia]).
  assert (T1 : trans 8 s (read_keyword F kw_import s)) by (rewrite <- Hkk; now apply read_keyword_trans).
  assert (L1 : mu (read_keyword F kw_import s) < mu s).
  { revert P1. rewrite Ekw. intros P1. now apply read_keyword_strict. }
  pose proof (import_decl_trans s P) as Tall. unfold import_decl in *.
  set (s1 := read_keyword F kw_import s) in *.
  assert (P2 : pre 1 s1) by (eapply pre_after; [|exact T1]; eapply pre_weaken; [exact P|lia]).
  destruct (peek_byte_spec true s1 P2) as [T2 _].
  destruct (peek_byte F true s1) as [c s2] eqn:Ep. cbn [fst snd] in T2.
  assert (T12 : trans (8 + 1) s s2) by (eapply trans_trans; eauto).
  assert (P3 : pre 22 s2) by (eapply pre_after; [|exact T12]; eapply pre_weaken; [exact P|lia]).
  pose proof (trans_mu _ _ _ T2).
  destruct (beq c LPAREN).
  - pose proof (trans_mu _ _ _ (import_group_trans s2 P3)). lia.
  - assert (P4 : pre 9 s2) by (eapply pre_weaken; [exact P3|lia]).
    pose proof (trans_mu _ _ _ (read_import_trans s2 P4)). lia.
Qed.

(* after the scan: an error-free state that is not at EOF holds the byte that stopped it *)
Definition stop_ok (s : st) : Prop := no_err s = true -> eof s = false -> rbuf s <> [].

Lemma scan_imports_trans s : pre 76 s -> trans 76 s (scan_imports F s) /\ stop_ok (scan_imports F s).
Proof.
  intros P. unfold scan_imports.
  assert (Hk : k_kw kw_package = 9%N) by reflexivity.
  assert (T1 : trans 9 s (read_keyword F kw_package s)).
  { rewrite <- Hk. apply read_keyword_trans. rewrite Hk. eapply pre_weaken; [exact P|lia]. }
  set (s1 := read_keyword F kw_package s) in *.
  assert (T2 : trans 3 s1 (read_ident F s1)).
  { apply read_ident_trans. eapply pre_after; [|exact T1]. eapply pre_weaken; [exact P|lia]. }
  set (s2 := read_ident F s1) in *.
  assert (T12 : trans (9 + 3) s s2) by (eapply trans_trans; eauto).
  change (fun s0 : st => set_fail s0 FFuel) with oofs.
  match goal with |- context [loop F oofs ?st s2] => set (step := st) end.
  assert (T3 : trans (32 + 32) s2 (loop F oofs step s2) /\ stop_ok (loop F oofs step s2)).
  { apply (st_loop_trans 32 stop_ok).
    - eapply pre_after; [|exact T12]. eapply pre_weaken; [exact P|lia].
    - intros a Pa. unfold step.
      assert (Pa1 : pre 1 a) by (eapply pre_weaken; [exact Pa|lia]).
      destruct (peek_byte_spec true a Pa1) as [Ta [Ha1 [Ha2 Ha3]]].
      destruct (peek_byte F true a) as [c a1] eqn:Ep. cbn [fst snd] in *.
      assert (Pa2 : pre 31 a1) by (eapply pre_after; [|exact Ta]; eapply pre_weaken; [exact Pa|lia]).
      destruct (beq c LOWER_I) eqn:Ec; cbn [fst snd].
      + apply beq_eq in Ec. subst c.
        assert (Hna : no_err a = true).
        { destruct (no_err a) eqn:E; [reflexivity|]. destruct (Ha2 eq_refl) as [Hz _]. discriminate. }
        split; [eapply trans_trans'; [exact Ta|now apply import_decl_trans|lia]|].
        split; [|discriminate]. intros _. split; [|exact Hna].
        destruct (no_err a1) eqn:Hn1.
        * pose proof (import_decl_strict a1 Pa2 Hn1). pose proof (trans_mu _ _ _ Ta). lia.
        * pose proof (trans_mu _ _ _ (import_decl_trans a1 Pa2)).
          assert (mu a1 < mu a) by (apply mu_lt_err; [apply (t_mu _ _ _ Ta)|exact Hna|exact Hn1]). lia.
      + split; [eapply trans_weaken; [exact Ta|lia]|]. split; [discriminate|]. intros _.
        intros Hn1 He1. pose proof (Ha3 Hn1 He1) as Hc.
        pose proof (t_err _ _ _ Ta Hn1) as Hna. destruct (Ha1 Hna) as [Hpk _].
        destruct (t_wf _ _ _ Ta) as [_ [_ w3]]. apply w3. congruence. }
  destruct T3 as [T3 Q3]. split; [|exact Q3].
  eapply trans_trans'; [exact T12|exact T3|lia].
Qed.

End WithFuel.

(* ------------------------------------------------------------------ *)
(* the end of ReadImports                                              *)

Lemma read_byte_basic s : (eof s = true -> rest s = []) ->
  fail (snd (read_byte s)) = fail s /\ inp (snd (read_byte s)) = inp s
  /\ (eof (snd (read_byte s)) = true -> rest (snd (read_byte s)) = [])
  /\ imps (snd (read_byte s)) = imps s
  /\ (err (snd (read_byte s)) = err s \/ (err s = ENone /\ err (snd (read_byte s)) = ENUL)).
Proof.
  intros W2. unfold read_byte. destruct (rest s) as [|c r] eqn:Er.
  - cbn [snd]. unfold inp. cbn. rewrite Er. repeat split; auto.
  - assert (He : eof s = false).
    { destruct (eof s) eqn:E; [|reflexivity]. specialize (W2 eq_refl). discriminate. }
    assert (Hi : inp (set_rest_buf s r (c :: rbuf s)) = inp s).
    { unfold inp. cbn. rewrite Er. cbn [rev]. now rewrite <- app_assoc. }
    destruct (beq c NUL); cbn [snd].
    + destruct (no_err (set_rest_buf s r (c :: rbuf s))) eqn:En.
      * unfold no_err in En. cbn in En. split; [reflexivity|]. split; [exact Hi|]. split.
        { cbn. rewrite He. discriminate. }
        split; [reflexivity|]. right. cbn. split; [|reflexivity]. destruct (err s); [reflexivity|discriminate|discriminate].
      * split; [reflexivity|]. split; [exact Hi|]. split; [cbn; rewrite He; discriminate|]. split; [reflexivity|now left].
    + split; [reflexivity|]. split; [exact Hi|]. split; [cbn; rewrite He; discriminate|]. split; [reflexivity|now left].
Qed.

Definition drain_step (s : st) : st * bool :=
  if no_err s && negb (eof s) then (snd (read_byte s), true) else (s, false).

Lemma drain_spec F s0 :
  fail s0 = FNone -> (eof s0 = true -> rest s0 = []) -> err s0 = ENone -> mu0 s0 < F ->
  let s' := loop F oofs drain_step s0 in
  fail s' = FNone /\ inp s' = inp s0 /\ imps s' = imps s0
  /\ ((err s' = ENone /\ rest s' = []) \/ err s' = ENUL).
Proof.
  intros Fl W2 He M. cbv zeta.
  set (J := fun a : st => fail a = FNone /\ inp a = inp s0 /\ imps a = imps s0
                          /\ (eof a = true -> rest a = []) /\ (err a = ENone \/ err a = ENUL)).
  apply (loop_inv J (fun a => fail a = FNone /\ inp a = inp s0 /\ imps a = imps s0
                             /\ ((err a = ENone /\ rest a = []) \/ err a = ENUL)) mu0).
  - intros a [Ja [Jb [Jc [Jd Je]]]]. unfold drain_step.
    destruct (no_err a && negb (eof a)) eqn:Ec; cbn [fst snd].
    + apply andb_true_iff in Ec. destruct Ec as [Hn Hf]. apply negb_true_iff in Hf.
      destruct (read_byte_basic a Jd) as [B1 [B2 [B3 [B4 B5]]]].
      split; [|discriminate]. intros _. split.
      * unfold J. split; [congruence|]. split; [congruence|]. split; [congruence|]. split; [exact B3|].
        destruct B5 as [B5|[_ B5]]; [rewrite B5; exact Je|now right].
      * pose proof (read_byte_strict a Hf). lia.
    + split; [discriminate|]. intros _. split; [exact Ja|]. split; [exact Jb|]. split; [exact Jc|].
      apply andb_false_iff in Ec. destruct Ec as [Hn|Hf].
      * right. destruct Je as [Je|Je]; [|exact Je]. unfold no_err in Hn. rewrite Je in Hn. discriminate.
      * apply negb_false_iff in Hf. destruct Je as [Je|Je]; [left; split; [exact Je|now apply Jd]|now right].
  - unfold J. repeat split; auto.
  - exact M.
Qed.

Lemma init_pre input : pre (fuel_for input) 76 (init_st input).
Proof.
  unfold pre, init_st, wf, fuel_for, mu, mu0, looping_limit. cbn. repeat split; try reflexivity; try lia.
  intros H. now elim H.
Qed.

Definition scan (input : bytes) : st := scan_imports (fuel_for input) (init_st input).

Lemma scan_ok input : trans 76 (init_st input) (scan input) /\ stop_ok (scan input).
Proof. apply scan_imports_trans. apply init_pre. Qed.

Lemma scan_inp input : inp (scan input) = input.
Proof. destruct (scan_ok input) as [T _]. rewrite (t_inp _ _ _ T). reflexivity. Qed.

(* everything that is needed about the last part of ReadImports *)
Lemma finish_spec report input :
  let s := scan input in
  let '(s', out, e) := finish_imports (fuel_for input) report s in
  fail s' = FNone /\ imps s' = imps s /\ (exists tl, input = out ++ tl)
  /\ (no_err s = true -> eof s = false -> e = ENone)
  /\ (no_err s && negb (eof s) = false -> report = true -> e = err s)
  /\ (err s = ESyntax -> report = false -> (e = ENone /\ out = input) \/ e = ENUL).
Proof.
  cbv zeta. destruct (scan_ok input) as [T Q]. pose proof (scan_inp input) as Hi.
  set (s := scan input) in *. unfold finish_imports.
  destruct (no_err s && negb (eof s)) eqn:Ec.
  - apply andb_true_iff in Ec. destruct Ec as [Hn Hf]. apply negb_true_iff in Hf.
    destruct (rbuf s) as [|x b] eqn:Eb; [elim (Q Hn Hf); exact Eb|].
    split; [apply (t_fail _ _ _ T)|]. split; [reflexivity|]. split.
    + exists (x :: rest s). rewrite <- Hi. unfold inp. rewrite Eb. cbn [rev]. now rewrite <- app_assoc.
    + split; [reflexivity|]. split; [discriminate|]. intros He. unfold no_err in Hn. rewrite He in Hn. discriminate.
  - assert (Hplain : fail s = FNone /\ imps s = imps s /\ (exists tl, input = rev (rbuf s) ++ tl)).
    { split; [apply (t_fail _ _ _ T)|]. split; [reflexivity|]. exists (rest s). now rewrite <- Hi. }
    destruct (err s) eqn:Ee.
    + destruct Hplain as [a [b c]]. repeat split; auto; try discriminate.
    + destruct report; cbn [negb].
      * destruct Hplain as [a [b c]]. repeat split; auto; try discriminate;
          try (intros Hn; unfold no_err in Hn; rewrite Ee in Hn; discriminate).
      * change (fun s0 : st => set_fail s0 FFuel) with oofs.
        change (fun s0 : st => if no_err s0 && negb (eof s0) then (snd (read_byte s0), true) else (s0, false)) with drain_step.
        assert (M : mu0 (set_err s ENone) < fuel_for input).
        { pose proof (trans_mu _ _ _ T) as Hm. destruct (init_pre input) as [_ [_ [Hlt _]]].
          unfold mu in Hm at 1. change (mu0 (set_err s ENone)) with (mu0 s). lia. }
        destruct (t_wf _ _ _ T) as [_ [w2 _]].
        destruct (drain_spec (fuel_for input) (set_err s ENone) (t_fail _ _ _ T) w2 eq_refl M) as [D1 [D2 [D3 D4]]].
        set (s' := loop (fuel_for input) oofs drain_step (set_err s ENone)) in *.
        change (inp (set_err s ENone)) with (inp s) in D2. change (imps (set_err s ENone)) with (imps s) in D3.
        split; [exact D1|]. split; [exact D3|]. split; [exists (rest s'); rewrite <- Hi, <- D2; reflexivity|].
        split; [intros Hn; unfold no_err in Hn; rewrite Ee in Hn; discriminate|]. split; [discriminate|].
        intros _ _. destruct D4 as [[D4 D5]|D4]; [left|now right]. split; [exact D4|].
        rewrite <- Hi, <- D2. unfold inp. rewrite D5. symmetry. apply app_nil_r.
    + destruct Hplain as [a [b c]]. repeat split; auto; try discriminate;
        try (intros Hn; unfold no_err in Hn; rewrite Ee in Hn; discriminate).
Qed.

(* ------------------------------------------------------------------ *)
(* the theorems about arbitrary input                                  *)

Lemma read_imports_unfold report input :
  read_imports report input =
  let '(s', out, e) := finish_imports (fuel_for (strip_bom input)) report (scan (strip_bom input)) in
  match fail s' with
  | FPanic => RPanic
  | FFuel => RFuel
  | FNone => ROk (imps s') out e
  end.
Proof. reflexivity. Qed.

Theorem read_total report input :
  exists imports out e, read_imports report input = ROk imports out e.
Proof.
  rewrite read_imports_unfold. pose proof (finish_spec report (strip_bom input)) as H. cbv zeta in H.
  destruct (finish_imports _ report _) as [[s' out] e]. destruct H as [Hf _]. rewrite Hf. eauto.
Qed.

Corollary read_no_panic report input :
  read_imports report input <> RPanic /\ read_imports report input <> RFuel.
Proof. destruct (read_total report input) as [i [o [e H]]]. rewrite H. split; discriminate. Qed.

Lemma strip_bom_cases input : input = strip_bom input \/ input = bom ++ strip_bom input.
Proof.
  unfold strip_bom. destruct (has_prefix bom input) eqn:E; [right|now left].
  apply has_prefix_iff in E. destruct E as [x ->]. now rewrite skipn_length_app.
Qed.

Theorem output_is_prefix report input imports out e :
  read_imports report input = ROk imports out e ->
  (exists tl, strip_bom input = out ++ tl)
  /\ (input = strip_bom input \/ input = bom ++ strip_bom input).
Proof.
  rewrite read_imports_unfold. pose proof (finish_spec report (strip_bom input)) as H. cbv zeta in H.
  destruct (finish_imports _ report _) as [[s' o] e']. destruct H as [Hf [_ [Hp _]]]. rewrite Hf.
  intros [= _ <- _]. split; [exact Hp|apply strip_bom_cases].
Qed.

(* a syntax error that would be reported with reportSyntaxError=true gives, with false, the
   whole input (byte-order mark aside) and a nil error -- or the NUL error, when the bytes
   that follow contain a NUL byte (readByte records it while the rest is being consumed) *)
Theorem no_report_whole input imports out :
  read_imports true input = ROk imports out ESyntax ->
  read_imports false input = ROk imports (strip_bom input) ENone
  \/ exists out', read_imports false input = ROk imports out' ENUL.
Proof.
  rewrite !read_imports_unfold.
  pose proof (finish_spec true (strip_bom input)) as H1. pose proof (finish_spec false (strip_bom input)) as H0.
  cbv zeta in H1, H0. set (s := scan (strip_bom input)) in *.
  destruct (finish_imports _ true s) as [[s1 o1] e1]. destruct (finish_imports _ false s) as [[s0 o0] e0].
  destruct H1 as [F1 [I1 [_ [A1 [B1 _]]]]]. destruct H0 as [F0 [I0 [_ [_ [_ C0]]]]].
  rewrite F1, F0. intros [= Hi _ He].
  assert (Hs : err s = ESyntax).
  { destruct (no_err s && negb (eof s)) eqn:Ec.
    - apply andb_true_iff in Ec. destruct Ec as [Hn Hf]. apply negb_true_iff in Hf.
      rewrite (A1 Hn Hf) in He. discriminate.
    - rewrite <- (B1 eq_refl eq_refl). exact He. }
  rewrite I0, <- I1, Hi.
  destruct (C0 Hs eq_refl) as [[E1 E2]|E1]; [left; now rewrite E1, E2|right; rewrite E1; eauto].
Qed.

(* ------------------------------------------------------------------ *)
(* reportSyntaxError only decides what happens to a syntax error       *)

Lemma finish_flag_irrelevant F s :
  err s <> ESyntax -> finish_imports F true s = finish_imports F false s.
Proof.
  intros H. unfold finish_imports. destruct (no_err s && negb (eof s)); [reflexivity|].
  destruct (err s); [reflexivity|now elim H|reflexivity].
Qed.

Lemma finish_true_err F s s' out e :
  finish_imports F true s = (s', out, e) -> e <> ESyntax -> err s <> ESyntax.
Proof.
  unfold finish_imports. destruct (no_err s && negb (eof s)) eqn:Ec.
  - apply andb_true_iff in Ec. destruct Ec as [Hn _]. intros _ _ He. unfold no_err in Hn. rewrite He in Hn. discriminate.
  - cbn [negb]. destruct (err s) eqn:Ee; intros [= _ _ <-] H; try discriminate; congruence.
Qed.

(* without a syntax error the two modes return the same imports, bytes and error *)
Theorem report_flag_only_on_syntax_error input imports out e :
  read_imports true input = ROk imports out e -> e <> ESyntax ->
  read_imports false input = ROk imports out e.
Proof.
  rewrite !read_imports_unfold. set (s := scan (strip_bom input)).
  destruct (finish_imports _ true s) as [[s1 o1] e1] eqn:E1. intros H Hne.
  assert (He : e1 = e). { destruct (fail s1); inversion H; reflexivity. }
  subst e1. rewrite <- (finish_flag_irrelevant _ s (finish_true_err _ _ _ _ _ E1 Hne)), E1. exact H.
Qed.

(* with reportSyntaxError=false a syntax error is never returned: the error is nil or the NUL error *)
Theorem no_report_no_syntax_error input imports out e :
  read_imports false input = ROk imports out e -> e <> ESyntax.
Proof.
  rewrite read_imports_unfold. pose proof (finish_spec false (strip_bom input)) as H0. cbv zeta in H0.
  set (s := scan (strip_bom input)) in *.
  destruct (err s) eqn:Es.
  - (* no error after the scan *)
    unfold finish_imports. destruct (no_err s && negb (eof s)).
    + destruct (rbuf s); intros H; match type of H with match ?f with _ => _ end = _ => destruct f end;
        inversion H; discriminate.
    + rewrite Es. intros H; match type of H with match ?f with _ => _ end = _ => destruct f end;
        inversion H; congruence.
  - destruct (finish_imports _ false s) as [[s0 o0] e0]. destruct H0 as [F0 [_ [_ [_ [_ C0]]]]].
    rewrite F0. intros [= _ _ <-]. destruct (C0 eq_refl eq_refl) as [[-> _]| ->]; discriminate.
  - unfold finish_imports. destruct (no_err s && negb (eof s)) eqn:Ec.
    + apply andb_true_iff in Ec. destruct Ec as [Hn _]. unfold no_err in Hn. rewrite Es in Hn. discriminate.
    + rewrite Es. intros H; match type of H with match ?f with _ => _ end = _ => destruct f end;
        inversion H; congruence.
Qed.

(* both modes return the same imports: the flag never changes what was found *)
Theorem report_flag_same_imports input i1 o1 e1 i0 o0 e0 :
  read_imports true input = ROk i1 o1 e1 -> read_imports false input = ROk i0 o0 e0 -> i1 = i0.
Proof.
  rewrite !read_imports_unfold.
  pose proof (finish_spec true (strip_bom input)) as H1. pose proof (finish_spec false (strip_bom input)) as H0.
  cbv zeta in H1, H0. set (s := scan (strip_bom input)) in *.
  destruct (finish_imports _ true s) as [[s1 a1] b1]. destruct (finish_imports _ false s) as [[s0 a0] b0].
  destruct H1 as [F1 [I1 _]]. destruct H0 as [F0 [I0 _]]. rewrite F1, F0.
  intros [= <- _ _] [= <- _ _]. congruence.
Qed.

(* non-vacuity: a file read without error; an import path broken by a newline (a syntax error
   when requested, the whole input and no error otherwise); a NUL inside a path literal (the
   NUL error in both modes) *)
Example ex_flag_valid :
  read_imports true [x70; x61; x63; x6b; x61; x67; x65; x20; x70; x0a; x69; x6d; x70; x6f; x72; x74; x20; x22; x61; x22; x0a; x78] = ROk [[x22; x61; x22]] [x70; x61; x63; x6b; x61; x67; x65; x20; x70; x0a; x69; x6d; x70; x6f; x72; x74; x20; x22; x61; x22; x0a] ENone
  /\ read_imports false [x70; x61; x63; x6b; x61; x67; x65; x20; x70; x0a; x69; x6d; x70; x6f; x72; x74; x20; x22; x61; x22; x0a; x78] = ROk [[x22; x61; x22]] [x70; x61; x63; x6b; x61; x67; x65; x20; x70; x0a; x69; x6d; x70; x6f; x72; x74; x20; x22; x61; x22; x0a] ENone.
Proof. vm_compute. split; reflexivity. Qed.

Example ex_flag_newline_in_path :
  read_imports true [x70; x61; x63; x6b; x61; x67; x65; x20; x70; x0a; x69; x6d; x70; x6f; x72; x74; x20; x22; x61; x0a; x62; x22; x0a; x76; x61; x72; x20; x78; x20; x3d; x20; x31; x0a] = ROk [] [x70; x61; x63; x6b; x61; x67; x65; x20; x70; x0a; x69; x6d; x70; x6f; x72; x74; x20; x22; x61; x0a] ESyntax
  /\ read_imports false [x70; x61; x63; x6b; x61; x67; x65; x20; x70; x0a; x69; x6d; x70; x6f; x72; x74; x20; x22; x61; x0a; x62; x22; x0a; x76; x61; x72; x20; x78; x20; x3d; x20; x31; x0a] = ROk [] [x70; x61; x63; x6b; x61; x67; x65; x20; x70; x0a; x69; x6d; x70; x6f; x72; x74; x20; x22; x61; x0a; x62; x22; x0a; x76; x61; x72; x20; x78; x20; x3d; x20; x31; x0a] ENone.
Proof. vm_compute. split; reflexivity. Qed.

Example ex_flag_nul_in_path :
  read_imports true [x70; x61; x63; x6b; x61; x67; x65; x20; x70; x0a; x69; x6d; x70; x6f; x72; x74; x20; x22; x61; x00; x22] = ROk [] [x70; x61; x63; x6b; x61; x67; x65; x20; x70; x0a; x69; x6d; x70; x6f; x72; x74; x20; x22; x61; x00] ENUL
  /\ read_imports false [x70; x61; x63; x6b; x61; x67; x65; x20; x70; x0a; x69; x6d; x70; x6f; x72; x74; x20; x22; x61; x00; x22] = ROk [] [x70; x61; x63; x6b; x61; x67; x65; x20; x70; x0a; x69; x6d; x70; x6f; x72; x74; x20; x22; x61; x00] ENUL.
Proof. vm_compute. split; reflexivity. Qed.

(* Gen/ImportsSrc.v is imports/build.go translated to Gallina by harness/go2coq on every
   run.  This file proves, for every input (and every sufficiently large bound on loop
   iterations and recursion depth), that each generated function returns Ok of exactly what
   the specification of Build.v says -- read with Go's own rune-level tag test
   (BuildGen.unicode_tag_chars) for every input, and hence with Build.v's model and
   specification themselves wherever the two tests agree (all bytes below 0xC9).  So the
   translated functions never panic and never exhaust the bound, and a change of build.go
   that changes the generated text stops these proofs from compiling.

   As in Txtar/SrcFacts.v the proofs do not mention generated hypothesis or bound-variable
   names: functions are unfolded, the primitive operations are case-split in evaluation
   order, loops go by induction on the bound (for), on the list (range) or on the depth
   (recursion). *)
From Coq Require Import List Bool Arith ZArith NArith Lia ZifyBool.
From Coq.Strings Require Import Byte.
From GI Require Import Lib.Bytes Lib.BytesFacts Lib.GoSem Lib.GoSemExt Lib.GoSemExtFacts Lib.GoSemUnicode
  Gen.ImportsConsts Imports.Build Imports.BuildFacts Imports.SpaceTables Imports.SpaceFacts
  Imports.BuildGen Imports.BuildGenFacts Imports.TagRunes Imports.SrcLib Gen.ImportsSrc.
Import ListNotations.
Local Open Scope nat_scope.

(* the package-level variable and the literals as translated are the regenerated constants *)
Lemma src_consts :
  src_slashslash = slashslash /\ [x2a] = star /\ [x69; x67; x6e; x6f; x72; x65] = ignore
  /\ [x6c; x69; x6e; x75; x78] = linux /\ [x61; x6e; x64; x72; x6f; x69; x64] = android
  /\ [x2b; x62; x75; x69; x6c; x64] = plus_build /\ [x74; x65; x73; x74] = test_word
  /\ x2c = COMMA /\ x21 = BANG /\ x2b = PLUS /\ x5f = US /\ x2e = DOT.
Proof. repeat split. Qed.

Ltac go_unfold :=
  unfold go_bytes_HasPrefix, go_bytes_HasSuffix, go_bytes_IndexByte, go_bytes_Index,
    go_strings_TrimSpace, go_slice, go_index, go_append, go_index_of, go_slice_of,
    go_strings_Fields, go_strings_Split, opt_pos, unreachable in *.

(* ------------------------------------------------------------------ *)
(* matchTag                                                            *)

Lemma src_matchTag_loop_eq (L : Type) : forall l,
  @src_matchTag_loop1 L l =
  if forallb (fun ic => tag_rune (snd ic)) l then Ok (Normal tt) else Ok (Return false).
Proof.
  induction l as [|[i c] l IH]; [reflexivity|]. cbn [src_matchTag_loop1 forallb snd]. unfold tag_rune at 1.
  destruct (go_unicode_IsLetter c), (go_unicode_IsDigit c), (c =? 95)%Z, (c =? 46)%Z; go_red; try reflexivity; apply IH.
Qed.

Theorem src_matchTag_eq name tags want :
  src_matchTag name tags want = Ok (match_tag_g unicode_tag_chars name tags want).
Proof.
  unfold src_matchTag, match_tag_g. rewrite src_matchTag_loop_eq. fold (unicode_tag_chars name).
  destruct (unicode_tag_chars name); go_red; [|reflexivity].
  rewrite bytes_eqb_nil. change (match name with [] => true | _ :: _ => false end) with (is_nil name).
  destruct (tags [x2a] && negb (is_nil name) && negb (bytes_eqb name [x69; x67; x6e; x6f; x72; x65])) eqn:E;
    change [x2a] with star in E; change [x69; x67; x6e; x6f; x72; x65] with ignore in E; rewrite E; [reflexivity|].
  change [x6c; x69; x6e; x75; x78] with linux. change [x61; x6e; x64; x72; x6f; x69; x64] with android.
  destruct (bytes_eqb name linux); reflexivity.
Qed.

(* matchTag on a non-empty name, want = true / false (BuildFacts.match_tag_true / _false with
   the tag test as a parameter) *)
Lemma match_tag_g_true P name tags : name <> [] ->
  match_tag_g P name tags true = P name && (wild tags name || selects tags name).
Proof.
  intros Hne. unfold match_tag_g, wild, selects. destruct name as [|b r]; [contradiction|].
  cbn [is_nil negb].
  destruct (P (b :: r)), (tags star), (bytes_eqb (b :: r) ignore),
    (bytes_eqb (b :: r) linux), (tags (b :: r)), (tags android); reflexivity.
Qed.
Lemma match_tag_g_false P name tags : name <> [] ->
  match_tag_g P name tags false = P name && (wild tags name || negb (selects tags name)).
Proof.
  intros Hne. unfold match_tag_g, wild, selects. destruct name as [|b r]; [contradiction|].
  cbn [is_nil negb].
  destruct (P (b :: r)), (tags star), (bytes_eqb (b :: r) ignore),
    (bytes_eqb (b :: r) linux), (tags (b :: r)), (tags android); reflexivity.
Qed.

(* ------------------------------------------------------------------ *)
(* matchTags: the recursion, by induction on the depth bound           *)

Lemma split_on_cut c d :
  split_on c d = match index_byte c d with
                 | Some k => firstn k d :: split_on c (skipn (S k) d)
                 | None => [d]
                 end.
Proof.
  induction d as [|b r IH]; [reflexivity|]. cbn [split_on index_byte]. destruct (beq b c); [reflexivity|].
  rewrite IH. destruct (index_byte c r) as [k|]; reflexivity.
Qed.

Lemma bang_not_unicode_tag r : unicode_tag_chars (BANG :: r) = false.
Proof. now rewrite unicode_tag_chars_cons_ascii by reflexivity. Qed.

(* one term: a name without a comma *)
Lemma src_matchTags_term f t tags : index_byte COMMA t = None ->
  src_matchTags (S f) t tags = Ok (term_ok_g unicode_tag_chars tags t).
Proof.
  intros Hc. cbn [src_matchTags]. go_unfold. rewrite index_sub_byte. change x2c with COMMA. rewrite Hc.
  rewrite bytes_eqb_nil. destruct t as [|b r]; [reflexivity|]. go_red.
  change (-1 >=? 0)%Z with false. go_red. cbn [has_prefix]. change x21 with BANG. rewrite (beq_sym BANG b).
  unfold term_ok_g. destruct (beq b BANG) eqn:Eb; go_red.
  - apply beq_eq in Eb. subst b. destruct r as [|c r'].
    + cbn [has_prefix andb]. go_red. reflexivity.
    + cbn [has_prefix]. rewrite andb_true_r. destruct (beq BANG c) eqn:Ec; go_red.
      * apply beq_eq in Ec. subst c. unfold wf_tag_g. now rewrite bang_not_unicode_tag.
      * assert (El : (len (BANG :: c :: r') >? 1)%Z = true) by (unfold len; cbn [length]; lia). rewrite El.
        change 1%Z with (Z.of_nat 1). rewrite slice_z_from by (cbn [length]; lia). cbn [skipn]. go_red.
        rewrite src_matchTag_eq. go_red. rewrite match_tag_g_false by discriminate. reflexivity.
  - rewrite src_matchTag_eq. go_red. rewrite match_tag_g_true by discriminate. reflexivity.
Qed.

Theorem src_matchTags_eq fuel : forall name tags, length name + 1 <= fuel ->
  src_matchTags fuel name tags = Ok (option_ok_g unicode_tag_chars tags name).
Proof.
  induction fuel as [|f IH]; intros name tags Hf; [lia|].
  unfold option_ok_g. rewrite (split_on_cut COMMA name).
  destruct (index_byte COMMA name) as [k|] eqn:Ek.
  - destruct (index_byte_Some _ _ _ Ek) as [Hk [Hpre Hsplit]].
    cbn [src_matchTags]. go_unfold. rewrite index_sub_byte. change x2c with COMMA. rewrite Ek.
    rewrite bytes_eqb_nil. destruct name as [|b r] eqn:En; [cbn in Hk; lia|]. rewrite <- En in *. go_red.
    assert (Ei : (Z.of_nat k >=? 0)%Z = true) by lia. rewrite Ei.
    rewrite slice_z_to by lia. go_red.
    destruct f as [|f']; [subst name; cbn [length] in Hf; lia|].
    rewrite src_matchTags_term by (apply index_byte_notin; exact Hpre). go_red.
    replace (Z.of_nat k + 1)%Z with (Z.of_nat (S k)) by lia. rewrite slice_z_from by lia. go_red.
    rewrite IH by (rewrite skipn_length; lia). go_red. cbn [forallb]. reflexivity.
  - rewrite src_matchTags_term by exact Ek. cbn [forallb]. now rewrite andb_true_r.
Qed.

(* ------------------------------------------------------------------ *)
(* lines: `line := p; if i := IndexByte(line, '\n'); i >= 0 { line, p = line[:i], p[i+1:] }
   else { p = p[len(p):] }` against the model's go_lines                *)

Lemma go_lines_line l x : ~ In NL l -> go_lines (l ++ NL :: x) = l :: go_lines x.
Proof.
  induction l as [|b l IH]; intros H; cbn [app go_lines].
  - now rewrite beq_refl.
  - rewrite beq_false by (intros ->; apply H; now left). rewrite IH; [reflexivity|]. intros Hin. apply H. now right.
Qed.

Lemma go_lines_last l : l <> [] -> ~ In NL l -> go_lines l = [l].
Proof.
  induction l as [|b l IH]; intros Hne H; [contradiction|]. cbn [go_lines].
  rewrite beq_false by (intros ->; apply H; now left). destruct l as [|c l']; [reflexivity|].
  rewrite IH; [reflexivity|discriminate|]. intros Hin. apply H. now right.
Qed.

Lemma go_lines_cut p : p <> [] ->
  go_lines p = fst (cut_at NL p) :: go_lines (snd (cut_at NL p)).
Proof.
  intros Hp. unfold cut_at. destruct (index_byte NL p) as [k|] eqn:E; cbn [fst snd].
  - destruct (index_byte_Some _ _ _ E) as [_ [Hpre Hsplit]]. rewrite Hsplit at 1. now apply go_lines_line.
  - apply index_byte_None in E. now apply go_lines_last.
Qed.

(* [pre] ends at a line boundary *)
Definition aligned (pre : bytes) : Prop := forall x, go_lines (pre ++ x) = go_lines pre ++ go_lines x.

Lemma aligned_nil : aligned [].
Proof. intros x. reflexivity. Qed.

Lemma aligned_line pre l : aligned pre -> ~ In NL l -> aligned (pre ++ l ++ [NL]).
Proof.
  intros Hp Hl x. rewrite <- !app_assoc. cbn [app]. rewrite !Hp, !go_lines_line by exact Hl.
  now rewrite <- app_assoc.
Qed.

Lemma go_lines_aligned_line pre l : aligned pre -> ~ In NL l -> go_lines (pre ++ l ++ [NL]) = go_lines pre ++ [l].
Proof. intros Hp Hl. now rewrite Hp, go_lines_line. Qed.

(* ------------------------------------------------------------------ *)
(* ShouldBuild, pass 2: the range loop over the options of one line     *)

Lemma src_ShouldBuild_loop3_eq (L : Type) fuel tags : forall l ok,
  (forall tok, In tok l -> length tok + 1 <= fuel) ->
  @src_ShouldBuild_loop3 L fuel tags l ok =
  Ok (Normal (ok || existsb (option_ok_g unicode_tag_chars tags) l)).
Proof.
  induction l as [|tok l IH]; intros ok Hf; [cbn; now rewrite orb_false_r|].
  cbn [src_ShouldBuild_loop3 existsb]. rewrite src_matchTags_eq by (apply Hf; now left). go_red.
  destruct (option_ok_g unicode_tag_chars tags tok); go_red.
  - rewrite IH by (intros t Ht; apply Hf; now right). now rewrite orb_true_r.
  - rewrite IH by (intros t Ht; apply Hf; now right). reflexivity.
Qed.

(* a comment line: what is behind the // *)
Lemma slice_after_slashslash t : has_prefix slashslash t = true ->
  slice_z t (len slashslash) (len t) = Some (skipn (length slashslash) t).
Proof.
  intros H. apply has_prefix_iff in H. destruct H as [x ->]. unfold len at 1.
  apply slice_z_from. rewrite app_length. lia.
Qed.

(* the first conditional computation of a loop body is the cut of one line off [p]:
     line := p; if i := bytes.IndexByte(line, '\n'); i >= 0 { line, p = line[:i], p[i+1:] } else { p = p[len(p):] } *)
Ltac cut_line p :=
  match goal with
  | |- context [bind (if ?c then ?A else ?B) _] =>
      let H := fresh "Hcut" in
      assert (H : (if c then A else B) = Ok (snd (cut_at NL p), fst (cut_at NL p)));
      [ unfold cut_at, go_bytes_IndexByte, opt_pos, go_slice, NL;
        let k := fresh "k" in let Ek := fresh "Ek" in
        destruct (index_byte x0a p) as [k|] eqn:Ek; cbn [fst snd];
        [ let Hk := fresh in destruct (index_byte_Some _ _ _ Ek) as [Hk _];
          let Ei := fresh in assert (Ei : (Z.of_nat k >=? 0)%Z = true) by lia; rewrite Ei;
          rewrite slice_z_to by lia; go_red;
          replace (Z.of_nat k + 1)%Z with (Z.of_nat (S k)) by lia; rewrite slice_z_from by lia; reflexivity
        | change (-1 >=? 0)%Z with false; cbv iota; rewrite slice_z_end; reflexivity ]
      | rewrite H; clear H ]
  end.

Ltac go_red2 := go_red; go_red.

(* pass 2, the loop over the lines of the header *)
Lemma src_ShouldBuild_loop2_eq (L : Type) fuel tags : forall n p allok,
  length p + 1 <= n -> length p + 1 <= fuel ->
  @src_ShouldBuild_loop2 L fuel n tags p allok =
  Ok (Normal ([], allok && forallb (line_spec_g unicode_tag_chars tags) (go_lines p))).
Proof.
  induction n as [|n IH]; intros p allok Hn Hf; [lia|].
  cbn [src_ShouldBuild_loop2]. rewrite len_pos_iff. destruct p as [|b0 r0] eqn:Ep.
  { cbn [go_lines forallb]. now rewrite andb_true_r. }
  rewrite <- Ep in *. assert (Hp : p <> []) by (rewrite Ep; discriminate). clear Ep b0 r0.
  rewrite (go_lines_cut p Hp). cbn [forallb]. go_red. cut_line p.
  pose proof (cut_at_length NL p Hp) as Hrl. pose proof (cut_at_sub NL p) as [Hsl _].
  set (line := fst (cut_at NL p)) in *. set (rest := snd (cut_at NL p)) in *. clearbody line rest.
  assert (IHr : forall a, @src_ShouldBuild_loop2 L fuel n tags rest a =
                          Ok (Normal ([], a && forallb (line_spec_g unicode_tag_chars tags) (go_lines rest))))
    by (intros a; apply IH; lia).
  go_red2. go_unfold.
  unfold line_spec_g at 1, build_options, comment, comment_text. change src_slashslash with slashslash.
  destruct (has_prefix slashslash (trim_space line)) eqn:Ec; go_red2.
  2:{ rewrite IHr. reflexivity. }
  rewrite slice_after_slashslash by exact Ec. go_red2.
  set (t2 := trim_space (skipn (length slashslash) (trim_space line))).
  assert (Ht2 : sub t2 line).
  { unfold t2. eapply sub_trans; [apply sub_trim_space|]. eapply sub_trans; [apply sub_skipn|apply sub_trim_space]. }
  rewrite len_pos_iff. destruct t2 as [|c t2'] eqn:Et2; go_red2.
  { rewrite IHr. reflexivity. }
  rewrite index_z_head. go_red2. cbn [has_prefix]. rewrite andb_true_r. change x2b with PLUS. rewrite (beq_sym PLUS c).
  destruct (beq c PLUS) eqn:Epl; go_red2.
  2:{ rewrite IHr. reflexivity. }
  apply beq_eq in Epl. subst c.
  destruct (fields (PLUS :: t2')) as [|w opts] eqn:Ef; [now apply fields_plus in Ef|].
  rewrite index_of_head. go_red2. change [PLUS; x62; x75; x69; x6c; x64] with plus_build.
  destruct (bytes_eqb w plus_build); go_red2.
  2:{ rewrite IHr. reflexivity. }
  rewrite slice_of_tail. go_red2.
  rewrite src_ShouldBuild_loop3_eq.
  2:{ intros tok Htok. assert (Hs : sub tok p).
      { eapply sub_trans; [|exact Hsl]. eapply sub_trans; [|exact Ht2]. apply fields_sub. rewrite Ef. now right. }
      apply sub_length in Hs. lia. }
  go_red2. cbn [orb].
  destruct (existsb (option_ok_g unicode_tag_chars tags) opts); go_red2; rewrite IHr; [reflexivity|].
  now rewrite andb_false_r.
Qed.

(* ------------------------------------------------------------------ *)
(* ShouldBuild, pass 1: the byte offset [end] against the model's list of lines.
   [pre] = what has been read, [e] = end, [acc] = the lines before end, [pend] = the lines
   read since. *)
Lemma src_ShouldBuild_loop1_eq (L : Type) fuel content : forall n pre p e acc pend,
  content = pre ++ p -> (p = [] \/ aligned pre) -> e <= length pre ->
  go_lines (firstn e content) = acc -> go_lines pre = acc ++ pend ->
  length p + 1 <= n ->
  exists e' p', @src_ShouldBuild_loop1 L fuel n content (Z.of_nat e) p = Ok (Normal (Z.of_nat e', p'))
                /\ e' <= length content
                /\ go_lines (firstn e' content) = pass1 acc pend (go_lines p).
Proof.
  induction n as [|n IH]; intros pre p e acc pend Hc Hal He Hacc Hpre Hn; [lia|].
  cbn [src_ShouldBuild_loop1]. rewrite len_pos_iff. destruct p as [|b0 r0] eqn:Ep.
  { exists e, []. split; [reflexivity|]. split; [|exact Hacc]. rewrite Hc, app_length. lia. }
  rewrite <- Ep in *. assert (Hp : p <> []) by (rewrite Ep; discriminate). clear Ep b0 r0.
  destruct Hal as [Hal|Hal]; [contradiction|].
  rewrite (go_lines_cut p Hp). cbn [pass1]. go_red. cut_line p.
  (* the line cut off, the rest, and what was consumed *)
  assert (Hcons : exists cons, p = cons ++ snd (cut_at NL p)
                    /\ go_lines (pre ++ cons) = go_lines pre ++ [fst (cut_at NL p)]
                    /\ (snd (cut_at NL p) = [] \/ aligned (pre ++ cons))).
  { unfold cut_at. destruct (index_byte NL p) as [k|] eqn:Ek; cbn [fst snd].
    - destruct (index_byte_Some _ _ _ Ek) as [_ [Hno Hsplit]]. exists (firstn k p ++ [NL]). split; [|split].
      + rewrite <- app_assoc. exact Hsplit.
      + now apply go_lines_aligned_line.
      + right. now apply aligned_line.
    - apply index_byte_None in Ek. exists p. split; [now rewrite app_nil_r|]. split; [|now left].
      rewrite Hal. now rewrite (go_lines_last p) by assumption. }
  destruct Hcons as [cons [Hp1 [Hgl Hal']]].
  pose proof (cut_at_length NL p Hp) as Hrl.
  set (line := fst (cut_at NL p)) in *. set (rest := snd (cut_at NL p)) in *. clearbody line rest.
  go_red2. go_unfold. rewrite len_zero_iff. change src_slashslash with slashslash.
  assert (Hc' : content = (pre ++ cons) ++ rest) by (rewrite <- app_assoc, <- Hp1; exact Hc).
  destruct (trim_space line) as [|t0 t'] eqn:Et; go_red2.
  - (* blank line: end moves behind it *)
    cbn [is_nil].
    assert (Hend : (len content - len rest)%Z = Z.of_nat (length (pre ++ cons))).
    { unfold len. rewrite Hc', !app_length. lia. }
    rewrite Hend.
    apply (IH (pre ++ cons) rest (length (pre ++ cons)) (acc ++ pend ++ [line]) []); try assumption; try lia.
    + rewrite Hc', firstn_length_app. rewrite Hgl, Hpre. now rewrite <- app_assoc.
    + rewrite Hgl, Hpre. now rewrite app_nil_r, <- app_assoc.
  - cbn [is_nil]. destruct (has_prefix slashslash (t0 :: t')) eqn:Ec; go_red2.
    + (* comment line *)
      apply (IH (pre ++ cons) rest e acc (pend ++ [line])); try assumption; try lia.
      * rewrite app_length. lia.
      * rewrite Hgl, Hpre. now rewrite <- app_assoc.
    + (* anything else: break *)
      exists e, rest. split; [reflexivity|]. split; [|exact Hacc]. rewrite Hc, app_length. lia.
Qed.

(* ------------------------------------------------------------------ *)
(* ShouldBuild                                                         *)

Lemma pass1_header content : pass1 [] [] (go_lines content) = header content.
Proof.
  rewrite pass1_spec. unfold header. cbn [app].
  destruct (existsb blank (leading_run (go_lines content))) eqn:Ee; [reflexivity|].
  now rewrite followed_by_blank_none.
Qed.

(* for every content and tag set: the translated ShouldBuild returns what the specification
   says, read with Go's rune-level tag test *)
Theorem src_ShouldBuild_unicode fuel content tags : length content + 2 <= fuel ->
  src_ShouldBuild fuel content tags = Ok (spec_should_build_g unicode_tag_chars content tags).
Proof.
  intros Hf. unfold src_ShouldBuild. go_red.
  destruct (src_ShouldBuild_loop1_eq unit fuel content fuel [] content 0 [] [])
    as [e' [p' [Hl [He' Hg]]]]; try reflexivity; try lia; [right; apply aligned_nil|].
  change 0%Z with (Z.of_nat 0). rewrite Hl. go_red2. go_unfold.
  change 0%Z with (Z.of_nat 0). rewrite slice_z_to by exact He'. go_red2.
  rewrite src_ShouldBuild_loop2_eq; try (rewrite firstn_length; lia). go_red2. cbn [andb].
  rewrite Hg, pass1_header. reflexivity.
Qed.

Theorem src_ShouldBuild_total fuel content tags : length content + 2 <= fuel ->
  src_ShouldBuild fuel content tags <> Panic /\ src_ShouldBuild fuel content tags <> OutOfFuel.
Proof. intros H. rewrite src_ShouldBuild_unicode by exact H. split; discriminate. Qed.

(* with every byte below 0xC9: Build.v's specification and model themselves *)
Lemma below_c9_sub x d : sub x d -> below_c9 d -> below_c9 x.
Proof. apply sub_Forall. Qed.

Theorem src_ShouldBuild_spec fuel content tags : below_c9 content -> length content + 2 <= fuel ->
  src_ShouldBuild fuel content tags = Ok (spec_should_build content tags).
Proof.
  intros Hlow Hf. rewrite src_ShouldBuild_unicode by exact Hf. f_equal.
  rewrite <- spec_should_build_g_model. apply spec_should_build_g_ext.
  intros x Hx. apply unicode_tag_chars_below_c9. now apply (below_c9_sub x content).
Qed.

Theorem src_ShouldBuild_eq fuel content tags : below_c9 content -> length content + 2 <= fuel ->
  src_ShouldBuild fuel content tags = opt_res (should_build content tags).
Proof. intros Hlow Hf. rewrite should_build_spec. now apply src_ShouldBuild_spec. Qed.

Theorem src_matchTag_model name tags want : below_c9 name ->
  src_matchTag name tags want = Ok (match_tag name tags want).
Proof.
  intros H. rewrite src_matchTag_eq. unfold match_tag_g, match_tag.
  now rewrite unicode_tag_chars_below_c9 by exact H.
Qed.

Theorem src_matchTags_model fuel name tags : below_c9 name -> length name + 1 <= fuel ->
  src_matchTags fuel name tags = Ok (match_tags name tags).
Proof.
  intros H Hf. rewrite src_matchTags_eq by exact Hf. f_equal.
  rewrite match_tags_spec, <- option_ok_g_model. apply option_ok_g_ext.
  intros x Hx. apply unicode_tag_chars_below_c9. now apply (below_c9_sub x name).
Qed.

(* ------------------------------------------------------------------ *)
(* MatchFile                                                           *)

Lemma take_until_cut c d :
  take_until c d = match index_byte c d with Some k => firstn k d | None => d end.
Proof.
  induction d as [|b r IH]; [reflexivity|]. cbn [take_until index_byte]. destruct (beq b c); [reflexivity|].
  rewrite IH. destruct (index_byte c r); reflexivity.
Qed.

Lemma from_first_cut c d :
  from_first c d = match index_byte c d with Some k => Some (skipn k d) | None => None end.
Proof.
  induction d as [|b r IH]; [reflexivity|]. cbn [from_first index_byte]. destruct (beq b c); [reflexivity|].
  rewrite IH. destruct (index_byte c r); reflexivity.
Qed.

(* on the names of the regenerated OS / architecture lists Go's tag test and the model's agree *)
Lemma src_matchTag_known tab x tags want :
  forallb unicode_tag_chars tab = true -> forallb tag_chars tab = true -> known tab x = true ->
  src_matchTag x tags want = Ok (match_tag x tags want).
Proof.
  intros Hu Hm Hk. rewrite src_matchTag_eq. unfold match_tag_g, match_tag.
  rewrite (known_tagchars tab x Hm Hk).
  unfold known in Hk. apply existsb_exists in Hk. destruct Hk as [y [Hin Heq]]. apply bytes_eqb_eq in Heq. subst y.
  rewrite forallb_forall in Hu. now rewrite (Hu x Hin).
Qed.

(* the decision on the last one or two segments [rl] (last first), once every index and
   length is expressed through the reversed list *)
Ltac finish_segments :=
  repeat (go_red; match goal with
    | |- Ok _ = Ok _ => reflexivity
    | K : known known_os ?x = true |- context [src_matchTag ?x ?t true] =>
        rewrite (src_matchTag_known known_os x t true known_os_unicode known_os_tagchars K)
    | K : known known_arch ?x = true |- context [src_matchTag ?x ?t true] =>
        rewrite (src_matchTag_known known_arch x t true known_arch_unicode known_arch_tagchars K)
    | |- context [known ?tab ?x] => destruct (known tab x) eqn:?
    | |- context [if match_tag ?x ?t true then _ else _] => destruct (match_tag x t true)
    end).

Theorem src_MatchFile_eq name tags : src_MatchFile name tags = Ok (match_file name tags).
Proof.
  unfold src_MatchFile, match_file. change [x2a] with star. destruct (tags star); [reflexivity|].
  (* name = name[:dot] *)
  match goal with |- bind ?m _ = _ => assert (Hm : m = Ok (take_until DOT name)) end.
  { unfold go_bytes_Index, go_slice, opt_pos. rewrite index_sub_byte, take_until_cut. change x2e with DOT.
    destruct (index_byte DOT name) as [k|] eqn:Ek; [|reflexivity].
    destruct (index_byte_Some _ _ _ Ek) as [Hk _].
    assert (E : negb (Z.of_nat k =? -1)%Z = true) by lia. rewrite E. go_red. now rewrite slice_z_to by lia. }
  rewrite Hm. clear Hm. go_red. generalize (take_until DOT name). clear name. intros nm.
  (* name = name[i:] *)
  unfold go_bytes_Index, go_slice, go_strings_Split, opt_pos. rewrite index_sub_byte, from_first_cut. change x5f with US.
  destruct (index_byte US nm) as [i|] eqn:Ei; [|reflexivity].
  destruct (index_byte_Some _ _ _ Ei) as [Hi _].
  assert (E : (Z.of_nat i <? 0)%Z = false) by lia. rewrite E. rewrite slice_z_from by lia. go_red2.
  generalize (split_on US (skipn i nm)). clear. intros l. change [x74; x65; x73; x74] with test_word.
  (* the trailing "test": everything through the reversed list *)
  rewrite len_of_pos_rev, go_index_of_last_rev, go_slice_of_init_rev.
  destruct (rev l) as [|x r] eqn:Er; go_red2.
  - rewrite len_of_ge2_rev, len_of_ge1_rev, go_index_of_last_rev, go_index_of_last2_rev, Er. go_red. reflexivity.
  - destruct (bytes_eqb x test_word); go_red2;
      rewrite len_of_ge2_rev, len_of_ge1_rev, go_index_of_last_rev, go_index_of_last2_rev, ?rev_involutive, ?Er.
    + destruct r as [|a [|o tl]]; finish_segments.
    + destruct r as [|o tl]; finish_segments.
Qed.

Theorem src_matchTag_both name tags want :
  src_matchTag name tags want = Ok (match_tag_g unicode_tag_chars name tags want)
  /\ (below_c9 name -> src_matchTag name tags want = Ok (match_tag name tags want)).
Proof. split; [apply src_matchTag_eq|apply src_matchTag_model]. Qed.

Theorem src_matchTags_both fuel name tags : length name + 1 <= fuel ->
  src_matchTags fuel name tags = Ok (option_ok_g unicode_tag_chars tags name)
  /\ (below_c9 name -> src_matchTags fuel name tags = Ok (match_tags name tags)).
Proof. intros H. split; [now apply src_matchTags_eq|intros Hl; now apply src_matchTags_model]. Qed.

Theorem src_MatchFile_spec name tags : src_MatchFile name tags = Ok false <-> rejected name tags.
Proof.
  rewrite src_MatchFile_eq, <- match_file_spec. split; [intros [= H]; exact H|intros ->; reflexivity].
Qed.

Theorem src_MatchFile_total name tags : exists b, src_MatchFile name tags = Ok b.
Proof. rewrite src_MatchFile_eq. now eexists. Qed.

(* tags["*"]: MatchFile accepts every name; ShouldBuild rejects only through the tag "ignore" *)
Theorem src_star tags : tags star = true ->
  (forall name, src_MatchFile name tags = Ok true) /\
  (forall fuel content, below_c9 content -> length content + 2 <= fuel ->
     src_ShouldBuild fuel content tags =
     Ok (forallb (fun l => match build_options l with
                           | Some opts => existsb (fun o => forallb (star_term_ok tags) (split_on COMMA o)) opts
                           | None => true
                           end) (header content))).
Proof.
  intros Hs. destruct (star_accepts_all_but_ignore tags Hs) as [H1 H2]. split.
  - intros name. now rewrite src_MatchFile_eq, H1.
  - intros fuel content Hlow Hf. rewrite src_ShouldBuild_eq by assumption. now rewrite H2.
Qed.

(* ------------------------------------------------------------------ *)
(* Examples: the hypotheses are satisfiable, the bounds are needed, the failure values of
   the translation are real, and the two tag tests do differ above U+0250 *)

Definition ex_src : bytes :=
  [x2f;x2f;x20;x2b;x62;x75;x69;x6c;x64;x20;x6c;x69;x6e;x75;x78;x2c;x21;x66;x6f;x6f;x20;x62;x61;x72;
   x0a;x0a;x70;x61;x63;x6b;x61;x67;x65;x20;x78].

Example ex_src_should_build :
  below_c9 ex_src /\ length ex_src + 2 <= 40
  /\ src_ShouldBuild 40 ex_src (ex_tags [linux]) = Ok true
  /\ src_ShouldBuild 40 ex_src (ex_tags [android]) = Ok true
  /\ src_ShouldBuild 40 ex_src (ex_tags []) = Ok false
  /\ src_ShouldBuild 40 ex_src (ex_tags [star]) = Ok true.
Proof.
  split; [unfold ex_src; repeat (apply Forall_cons; [reflexivity|]); apply Forall_nil|].
  vm_compute. repeat split; try reflexivity; lia.
Qed.

Example ex_src_fuel_needed :
  src_ShouldBuild 2 ex_src (ex_tags []) = OutOfFuel /\ src_matchTags 0 [x61] (ex_tags []) = OutOfFuel
  /\ src_matchTags 2 [x61; x2c; x62; x2c; x63] (ex_tags []) = OutOfFuel
  /\ src_matchTags 3 [x61; x2c; x62; x2c; x63] (ex_tags [[x61]; [x62]; [x63]]) = Ok true.
Proof. vm_compute. repeat split; reflexivity. Qed.

Example ex_src_match_file :
  src_MatchFile [x78;x5f;x6c;x69;x6e;x75;x78;x2e;x67;x6f] (ex_tags [android]) = Ok true
  /\ src_MatchFile [x78;x5f;x6c;x69;x6e;x75;x78;x5f;x61;x72;x6d;x5f;x74;x65;x73;x74;x2e;x67;x6f] (ex_tags [linux]) = Ok false.
Proof. vm_compute. split; reflexivity. Qed.

(* U+03B1 (Greek alpha) is a letter for Go and unknown to Build.v's table: the hypothesis
   [below_c9] of the _model theorems is needed, and it fails here *)
Example ex_src_unicode :
  src_matchTag [xce; xb1] (ex_tags [[xce; xb1]]) true = Ok true
  /\ match_tag [xce; xb1] (ex_tags [[xce; xb1]]) true = false
  /\ ~ below_c9 [xce; xb1].
Proof.
  split; [vm_compute; reflexivity|]. split; [vm_compute; reflexivity|].
  intros H. inversion H as [|? ? Hb _]. vm_compute in Hb. discriminate.
Qed.

(* the checked expressions of the translation do fail when misused *)
Example ex_src_checked :
  @go_index_of bytes [] 0 = Panic /\ go_slice_of [[x61]] 1 3 = Panic /\ go_slice_of [[x61]] 2 1 = Panic
  /\ go_strings_Split [x61] [] = Panic /\ go_strings_Split [x61] [x61; x62] = Panic
  /\ go_strings_Split [x61; x5f; x62] [x5f] = Ok [[x61]; [x62]].
Proof. vm_compute. repeat split; reflexivity. Qed.

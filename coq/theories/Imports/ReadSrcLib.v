(* The struct type of imports/read.go for the translation Gen/ImportsReadSrc.v (table:
   harness/cmd/genconsts/gen_imports_read_src.go).  Definitions only.

   type importReader struct { b *bufio.Reader; buf []byte; peek byte; err error; eof bool; nerr int }

   The bufio.Reader is the list of the bytes not yet read (Lib.GoSemIO.v); the error is
   a [goerr]. *)
From Coq Require Import List ZArith.
From Coq.Strings Require Import Byte.
From GI Require Import Lib.Bytes Lib.GoSem Lib.GoSemIO.
Import ListNotations.

Record ireader : Type := mk_ireader {
  ir_b : bytes;
  ir_buf : bytes;
  ir_peek : byte;
  ir_err : goerr;
  ir_eof : bool;
  ir_nerr : Z
}.

(* The byte-pattern tables behind bytes.TrimSpace / strings.Fields in the models (Lib/Bytes.v
   [space_prefix], [space_suffix_rev']) against a rune-level reading: the
   white-space runes are the 25 code points of Unicode's White_Space property (what
   unicode.IsSpace accepts), a string is trimmed of / split at their UTF-8 encodings.
   The byte-pattern tables of the models are shown to recognise exactly these encodings,
   from the front and from the back. *)
From Coq Require Import List Bool Arith NArith Lia.
From Coq.Strings Require Import Byte.
From GI Require Import Lib.Bytes Lib.BytesFacts.
Import ListNotations.

(* unicode.IsSpace: U+0009..U+000D, U+0020, U+0085, U+00A0, U+1680, U+2000..U+200A, U+2028,
   U+2029, U+202F, U+205F, U+3000 *)
Definition space_runes : list N :=
  [9; 10; 11; 12; 13; 32; 133; 160; 5760; 8192; 8193; 8194; 8195; 8196; 8197; 8198; 8199; 8200;
   8201; 8202; 8232; 8233; 8239; 8287; 12288]%N.
Definition is_space_rune (r : N) : bool := existsb (N.eqb r) space_runes.

(* utf8.AppendRune (for runes below U+10000, which is all that is needed here; this file
   deliberately depends on Lib only, so that it is not recompiled when constants change) *)
Definition byte_of_code (n : N) : byte := match Byte.of_N n with Some b => b | None => x00 end.
Definition utf8_enc (v : N) : bytes :=
  (if N.ltb v 128 then [byte_of_code v]
   else if N.ltb v 2048 then [byte_of_code (192 + v / 64); byte_of_code (128 + v mod 64)]
   else [byte_of_code (224 + v / 4096); byte_of_code (128 + (v / 64) mod 64); byte_of_code (128 + v mod 64)])%N.

(* [d] starts with the encoding of a white-space rune, [n] bytes long *)
Definition space_at_front (d : bytes) (n : nat) : Prop :=
  exists r, is_space_rune r = true /\ has_prefix (utf8_enc r) d = true /\ length (utf8_enc r) = n.
(* [q] (a reversed string) starts with the reversed encoding: the string ends with the encoding *)
Definition space_at_back (q : bytes) (n : nat) : Prop :=
  exists r, is_space_rune r = true /\ has_prefix (rev (utf8_enc r)) q = true /\ length (utf8_enc r) = n.

Ltac try_runes P l :=
  match l with
  | ?r :: ?l' => first [ exists r; split; [reflexivity | split; reflexivity] | try_runes P l' ]
  end.
Ltac witness := let l := eval unfold space_runes in space_runes in try_runes tt l.

(* evaluate the table on the bytes known so far: a numeral decides the case, a stuck match
   asks for one more byte *)
Ltac table_go f :=
  first [ left; reflexivity | match goal with
  | |- (f ?q = 0 \/ _) =>
      let v := eval cbv in (f q) in
      lazymatch v with
      | O => left; reflexivity
      | S _ => right; witness
      | _ =>
          match q with
          | _ :: ?r => is_var r; destruct r as [|?c r]; [left; reflexivity | destruct c; table_go f]
          | _ :: _ :: ?r => is_var r; destruct r as [|?c r]; [left; reflexivity | destruct c; table_go f]
          end
      end
  end ].

Lemma space_prefix_cases d :
  space_prefix d = 0 \/ space_at_front d (space_prefix d).
Proof.
  unfold space_at_front. destruct d as [|b r]; [left; reflexivity|]. destruct b; table_go space_prefix.
Qed.

Lemma is_space_rune_In r : is_space_rune r = true -> In r space_runes.
Proof.
  unfold is_space_rune. intros H. apply existsb_exists in H. destruct H as [x [Hin Heq]].
  apply N.eqb_eq in Heq. now subst x.
Qed.

Lemma space_front_prefix d n : space_at_front d n -> space_prefix d = n /\ n <> 0.
Proof.
  intros [r [Hr [Hp Hn]]]. apply is_space_rune_In in Hr. apply has_prefix_iff in Hp. destruct Hp as [x ->].
  subst n. unfold space_runes in Hr. cbn [In] in Hr.
  repeat (destruct Hr as [<-|Hr]; [split; [reflexivity|discriminate]|]). contradiction.
Qed.

(* the front table: exactly the encodings of the white-space runes *)
Theorem space_prefix_spec d n : space_at_front d n <-> (space_prefix d = n /\ n <> 0).
Proof.
  split; [apply space_front_prefix|]. intros [<- Hn].
  destruct (space_prefix_cases d) as [H|H]; [contradiction|exact H].
Qed.


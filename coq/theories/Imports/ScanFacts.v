(* Proofs about the model of imports/scan.go (Scan.v). *)
From Coq Require Import List Bool Arith NArith Lia Sorting.Sorted.
From Coq.Strings Require Import Byte.
From GI Require Import Lib.Bytes Lib.BytesFacts Gen.ImportsConsts Imports.Build Imports.BuildFacts
  Imports.Read Imports.ReadFacts Imports.ReadGrammar Imports.ReadComplete Imports.Scan.
Import ListNotations.

(* ------------------------------------------------------------------ *)
(* the byte-wise order of strings                                      *)

Lemma bN_inj a b : bN a = bN b -> a = b.
Proof.
  unfold bN. intros H. pose proof (Byte.of_to_N a) as Ha. pose proof (Byte.of_to_N b) as Hb.
  rewrite H in Ha. rewrite Ha in Hb. now injection Hb.
Qed.

Lemma bytes_ltb_irrefl a : bytes_ltb a a = false.
Proof.
  induction a as [|x a IH]; [reflexivity|]. cbn [bytes_ltb].
  rewrite N.ltb_irrefl, N.eqb_refl, IH. reflexivity.
Qed.

Lemma bytes_ltb_trans a : forall b c, bytes_ltb a b = true -> bytes_ltb b c = true -> bytes_ltb a c = true.
Proof.
  induction a as [|x a IH]; intros [|y b] [|z c]; cbn [bytes_ltb]; try discriminate; try reflexivity.
  intros H1 H2. apply orb_true_iff in H1. apply orb_true_iff in H2. apply orb_true_iff.
  destruct H1 as [H1|H1], H2 as [H2|H2].
  - left. apply N.ltb_lt in H1, H2. apply N.ltb_lt. lia.
  - apply andb_true_iff in H2. destruct H2 as [E _]. apply N.eqb_eq in E. left. now rewrite <- E.
  - apply andb_true_iff in H1. destruct H1 as [E _]. apply N.eqb_eq in E. left. now rewrite E.
  - apply andb_true_iff in H1. apply andb_true_iff in H2. destruct H1 as [E1 L1], H2 as [E2 L2].
    right. apply N.eqb_eq in E1, E2. rewrite E1, E2, N.eqb_refl. cbn [andb]. now apply (IH b c).
Qed.

(* trichotomy, in the form set_add uses it *)
Lemma bytes_ltb_total a : forall b, bytes_eqb a b = false -> bytes_ltb a b = false -> bytes_ltb b a = true.
Proof.
  induction a as [|x a IH]; intros [|y b]; cbn [bytes_eqb bytes_ltb]; try discriminate; try reflexivity.
  intros He Hl. apply orb_false_iff in Hl. destruct Hl as [L1 L2].
  apply N.ltb_ge in L1. destruct (N.eqb (bN x) (bN y)) eqn:E.
  - apply N.eqb_eq in E. pose proof (bN_inj _ _ E) as ->. rewrite beq_refl in He. cbn [andb] in *.
    rewrite N.ltb_irrefl, N.eqb_refl. cbn [orb andb]. now apply IH.
  - apply N.eqb_neq in E. apply orb_true_iff. left. apply N.ltb_lt. lia.
Qed.

Definition bytes_lt (a b : bytes) : Prop := bytes_ltb a b = true.

(* ------------------------------------------------------------------ *)
(* sorted sets                                                         *)

Lemma set_add_In x l : forall y, In y (set_add x l) <-> y = x \/ In y l.
Proof.
  induction l as [|z l IH]; intros y; cbn [set_add].
  - cbn. intuition.
  - destruct (bytes_eqb x z) eqn:E.
    + apply bytes_eqb_eq in E. subst z. cbn. intuition.
    + destruct (bytes_ltb x z); cbn [In]; [intuition|]. rewrite IH. intuition.
Qed.

Lemma set_add_sorted x l : StronglySorted bytes_lt l -> StronglySorted bytes_lt (set_add x l).
Proof.
  induction l as [|z l IH]; intros Hs; cbn [set_add].
  - repeat constructor.
  - inversion Hs as [|? ? Hs' Hz]; subst. destruct (bytes_eqb x z) eqn:E; [exact Hs|].
    destruct (bytes_ltb x z) eqn:L.
    + constructor; [exact Hs|]. constructor; [exact L|].
      rewrite Forall_forall in *. intros w Hw. apply (bytes_ltb_trans x z w L). now apply Hz.
    + constructor; [now apply IH|]. rewrite Forall_forall in *. intros w Hw.
      apply set_add_In in Hw. destruct Hw as [->|Hw]; [|now apply Hz].
      now apply bytes_ltb_total.
Qed.

Definition set_of (l : list bytes) : list bytes := set_add_all l [].

Lemma set_add_all_In xs : forall l y, In y (set_add_all xs l) <-> In y xs \/ In y l.
Proof.
  unfold set_add_all. induction xs as [|x xs IH]; intros l y; cbn [fold_left].
  - cbn. intuition.
  - rewrite IH, set_add_In. cbn [In]. intuition.
Qed.

Lemma set_add_all_sorted xs : forall l, StronglySorted bytes_lt l -> StronglySorted bytes_lt (set_add_all xs l).
Proof.
  unfold set_add_all. induction xs as [|x xs IH]; intros l Hs; cbn [fold_left]; [exact Hs|].
  apply IH. now apply set_add_sorted.
Qed.

Lemma set_add_all_app xs ys l : set_add_all ys (set_add_all xs l) = set_add_all (xs ++ ys) l.
Proof. unfold set_add_all. now rewrite fold_left_app. Qed.

(* keys(m) after sort.Strings: strictly increasing (hence duplicate-free), the same elements *)
Theorem set_of_spec l :
  StronglySorted bytes_lt (set_of l) /\ (forall y, In y (set_of l) <-> In y l).
Proof.
  split; [apply set_add_all_sorted; constructor|].
  intros y. unfold set_of. rewrite set_add_all_In. cbn. intuition.
Qed.

(* ------------------------------------------------------------------ *)
(* one file at a time                                                  *)

Inductive verdict :=
| VPanic
| VReadErr
| VSkip
| VTake (test : bool) (paths : list bytes).

Definition needs_cgo (lits : list bytes) : bool := existsb (fun p => bytes_eqb p quoted_c) lits.

Definition file_verdict (tags : tagset) (explicit : bool) (f : entry) : verdict :=
  match read_imports false (e_data f) with
  | RPanic | RFuel => VPanic
  | ROk lits data e =>
      match e with
      | ENone =>
          if needs_cgo lits && negb (tags cgo_tag) && negb (tags star) then VSkip
          else match (if explicit then Some true else should_build data tags) with
               | None => VPanic
               | Some false => VSkip
               | Some true => VTake (has_suffix test_go_suffix (e_name f)) (unquoted lits)
               end
      | _ => VReadErr
      end
  end.

Lemma scan_loop_step tags explicit f rest imps tests num :
  scan_loop tags explicit (f :: rest) imps tests num =
  match file_verdict tags explicit f with
  | VPanic => SPanic
  | VReadErr => SErrRead
  | VSkip => scan_loop tags explicit rest imps tests num
  | VTake true ps => scan_loop tags explicit rest imps (set_add_all ps tests) (S num)
  | VTake false ps => scan_loop tags explicit rest (set_add_all ps imps) tests (S num)
  end.
Proof.
  cbn [scan_loop]. unfold file_verdict, needs_cgo.
  destruct (read_imports false (e_data f)) as [lits data e| |]; try reflexivity.
  destruct e; try reflexivity.
  destruct (existsb _ lits && negb (tags cgo_tag) && negb (tags star)); [reflexivity|].
  destruct (if explicit then Some true else should_build data tags) as [[|]|]; try reflexivity;
    try (destruct (has_suffix test_go_suffix (e_name f)); reflexivity).
Qed.

Lemma file_verdict_no_panic tags explicit f : file_verdict tags explicit f <> VPanic.
Proof.
  unfold file_verdict. destruct (read_total false (e_data f)) as [lits [data [e ->]]].
  destruct e; try discriminate.
  destruct (needs_cgo lits && negb (tags cgo_tag) && negb (tags star)); [discriminate|].
  destruct explicit; [discriminate|]. rewrite should_build_spec.
  destruct (spec_should_build data tags); discriminate.
Qed.

(* scan_total: neither ScanDir nor ScanFiles can panic (or run out of model fuel) *)
Lemma scan_loop_total tags explicit files : forall imps tests num,
  scan_loop tags explicit files imps tests num <> SPanic.
Proof.
  induction files as [|f rest IH]; intros imps tests num.
  - cbn. destruct num; discriminate.
  - rewrite scan_loop_step. pose proof (file_verdict_no_panic tags explicit f) as Hv.
    destruct (file_verdict tags explicit f) as [| | |[|] ps]; try discriminate; try apply IH. contradiction.
Qed.

Theorem scan_total tags entries : scan_dir tags entries <> SPanic /\ scan_files tags entries <> SPanic.
Proof. split; apply scan_loop_total. Qed.

(* ------------------------------------------------------------------ *)
(* frame: what is not selected contributes nothing                     *)

Lemma scan_loop_skip tags explicit f l2 : file_verdict tags explicit f = VSkip ->
  forall l1 imps tests num,
  scan_loop tags explicit (l1 ++ f :: l2) imps tests num = scan_loop tags explicit (l1 ++ l2) imps tests num.
Proof.
  intros Hv. induction l1 as [|x l1 IH]; intros imps tests num; cbn [app].
  - now rewrite scan_loop_step, Hv.
  - rewrite !scan_loop_step. destruct (file_verdict tags explicit x) as [| | |[|] ps]; try reflexivity; apply IH.
Qed.

(* a file that ReadImports reads without error and that import "C" or the +build lines
   exclude may be removed from (or added to) the list without changing the result *)
Theorem scan_frame_files tags explicit f lits data l1 l2 imps tests num :
  read_imports false (e_data f) = ROk lits data ENone ->
  (needs_cgo lits && negb (tags cgo_tag) && negb (tags star) = true
   \/ (explicit = false /\ should_build data tags = Some false)) ->
  scan_loop tags explicit (l1 ++ f :: l2) imps tests num = scan_loop tags explicit (l1 ++ l2) imps tests num.
Proof.
  intros Hr Hc. apply scan_loop_skip. unfold file_verdict. rewrite Hr.
  destruct Hc as [Hc|[-> Hc]]; [now rewrite Hc|].
  destruct (needs_cgo lits && negb (tags cgo_tag) && negb (tags star)); [reflexivity|now rewrite Hc].
Qed.

(* a directory entry that ScanDir does not consider (not regular, "_" prefix, no ".go"
   suffix, rejected by MatchFile) contributes nothing, whatever it contains *)
Theorem scan_frame_dir tags f l1 l2 : considered tags f = false ->
  scan_dir tags (l1 ++ f :: l2) = scan_dir tags (l1 ++ l2).
Proof. intros H. unfold scan_dir. rewrite !filter_app. cbn [filter]. now rewrite H. Qed.

(* ------------------------------------------------------------------ *)
(* a byte-order mark does not change anything                          *)

Lemma read_imports_bom report d : has_prefix bom d = false ->
  read_imports report (bom ++ d) = read_imports report d.
Proof.
  intros H. unfold read_imports.
  assert (E : strip_bom (bom ++ d) = strip_bom d).
  { unfold strip_bom. rewrite has_prefix_app, H. apply skipn_length_app. }
  now rewrite E.
Qed.

Definition with_bom (f : entry) : entry := mkentry (e_name f) (e_regular f) (bom ++ e_data f).

Lemma file_verdict_bom tags explicit f : has_prefix bom (e_data f) = false ->
  file_verdict tags explicit (with_bom f) = file_verdict tags explicit f.
Proof. intros H. unfold file_verdict, with_bom. cbn [e_data e_name]. now rewrite read_imports_bom. Qed.

Lemma scan_loop_bom tags explicit f l2 : has_prefix bom (e_data f) = false ->
  forall l1 imps tests num,
  scan_loop tags explicit (l1 ++ with_bom f :: l2) imps tests num
  = scan_loop tags explicit (l1 ++ f :: l2) imps tests num.
Proof.
  intros H. induction l1 as [|x l1 IH]; intros imps tests num; cbn [app].
  - now rewrite !scan_loop_step, file_verdict_bom.
  - rewrite !scan_loop_step. destruct (file_verdict tags explicit x) as [| | |[|] ps]; try reflexivity; apply IH.
Qed.

Theorem scan_bom tags f l1 l2 : has_prefix bom (e_data f) = false ->
  scan_dir tags (l1 ++ with_bom f :: l2) = scan_dir tags (l1 ++ f :: l2)
  /\ scan_files tags (l1 ++ with_bom f :: l2) = scan_files tags (l1 ++ f :: l2).
Proof.
  intros H. split; [|now apply scan_loop_bom].
  unfold scan_dir. rewrite !filter_app. cbn [filter].
  change (considered tags (with_bom f)) with (considered tags f).
  destruct (considered tags f); [now apply scan_loop_bom|reflexivity].
Qed.

(* ------------------------------------------------------------------ *)
(* completeness on directories of G-files                              *)

(* a file whose content is an import section of the grammar G followed by [g_rest] *)
Record gfile := mkgfile { g_entry : entry; g_sec : isection; g_rest : bytes }.
Definition gfile_ok (x : gfile) : Prop :=
  e_data (g_entry x) = render (g_sec x) ++ g_rest x /\ wf_section (g_sec x) (g_rest x) = true.

(* the files that count: import "C" needs the cgo tag (or "*"); unless the files were named
   explicitly, the +build lines of the returned prefix must be satisfied *)
Definition selected (tags : tagset) (explicit : bool) (x : gfile) : bool :=
  negb (needs_cgo (paths (g_sec x)) && negb (tags cgo_tag) && negb (tags star))
  && (explicit || spec_should_build (render_body (g_sec x)) tags).
Definition is_test (x : gfile) : bool := has_suffix test_go_suffix (e_name (g_entry x)).
Definition imports_of (x : gfile) : list bytes := unquoted (paths (g_sec x)).

Definition spec_scan (tags : tagset) (explicit : bool) (gs : list gfile) : scan_result :=
  let sel := filter (selected tags explicit) gs in
  match sel with
  | [] => SErrNoGo
  | _ => SOk (set_of (flat_map imports_of (filter (fun x => negb (is_test x)) sel)))
             (set_of (flat_map imports_of (filter is_test sel)))
  end.

Lemma gfile_verdict tags explicit x : gfile_ok x ->
  file_verdict tags explicit (g_entry x) =
  if selected tags explicit x then VTake (is_test x) (imports_of x) else VSkip.
Proof.
  intros [Hd Hw]. unfold file_verdict, selected, is_test, imports_of.
  rewrite Hd, (read_imports_complete false _ _ Hw).
  destruct (needs_cgo (paths (g_sec x)) && negb (tags cgo_tag) && negb (tags star)); [reflexivity|].
  cbn [negb andb]. destruct explicit; [reflexivity|]. rewrite should_build_spec. cbn [orb].
  destruct (spec_should_build (render_body (g_sec x)) tags); reflexivity.
Qed.

Lemma scan_loop_gfiles tags explicit gs : Forall gfile_ok gs -> forall imps tests num,
  scan_loop tags explicit (map g_entry gs) imps tests num =
  let sel := filter (selected tags explicit) gs in
  match num + length sel with
  | 0 => SErrNoGo
  | _ => SOk (set_add_all (flat_map imports_of (filter (fun x => negb (is_test x)) sel)) imps)
             (set_add_all (flat_map imports_of (filter is_test sel)) tests)
  end.
Proof.
  intros Hok. induction Hok as [|x gs Hx _ IH]; intros imps tests num.
  - cbn. rewrite Nat.add_0_r. destruct num; reflexivity.
  - cbn [map]. rewrite scan_loop_step, (gfile_verdict tags explicit x Hx). cbv zeta in *.
    cbn [filter]. destruct (selected tags explicit x).
    + cbn [length]. rewrite Nat.add_succ_r. cbn [filter]. destruct (is_test x) eqn:Et; cbn [negb].
      * rewrite IH. cbn [plus]. cbn [flat_map]. now rewrite set_add_all_app.
      * rewrite IH. cbn [plus]. cbn [flat_map]. now rewrite set_add_all_app.
    + apply IH.
Qed.

Lemma spec_scan_eq tags explicit gs : Forall gfile_ok gs ->
  scan_loop tags explicit (map g_entry gs) [] [] 0 = spec_scan tags explicit gs.
Proof.
  intros Hok. rewrite (scan_loop_gfiles tags explicit gs Hok). cbv zeta. unfold spec_scan, set_of.
  cbn [plus]. destruct (filter (selected tags explicit) gs); reflexivity.
Qed.

(* scan_complete.  For a directory whose considered entries are G-files, ScanDir returns
   exactly: ErrNoGo when no file is selected, otherwise the sorted sets (set_of_spec) of the
   unquoted import paths of the selected files, those of *_test.go files apart. *)
Theorem scan_dir_complete tags entries gs :
  filter (considered tags) entries = map g_entry gs -> Forall gfile_ok gs ->
  scan_dir tags entries = spec_scan tags false gs.
Proof. intros Hf Hok. unfold scan_dir. rewrite Hf. now apply spec_scan_eq. Qed.

Theorem scan_files_complete tags gs : Forall gfile_ok gs ->
  scan_files tags (map g_entry gs) = spec_scan tags true gs.
Proof. intros Hok. unfold scan_files. now apply spec_scan_eq. Qed.

(* ------------------------------------------------------------------ *)
(* which directory entries ScanDir looks at                            *)

Theorem considered_spec tags f :
  considered tags f = true <->
  e_regular f = true /\ has_prefix skip_prefix (e_name f) = false
  /\ has_suffix go_suffix (e_name f) = true /\ ~ rejected (e_name f) tags.
Proof.
  unfold considered. rewrite !andb_true_iff, negb_true_iff.
  assert (H : match_file (e_name f) tags = true <-> ~ rejected (e_name f) tags).
  { rewrite <- match_file_spec. destruct (match_file (e_name f) tags); split; intros; congruence. }
  rewrite H. tauto.
Qed.

(* ------------------------------------------------------------------ *)
(* Examples                                                            *)

Definition ex_gfile : gfile :=
  mkgfile (mkentry [x61; x5f; x74; x65; x73; x74; x2e; x67; x6f] true (render ex_section ++ [x66; x75; x6e; x63]))
          ex_section [x66; x75; x6e; x63].

Example ex_gfile_ok : gfile_ok ex_gfile.
Proof. split; [reflexivity|exact ex_section_wf]. Qed.

(* a_test.go with the example section: three paths, unquoted and sorted, as test imports *)
Example ex_scan :
  scan_dir (fun _ => false) [g_entry ex_gfile]
  = SOk [] [[x61; x2f; x62]; [x63]; [x66; x22; x6d]].
Proof. vm_compute. reflexivity. Qed.

Example ex_unquote :
  unquote [x22; x61; x5c; x78; x34; x31; x5c; x75; x30; x30; x65; x39; x5c; x31; x30; x31; x22]
  = Some [x61; x41; xc3; xa9; x41]
  /\ unquote [x22; x61; x5c; x71; x22] = None
  /\ unquote [x60; x61; x0d; x62; x60] = Some [x61; x62].
Proof. vm_compute. repeat split. Qed.

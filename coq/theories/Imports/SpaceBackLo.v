(* The back table (space_suffix_rev') recognises only encodings of white-space runes: the
   case analysis over the last byte, lower half (split in two files so that they compile in
   parallel; each is a plain enumeration of byte cases). *)
From Coq Require Import List Bool Arith NArith Lia.
From Coq.Strings Require Import Byte.
From GI Require Import Lib.Bytes Lib.BytesFacts Imports.SpaceDefs.
Import ListNotations.

Lemma space_suffix_cases_lo b r : N.ltb (bN b) 128 = true ->
  space_suffix_rev' (b :: r) = 0 \/ space_at_back (b :: r) (space_suffix_rev' (b :: r)).
Proof.
  unfold space_at_back. destruct b; intros H; first [discriminate H | table_go space_suffix_rev'].
Qed.

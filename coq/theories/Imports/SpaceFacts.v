(* bytes.TrimSpace / strings.Fields of the models at rune level, on top of the table facts of
   SpaceTables.v. *)
From Coq Require Import List Bool Arith NArith Lia.
From Coq.Strings Require Import Byte.
From GI Require Import Lib.Bytes Lib.BytesFacts Imports.Build Imports.SpaceTables.
Import ListNotations.

(* ------------------------------------------------------------------ *)
(* bytes.TrimSpace at rune level                                       *)

(* a concatenation of encodings of white-space runes *)
Definition spaces_only (x : bytes) : Prop :=
  exists rs, Forall (fun r => is_space_rune r = true) rs /\ x = concat (map utf8_enc rs).

Lemma spaces_only_nil : spaces_only [].
Proof. exists []. split; [constructor|reflexivity]. Qed.

Lemma spaces_only_cons r x : is_space_rune r = true -> spaces_only x -> spaces_only (utf8_enc r ++ x).
Proof. intros Hr [rs [H ->]]. exists (r :: rs). split; [now constructor|reflexivity]. Qed.

Lemma spaces_only_snoc r x : is_space_rune r = true -> spaces_only x -> spaces_only (x ++ utf8_enc r).
Proof.
  intros Hr [rs [H ->]]. exists (rs ++ [r]). split.
  - apply Forall_app. split; [exact H|now repeat constructor].
  - rewrite map_app, concat_app. cbn. now rewrite app_nil_r.
Qed.

Lemma trim_left_fuel_spaces f : forall d, exists l, spaces_only l /\ d = l ++ trim_left_fuel f d.
Proof.
  induction f as [|f IH]; intros d; cbn [trim_left_fuel].
  - exists []. split; [apply spaces_only_nil|reflexivity].
  - destruct (space_prefix d) as [|n] eqn:E.
    + exists []. split; [apply spaces_only_nil|reflexivity].
    + assert (Hf : space_at_front d (S n)) by (apply space_prefix_spec; split; [exact E|discriminate]).
      destruct Hf as [r [Hr [Hp Hn]]]. apply has_prefix_iff in Hp. destruct Hp as [x ->].
      rewrite <- Hn, skipn_length_app. destruct (IH x) as [l [Hl Hx]].
      exists (utf8_enc r ++ l). split; [now apply spaces_only_cons|]. rewrite <- app_assoc. now rewrite <- Hx.
Qed.

Lemma trim_right_rev_fuel_spaces f : forall q, exists t, spaces_only t /\ q = rev t ++ trim_right_rev_fuel f q.
Proof.
  induction f as [|f IH]; intros q; cbn [trim_right_rev_fuel].
  - exists []. split; [apply spaces_only_nil|reflexivity].
  - destruct (space_suffix_rev' q) as [|n] eqn:E.
    + exists []. split; [apply spaces_only_nil|reflexivity].
    + assert (Hb : space_at_back q (S n)) by (apply space_suffix_spec; split; [exact E|discriminate]).
      destruct Hb as [r [Hr [Hp Hn]]]. apply has_prefix_iff in Hp. destruct Hp as [x ->].
      rewrite <- Hn, <- (rev_length (utf8_enc r)), skipn_length_app. destruct (IH x) as [t [Ht Hx]].
      exists (t ++ utf8_enc r). split; [now apply spaces_only_snoc|].
      rewrite rev_app_distr, <- app_assoc. now rewrite <- Hx.
Qed.

(* TrimSpace removes a run of white-space runes at each end, and what is left neither starts
   nor ends with (the encoding of) a white-space rune *)
Theorem trim_space_spec d :
  exists l t, d = l ++ trim_space d ++ t /\ spaces_only l /\ spaces_only t
              /\ (forall n, ~ space_at_front (trim_space d) n)
              /\ (forall n, ~ space_at_back (rev (trim_space d)) n).
Proof.
  unfold trim_space.
  destruct (trim_left_fuel_spaces (length d) d) as [l [Hl Hd]]. fold (trim_left d) in Hd.
  set (x := trim_left d) in *.
  destruct (trim_right_rev_fuel_spaces (length x) (rev x)) as [t [Ht Hx]].
  assert (Hx' : x = trim_right x ++ t).
  { unfold trim_right. rewrite <- (rev_involutive x) at 1. rewrite Hx at 1.
    now rewrite rev_app_distr, rev_involutive. }
  exists l, t. split; [now rewrite <- Hx'|]. split; [exact Hl|]. split; [exact Ht|]. split.
  - intros n Hn. apply space_prefix_spec in Hn. destruct Hn as [Hn Hz].
    pose proof (trim_left_zero d) as Hz0. fold x in Hz0. rewrite Hx' in Hz0.
    apply space_prefix_prefix_zero in Hz0. congruence.
  - intros n Hn. apply space_suffix_spec in Hn. destruct Hn as [Hn Hz].
    pose proof (trim_right_zero x). congruence.
Qed.

(* ------------------------------------------------------------------ *)
(* strings.Fields at rune level                                        *)

(* no white-space rune starts at any position of [f] (read in front of [rest]) *)
Definition space_free_in (f rest : bytes) : Prop :=
  forall a b, f = a ++ b -> b <> [] -> forall n, ~ space_at_front (b ++ rest) n.

(* [fsplit d fs]: d is white-space runes and the maximal white-space-free runs fs, in order *)
Inductive fsplit : bytes -> list bytes -> Prop :=
| fsp_nil : fsplit [] []
| fsp_space r d fs : is_space_rune r = true -> fsplit d fs -> fsplit (utf8_enc r ++ d) fs
| fsp_field f d fs : f <> [] -> space_free_in f d -> (d = [] \/ exists n, space_at_front d n) ->
                     fsplit d fs -> fsplit (f ++ d) (f :: fs).

Lemma fields_go_skip k : forall d, fields_go d [] k = fields_go (skipn k d) [] 0.
Proof.
  induction k as [|k IH]; intros d; [reflexivity|]. destruct d as [|b r]; [reflexivity|].
  cbn [fields_go skipn]. apply IH.
Qed.

Lemma no_space_front d : space_prefix d = 0 -> forall n, ~ space_at_front d n.
Proof. intros H n Hn. apply space_prefix_spec in Hn. destruct Hn. congruence. Qed.

(* inside a field: it runs up to the next white-space rune or the end *)
Lemma fields_go_in_field d : forall cur, cur <> [] ->
  exists f' d', d = f' ++ d' /\ space_free_in f' d' /\ (d' = [] \/ exists n, space_at_front d' n)
               /\ fields_go d cur 0 = (rev cur ++ f') :: fields_go d' [] 0.
Proof.
  induction d as [|b r IH]; intros cur Hc.
  - exists [], []. split; [reflexivity|]. split; [|split; [now left|]].
    + intros a b0 E Hb. destruct a; destruct b0; try discriminate. now elim Hb.
    + cbn [fields_go]. destruct cur; [contradiction|]. cbn [flush_field]. now rewrite app_nil_r.
  - cbn [fields_go]. destruct (space_prefix (b :: r)) as [|n] eqn:E.
    + destruct (IH (b :: cur)) as [f' [d' [Hr [Hfree [Hend Hres]]]]]; [discriminate|].
      exists (b :: f'), d'. split; [cbn; now rewrite Hr|]. split; [|split; [exact Hend|]].
      * intros a b0 Eab Hb. destruct a as [|x a]; cbn [app] in Eab.
        -- subst b0. cbn [app]. rewrite <- Hr. now apply no_space_front.
        -- injection Eab as _ Eab. now apply (Hfree a b0).
      * rewrite Hres. cbn [rev]. now rewrite <- app_assoc.
    + exists [], (b :: r). split; [reflexivity|]. split; [|split].
      * intros a b0 Eab Hb. destruct a; destruct b0; try discriminate. now elim Hb.
      * right. exists (S n). apply space_prefix_spec. split; [exact E|discriminate].
      * destruct cur; [contradiction|]. cbn [flush_field app]. rewrite app_nil_r. f_equal.
        cbn [fields_go]. rewrite E. reflexivity.
Qed.

Lemma fields_go_fsplit n : forall d, length d <= n -> fsplit d (fields_go d [] 0).
Proof.
  induction n as [|n IH]; intros d Hlen.
  - destruct d; [constructor|cbn in Hlen; lia].
  - destruct d as [|b r]; [constructor|]. cbn [fields_go]. destruct (space_prefix (b :: r)) as [|k] eqn:E.
    + destruct (fields_go_in_field r [b]) as [f' [d' [Hr [Hfree [Hend Hres]]]]]; [discriminate|].
      rewrite Hres. cbn [rev app]. rewrite Hr. change (b :: f' ++ d') with ((b :: f') ++ d').
      apply fsp_field; [discriminate| |exact Hend|].
      * intros a b0 Eab Hb. destruct a as [|x a]; cbn [app] in Eab.
        -- subst b0. cbn [app]. rewrite <- Hr. now apply no_space_front.
        -- injection Eab as _ Eab. now apply (Hfree a b0).
      * apply IH. subst r. cbn [length] in Hlen. rewrite app_length in Hlen. lia.
    + assert (Hf : space_at_front (b :: r) (S k)) by (apply space_prefix_spec; split; [exact E|discriminate]).
      destruct Hf as [r0 [Hr0 [Hp Hn]]]. apply has_prefix_iff in Hp. destruct Hp as [x Hx].
      cbn [flush_field app]. rewrite fields_go_skip.
      change (skipn k r) with (skipn (S k) (b :: r)). rewrite Hx, <- Hn, skipn_length_app.
      apply fsp_space; [exact Hr0|]. apply IH.
      assert (length (b :: r) = length (utf8_enc r0) + length x) by (rewrite Hx; apply app_length).
      rewrite Hn in H. lia.
Qed.

(* strings.Fields: the maximal runs free of white-space runes, in order *)
Theorem fields_spec d : fsplit d (fields d).
Proof. unfold fields. now apply (fields_go_fsplit (length d)). Qed.

(* bytes.TrimSpace / strings.Fields as the models use them (Lib/Bytes.v [space_prefix],
   [space_suffix_rev'], [trim_space]; Build.v [fields]) against a rune-level reading: the
   white-space runes are the 25 code points of Unicode's White_Space property (what
   unicode.IsSpace accepts), a string is trimmed of / split at their UTF-8 encodings.
   The byte-pattern tables of the models are shown to recognise exactly these encodings,
   from the front and from the back. *)
From Coq Require Import List Bool Arith NArith Lia.
From Coq.Strings Require Import Byte.
From GI Require Import Lib.Bytes Lib.BytesFacts Imports.Scan.
Import ListNotations.

(* unicode.IsSpace: U+0009..U+000D, U+0020, U+0085, U+00A0, U+1680, U+2000..U+200A, U+2028,
   U+2029, U+202F, U+205F, U+3000 *)
Definition space_runes : list N :=
  [9; 10; 11; 12; 13; 32; 133; 160; 5760; 8192; 8193; 8194; 8195; 8196; 8197; 8198; 8199; 8200;
   8201; 8202; 8232; 8233; 8239; 8287; 12288]%N.
Definition is_space_rune (r : N) : bool := existsb (N.eqb r) space_runes.

(* utf8.AppendRune *)
Definition utf8_enc (r : N) : bytes := rev (utf8_encode_rev r).

(* [d] starts with the encoding of a white-space rune, [n] bytes long *)
Definition space_at_front (d : bytes) (n : nat) : Prop :=
  exists r, is_space_rune r = true /\ has_prefix (utf8_enc r) d = true /\ length (utf8_enc r) = n.
(* [q] (a reversed string) starts with the reversed encoding: the string ends with the encoding *)
Definition space_at_back (q : bytes) (n : nat) : Prop :=
  exists r, is_space_rune r = true /\ has_prefix (rev (utf8_enc r)) q = true /\ length (utf8_enc r) = n.

Ltac try_runes P l :=
  match l with
  | ?r :: ?l' => first [ exists r; split; [reflexivity | split; reflexivity] | try_runes P l' ]
  end.
Ltac witness := let l := eval unfold space_runes in space_runes in try_runes tt l.

(* evaluate the table on the bytes known so far: a numeral decides the case, a stuck match
   asks for one more byte *)
Ltac table_go f :=
  match goal with
  | |- (f ?q = 0 \/ _) =>
      let v := eval cbv in (f q) in
      lazymatch v with
      | O => left; reflexivity
      | S _ => right; witness
      | _ =>
          match q with
          | _ :: ?r => is_var r; destruct r as [|?c r]; [left; reflexivity | destruct c; table_go f]
          | _ :: _ :: ?r => is_var r; destruct r as [|?c r]; [left; reflexivity | destruct c; table_go f]
          end
      end
  end.

Lemma space_prefix_cases d :
  space_prefix d = 0 \/ space_at_front d (space_prefix d).
Proof.
  unfold space_at_front. destruct d as [|b r]; [left; reflexivity|]. destruct b; table_go space_prefix.
Qed.

Lemma is_space_rune_In r : is_space_rune r = true -> In r space_runes.
Proof.
  unfold is_space_rune. intros H. apply existsb_exists in H. destruct H as [x [Hin Heq]].
  apply N.eqb_eq in Heq. now subst x.
Qed.

Lemma space_front_prefix d n : space_at_front d n -> space_prefix d = n /\ n <> 0.
Proof.
  intros [r [Hr [Hp Hn]]]. apply is_space_rune_In in Hr. apply has_prefix_iff in Hp. destruct Hp as [x ->].
  subst n. unfold space_runes in Hr. cbn [In] in Hr.
  repeat (destruct Hr as [<-|Hr]; [split; [reflexivity|discriminate]|]). contradiction.
Qed.

(* the front table: exactly the encodings of the white-space runes *)
Theorem space_prefix_spec d n : space_at_front d n <-> (space_prefix d = n /\ n <> 0).
Proof.
  split; [apply space_front_prefix|]. intros [<- Hn].
  destruct (space_prefix_cases d) as [H|H]; [contradiction|exact H].
Qed.

Lemma space_suffix_cases q :
  space_suffix_rev' q = 0 \/ space_at_back q (space_suffix_rev' q).
Proof.
  unfold space_at_back. destruct q as [|b r]; [left; reflexivity|]. destruct b; table_go space_suffix_rev'.
Qed.

Lemma space_back_suffix q n : space_at_back q n -> space_suffix_rev' q = n /\ n <> 0.
Proof.
  intros [r [Hr [Hp Hn]]]. apply is_space_rune_In in Hr. apply has_prefix_iff in Hp. destruct Hp as [x ->].
  subst n. unfold space_runes in Hr. cbn [In] in Hr.
  repeat (destruct Hr as [<-|Hr]; [split; [reflexivity|discriminate]|]). contradiction.
Qed.

(* the table read from the end: exactly the same encodings, reversed *)
Theorem space_suffix_spec q n : space_at_back q n <-> (space_suffix_rev' q = n /\ n <> 0).
Proof.
  split; [apply space_back_suffix|]. intros [<- Hn].
  destruct (space_suffix_cases q) as [H|H]; [contradiction|exact H].
Qed.

(* ------------------------------------------------------------------ *)
(* bytes.TrimSpace at rune level                                       *)

(* a concatenation of encodings of white-space runes *)
Definition spaces_only (x : bytes) : Prop :=
  exists rs, Forall (fun r => is_space_rune r = true) rs /\ x = concat (map utf8_enc rs).

Lemma spaces_only_nil : spaces_only [].
Proof. exists []. split; [constructor|reflexivity]. Qed.

Lemma spaces_only_cons r x : is_space_rune r = true -> spaces_only x -> spaces_only (utf8_enc r ++ x).
Proof. intros Hr [rs [H ->]]. exists (r :: rs). split; [now constructor|reflexivity]. Qed.

Lemma spaces_only_snoc r x : is_space_rune r = true -> spaces_only x -> spaces_only (x ++ utf8_enc r).
Proof.
  intros Hr [rs [H ->]]. exists (rs ++ [r]). split.
  - apply Forall_app. split; [exact H|now repeat constructor].
  - rewrite map_app, concat_app. cbn. now rewrite app_nil_r.
Qed.

Lemma trim_left_fuel_spaces f : forall d, exists l, spaces_only l /\ d = l ++ trim_left_fuel f d.
Proof.
  induction f as [|f IH]; intros d; cbn [trim_left_fuel].
  - exists []. split; [apply spaces_only_nil|reflexivity].
  - destruct (space_prefix d) as [|n] eqn:E.
    + exists []. split; [apply spaces_only_nil|reflexivity].
    + assert (Hf : space_at_front d (S n)) by (apply space_prefix_spec; split; [exact E|discriminate]).
      destruct Hf as [r [Hr [Hp Hn]]]. apply has_prefix_iff in Hp. destruct Hp as [x ->].
      rewrite <- Hn, skipn_length_app. destruct (IH x) as [l [Hl Hx]].
      exists (utf8_enc r ++ l). split; [now apply spaces_only_cons|]. rewrite <- app_assoc. now rewrite <- Hx.
Qed.

Lemma trim_right_rev_fuel_spaces f : forall q, exists t, spaces_only t /\ q = rev t ++ trim_right_rev_fuel f q.
Proof.
  induction f as [|f IH]; intros q; cbn [trim_right_rev_fuel].
  - exists []. split; [apply spaces_only_nil|reflexivity].
  - destruct (space_suffix_rev' q) as [|n] eqn:E.
    + exists []. split; [apply spaces_only_nil|reflexivity].
    + assert (Hb : space_at_back q (S n)) by (apply space_suffix_spec; split; [exact E|discriminate]).
      destruct Hb as [r [Hr [Hp Hn]]]. apply has_prefix_iff in Hp. destruct Hp as [x ->].
      rewrite <- Hn, <- (rev_length (utf8_enc r)), skipn_length_app. destruct (IH x) as [t [Ht Hx]].
      exists (t ++ utf8_enc r). split; [now apply spaces_only_snoc|].
      rewrite rev_app_distr, <- app_assoc. now rewrite <- Hx.
Qed.

(* TrimSpace removes a run of white-space runes at each end, and what is left neither starts
   nor ends with (the encoding of) a white-space rune *)
Theorem trim_space_spec d :
  exists l t, d = l ++ trim_space d ++ t /\ spaces_only l /\ spaces_only t
              /\ (forall n, ~ space_at_front (trim_space d) n)
              /\ (forall n, ~ space_at_back (rev (trim_space d)) n).
Proof.
  unfold trim_space.
  destruct (trim_left_fuel_spaces (length d) d) as [l [Hl Hd]]. fold (trim_left d) in Hd.
  set (x := trim_left d) in *.
  destruct (trim_right_rev_fuel_spaces (length x) (rev x)) as [t [Ht Hx]].
  assert (Hx' : x = trim_right x ++ t).
  { unfold trim_right. rewrite <- (rev_involutive x) at 1. rewrite Hx at 1.
    now rewrite rev_app_distr, rev_involutive. }
  exists l, t. split; [now rewrite <- Hx'|]. split; [exact Hl|]. split; [exact Ht|]. split.
  - intros n Hn. apply space_prefix_spec in Hn. destruct Hn as [Hn Hz].
    pose proof (trim_left_zero d) as Hz0. fold x in Hz0. rewrite Hx' in Hz0.
    apply space_prefix_prefix_zero in Hz0. congruence.
  - intros n Hn. apply space_suffix_spec in Hn. destruct Hn as [Hn Hz].
    pose proof (trim_right_zero x). congruence.
Qed.

(* The library calls of imports/build.go that have no denotation in Lib/GoSem*.v, for the
   translation Gen/ImportsSrc.v (table: harness/cmd/genconsts/gen_imports_src.go).
   Definitions only; each is DEFINED as the function the hand-written model already uses
   for the same call (Imports/Build.v), which is validated against the Go library by the
   correspondence run of harness/cmd/imports and, for Fields, proved against a rune-level
   reading (Imports/SpaceFacts.v, C19_fields_rune_level). *)
From Coq Require Import List.
From Coq.Strings Require Import Byte.
From GI Require Import Lib.Bytes Lib.GoSem Imports.Build.
Import ListNotations.

(* strings.Fields(s): the maximal runs of non-space runes *)
Definition go_strings_Fields (s : bytes) : list bytes := fields s.

(* strings.Split(s, sep): modelled for a separator of exactly one byte (the pieces between
   its occurrences, n+1 pieces for n occurrences); any other use is outside the modelled
   domain *)
Definition go_strings_Split (s sep : bytes) : res (list bytes) :=
  match sep with
  | [c] => Ok (split_on c s)
  | _ => Panic
  end.

(* Go's rune-level tag test (range over the string, unicode.IsLetter / IsDigit from the
   regenerated range tables) against Build.v's byte-level [tag_chars] (ASCII by range, the
   generated table [extra_tag_runes] for U+0080..U+024F): they agree on every string whose
   bytes are all below 0xC9.  The finite part (every pair of a lead byte 0x80..0xC8 and a
   following byte) is checked by computation against the regenerated tables on every run. *)
From Coq Require Import List Bool Arith NArith ZArith Lia.
From Coq.Strings Require Import Byte.
From GI Require Import Lib.Bytes Lib.BytesFacts Lib.GoSem Lib.GoSemExt Lib.GoSemExtFacts Lib.GoSemUnicode
  Lib.Utf8 Lib.Utf8Facts Gen.ImportsConsts Gen.UnicodeConsts Imports.Build Imports.BuildGen.
Import ListNotations.
Local Open Scope nat_scope.

(* all 256 bytes *)
Definition byte_of_nat (n : nat) : byte := match Byte.of_N (N.of_nat n) with Some b => b | None => x00 end.
Definition all_bytes : list byte := map byte_of_nat (seq 0 256).

Lemma all_bytes_In b : In b all_bytes.
Proof.
  unfold all_bytes. apply in_map_iff. exists (N.to_nat (Byte.to_N b)). split.
  - unfold byte_of_nat. now rewrite N2Nat.id, Byte.of_to_N.
  - apply in_seq. pose proof (Byte.to_N_bounded b). lia.
Qed.

Lemma forall_bytes (f : byte -> bool) : forallb f all_bytes = true -> forall b, f b = true.
Proof. intros H b. rewrite forallb_forall in H. apply H. apply all_bytes_In. Qed.

(* ASCII: the rune is the byte *)
Definition ascii_ok (b : byte) : bool :=
  if (bN b <? 128)%N then Bool.eqb (tag_rune (Z.of_N (bN b))) (tag_char b) else true.
Lemma ascii_ok_all : forallb ascii_ok all_bytes = true.
Proof. vm_compute. reflexivity. Qed.

Lemma tag_rune_ascii b : (bN b <? 128)%N = true -> tag_rune (Z.of_N (bN b)) = tag_char b.
Proof.
  intros H. pose proof (forall_bytes _ ascii_ok_all b) as Hb. unfold ascii_ok in Hb. rewrite H in Hb.
  now apply eqb_prop in Hb.
Qed.

(* RuneError is no tag rune *)
Lemma tag_rune_error : tag_rune (Z.of_N rune_error) = false.
Proof. vm_compute. reflexivity. Qed.

(* every entry of the model's table has two bytes *)
Lemma extra_two : forallb (fun e => Nat.eqb (length e) 2) extra_tag_runes = true.
Proof. vm_compute. reflexivity. Qed.

Lemma has_prefix_two e b c r : length e = 2 -> has_prefix e (b :: c :: r) = has_prefix e [b; c].
Proof.
  destruct e as [|x [|y [|z e]]]; cbn [length]; intros H; try discriminate. cbn [has_prefix].
  now rewrite !andb_true_r.
Qed.
Lemma has_prefix_two_one e b : length e = 2 -> has_prefix e [b] = false.
Proof.
  destruct e as [|x [|y [|z e]]]; cbn [length]; intros H; try discriminate. cbn [has_prefix]. apply andb_false_r.
Qed.

Lemma find_ext_in {A} (f g : A -> bool) l : (forall x, In x l -> f x = g x) -> find f l = find g l.
Proof.
  induction l as [|x l IH]; intros H; [reflexivity|]. cbn [find]. rewrite (H x (or_introl eq_refl)).
  destruct (g x); [reflexivity|]. apply IH. intros y Hy. apply H. now right.
Qed.

Lemma extra_rune_len_two b c r : extra_rune_len (b :: c :: r) = extra_rune_len [b; c].
Proof.
  unfold extra_rune_len. erewrite find_ext_in; [reflexivity|]. intros e He. apply has_prefix_two.
  pose proof extra_two as H. rewrite forallb_forall in H. apply Nat.eqb_eq. now apply H.
Qed.
Lemma extra_rune_len_one b : extra_rune_len [b] = 0.
Proof.
  unfold extra_rune_len. erewrite (find_ext_in _ (fun _ => false)).
  - induction extra_tag_runes as [|e l IH]; [reflexivity|exact IH].
  - intros e He. apply has_prefix_two_one.
    pose proof extra_two as H. rewrite forallb_forall in H. apply Nat.eqb_eq. now apply H.
Qed.

(* a lead byte 0x80..0xC8 and the byte after it: what the decoder says (a two-byte rune, or
   RuneError of width 1) against what the model's table says *)
Definition pair_ok (b c : byte) : bool :=
  if (128 <=? bN b)%N && (bN b <? 201)%N then
    match decode_rune [b; c], extra_rune_len [b; c] with
    | Some (r, 2), 2 => tag_rune (Z.of_N r)
    | Some (r, 2), 0 => negb (tag_rune (Z.of_N r))
    | Some (r, 1), 0 => N.eqb r rune_error
    | _, _ => false
    end
  else true.
Lemma pair_ok_all : forallb (fun b => forallb (pair_ok b) all_bytes) all_bytes = true.
Proof. vm_compute. reflexivity. Qed.
Lemma pair_ok_true b c : pair_ok b c = true.
Proof.
  pose proof (forall_bytes _ pair_ok_all b) as H. cbv beta in H. exact (forall_bytes _ H c).
Qed.

(* the decoder looks at no more than two bytes after such a lead byte *)
Lemma decode_rune_two b c r : (bN b <? 224)%N = true -> decode_rune (b :: c :: r) = decode_rune [b; c].
Proof.
  intros H. unfold decode_rune. destruct (bN b <? rune_self)%N; [reflexivity|].
  destruct (in_range 194 223 b) eqn:E1; [reflexivity|].
  assert (E2 : in_range 224 239 b = false) by (unfold in_range in *; lia).
  assert (E3 : in_range 240 244 b = false) by (unfold in_range in *; lia).
  now rewrite E2, E3.
Qed.
Lemma decode_rune_one b : (128 <=? bN b)%N = true -> decode_rune [b] = Some (rune_error, 1).
Proof.
  intros H. unfold decode_rune, err1. assert (E : (bN b <? rune_self)%N = false) by (unfold rune_self; lia).
  rewrite E. repeat match goal with |- context [if ?c then _ else _] => destruct c end; reflexivity.
Qed.

Lemma tag_chars_agree_go n : forall d pos, length d <= n -> below_c9 d ->
  forallb (fun ic => tag_rune (snd ic)) (go_runes_from n pos d) = tag_chars_go d 0.
Proof.
  induction n as [|n IH]; intros d pos Hn Hd.
  - destruct d; [reflexivity|cbn in Hn; lia].
  - destruct d as [|b r]; [reflexivity|]. inversion Hd as [|? ? Hb Hr]; subst.
    cbn [length] in Hn. cbn [go_runes_from tag_chars_go].
    destruct (bN b <? 128)%N eqn:Ea.
    + (* ASCII *)
      assert (Ed : decode_rune (b :: r) = Some (bN b, 1)).
      { unfold decode_rune. unfold rune_self. now rewrite Ea. }
      rewrite Ed. cbn [forallb snd skipn]. rewrite tag_rune_ascii by exact Ea. f_equal.
      apply IH; [lia|exact Hr].
    + destruct r as [|c r'].
      * rewrite decode_rune_one by lia. cbn [forallb snd]. rewrite tag_rune_error, extra_rune_len_one. reflexivity.
      * rewrite decode_rune_two by lia. rewrite extra_rune_len_two.
        pose proof (pair_ok_true b c) as Hp. unfold pair_ok in Hp.
        assert (Eb : ((128 <=? bN b)%N && (bN b <? 201)%N) = true) by lia. rewrite Eb in Hp.
        inversion Hr as [|? ? Hc Hr']; subst. cbn [length] in Hn.
        destruct (decode_rune [b; c]) as [[v w]|]; [|discriminate].
        destruct w as [|[|[|w]]]; try discriminate.
        -- (* RuneError, width 1 *)
           destruct (extra_rune_len [b; c]); [|discriminate]. apply N.eqb_eq in Hp. subst v.
           cbn [forallb snd]. now rewrite tag_rune_error.
        -- (* a two-byte rune *)
           destruct (extra_rune_len [b; c]) as [|[|[|k]]]; try discriminate.
           ++ apply negb_true_iff in Hp. cbn [forallb snd]. now rewrite Hp.
           ++ cbn [forallb snd skipn tag_chars_go]. rewrite Hp. cbn [andb]. apply IH; [lia|exact Hr'].
Qed.

Theorem unicode_tag_chars_below_c9 d : below_c9 d -> unicode_tag_chars d = tag_chars d.
Proof. intros H. unfold unicode_tag_chars, go_runes, tag_chars. now apply tag_chars_agree_go. Qed.

(* a byte below 0x80 that is no tag character spoils the name for Go's test too *)
Lemma unicode_tag_chars_cons_ascii b r : (bN b <? 128)%N = true ->
  unicode_tag_chars (b :: r) = tag_char b && unicode_tag_chars r.
Proof.
  intros Ea. unfold unicode_tag_chars, go_runes. cbn [length go_runes_from].
  assert (Ed : decode_rune (b :: r) = Some (bN b, 1)) by (unfold decode_rune, rune_self; now rewrite Ea).
  rewrite Ed. cbn [forallb snd skipn]. rewrite tag_rune_ascii by exact Ea. f_equal.
  (* the byte offsets do not matter to the test *)
  assert (Hpos : forall n p q s, forallb (fun ic : Z * Z => tag_rune (snd ic)) (go_runes_from n p s)
                                 = forallb (fun ic : Z * Z => tag_rune (snd ic)) (go_runes_from n q s)).
  { induction n as [|n IHn]; intros p q s; [reflexivity|]. cbn [go_runes_from].
    destruct (decode_rune s) as [[v w]|]; [|reflexivity]. cbn [forallb snd]. f_equal. apply IHn. }
  apply Hpos.
Qed.

Lemma unicode_tag_chars_nil : unicode_tag_chars [] = true.
Proof. reflexivity. Qed.

(* the entries of the regenerated OS / architecture lists are tags for Go's test as well *)
Lemma known_os_unicode : forallb unicode_tag_chars known_os = true.
Proof. vm_compute. reflexivity. Qed.
Lemma known_arch_unicode : forallb unicode_tag_chars known_arch = true.
Proof. vm_compute. reflexivity. Qed.

(* Completeness of the translated ReadImports (Gen/ImportsReadSrc.v) on the grammar G of import
   sections: the equality with the model (ReadSrcFacts.v) composed with ReadComplete.v. *)
From Coq Require Import List Bool Arith ZArith NArith Lia.
From Coq.Strings Require Import Byte.
From GI Require Import Lib.Bytes Lib.GoSem Lib.GoSemIO Imports.Read Imports.ReadFacts Imports.ReadGrammar Imports.ReadComplete
  Imports.ReadSrcLib Gen.ImportsReadSrc Imports.ReadSrcFacts.
Import ListNotations.

Theorem src_ReadImports_complete fuel report g rest o : wf_section g rest = true ->
  2 * length (render g ++ rest) + 8 <= fuel ->
  src_ReadImports fuel (render g ++ rest) report o = Ok (imports_after o (paths g), render_body g, ErrNil).
Proof.
  intros Hwf HF. destruct (src_ReadImports_model fuel (render g ++ rest) report o HF) as [f [out [e [Hm Hs]]]].
  rewrite (read_imports_complete report g rest Hwf) in Hm. injection Hm as <- <- <-. exact Hs.
Qed.

(* a non-trivial instance: the member ex_section of G (ReadComplete.v) followed by "func" *)
Example ex_src_complete :
  src_ReadImports 400 (render ex_section ++ [x66; x75; x6e; x63]) true (Some [])
  = Ok (Some [[x22; x66; x5c; x22; x6d; x22]; [x60; x61; x2f; x62; x60]; [x22; x63; x22]], render_body ex_section, ErrNil).
Proof. vm_compute. reflexivity. Qed.

(* Executable model of /repo/imports/scan.go: ScanDir / ScanFiles on top of the models of
   ReadImports (Read.v) and ShouldBuild / MatchFile (Build.v).  Definitions only.

   A directory is data: a list of entries (name, regular file?, content) in the order
   os.ReadDir returns them.  Modelling decisions (tied to the code by the correspondence run):
   * os.Open never fails (the entries exist); the only read error is the NUL error of
     ReadImports.  Errors are a small enum, never text.
   * strconv.Unquote is modelled for everything ReadImports can hand over, i.e. literals
     that start with a double quote or a back quote (a literal starting with a single quote
     -- a rune literal, which the
     reader never produces -- is answered [None]); the model follows strconv's slow path
     (UnquoteChar), which the fast path agrees with: simple escapes, \x, \ooo, \u, \U with
     rune validation and UTF-8 encoding, invalid UTF-8 replaced by U+FFFD, unescaped newline
     or stray bytes after the closing quote rejected; raw literals lose their '\r'.
   * map[string]bool + keys() + sort.Strings is a strictly sorted list (byte-wise order). *)
From Coq Require Import List Bool Arith NArith.
From Coq.Strings Require Import Byte.
From GI Require Import Lib.Bytes Gen.ImportsConsts Imports.Build Imports.Read.
Import ListNotations.

(* ------------------------------------------------------------------ strconv.Unquote *)

Definition byte_of_N (n : N) : byte := match Byte.of_N n with Some b => b | None => x00 end.

(* length of the valid UTF-8 sequence [d] starts with (utf8.DecodeRune), 0 if invalid *)
Definition utf8_seq_len (d : bytes) : nat :=
  match d with
  | b :: r =>
      if N.ltb (bN b) 128 then 1
      else if in_range 194 223 b then
        match r with c1 :: _ => if cont c1 then 2 else 0 | _ => 0 end
      else if in_range 224 239 b then
        match r with
        | c1 :: c2 :: _ =>
            if (if N.eqb (bN b) 224 then in_range 160 191 c1
                else if N.eqb (bN b) 237 then in_range 128 159 c1
                else cont c1) && cont c2 then 3 else 0
        | _ => 0
        end
      else if in_range 240 244 b then
        match r with
        | c1 :: c2 :: c3 :: _ =>
            if (if N.eqb (bN b) 240 then in_range 144 191 c1
                else if N.eqb (bN b) 244 then in_range 128 143 c1
                else cont c1) && cont c2 && cont c3 then 4 else 0
        | _ => 0
        end
      else 0
  | [] => 0
  end.

(* utf8.ValidRune *)
Definition valid_rune (v : N) : bool :=
  (N.ltb v 55296 || (N.ltb 57343 v && N.leb v 1114111))%N.

(* utf8.AppendRune for a valid rune, REVERSED (pushed onto a reversed buffer) *)
Definition utf8_encode_rev (v : N) : bytes :=
  (if N.ltb v 128 then [byte_of_N v]
   else if N.ltb v 2048 then [byte_of_N (128 + v mod 64); byte_of_N (192 + v / 64)]
   else if N.ltb v 65536 then
     [byte_of_N (128 + v mod 64); byte_of_N (128 + (v / 64) mod 64); byte_of_N (224 + v / 4096)]
   else [byte_of_N (128 + v mod 64); byte_of_N (128 + (v / 64) mod 64);
         byte_of_N (128 + (v / 4096) mod 64); byte_of_N (240 + v / 262144)])%N.

Definition unhex (b : byte) : option N :=
  let n := bN b in
  (if N.leb 48 n && N.leb n 57 then Some (n - 48)
   else if N.leb 97 n && N.leb n 102 then Some (n - 87)
   else if N.leb 65 n && N.leb n 70 then Some (n - 55)
   else None)%N.

(* where the scanner of an interpreted literal is *)
Inductive ustate :=
| UNorm                                   (* at a character boundary *)
| UEsc                                    (* just after a backslash *)
| UHex (kind : byte) (left : nat) (acc : N)   (* inside \x, \u, \U: digits left *)
| UOct (left : nat) (acc : N)             (* inside \ooo *)
| UCopy (left : nat).                     (* continuation bytes of a valid UTF-8 sequence *)

(* [out] is the result so far, reversed.  [None] = strconv.ErrSyntax. *)
Fixpoint unq (st : ustate) (d out : bytes) : option bytes :=
  match d with
  | [] => None
  | b :: r =>
      match st with
      | UCopy (S k) => unq (match k with 0 => UNorm | _ => UCopy k end) r (b :: out)
      | UCopy 0 => None
      | UNorm =>
          if beq b DQUOTE then (if is_nil r then Some (rev out) else None)
          else if beq b NL then None
          else if beq b BSLASH then unq UEsc r out
          else if N.ltb (bN b) 128 then unq UNorm r (b :: out)
          else match utf8_seq_len d with
               | S (S k) => unq (UCopy (S k)) r (b :: out)
               | _ => unq UNorm r (xbd :: xbf :: xef :: out)     (* U+FFFD *)
               end
      | UEsc =>
          match b with
          | x61 => unq UNorm r (x07 :: out)   (* \a *)
          | x62 => unq UNorm r (x08 :: out)   (* \b *)
          | x66 => unq UNorm r (x0c :: out)   (* \f *)
          | x6e => unq UNorm r (x0a :: out)   (* \n *)
          | x72 => unq UNorm r (x0d :: out)   (* \r *)
          | x74 => unq UNorm r (x09 :: out)   (* \t *)
          | x76 => unq UNorm r (x0b :: out)   (* \v *)
          | x5c => unq UNorm r (x5c :: out)
          | x22 => unq UNorm r (x22 :: out)
          | x78 => unq (UHex x78 2 0%N) r out
          | x75 => unq (UHex x75 4 0%N) r out
          | x55 => unq (UHex x55 8 0%N) r out
          | x30 | x31 | x32 | x33 | x34 | x35 | x36 | x37 => unq (UOct 2 (bN b - 48)%N) r out
          | _ => None
          end
      | UHex kind (S k) acc =>
          match unhex b with
          | None => None
          | Some x =>
              let acc := (acc * 16 + x)%N in
              match k with
              | S _ => unq (UHex kind k acc) r out
              | 0 =>
                  if beq kind x78 then unq UNorm r (byte_of_N acc :: out)
                  else if valid_rune acc then unq UNorm r (utf8_encode_rev acc ++ out)
                  else None
              end
          end
      | UHex _ 0 _ => None
      | UOct (S k) acc =>
          let n := bN b in
          if (N.leb 48 n && N.leb n 55)%N then
            let acc := (acc * 8 + (n - 48))%N in
            match k with
            | S _ => unq (UOct k acc) r out
            | 0 => if N.ltb 255 acc then None else unq UNorm r (byte_of_N acc :: out)
            end
          else None
      | UOct 0 _ => None
      end
  end.

(* body and rest at the first occurrence of [c] *)
Fixpoint cut_at (c : byte) (d : bytes) : option (bytes * bytes) :=
  match d with
  | [] => None
  | b :: r =>
      if beq b c then Some ([], r)
      else match cut_at c r with Some (x, y) => Some (b :: x, y) | None => None end
  end.

Definition unquote (lit : bytes) : option bytes :=
  match lit with
  | q :: r =>
      if beq q BQUOTE then
        match cut_at BQUOTE r with
        | Some (body, rem) => if is_nil rem then Some (filter (fun b => negb (beq b CR)) body) else None
        | None => None
        end
      else if beq q DQUOTE then unq UNorm r []
      else None
  | [] => None
  end.

(* ------------------------------------------------------------------ sorted sets of strings *)

Fixpoint bytes_ltb (a b : bytes) : bool :=
  match a, b with
  | [], [] => false
  | [], _ :: _ => true
  | _ :: _, [] => false
  | x :: a', y :: b' => N.ltb (bN x) (bN y) || (N.eqb (bN x) (bN y) && bytes_ltb a' b')
  end.

(* m[q] = true, with the map kept as the list keys() will return *)
Fixpoint set_add (x : bytes) (l : list bytes) : list bytes :=
  match l with
  | [] => [x]
  | y :: r =>
      if bytes_eqb x y then l
      else if bytes_ltb x y then x :: l
      else y :: set_add x r
  end.

Definition set_add_all (xs : list bytes) (l : list bytes) : list bytes :=
  fold_left (fun acc x => set_add x acc) xs l.

(* ------------------------------------------------------------------ scanFiles *)

Record entry := mkentry { e_name : bytes; e_regular : bool; e_data : bytes }.

Inductive scan_result :=
| SOk (imports testimports : list bytes)
| SErrNoGo          (* ErrNoGo *)
| SErrRead          (* "reading <name>: ..." *)
| SPanic.

(* the import literals that unquote, unquoted, in order *)
Definition unquoted (lits : list bytes) : list bytes :=
  flat_map (fun p => match unquote p with Some q => [q] | None => [] end) lits.

Fixpoint scan_loop (tags : tagset) (explicit : bool) (files : list entry)
         (imps tests : list bytes) (num : nat) : scan_result :=
  match files with
  | [] => match num with 0 => SErrNoGo | _ => SOk imps tests end
  | f :: rest =>
      match read_imports false (e_data f) with
      | RPanic | RFuel => SPanic
      | ROk lits data e =>
          match e with
          | ENone =>
              if existsb (fun p => bytes_eqb p quoted_c) lits && negb (tags cgo_tag) && negb (tags star)
              then scan_loop tags explicit rest imps tests num            (* continue Files *)
              else
                match (if explicit then Some true else should_build data tags) with
                | None => SPanic
                | Some false => scan_loop tags explicit rest imps tests num
                | Some true =>
                    if has_suffix test_go_suffix (e_name f)
                    then scan_loop tags explicit rest imps (set_add_all (unquoted lits) tests) (S num)
                    else scan_loop tags explicit rest (set_add_all (unquoted lits) imps) tests (S num)
                end
          | _ => SErrRead
          end
      end
  end.

Definition scan_files (tags : tagset) (files : list entry) : scan_result :=
  scan_loop tags true files [] [] 0.

(* ScanDir's choice of directory entries *)
Definition considered (tags : tagset) (f : entry) : bool :=
  e_regular f && negb (has_prefix skip_prefix (e_name f)) && has_suffix go_suffix (e_name f)
  && match_file (e_name f) tags.

Definition scan_dir (tags : tagset) (entries : list entry) : scan_result :=
  scan_loop tags false (filter (considered tags) entries) [] [] 0.

(* The byte-pattern tables behind bytes.TrimSpace / strings.Fields in the models: exactly the
   encodings of the 25 white-space runes, from the front and from the back. *)
From Coq Require Import List Bool Arith NArith Lia.
From Coq.Strings Require Import Byte.
From GI Require Import Lib.Bytes Lib.BytesFacts Imports.SpaceDefs Imports.SpaceBackLo Imports.SpaceBackHi.
Import ListNotations.
Export SpaceDefs.

Lemma space_suffix_cases q :
  space_suffix_rev' q = 0 \/ space_at_back q (space_suffix_rev' q).
Proof.
  destruct q as [|b r]; [left; reflexivity|]. destruct (N.ltb (bN b) 128) eqn:E.
  - now apply space_suffix_cases_lo.
  - now apply space_suffix_cases_hi.
Qed.

Lemma space_back_suffix q n : space_at_back q n -> space_suffix_rev' q = n /\ n <> 0.
Proof.
  intros [r [Hr [Hp Hn]]]. apply is_space_rune_In in Hr. apply has_prefix_iff in Hp. destruct Hp as [x ->].
  subst n. unfold space_runes in Hr. cbn [In] in Hr.
  repeat (destruct Hr as [<-|Hr]; [split; [reflexivity|discriminate]|]). contradiction.
Qed.

(* the table read from the end: exactly the same encodings, reversed *)
Theorem space_suffix_spec q n : space_at_back q n <-> (space_suffix_rev' q = n /\ n <> 0).
Proof.
  split; [apply space_back_suffix|]. intros [<- Hn].
  destruct (space_suffix_cases q) as [H|H]; [contradiction|exact H].
Qed.


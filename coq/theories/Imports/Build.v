(* Executable model of /repo/imports/build.go: ShouldBuild, matchTags, matchTag,
   MatchFile (CORRECTED behaviour: MatchFile looks tags up through matchTag, so that
   android selects linux-suffixed files, as upstream Go does), and a specification
   written from the property text.  Definitions only; proofs are in BuildFacts.v.

   Modelling decisions (tied to the code by the correspondence run only):
   * tags (map[string]bool) is a function bytes -> bool (a missing key is false).
   * Tag characters: the Go code accepts unicode.IsLetter / unicode.IsDigit runes, '_'
     and '.'.  The model knows the ASCII letters and digits by range and those of
     U+0080..U+024F through the generated table [extra_tag_runes]; any other byte >= 0x80
     makes the term malformed.  (Invalid UTF-8 is malformed in Go too; the difference is
     confined to terms containing a letter or digit at or above U+0250.)
   * ShouldBuild's first pass keeps a byte offset [end]; because [end] always sits at a
     line boundary the model keeps the list of lines before [end] instead.
   * f[0] of strings.Fields is an index expression: the model answers [None] (panic)
     when there is no field; should_build_spec shows that never happens. *)
From Coq Require Import List Bool Arith NArith.
From Coq.Strings Require Import Byte.
From GI Require Import Lib.Bytes Gen.ImportsConsts.
Import ListNotations.

Definition tagset := bytes -> bool.

Definition COMMA : byte := x2c.
Definition BANG : byte := x21.
Definition PLUS : byte := x2b.

(* the single byte of a one-character literal such as "_" or "." ('?' never occurs) *)
Definition byte1 (lit : bytes) : byte := match lit with b :: _ => b | [] => x00 end.
Definition US : byte := byte1 underscore.
Definition DOT : byte := byte1 dot.

Definition is_nil {A} (l : list A) : bool := match l with [] => true | _ => false end.

(* strings.Split(s, string(c)) *)
Fixpoint split_on (c : byte) (d : bytes) : list bytes :=
  match d with
  | [] => [[]]
  | b :: r =>
      if beq b c then [] :: split_on c r
      else match split_on c r with
           | [] => [[b]]
           | l :: ls => (b :: l) :: ls
           end
  end.

(* the lines visited by `for len(p) > 0 { line, p = cut at '\n' }`, without their NL *)
Fixpoint go_lines (d : bytes) : list bytes :=
  match d with
  | [] => []
  | b :: r =>
      if beq b NL then [] :: go_lines r
      else match go_lines r with
           | [] => [[b]]
           | l :: ls => (b :: l) :: ls
           end
  end.

(* strings.Fields: maximal runs of non-space runes (unicode.IsSpace; the space runes
   start with a lead byte, so a byte-wise scan with Lib.space_prefix sees the same
   boundaries as the rune-wise scan). [cur] is the current field, reversed; [skip]
   counts the remaining bytes of a multi-byte space. *)
Definition flush_field (cur : bytes) : list bytes := match cur with [] => [] | _ => [rev cur] end.
Fixpoint fields_go (d cur : bytes) (skip : nat) : list bytes :=
  match d with
  | [] => flush_field cur
  | b :: r =>
      match skip with
      | S k => fields_go r cur k
      | 0 => match space_prefix d with
             | 0 => fields_go r (b :: cur) 0
             | S n => flush_field cur ++ fields_go r [] n
             end
      end
  end.
Definition fields (d : bytes) : list bytes := fields_go d [] 0.

(* ------------------------------------------------------------------ matchTag *)

Definition in_rng (lo hi : byte) (b : byte) : bool :=
  N.leb (bN lo) (bN b) && N.leb (bN b) (bN hi).
(* ASCII letters, digits, '_' and '.' *)
Definition tag_char (b : byte) : bool :=
  in_rng x41 x5a b || in_rng x61 x7a b || in_rng x30 x39 b || beq b x5f || beq b x2e.

(* the letters and digits beyond ASCII that the model knows: the generated table
   [extra_tag_runes] (U+0080..U+024F, from the toolchain's unicode tables) *)
Definition extra_rune_len (d : bytes) : nat :=
  match find (fun e => has_prefix e d) extra_tag_runes with
  | Some e => length e
  | None => 0
  end.
(* `for _, c := range name { if !IsLetter(c) && !IsDigit(c) && c != '_' && c != '.' { return false } }`
   for names whose runes are below U+0250; [skip] = bytes of the current rune still to pass *)
Fixpoint tag_chars_go (d : bytes) (skip : nat) : bool :=
  match d with
  | [] => true
  | b :: r =>
      match skip with
      | S k => tag_chars_go r k
      | 0 =>
          if N.ltb (bN b) 128 then tag_char b && tag_chars_go r 0
          else match extra_rune_len d with
               | 0 => false
               | S n => tag_chars_go r n
               end
      end
  end.
Definition tag_chars (name : bytes) : bool := tag_chars_go name 0.

Definition match_tag (name : bytes) (tags : tagset) (want : bool) : bool :=
  if negb (tag_chars name) then false
  else if tags star && negb (is_nil name) && negb (bytes_eqb name ignore) then true
  else
    let have := tags name in
    let have := if bytes_eqb name linux then have || tags android else have in
    Bool.eqb have want.

(* matchTags without a comma in [name] *)
Definition match_term (name : bytes) (tags : tagset) : bool :=
  if is_nil name then false
  else if has_prefix [BANG; BANG] name then false
  else if has_prefix [BANG] name then Nat.ltb 1 (length name) && match_tag (skipn 1 name) tags false
  else match_tag name tags true.

(* matchTags: name[:i] (before the first comma) has no comma, so the first recursive
   call is a term; [cur] is the reversed text since the previous comma. *)
Fixpoint match_tags_go (tags : tagset) (cur d : bytes) : bool :=
  match d with
  | [] => match_term (rev cur) tags
  | b :: r =>
      if beq b COMMA then match_term (rev cur) tags && match_tags_go tags [] r
      else match_tags_go tags (b :: cur) r
  end.
Definition match_tags (name : bytes) (tags : tagset) : bool :=
  if is_nil name then false else match_tags_go tags [] name.

(* ------------------------------------------------------------------ ShouldBuild *)

(* pass 1: [acc] = lines before [end]; [pend] = lines read since [end] *)
Fixpoint pass1 (acc pend ls : list bytes) : list bytes :=
  match ls with
  | [] => acc
  | l :: r =>
      let t := trim_space l in
      if is_nil t then pass1 (acc ++ pend ++ [l]) [] r
      else if negb (has_prefix slashslash t) then acc
      else pass1 acc (pend ++ [l]) r
  end.

(* pass 2, one line: Some true = no objection *)
Definition line_ok (tags : tagset) (l : bytes) : option bool :=
  let t := trim_space l in
  if negb (has_prefix slashslash t) then Some true
  else
    let t := trim_space (skipn (length slashslash) t) in
    match t with
    | b :: _ =>
        if beq b PLUS then
          match fields t with
          | [] => None (* f[0]: index out of range *)
          | f0 :: args =>
              if bytes_eqb f0 plus_build then Some (existsb (fun tok => match_tags tok tags) args)
              else Some true
          end
        else Some true
    | [] => Some true
    end.

Fixpoint pass2 (tags : tagset) (allok : bool) (ls : list bytes) : option bool :=
  match ls with
  | [] => Some allok
  | l :: r =>
      match line_ok tags l with
      | None => None
      | Some ok => pass2 tags (if ok then allok else false) r
      end
  end.

Definition should_build (content : bytes) (tags : tagset) : option bool :=
  pass2 tags true (pass1 [] [] (go_lines content)).

(* ------------------------------------------------------------------ MatchFile *)

Definition known (tab : list bytes) (x : bytes) : bool := existsb (bytes_eqb x) tab.

Fixpoint take_until (c : byte) (d : bytes) : bytes :=
  match d with
  | [] => []
  | b :: r => if beq b c then [] else b :: take_until c r
  end.
(* name[i:] for i = strings.Index(name, string(c)); None when absent *)
Fixpoint from_first (c : byte) (d : bytes) : option bytes :=
  match d with
  | [] => None
  | b :: r => if beq b c then Some d else from_first c r
  end.

Definition match_file (name : bytes) (tags : tagset) : bool :=
  if tags star then true
  else
    let name := take_until DOT name in
    match from_first US name with
    | None => true
    | Some s =>
        let l := split_on US s in
        let rl := match rev l with
                  | x :: r => if bytes_eqb x test_word then r else x :: r
                  | [] => []
                  end in
        match rl with
        | a :: o :: _ =>
            if known known_os o && known known_arch a then match_tag o tags true && match_tag a tags true
            else if known known_os a then match_tag a tags true
            else if known known_arch a then match_tag a tags true
            else true
        | [a] =>
            if known known_os a then match_tag a tags true
            else if known known_arch a then match_tag a tags true
            else true
        | [] => true
        end
    end.

(* ================================================================== SPECIFICATION
   Written from the property text / Go's documented +build rules, not from the loops. *)

Definition blank (l : bytes) : bool := is_nil (trim_space l).
Definition comment (l : bytes) : bool := has_prefix slashslash (trim_space l).

(* the leading run of // comment lines and blank lines *)
Fixpoint leading_run (ls : list bytes) : list bytes :=
  match ls with
  | l :: r => if blank l || comment l then l :: leading_run r else []
  | [] => []
  end.
(* "which must be followed by a blank line": a line of the run counts only while a blank
   line of the run is still to come (or it is that blank line) *)
Fixpoint followed_by_blank (run : list bytes) : list bytes :=
  match run with
  | l :: r => if existsb blank (l :: r) then l :: followed_by_blank r else []
  | [] => []
  end.
Definition header (content : bytes) : list bytes :=
  followed_by_blank (leading_run (go_lines content)).

(* the words of a // comment line *)
Definition comment_text (l : bytes) : bytes := trim_space (skipn (length slashslash) (trim_space l)).
(* a `// +build` line and its options (the explicit test for a leading '+' is implied by
   the first word being "+build"; it is kept so that the specification does not rest on
   a fact about TrimSpace) *)
Definition build_options (l : bytes) : option (list bytes) :=
  if comment l && has_prefix [PLUS] (comment_text l) then
    match fields (comment_text l) with
    | w :: opts => if bytes_eqb w plus_build then Some opts else None
    | [] => None
    end
  else None.

(* a tag is a non-empty word of letters, digits, '_' and '.' *)
Definition wf_tag (t : bytes) : bool := negb (is_nil t) && tag_chars t.
(* selected by the tag set; android also selects linux *)
Definition selects (tags : tagset) (t : bytes) : bool :=
  tags t || (bytes_eqb t linux && tags android).
(* tags["*"]: every tag except "ignore" is both true and false *)
Definition wild (tags : tagset) (t : bytes) : bool := tags star && negb (bytes_eqb t ignore).

Definition term_ok (tags : tagset) (t : bytes) : bool :=
  match t with
  | b :: r =>
      if beq b BANG then wf_tag r && (wild tags r || negb (selects tags r))
      else wf_tag t && (wild tags t || selects tags t)
  | [] => false
  end.
(* an option is the AND of its comma-separated terms *)
Definition option_ok (tags : tagset) (o : bytes) : bool := forallb (term_ok tags) (split_on COMMA o).
(* a line is the OR of its options; the file needs every line *)
Definition spec_should_build (content : bytes) (tags : tagset) : bool :=
  forallb (fun l => match build_options l with
                    | Some opts => existsb (option_ok tags) opts
                    | None => true
                    end) (header content).

(* the same with tags["*"] set, said directly *)
Definition star_term_ok (tags : tagset) (t : bytes) : bool :=
  match t with
  | b :: r =>
      if beq b BANG then wf_tag r && (negb (bytes_eqb r ignore) || negb (tags ignore))
      else wf_tag t && (negb (bytes_eqb t ignore) || tags ignore)
  | [] => false
  end.

(* ---- file names.  [ends_with_tokens s toks]: s ends in _t1_t2.. where no ti contains '_' *)
Definition join_us (toks : list bytes) : bytes := concat (map (fun t => US :: t) toks).
Definition ends_with_tokens (s : bytes) (toks : list bytes) : Prop :=
  (exists front, s = front ++ join_us toks) /\ Forall (fun t => ~ In US t) toks.
(* the part of the name that is looked at: before the first '.', from the first '_' on,
   without one trailing "_test" *)
Definition strip_test (s : bytes) : bytes :=
  if has_suffix (US :: test_word) s then firstn (length s - length (US :: test_word)) s else s.
Definition name_tail (name s : bytes) : Prop :=
  exists pre rest, take_until DOT name = pre ++ US :: rest /\ ~ In US pre /\ s = strip_test (US :: rest).

Definition rejected (name : bytes) (tags : tagset) : Prop :=
  tags star = false /\
  exists s, name_tail name s /\
    ((exists t, ends_with_tokens s [t] /\ (known known_os t = true \/ known known_arch t = true)
                /\ selects tags t = false)
     \/ (exists os arch, ends_with_tokens s [os; arch] /\ known known_os os = true
                /\ known known_arch arch = true /\ selects tags os = false)).

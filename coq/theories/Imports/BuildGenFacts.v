(* Facts about Imports/BuildGen.v: the pieces the specification looks at are substrings of
   the input; the specification depends on the tag-character test only through its values
   on such substrings; Go's rune-level test and Build.v's [tag_chars] agree on every
   string whose bytes are all below 0xC9. *)
From Coq Require Import List Bool Arith NArith ZArith Lia.
From Coq.Strings Require Import Byte.
From GI Require Import Lib.Bytes Lib.BytesFacts Lib.GoSem Lib.GoSemExt Lib.GoSemExtFacts Lib.GoSemUnicode
  Lib.Utf8 Lib.Utf8Facts Gen.ImportsConsts Imports.Build Imports.BuildFacts Imports.SpaceTables Imports.SpaceFacts
  Imports.BuildGen.
Import ListNotations.
Local Open Scope nat_scope.

(* ------------------------------------------------------------------ *)
(* with P := tag_chars the parametrised specification is Build.v's     *)

Lemma match_tag_g_model name tags want : match_tag_g tag_chars name tags want = match_tag name tags want.
Proof. reflexivity. Qed.
Lemma term_ok_g_model tags t : term_ok_g tag_chars tags t = term_ok tags t.
Proof. reflexivity. Qed.
Lemma option_ok_g_model tags o : option_ok_g tag_chars tags o = option_ok tags o.
Proof. reflexivity. Qed.
Lemma spec_should_build_g_model content tags :
  spec_should_build_g tag_chars content tags = spec_should_build content tags.
Proof. reflexivity. Qed.

(* ------------------------------------------------------------------ *)
(* the pieces are substrings                                           *)

Lemma go_lines_sub d : forall l, In l (go_lines d) -> sub l d.
Proof.
  induction d as [|b r IH]; intros l H; cbn [go_lines] in H; [contradiction|].
  destruct (beq b NL).
  - destruct H as [<-|H]; [exists [], (b :: r); reflexivity|]. apply sub_cons. now apply IH.
  - destruct (go_lines r) as [|l0 ls] eqn:E.
    + destruct H as [<-|[]]. exists [], r. reflexivity.
    + destruct H as [<-|H].
      * destruct (IH l0 (or_introl eq_refl)) as [a [c Hr]].
        (* l0 is the first line of r: it starts r *)
        assert (Ha : exists c', r = l0 ++ c').
        { clear -E. revert l0 ls E. induction r as [|x r IHr]; intros l0 ls E; cbn [go_lines] in E; [discriminate|].
          destruct (beq x NL); [injection E as <- _; now exists (x :: r)|].
          destruct (go_lines r) as [|l1 ls1] eqn:E1.
          - injection E as <- _. destruct r as [|y r']; [now exists []|].
            cbn [go_lines] in E1. destruct (beq y NL); [discriminate|]. destruct (go_lines r'); discriminate.
          - injection E as <- _. destruct (IHr l1 ls1 eq_refl) as [c' ->]. now exists c'. }
        destruct Ha as [c' ->]. exists [], c'. reflexivity.
      * apply sub_cons. apply IH. now right.
Qed.

Lemma split_on_sub c d : forall t, In t (split_on c d) -> sub t d.
Proof.
  induction d as [|b r IH]; intros t H; cbn [split_on] in H.
  - destruct H as [<-|[]]. apply sub_refl.
  - destruct (beq b c).
    + destruct H as [<-|H]; [exists [], (b :: r); reflexivity|]. apply sub_cons. now apply IH.
    + destruct (split_on c r) as [|l0 ls] eqn:E.
      * destruct H as [<-|[]]. exists [], r. reflexivity.
      * destruct H as [<-|H]; [|apply sub_cons; apply IH; now right].
        assert (Ha : exists c', r = l0 ++ c').
        { clear -E. revert l0 ls E. induction r as [|x r IHr]; intros l0 ls E; cbn [split_on] in E.
          - injection E as <- _. now exists [].
          - destruct (beq x c); [injection E as <- _; now exists (x :: r)|].
            destruct (split_on c r) as [|l1 ls1] eqn:E1.
            + now apply split_on_nonnil in E1.
            + injection E as <- _. destruct (IHr l1 ls1 eq_refl) as [c' ->]. now exists c'. }
        destruct Ha as [c' ->]. exists [], c'. reflexivity.
Qed.

Lemma fsplit_sub d fs : fsplit d fs -> forall f, In f fs -> sub f d.
Proof.
  induction 1 as [|r d fs Hr Hs IH|f0 d fs Hne Hfree Hend Hs IH]; intros f Hin.
  - contradiction.
  - apply sub_app_l. now apply IH.
  - destruct Hin as [<-|Hin]; [exists [], d; reflexivity|]. apply sub_app_l. now apply IH.
Qed.

Lemma fields_sub d f : In f (fields d) -> sub f d.
Proof. apply (fsplit_sub d (fields d) (fields_spec d)). Qed.

Lemma leading_run_In ls l : In l (leading_run ls) -> In l ls.
Proof.
  induction ls as [|x r IH]; cbn [leading_run]; [tauto|]. destruct (blank x || comment x); [|contradiction].
  intros [<-|H]; [now left|right; now apply IH].
Qed.

Lemma followed_by_blank_In run l : In l (followed_by_blank run) -> In l run.
Proof.
  induction run as [|x r IH]; cbn [followed_by_blank]; [tauto|]. destruct (existsb blank (x :: r)); [|contradiction].
  intros [<-|H]; [now left|right; now apply IH].
Qed.

Lemma header_sub content l : In l (header content) -> sub l content.
Proof.
  intros H. apply go_lines_sub. apply leading_run_In. now apply followed_by_blank_In.
Qed.

Lemma comment_text_sub l : sub (comment_text l) l.
Proof.
  unfold comment_text. eapply sub_trans; [apply sub_trim_space|]. eapply sub_trans; [apply sub_skipn|apply sub_trim_space].
Qed.

Lemma build_options_sub l opts o : build_options l = Some opts -> In o opts -> sub o l.
Proof.
  unfold build_options. destruct (comment l && has_prefix [PLUS] (comment_text l)); [|discriminate].
  destruct (fields (comment_text l)) as [|w os] eqn:E; [discriminate|].
  destruct (bytes_eqb w plus_build); [|discriminate]. intros [= <-] Hin.
  eapply sub_trans; [|apply comment_text_sub]. apply fields_sub. rewrite E. now right.
Qed.

(* ------------------------------------------------------------------ *)
(* the specification looks at P only on substrings                     *)

Lemma forallb_ext_in {A} (f g : A -> bool) l : (forall x, In x l -> f x = g x) -> forallb f l = forallb g l.
Proof.
  induction l as [|x l IH]; intros H; [reflexivity|]. cbn [forallb].
  rewrite (H x (or_introl eq_refl)), IH; [reflexivity|]. intros y Hy. apply H. now right.
Qed.
Lemma existsb_ext_in {A} (f g : A -> bool) l : (forall x, In x l -> f x = g x) -> existsb f l = existsb g l.
Proof.
  induction l as [|x l IH]; intros H; [reflexivity|]. cbn [existsb].
  rewrite (H x (or_introl eq_refl)), IH; [reflexivity|]. intros y Hy. apply H. now right.
Qed.

Section Ext.
Variables P Q : bytes -> bool.

Lemma term_ok_g_ext tags t : (forall x, sub x t -> P x = Q x) -> term_ok_g P tags t = term_ok_g Q tags t.
Proof.
  intros H. destruct t as [|b r]; [reflexivity|]. unfold term_ok_g, wf_tag_g.
  rewrite (H r (sub_tail b r)), (H (b :: r) (sub_refl _)). reflexivity.
Qed.

Lemma option_ok_g_ext tags o : (forall x, sub x o -> P x = Q x) -> option_ok_g P tags o = option_ok_g Q tags o.
Proof.
  intros H. unfold option_ok_g. apply forallb_ext_in. intros t Ht. apply term_ok_g_ext.
  intros x Hx. apply H. eapply sub_trans; [exact Hx|]. now apply (split_on_sub COMMA o).
Qed.

Lemma line_spec_g_ext tags l : (forall x, sub x l -> P x = Q x) -> line_spec_g P tags l = line_spec_g Q tags l.
Proof.
  intros H. unfold line_spec_g. destruct (build_options l) as [opts|] eqn:E; [|reflexivity].
  apply existsb_ext_in. intros o Ho. apply option_ok_g_ext. intros x Hx. apply H.
  eapply sub_trans; [exact Hx|]. now apply (build_options_sub l opts o).
Qed.

Lemma spec_should_build_g_ext content tags : (forall x, sub x content -> P x = Q x) ->
  spec_should_build_g P content tags = spec_should_build_g Q content tags.
Proof.
  intros H. unfold spec_should_build_g. apply forallb_ext_in. intros l Hl. apply line_spec_g_ext.
  intros x Hx. apply H. eapply sub_trans; [exact Hx|]. now apply header_sub.
Qed.
End Ext.

(* The specification of Build.v with the tag-character test as a parameter, and that
   parameter instantiated with Go's own test at rune level.  Definitions only.

   Build.v's model knows the letters and digits below U+0250 (ASCII by range, the rest
   through a generated table): [tag_chars].  The Go code asks unicode.IsLetter /
   unicode.IsDigit about every rune that `range name` decodes; [unicode_tag_chars] is that
   test, with the rune decoder of Lib/Utf8.v (GoSemExt.go_runes) and the regenerated
   range tables of the toolchain's unicode package (GoSemUnicode).  The specification
   below is Build.v's, word for word, with [P] in place of [tag_chars]; with
   P := tag_chars every definition here is convertible with Build.v's. *)
From Coq Require Import List Bool Arith NArith ZArith.
From Coq.Strings Require Import Byte.
From GI Require Import Lib.Bytes Lib.GoSem Lib.GoSemExt Lib.GoSemUnicode Gen.ImportsConsts Imports.Build.
Import ListNotations.

Section Gen.
Variable P : bytes -> bool.

(* matchTag *)
Definition match_tag_g (name : bytes) (tags : tagset) (want : bool) : bool :=
  if negb (P name) then false
  else if tags star && negb (is_nil name) && negb (bytes_eqb name ignore) then true
  else
    let have := tags name in
    let have := if bytes_eqb name linux then have || tags android else have in
    Bool.eqb have want.

Definition wf_tag_g (t : bytes) : bool := negb (is_nil t) && P t.

Definition term_ok_g (tags : tagset) (t : bytes) : bool :=
  match t with
  | b :: r =>
      if beq b BANG then wf_tag_g r && (wild tags r || negb (selects tags r))
      else wf_tag_g t && (wild tags t || selects tags t)
  | [] => false
  end.

Definition option_ok_g (tags : tagset) (o : bytes) : bool := forallb (term_ok_g tags) (split_on COMMA o).

Definition line_spec_g (tags : tagset) (l : bytes) : bool :=
  match build_options l with
  | Some opts => existsb (option_ok_g tags) opts
  | None => true
  end.

Definition spec_should_build_g (content : bytes) (tags : tagset) : bool :=
  forallb (line_spec_g tags) (header content).
End Gen.

(* `!unicode.IsLetter(c) && !unicode.IsDigit(c) && c != '_' && c != '.'` is false *)
Definition tag_rune (c : Z) : bool :=
  go_unicode_IsLetter c || go_unicode_IsDigit c || (c =? 95)%Z || (c =? 46)%Z.

(* `for _, c := range name { if <not a tag rune> { return false } }` falls through *)
Definition unicode_tag_chars (name : bytes) : bool :=
  forallb (fun ic => tag_rune (snd ic)) (go_runes name).

(* every byte is below 0xC9: every rune the decoder finds is below U+0240, inside the range
   on which Build.v's [tag_chars] knows the letters and digits *)
Definition below_c9 (d : bytes) : Prop := Forall (fun b => (bN b < 201)%N) d.

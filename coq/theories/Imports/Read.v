(* Executable model of /repo/imports/read.go (importReader, ReadImports, ReadComments),
   CORRECTED behaviour: a leading UTF-8 byte-order mark is discarded before reading
   (newImportReader of the Go distribution).  Definitions only.

   The reader is a pure state; every Go method is a function on states, primitive by
   primitive.  Modelling decisions (tied to the code by the correspondence run only):
   * the bufio.Reader over the input is [rest]; the only I/O error is io.EOF;
   * [rbuf] is r.buf REVERSED (the last byte read is its head);
   * Go loops are [loop]s with the master fuel [F] (a function of the input length, see
     [fuel_for]); running out of fuel sets [fail := FFuel], the "import reader looping"
     panic sets [fail := FPanic]; both are sticky and reported by [read_imports] as
     explicit results.  Theorems show neither can happen. *)
From Coq Require Import List Bool Arith NArith.
From Coq.Strings Require Import Byte.
From GI Require Import Lib.Bytes.
Import ListNotations.

Inductive errk := ENone | ESyntax | ENUL.
Inductive failk := FNone | FPanic | FFuel.

Record st := mkst {
  rest : bytes;   (* unread input *)
  rbuf : bytes;   (* r.buf, reversed *)
  peek : byte;    (* r.peek *)
  eof : bool;     (* r.eof *)
  err : errk;     (* r.err *)
  nerr : N;       (* r.nerr *)
  fail : failk;   (* Go panic / model fuel, sticky *)
  imps : list bytes (* *imports, in order *)
}.

Definition set_rest_buf (s : st) (r b : bytes) : st :=
  mkst r b (peek s) (eof s) (err s) (nerr s) (fail s) (imps s).
Definition set_peek (s : st) (p : byte) : st :=
  mkst (rest s) (rbuf s) p (eof s) (err s) (nerr s) (fail s) (imps s).
Definition set_eof (s : st) : st :=
  mkst (rest s) (rbuf s) (peek s) true (err s) (nerr s) (fail s) (imps s).
Definition set_err (s : st) (e : errk) : st :=
  mkst (rest s) (rbuf s) (peek s) (eof s) e (nerr s) (fail s) (imps s).
Definition set_nerr (s : st) (n : N) : st :=
  mkst (rest s) (rbuf s) (peek s) (eof s) (err s) n (fail s) (imps s).
Definition set_fail (s : st) (f : failk) : st :=
  mkst (rest s) (rbuf s) (peek s) (eof s) (err s) (nerr s)
       (match fail s with FNone => f | x => x end) (imps s).
Definition add_imp (s : st) (p : bytes) : st :=
  mkst (rest s) (rbuf s) (peek s) (eof s) (err s) (nerr s) (fail s) (imps s ++ [p]).

Definition no_err (s : st) : bool := match err s with ENone => true | _ => false end.

Definition NUL : byte := x00.
Definition SLASH : byte := x2f.
Definition STAR : byte := x2a.
Definition BQUOTE : byte := x60.
Definition DQUOTE : byte := x22.
Definition BSLASH : byte := x5c.
Definition LPAREN : byte := x28.
Definition RPAREN : byte := x29.
Definition DOTB : byte := x2e.
Definition LOWER_I : byte := x69.
Definition looping_limit : N := 10000.
Definition bom : bytes := [xef; xbb; xbf].
Definition kw_package : bytes := [x70; x61; x63; x6b; x61; x67; x65].
Definition kw_import : bytes := [x69; x6d; x70; x6f; x72; x74].

(* isIdent *)
Definition is_ident (c : byte) : bool :=
  let n := bN c in
  (N.leb 65 n && N.leb n 90) || (N.leb 97 n && N.leb n 122) || (N.leb 48 n && N.leb n 57)
  || N.eqb n 95 || N.leb 128 n.

(* ' ', '\f', '\t', '\r', '\n', ';' *)
Definition is_spacec (c : byte) : bool :=
  match c with
  | x20 | x0c | x09 | x0d | x0a | x3b => true
  | _ => false
  end.

(* a Go `for cond { body }` whose condition may have effects: [step] evaluates the
   condition and, if it holds, the body; the boolean says whether to go round again *)
Fixpoint loop {A} (fuel : nat) (oof : A -> A) (step : A -> A * bool) (a : A) : A :=
  match fuel with
  | 0 => oof a
  | S f => let (a', again) := step a in if again then loop f oof step a' else a'
  end.

(* syntaxError *)
Definition syntax_error (s : st) : st := if no_err s then set_err s ESyntax else s.

(* readByte *)
Definition read_byte (s : st) : byte * st :=
  match rest s with
  | [] => (NUL, set_eof s)
  | c :: r =>
      let s1 := set_rest_buf s r (c :: rbuf s) in
      if beq c NUL then (NUL, if no_err s1 then set_err s1 ENUL else s1) else (c, s1)
  end.

Section WithFuel.
Variable F : nat.

Definition oof1 (cs : byte * st) : byte * st := (fst cs, set_fail (snd cs) FFuel).
Definition oof2 (cs : byte * byte * st) : byte * byte * st := (fst cs, set_fail (snd cs) FFuel).

(* for c != '\n' && r.err == nil && !r.eof { c = r.readByte() } *)
Definition line_comment (c : byte) (s : st) : byte * st :=
  loop F oof1
    (fun cs => let '(c, s) := cs in
       if negb (beq c NL) && no_err s && negb (eof s) then (read_byte s, true) else (cs, false))
    (c, s).

(* for (c != '*' || c1 != '/') && r.err == nil { if r.eof { r.syntaxError() }; c, c1 = c1, r.readByte() } *)
Definition block_comment (c c1 : byte) (s : st) : byte * byte * st :=
  loop F oof2
    (fun x => let '(c, c1, s) := x in
       if (negb (beq c STAR) || negb (beq c1 SLASH)) && no_err s then
         let s := if eof s then syntax_error s else s in
         let (b, s) := read_byte s in ((c1, b, s), true)
       else (x, false))
    (c, c1, s).

(* peekByte *)
Definition peek_byte (skip : bool) (s : st) : byte * st :=
  if negb (no_err s) then
    let n := N.succ (nerr s) in
    let s := set_nerr s n in
    (NUL, if N.ltb looping_limit n then set_fail s FPanic else s)
  else
    let (c, s) := if beq (peek s) NUL then read_byte s else (peek s, s) in
    let (c, s) :=
      loop F oof1
        (fun cs => let '(c, s) := cs in
           if no_err s && negb (eof s) && skip then
             if is_spacec c then (read_byte s, true)
             else if beq c SLASH then
               let (c, s) := read_byte s in
               let s :=
                 if beq c SLASH then snd (line_comment c s)
                 else if beq c STAR then snd (block_comment c NUL s)
                 else syntax_error s in
               (read_byte s, true)
             else (cs, false)
           else (cs, false))
        (c, s) in
    (c, set_peek s c).

(* nextByte *)
Definition next_byte (skip : bool) (s : st) : byte * st :=
  let (c, s) := peek_byte skip s in (c, set_peek s NUL).

(* readKeyword: the `for i := range len(kw)` loop is the recursion over [kw] *)
Fixpoint keyword_chars (kw : bytes) (s : st) : st * bool :=
  match kw with
  | [] => (s, true)
  | k :: kw' =>
      let (c, s) := next_byte false s in
      if negb (beq c k) then (syntax_error s, false) else keyword_chars kw' s
  end.
Definition read_keyword (kw : bytes) (s : st) : st :=
  let (_, s) := peek_byte true s in
  let (s, ok) := keyword_chars kw s in
  if ok then
    let (c, s) := peek_byte false s in
    if is_ident c then syntax_error s else s
  else s.

(* readIdent *)
Definition read_ident (s : st) : st :=
  let (c, s) := peek_byte true s in
  if negb (is_ident c) then syntax_error s
  else
    loop F (fun s => set_fail s FFuel)
      (fun s => let (c, s) := peek_byte false s in
                if is_ident c then (set_peek s NUL, true) else (s, false))
      s.

(* string(r.buf[start:]) *)
Definition buf_from (s : st) (start : nat) : bytes := skipn start (rev (rbuf s)).

(* readString; [save] = (save != nil) *)
Definition read_string (save : bool) (s : st) : st :=
  let (q, s) := next_byte true s in
  if beq q BQUOTE then
    let start := length (rbuf s) - 1 in
    loop F (fun s => set_fail s FFuel)
      (fun s =>
         if no_err s then
           let (c, s) := next_byte false s in
           if beq c BQUOTE then ((if save then add_imp s (buf_from s start) else s), false)
           else ((if eof s then syntax_error s else s), true)
         else (s, false))
      s
  else if beq q DQUOTE then
    let start := length (rbuf s) - 1 in
    loop F (fun s => set_fail s FFuel)
      (fun s =>
         if no_err s then
           let (c, s) := next_byte false s in
           if beq c DQUOTE then ((if save then add_imp s (buf_from s start) else s), false)
           else
             let s := if eof s || beq c NL then syntax_error s else s in
             let s := if beq c BSLASH then snd (next_byte false s) else s in
             (s, true)
         else (s, false))
      s
  else syntax_error s.

(* readImport *)
Definition read_import (s : st) : st :=
  let (c, s) := peek_byte true s in
  let s := if beq c DOTB then set_peek s NUL
           else if is_ident c then read_ident s
           else s in
  read_string true s.

(* `import ( ... )` once '(' has been peeked *)
Definition import_group (s : st) : st :=
  let (_, s) := next_byte false s in
  let s :=
    loop F (fun s => set_fail s FFuel)
      (fun s => let (c, s) := peek_byte true s in
                if negb (beq c RPAREN) && no_err s then (read_import s, true) else (s, false))
      s in
  snd (next_byte false s).

(* the body of the `for r.peekByte(true) == 'i'` loop *)
Definition import_decl (s : st) : st :=
  let s := read_keyword kw_import s in
  let (c, s) := peek_byte true s in
  if beq c LPAREN then import_group s else read_import s.

(* the body of ReadImports up to the final bookkeeping *)
Definition scan_imports (s : st) : st :=
  let s := read_keyword kw_package s in
  let s := read_ident s in
  loop F (fun s => set_fail s FFuel)
    (fun s =>
       let (c, s) := peek_byte true s in
       if beq c LOWER_I then (import_decl s, true) else (s, false))
    s.

(* the final part of ReadImports: the state after it, the bytes and the error returned.
   r.buf[:len(r.buf)-1] panics on an empty buffer: modelled as [FPanic]. *)
Definition finish_imports (report : bool) (s : st) : st * bytes * errk :=
  if no_err s && negb (eof s) then
    match rbuf s with
    | [] => (set_fail s FPanic, [], ENone)
    | _ :: b => (s, rev b, ENone)
    end
  else
    let s :=
      match err s with
      | ESyntax =>
          if negb report then
            (* r.err = nil; for r.err == nil && !r.eof { r.readByte() } *)
            loop F (fun s => set_fail s FFuel)
              (fun s => if no_err s && negb (eof s) then (snd (read_byte s), true) else (s, false))
              (set_err s ENone)
          else s
      | _ => s
      end in
    (s, rev (rbuf s), err s).

End WithFuel.

(* newImportReader (corrected code): b.Peek(3) succeeded and equals the BOM => Discard(3) *)
Definition strip_bom (input : bytes) : bytes :=
  if has_prefix bom input then skipn (length bom) input else input.

Definition init_st (input : bytes) : st := mkst input [] NUL false ENone 0%N FNone [].

(* every loop iteration consumes a byte, sets eof, sets an error or clears peek: a small
   multiple of the input length is enough *)
Definition fuel_for (input : bytes) : nat := 2 * length input + 8.

Inductive result :=
| ROk (imports : list bytes) (out : bytes) (e : errk)   (* e = ENone: nil error *)
| RPanic
| RFuel.

Definition read_imports (report : bool) (input : bytes) : result :=
  let input := strip_bom input in
  let F := fuel_for input in
  let s := scan_imports F (init_st input) in
  let '(s', out, e) := finish_imports F report s in
  match fail s' with
  | FPanic => RPanic
  | FFuel => RFuel
  | FNone => ROk (imps s') out e
  end.

(* ReadComments *)
Definition read_comments (input : bytes) : result :=
  let input := strip_bom input in
  let F := fuel_for input in
  let (_, s) := peek_byte F true (init_st input) in
  match fail s with
  | FPanic => RPanic
  | FFuel => RFuel
  | FNone =>
      if no_err s && negb (eof s) then
        match rbuf s with
        | [] => RPanic
        | _ :: b => ROk [] (rev b) ENone
        end
      else ROk [] (rev (rbuf s)) (err s)
  end.

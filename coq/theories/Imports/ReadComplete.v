(* Completeness of the ReadImports model on the grammar G of ReadGrammar.v:
   read_imports (render g ++ rest) = the path literals of g, in order, and render g
   (byte-order mark aside) as the returned prefix, with a nil error. *)
From Coq Require Import List Bool Arith NArith Lia.
From Coq.Strings Require Import Byte.
From GI Require Import Lib.Bytes Lib.BytesFacts Imports.Read Imports.ReadFacts Imports.ReadGrammar.
Import ListNotations.

(* error-free reader states: before and after the end of the input was seen *)
Definition cst (r d : bytes) (p : byte) (i : list bytes) : st := mkst r d p false ENone 0%N FNone i.
Definition est (d : bytes) (p : byte) (i : list bytes) : st := mkst [] d p true ENone 0%N FNone i.

Lemma read_byte_cons c r d p i : c <> NUL -> read_byte (cst (c :: r) d p i) = (c, cst r (c :: d) p i).
Proof. intros H. unfold read_byte, cst. cbn. apply beq_false in H. rewrite H. reflexivity. Qed.
Lemma read_byte_nil d p i : read_byte (cst [] d p i) = (NUL, est d p i).
Proof. reflexivity. Qed.
Lemma read_byte_est d p i : read_byte (est d p i) = (NUL, est d p i).
Proof. reflexivity. Qed.

Lemma no_byte_cons c b d : no_byte c (b :: d) = true -> b <> c /\ no_byte c d = true.
Proof.
  unfold no_byte. cbn [forallb]. intros H. apply andb_true_iff in H. destruct H as [H1 H2].
  split; [|exact H2]. apply negb_true_iff in H1. now apply beq_neq.
Qed.

Ltac lens := cbn [length] in *; repeat (rewrite app_length in *; cbn [length] in *); lia.
Ltac appnorm := repeat first [rewrite <- app_assoc | progress (cbn [app])].
Ltac listnorm := repeat first [rewrite rev_app_distr | rewrite <- app_assoc | progress (cbn [rev app])].

(* ------------------------------------------------------------------ *)
(* comments                                                            *)

Definition line_step (cs : byte * st) : (byte * st) * bool :=
  let '(c, s) := cs in
  if negb (beq c NL) && no_err s && negb (eof s) then (read_byte s, true) else (cs, false).

Lemma line_comment_eq F c s : line_comment F c s = loop F oof1 line_step (c, s).
Proof. reflexivity. Qed.

Lemma line_loop_ok p i body : forall c r d f,
  no_byte NL body = true -> no_byte NUL body = true -> c <> NL -> length body + 2 <= f ->
  loop f oof1 line_step (c, cst (body ++ NL :: r) d p i) = (NL, cst r (NL :: rev body ++ d) p i).
Proof.
  induction body as [|b body IH]; intros c r d f Hnl Hnul Hc Hf.
  - destruct f as [|[|f]]; try (cbn in Hf; lia). cbn [loop app].
    unfold line_step at 1. apply beq_false in Hc. rewrite Hc. cbn [negb andb no_err eof err cst].
    rewrite read_byte_cons by discriminate.
    unfold line_step. rewrite beq_refl. reflexivity.
  - destruct (no_byte_cons _ _ _ Hnl) as [Hb1 Hnl']. destruct (no_byte_cons _ _ _ Hnul) as [Hb2 Hnul'].
    destruct f as [|f]; [cbn in Hf; lia|]. cbn [loop app].
    unfold line_step at 1. apply beq_false in Hc. rewrite Hc. cbn [negb andb no_err eof err cst].
    rewrite read_byte_cons by exact Hb2.
    rewrite IH; auto; [|cbn [length] in Hf; lia].
    cbn [rev]. now rewrite <- app_assoc.
Qed.

Definition block_step (x : byte * byte * st) : (byte * byte * st) * bool :=
  let '(c, c1, s) := x in
  if (negb (beq c STAR) || negb (beq c1 SLASH)) && no_err s then
    let s := if eof s then syntax_error s else s in
    let (b, s) := read_byte s in ((c1, b, s), true)
  else (x, false).

Lemma block_comment_eq F c c1 s : block_comment F c c1 s = loop F oof2 block_step (c, c1, s).
Proof. reflexivity. Qed.

Lemma block_loop_ok p i body : forall c c1 r d f,
  no_star_slash c1 body = true -> no_byte NUL body = true ->
  negb (beq c STAR) || negb (beq c1 SLASH) = true -> length body + 3 <= f ->
  loop f oof2 block_step (c, c1, cst (body ++ STAR :: SLASH :: r) d p i)
  = (STAR, SLASH, cst r (SLASH :: STAR :: rev body ++ d) p i).
Proof.
  induction body as [|b body IH]; intros c c1 r d f Hss Hnul Hc Hf.
  - destruct f as [|[|[|f]]]; try (cbn in Hf; lia). cbn [loop app].
    unfold block_step at 1. rewrite Hc. cbn [andb no_err eof err cst].
    rewrite read_byte_cons by discriminate.
    unfold block_step at 1. replace (negb (beq c1 STAR) || negb (beq STAR SLASH)) with true
      by (cbn; now rewrite orb_true_r).
    cbn [andb no_err eof err cst]. rewrite read_byte_cons by discriminate.
    unfold block_step. rewrite !beq_refl. reflexivity.
  - destruct (no_byte_cons _ _ _ Hnul) as [Hb2 Hnul'].
    cbn [no_star_slash] in Hss. apply andb_true_iff in Hss. destruct Hss as [Hs1 Hs2].
    destruct f as [|f]; [cbn in Hf; lia|]. cbn [loop app].
    unfold block_step at 1. rewrite Hc. cbn [andb no_err eof err cst].
    rewrite read_byte_cons by exact Hb2.
    rewrite IH; auto.
    + cbn [rev]. now rewrite <- app_assoc.
    + rewrite negb_andb in Hs1. exact Hs1.
    + cbn [length] in Hf. lia.
Qed.

(* ------------------------------------------------------------------ *)
(* the peek loop                                                       *)

Definition peek_step (F : nat) (skip : bool) (cs : byte * st) : (byte * st) * bool :=
  let '(c, s) := cs in
  if no_err s && negb (eof s) && skip then
    if is_spacec c then (read_byte s, true)
    else if beq c SLASH then
      let (c, s) := read_byte s in
      let s :=
        if beq c SLASH then snd (line_comment F c s)
        else if beq c STAR then snd (block_comment F c NUL s)
        else syntax_error s in
      (read_byte s, true)
    else (cs, false)
  else (cs, false).

Lemma peek_byte_eq F skip s :
  peek_byte F skip s =
  if negb (no_err s) then
    let n := N.succ (nerr s) in
    let s := set_nerr s n in
    (NUL, if N.ltb looping_limit n then set_fail s FPanic else s)
  else
    let (c, s) := if beq (peek s) NUL then read_byte s else (peek s, s) in
    let (c, s) := loop F oof1 (peek_step F skip) (c, s) in
    (c, set_peek s c).
Proof. reflexivity. Qed.

(* what may come after trivia: the end of the input, or a byte that does not start trivia *)
Definition after_triv (Y : bytes) : bool :=
  match Y with
  | [] => true
  | y :: _ => negb (is_spacec y) && negb (beq y SLASH) && negb (beq y NUL)
  end.

(* the byte in hand and the state once [Y] is what remains *)
Definition arrive (Y dd : bytes) (p : byte) (i : list bytes) : byte * st :=
  match Y with
  | y :: Y' => (y, cst Y' (y :: dd) p i)
  | [] => (NUL, est dd p i)
  end.

Lemma is_spacec_nonzero b : is_spacec b = true -> b <> NUL.
Proof. intros H ->. discriminate. Qed.

Lemma render_trivia_cons t ts : render_trivia (t :: ts) = render_triv t ++ render_trivia ts.
Proof. reflexivity. Qed.

Lemma peek_loop_ok F p i Y : after_triv Y = true -> forall ts dd f, wf_trivia ts = true ->
  length (render_trivia ts ++ Y) + 2 <= f -> length (render_trivia ts ++ Y) + 4 <= F ->
  loop f oof1 (peek_step F true) (read_byte (cst (render_trivia ts ++ Y) dd p i))
  = arrive Y (rev (render_trivia ts) ++ dd) p i.
Proof.
  intros HY. induction ts as [|t ts IH]; intros dd f Hwf Hf HF.
  - cbn [render_trivia map concat app rev] in *. destruct Y as [|y Y'].
    + rewrite read_byte_nil. destruct f as [|f]; [cbn in Hf; lia|]. reflexivity.
    + cbn [after_triv] in HY. apply andb_true_iff in HY. destruct HY as [HY Hy3].
      apply andb_true_iff in HY. destruct HY as [Hy1 Hy2].
      apply negb_true_iff in Hy1, Hy2, Hy3.
      rewrite read_byte_cons by (now apply beq_neq).
      destruct f as [|f]; [cbn in Hf; lia|]. cbn [loop]. unfold peek_step.
      cbn [no_err eof err cst negb andb]. rewrite Hy1, Hy2. reflexivity.
  - cbn [wf_trivia forallb] in Hwf. apply andb_true_iff in Hwf. destruct Hwf as [Hwt Hwf].
    rewrite render_trivia_cons in *. rewrite <- app_assoc in *.
    destruct f as [|f]; [cbn in Hf; lia|].
    destruct t as [b|body|body]; cbn [render_triv wf_triv] in *.
    + (* a blank *)
      cbn [app] in *. rewrite read_byte_cons by (now apply is_spacec_nonzero).
      cbn [loop]. unfold peek_step at 1. cbn [no_err eof err cst negb andb]. rewrite Hwt.
      rewrite IH; auto; [|cbn [length] in *; lia|cbn [length] in *; lia].
      cbn [rev]. now rewrite <- !app_assoc.
    + (* a line comment *)
      apply andb_true_iff in Hwt. destruct Hwt as [Hnl Hnul].
      cbn [app] in *. rewrite <- app_assoc in *. cbn [app] in *.
      rewrite read_byte_cons by discriminate.
      cbn [loop]. unfold peek_step at 1. cbn [no_err eof err cst negb andb].
      change (is_spacec SLASH) with false. rewrite beq_refl. cbv iota.
      rewrite read_byte_cons by discriminate. rewrite beq_refl.
      rewrite line_comment_eq, line_loop_ok; auto; try discriminate.
      2:{ lens. }
      cbn [snd]. rewrite IH; auto.
      * f_equal. listnorm. reflexivity.
      * lens.
      * lens.
    + (* a block comment *)
      apply andb_true_iff in Hwt. destruct Hwt as [Hss Hnul].
      cbn [app] in *. rewrite <- app_assoc in *. cbn [app] in *.
      rewrite read_byte_cons by discriminate.
      cbn [loop]. unfold peek_step at 1. cbn [no_err eof err cst negb andb].
      change (is_spacec SLASH) with false. rewrite beq_refl. cbv iota.
      rewrite read_byte_cons by discriminate.
      change (beq STAR SLASH) with false. rewrite beq_refl. cbv iota.
      rewrite block_comment_eq, block_loop_ok; auto.
      2:{ lens. }
      cbn [snd]. rewrite IH; auto.
      * f_equal. listnorm. reflexivity.
      * lens.
      * lens.
Qed.

(* ------------------------------------------------------------------ *)
(* logical position of an error-free reader                            *)

(* [at_ i dn lg s]: s is error-free, has collected the imports i, has logically consumed
   [rev dn] and has [lg] still to come (its first byte possibly already in r.peek) *)
Inductive at_ (i : list bytes) (dn lg : bytes) : st -> Prop :=
| at_fresh : at_ i dn lg (cst lg dn NUL i)
| at_peek p r : p <> NUL -> lg = p :: r -> at_ i dn lg (cst r (p :: dn) p i)
| at_eof : lg = [] -> at_ i dn lg (est dn NUL i).

(* the state after peekByte *)
Definition landed (i : list bytes) (dn lg : bytes) : st :=
  match lg with
  | y :: Y' => cst Y' (y :: dn) y i
  | [] => est dn NUL i
  end.

Definition hd_ok (lg : bytes) : Prop := match lg with [] => True | y :: _ => y <> NUL end.

Lemma landed_at i dn lg : hd_ok lg -> at_ i dn lg (landed i dn lg).
Proof. destruct lg as [|y Y']; intros H; [now apply at_eof|now apply (at_peek i dn (y :: Y') y Y')]. Qed.

Lemma after_triv_hd_ok Y : after_triv Y = true -> hd_ok Y.
Proof.
  destruct Y as [|y Y']; [intros _; exact I|]. cbn [after_triv hd_ok]. intros H.
  apply andb_true_iff in H. destruct H as [_ H]. apply negb_true_iff in H. now apply beq_neq.
Qed.

Lemma app_nil_inv {A} (a b : list A) : a ++ b = [] -> a = [] /\ b = [].
Proof. destruct a; [now split|discriminate]. Qed.

Lemma peek_true_at F i dn ts Y s :
  at_ i dn (render_trivia ts ++ Y) s -> wf_trivia ts = true -> after_triv Y = true ->
  length (render_trivia ts ++ Y) + 4 <= F ->
  peek_byte F true s = (hd NUL Y, landed i (rev (render_trivia ts) ++ dn) Y).
Proof.
  intros Hat Hwf HY HF. rewrite peek_byte_eq. destruct Hat as [|p r Hp Hlg|Hlg].
  - cbn [no_err err cst negb peek]. rewrite beq_refl.
    destruct (read_byte (cst (render_trivia ts ++ Y) dn NUL i)) as [c0 s0] eqn:Er.
    rewrite <- Er, (peek_loop_ok F NUL i Y HY ts dn F Hwf); [|lia|exact HF].
    destruct Y; reflexivity.
  - cbn [no_err err cst negb peek]. apply beq_false in Hp. rewrite Hp.
    rewrite <- (read_byte_cons p r dn p i) by (now apply beq_neq). rewrite <- Hlg.
    rewrite (peek_loop_ok F p i Y HY ts dn F Hwf); [|lia|exact HF].
    destruct Y; reflexivity.
  - destruct (app_nil_inv _ _ Hlg) as [Ht ->]. rewrite Ht. cbn [rev app hd landed].
    cbn [no_err err est negb peek]. rewrite beq_refl, read_byte_est.
    destruct F as [|f]; [lia|]. reflexivity.
Qed.

Lemma peek_false_at F i dn lg s :
  at_ i dn lg s -> hd_ok lg -> 1 <= F ->
  peek_byte F false s = (hd NUL lg, landed i dn lg).
Proof.
  intros Hat Hok HF. rewrite peek_byte_eq. destruct F as [|f]; [lia|].
  destruct Hat as [|p r Hp Hlg|Hlg].
  - cbn [no_err err cst negb peek]. rewrite beq_refl. destruct lg as [|c r].
    + rewrite read_byte_nil. reflexivity.
    + cbn in Hok. rewrite read_byte_cons by exact Hok. cbn [loop]. unfold peek_step.
      cbn [no_err eof err cst negb andb]. reflexivity.
  - subst lg. cbn [no_err err cst negb peek]. apply beq_false in Hp. rewrite Hp.
    cbn [loop]. unfold peek_step. cbn [no_err eof err cst negb andb]. reflexivity.
  - subst lg. reflexivity.
Qed.

(* nextByte(false) takes exactly the next byte *)
Lemma next_false_at F i dn c r s :
  at_ i dn (c :: r) s -> c <> NUL -> 1 <= F ->
  next_byte F false s = (c, cst r (c :: dn) NUL i).
Proof.
  intros Hat Hc HF. unfold next_byte. rewrite (peek_false_at F i dn (c :: r) s Hat Hc HF). reflexivity.
Qed.

(* nextByte(true) skips trivia and takes the byte after it *)
Lemma next_true_at F i dn ts c r s :
  at_ i dn (render_trivia ts ++ c :: r) s -> wf_trivia ts = true -> after_triv (c :: r) = true ->
  length (render_trivia ts ++ c :: r) + 4 <= F ->
  next_byte F true s = (c, cst r (c :: rev (render_trivia ts) ++ dn) NUL i).
Proof.
  intros Hat Hwf HY HF. unfold next_byte. rewrite (peek_true_at F i dn ts (c :: r) s Hat Hwf HY HF). reflexivity.
Qed.

(* ------------------------------------------------------------------ *)
(* keywords and identifiers                                            *)

Section Tokens.
Variable F : nat.
Variable i : list bytes.

Lemma after_word_hd_ok Y : after_word Y = true -> hd_ok Y.
Proof.
  destruct Y as [|y Y']; [intros _; exact I|]. cbn [after_word hd_ok]. intros H.
  apply andb_true_iff in H. destruct H as [_ H]. apply negb_true_iff in H. now apply beq_neq.
Qed.

Lemma after_word_not_ident Y : after_word Y = true -> is_ident (hd NUL Y) = false.
Proof.
  destruct Y as [|y Y']; [reflexivity|]. cbn [after_word hd]. intros H.
  apply andb_true_iff in H. destruct H as [H _]. now apply negb_true_iff in H.
Qed.

Lemma keyword_chars_at kw : forall dn Y s,
  at_ i dn (kw ++ Y) s -> no_byte NUL kw = true -> 1 <= F ->
  exists s', keyword_chars F kw s = (s', true) /\ at_ i (rev kw ++ dn) Y s'.
Proof.
  induction kw as [|k kw IH]; intros dn Y s Hat Hnz HF.
  - exists s. split; [reflexivity|exact Hat].
  - destruct (no_byte_cons _ _ _ Hnz) as [Hk Hnz']. cbn [keyword_chars app] in *.
    rewrite (next_false_at F i dn k (kw ++ Y) s Hat Hk HF). rewrite beq_refl. cbn [negb].
    destruct (IH (k :: dn) Y _ (at_fresh i (k :: dn) (kw ++ Y)) Hnz' HF) as [s' [E A]].
    exists s'. split; [exact E|]. cbn [rev]. now rewrite <- app_assoc.
Qed.

Lemma read_keyword_at k kw ts dn Y s :
  at_ i dn (render_trivia ts ++ (k :: kw) ++ Y) s -> wf_trivia ts = true ->
  after_triv [k] = true -> no_byte NUL (k :: kw) = true -> after_word Y = true ->
  length (render_trivia ts ++ (k :: kw) ++ Y) + 4 <= F ->
  at_ i (rev (k :: kw) ++ rev (render_trivia ts) ++ dn) Y (read_keyword F (k :: kw) s).
Proof.
  intros Hat Hwf Hk Hnz HY HF. unfold read_keyword.
  rewrite (peek_true_at F i dn ts ((k :: kw) ++ Y) s Hat Hwf Hk HF).
  assert (Hk' : k <> NUL) by (destruct (no_byte_cons _ _ _ Hnz); assumption).
  assert (A1 : at_ i (rev (render_trivia ts) ++ dn) ((k :: kw) ++ Y)
                 (landed i (rev (render_trivia ts) ++ dn) ((k :: kw) ++ Y))) by (apply landed_at; exact Hk').
  destruct (keyword_chars_at (k :: kw) _ Y _ A1 Hnz) as [s2 [E2 A2]]; [lia|].
  rewrite E2. rewrite (peek_false_at F i _ Y s2 A2 (after_word_hd_ok Y HY)) by lia.
  rewrite (after_word_not_ident Y HY). apply landed_at. now apply after_word_hd_ok.
Qed.

Definition ident_step (s : st) : st * bool :=
  let (c, s) := peek_byte F false s in
  if is_ident c then (set_peek s NUL, true) else (s, false).

Lemma ident_loop_at Y id : after_word Y = true -> forall dn s f,
  at_ i dn (id ++ Y) s -> forallb is_ident id = true -> length id + 1 <= f -> 1 <= F ->
  loop f oofs ident_step s = landed i (rev id ++ dn) Y.
Proof.
  intros HY. induction id as [|b id IH]; intros dn s f Hat Hid Hf HF.
  - destruct f as [|f]; [cbn in Hf; lia|]. cbn [loop app rev] in *. unfold ident_step.
    rewrite (peek_false_at F i dn Y s Hat (after_word_hd_ok Y HY) HF).
    now rewrite (after_word_not_ident Y HY).
  - cbn [forallb] in Hid. apply andb_true_iff in Hid. destruct Hid as [Hb Hid].
    destruct f as [|f]; [cbn in Hf; lia|]. cbn [loop app] in *. unfold ident_step at 1.
    rewrite (peek_false_at F i dn (b :: id ++ Y) s Hat (is_ident_nonzero b Hb) HF).
    cbn [hd landed]. rewrite Hb.
    change (set_peek (cst (id ++ Y) (b :: dn) b i) NUL) with (cst (id ++ Y) (b :: dn) NUL i).
    rewrite (IH (b :: dn) _ f (at_fresh i (b :: dn) (id ++ Y)) Hid); [|cbn [length] in Hf; lia|exact HF].
    cbn [rev]. now rewrite <- app_assoc.
Qed.

Lemma ident_after_triv a r : is_ident a = true -> after_triv (a :: r) = true.
Proof.
  intros H. cbn [after_triv].
  assert (E : forall b, is_ident b = true -> is_spacec b = false /\ beq b SLASH = false /\ beq b NUL = false).
  { intros b. destruct b; cbn; intros Hb; try discriminate; repeat split; reflexivity. }
  destruct (E a H) as [E1 [E2 E3]]. now rewrite E1, E2, E3.
Qed.

Lemma read_ident_at a id ts dn Y s :
  at_ i dn (render_trivia ts ++ (a :: id) ++ Y) s -> wf_trivia ts = true ->
  forallb is_ident (a :: id) = true -> after_word Y = true ->
  length (render_trivia ts ++ (a :: id) ++ Y) + 4 <= F ->
  read_ident F s = landed i (rev (a :: id) ++ rev (render_trivia ts) ++ dn) Y.
Proof.
  intros Hat Hwf Hid HY HF. unfold read_ident.
  assert (Ha : is_ident a = true) by (cbn [forallb] in Hid; now apply andb_true_iff in Hid).
  rewrite (peek_true_at F i dn ts ((a :: id) ++ Y) s Hat Hwf (ident_after_triv a _ Ha) HF).
  cbn [hd app]. rewrite Ha. cbn [negb].
  change (fun s0 : st => set_fail s0 FFuel) with oofs.
  change (fun s0 : st => let (c, s1) := peek_byte F false s0 in
            if is_ident c then (set_peek s1 NUL, true) else (s1, false)) with ident_step.
  apply (ident_loop_at Y (a :: id) HY); [|exact Hid| |].
  - apply landed_at. now apply is_ident_nonzero.
  - revert HF. rewrite !app_length. cbn [length]. lia.
  - lia.
Qed.

End Tokens.

(* ------------------------------------------------------------------ *)
(* string literals                                                     *)

Section Strings.
Variable F : nat.
Hypothesis HF1 : 1 <= F.

Definition raw_step (start : nat) (s : st) : st * bool :=
  if no_err s then
    let (c, s) := next_byte F false s in
    if beq c BQUOTE then (add_imp s (buf_from s start), false)
    else ((if eof s then syntax_error s else s), true)
  else (s, false).

Lemma raw_loop_at start Y i body : forall dn f,
  no_byte BQUOTE body = true -> no_byte NUL body = true -> length body + 1 <= f ->
  loop f oofs (raw_step start) (cst (body ++ BQUOTE :: Y) dn NUL i)
  = cst Y (BQUOTE :: rev body ++ dn) NUL (i ++ [skipn start (rev (BQUOTE :: rev body ++ dn))]).
Proof.
  induction body as [|b body IH]; intros dn f Hq Hz Hf.
  - destruct f as [|f]; [cbn in Hf; lia|]. cbn [loop app rev]. unfold raw_step.
    cbn [no_err err cst].
    rewrite (next_false_at F i dn BQUOTE Y _ (at_fresh i dn (BQUOTE :: Y))) by (discriminate || exact HF1).
    rewrite beq_refl. reflexivity.
  - destruct (no_byte_cons _ _ _ Hq) as [Hb1 Hq']. destruct (no_byte_cons _ _ _ Hz) as [Hb2 Hz'].
    destruct f as [|f]; [cbn in Hf; lia|]. cbn [loop app]. unfold raw_step at 1.
    cbn [no_err err cst].
    rewrite (next_false_at F i dn b (body ++ BQUOTE :: Y) _ (at_fresh i dn _) Hb2 HF1).
    apply beq_false in Hb1. rewrite Hb1. cbn [eof cst].
    rewrite IH; auto; [|cbn [length] in Hf; lia]. cbn [rev]. now rewrite <- !app_assoc.
Qed.

Definition interp_step (start : nat) (s : st) : st * bool :=
  if no_err s then
    let (c, s) := next_byte F false s in
    if beq c DQUOTE then (add_imp s (buf_from s start), false)
    else
      let s := if eof s || beq c NL then syntax_error s else s in
      let s := if beq c BSLASH then snd (next_byte F false s) else s in
      (s, true)
  else (s, false).

Definition render_items (items : list sitem) : bytes := concat (map render_item items).

Lemma interp_loop_at start Y i items : forall dn f,
  forallb wf_item items = true -> length items + 1 <= f ->
  loop f oofs (interp_step start) (cst (render_items items ++ DQUOTE :: Y) dn NUL i)
  = cst Y (DQUOTE :: rev (render_items items) ++ dn) NUL
        (i ++ [skipn start (rev (DQUOTE :: rev (render_items items) ++ dn))]).
Proof.
  induction items as [|it items IH]; intros dn f Hwf Hf.
  - destruct f as [|f]; [cbn in Hf; lia|]. cbn [loop render_items map concat app rev]. unfold interp_step.
    cbn [no_err err cst].
    rewrite (next_false_at F i dn DQUOTE Y _ (at_fresh i dn (DQUOTE :: Y))) by (discriminate || exact HF1).
    rewrite beq_refl. reflexivity.
  - cbn [forallb] in Hwf. apply andb_true_iff in Hwf. destruct Hwf as [Hit Hwf].
    destruct f as [|f]; [cbn in Hf; lia|].
    change (render_items (it :: items)) with (render_item it ++ render_items items).
    rewrite <- app_assoc. cbn [loop]. unfold interp_step at 1. cbn [no_err err cst].
    destruct it as [b|e]; cbn [render_item wf_item app] in *.
    + apply andb_true_iff in Hit. destruct Hit as [Hit H4]. apply andb_true_iff in Hit. destruct Hit as [Hit H3].
      apply andb_true_iff in Hit. destruct Hit as [H1 H2].
      apply negb_true_iff in H1, H2, H3, H4.
      rewrite (next_false_at F i dn b _ _ (at_fresh i dn _) (beq_neq _ _ H4) HF1).
      rewrite H1, H2, H3. cbn [eof cst orb].
      rewrite IH; auto; [|cbn [length] in Hf; lia]. cbn [rev]. now rewrite <- !app_assoc.
    + apply negb_true_iff in Hit.
      rewrite (next_false_at F i dn BSLASH _ _ (at_fresh i dn _)) by (discriminate || exact HF1).
      change (beq BSLASH DQUOTE) with false. change (beq BSLASH NL) with false. rewrite beq_refl.
      cbn [eof cst orb].
      rewrite (next_false_at F i (BSLASH :: dn) e _ _ (at_fresh i _ _) (beq_neq _ _ Hit) HF1). cbn [snd].
      rewrite IH; auto; [|cbn [length] in Hf; lia]. cbn [rev]. now rewrite <- !app_assoc.
Qed.

Lemma quote_after_triv q r : q = BQUOTE \/ q = DQUOTE -> after_triv (q :: r) = true.
Proof. intros [-> | ->]; reflexivity. Qed.

Lemma skipn_rev_lit (q : byte) (body dn1 : bytes) :
  skipn (length (q :: dn1) - 1) (rev (q :: rev body ++ q :: dn1)) = q :: body ++ [q].
Proof.
  cbn [length]. rewrite Nat.sub_1_r. cbn [Nat.pred].
  cbn [rev]. rewrite rev_app_distr, rev_involutive. cbn [rev]. rewrite <- !app_assoc. cbn [app].
  rewrite <- (rev_length dn1). apply skipn_length_app.
Qed.

Lemma read_string_at i ts l dn Y s :
  at_ i dn (render_trivia ts ++ render_lit l ++ Y) s -> wf_trivia ts = true -> wf_lit l = true ->
  length (render_trivia ts ++ render_lit l ++ Y) + 4 <= F ->
  read_string F true s
  = cst Y (rev (render_lit l) ++ rev (render_trivia ts) ++ dn) NUL (i ++ [render_lit l]).
Proof.
  intros Hat Hwf Hl HF. unfold read_string.
  change (fun s0 : st => set_fail s0 FFuel) with oofs.
  destruct l as [body|items]; cbn [render_lit wf_lit app] in *.
  - rewrite (next_true_at F i dn ts BQUOTE _ s Hat Hwf eq_refl HF).
    rewrite beq_refl.
    apply andb_true_iff in Hl. destruct Hl as [Hq Hz].
    set (dn1 := rev (render_trivia ts) ++ dn).
    cbn [rbuf cst].
    match goal with |- loop F oofs ?st _ = _ => change st with (raw_step (length (BQUOTE :: dn1) - 1)) end.
    rewrite <- app_assoc. cbn [app]. rewrite raw_loop_at; auto.
    2:{ revert HF. rewrite !app_length. cbn [length]. rewrite !app_length. cbn [length]. lia. }
    rewrite skipn_rev_lit. f_equal. cbn [rev]. rewrite rev_app_distr. cbn [rev app]. now rewrite <- !app_assoc.
  - rewrite (next_true_at F i dn ts DQUOTE _ s Hat Hwf eq_refl HF).
    change (beq DQUOTE BQUOTE) with false. rewrite beq_refl. cbv iota.
    set (dn1 := rev (render_trivia ts) ++ dn).
    cbn [rbuf cst].
    match goal with |- loop F oofs ?st _ = _ => change st with (interp_step (length (DQUOTE :: dn1) - 1)) end.
    rewrite <- app_assoc. cbn [app]. fold (render_items items).
    rewrite interp_loop_at; auto.
    2:{ revert HF. rewrite !app_length. cbn [length]. rewrite !app_length. cbn [length].
        assert (length items <= length (render_items items)).
        { clear. induction items as [|it items IH]; [cbn; lia|].
          change (render_items (it :: items)) with (render_item it ++ render_items items).
          rewrite app_length. destruct it; cbn [render_item length]; lia. }
        fold (render_items items). lia. }
    rewrite skipn_rev_lit. f_equal. cbn [rev]. rewrite rev_app_distr. cbn [rev app]. now rewrite <- !app_assoc.
Qed.

End Strings.

(* ------------------------------------------------------------------ *)
(* import specs, declarations, the whole section                       *)

Section Section_.
Variable F : nat.

Lemma triv_head_after_word t ts Z : wf_triv t = true ->
  after_word (render_trivia (t :: ts) ++ Z) = true.
Proof.
  intros H. rewrite render_trivia_cons, <- app_assoc. destruct t as [b|body|body]; cbn [render_triv app after_word].
  - cbn [wf_triv] in H. destruct b; cbn in H; try discriminate; reflexivity.
  - reflexivity.
  - reflexivity.
Qed.

(* the rendering of trivia is empty, or starts with a byte that is no part of a word *)
Lemma trivia_after_word ts Z : wf_trivia ts = true -> after_word Z = true ->
  after_word (render_trivia ts ++ Z) = true.
Proof.
  destruct ts as [|t ts]; [intros _ H; exact H|]. intros H _. cbn [wf_trivia forallb] in H.
  apply andb_true_iff in H. destruct H as [H _]. now apply triv_head_after_word.
Qed.

Lemma lit_after_word l Z : after_word (render_lit l ++ Z) = true.
Proof. destruct l; reflexivity. Qed.

Lemma lit_after_triv l Z : after_triv (render_lit l ++ Z) = true.
Proof. destruct l; reflexivity. Qed.

Lemma is_nil_b_true d : is_nil_b d = true -> d = [].
Proof. destruct d; [reflexivity|discriminate]. Qed.

Lemma spec_head sp Z : wf_spec sp = true ->
  after_triv (render_spec sp ++ Z) = true
  /\ beq (hd NUL (render_spec sp ++ Z)) RPAREN = false
  /\ beq (hd NUL (render_spec sp ++ Z)) LPAREN = false.
Proof.
  unfold wf_spec, render_spec. destruct sp as [n mid l]. cbn [sp_name sp_mid sp_path].
  intros H. apply andb_true_iff in H. destruct H as [H Hl]. apply andb_true_iff in H. destruct H as [Hn Hm].
  destruct n as [| |id]; cbn [render_name app].
  - apply is_nil_b_true in Hn. rewrite Hn. cbn [app]. destruct l; repeat split; reflexivity.
  - repeat split; reflexivity.
  - unfold wf_ident in Hn. apply andb_true_iff in Hn. destruct Hn as [Hne Hid].
    destruct id as [|a id]; [discriminate|]. cbn [forallb] in Hid. apply andb_true_iff in Hid. destruct Hid as [Ha _].
    rewrite <- !app_assoc. cbn [app hd]. split; [now apply ident_after_triv|].
    destruct a; cbn in Ha; try discriminate; split; reflexivity.
Qed.

Lemma read_import_at i sp dn Y s :
  at_ i dn (render_spec sp ++ Y) s -> wf_spec sp = true ->
  length (render_spec sp ++ Y) + 4 <= F ->
  read_import F s = cst Y (rev (render_spec sp) ++ dn) NUL (i ++ spec_paths sp).
Proof.
  intros Hat Hwf HF. assert (HF1 : 1 <= F) by lia.
  destruct (spec_head sp Y Hwf) as [Hh _].
  unfold read_import.
  pose proof (peek_true_at F i dn [] (render_spec sp ++ Y) s Hat eq_refl Hh HF) as Hp.
  cbn [render_trivia map concat rev app] in Hp. rewrite Hp. clear Hp.
  assert (Hok : hd_ok (render_spec sp ++ Y)) by (now apply after_triv_hd_ok).
  pose proof (landed_at i dn _ Hok) as A1.
  unfold wf_spec, render_spec, spec_paths in *. destruct sp as [n mid l]. cbn [sp_name sp_mid sp_path] in *.
  apply andb_true_iff in Hwf. destruct Hwf as [Hwf Hl]. apply andb_true_iff in Hwf. destruct Hwf as [Hn Hm].
  destruct n as [| |id]; cbn [render_name app] in *.
  - (* a bare path *)
    apply is_nil_b_true in Hn. rewrite Hn in *. cbn [app] in *.
    assert (E : beq (hd NUL (render_lit l ++ Y)) DOTB = false /\ is_ident (hd NUL (render_lit l ++ Y)) = false)
      by (destruct l; split; reflexivity).
    destruct E as [E1 E2]. rewrite E1, E2.
    pose proof (read_string_at F HF1 i [] l dn Y _ A1 eq_refl Hl HF) as Hs.
    cbn [render_trivia map concat rev app] in Hs. rewrite Hs. f_equal.
  - (* . "path" *)
    rewrite <- !app_assoc in *. cbn [app] in *. cbn [hd landed]. rewrite beq_refl.
    change (set_peek (cst (render_trivia mid ++ render_lit l ++ Y) (DOTB :: dn) DOTB i) NUL)
      with (cst (render_trivia mid ++ render_lit l ++ Y) (DOTB :: dn) NUL i).
    rewrite (read_string_at F HF1 i mid l (DOTB :: dn) Y _ (at_fresh i _ _) Hm Hl).
    2:{ revert HF. cbn [length]. lia. }
    f_equal. listnorm. reflexivity.
  - (* name "path" *)
    unfold wf_ident in Hn. apply andb_true_iff in Hn. destruct Hn as [Hne Hid].
    destruct id as [|a id]; [discriminate|].
    assert (Ha : is_ident a = true) by (cbn [forallb] in Hid; now apply andb_true_iff in Hid).
    rewrite <- !app_assoc in *. cbn [app hd] in *.
    assert (E1 : beq a DOTB = false) by (destruct a; cbn in Ha; try discriminate; reflexivity).
    rewrite E1, Ha.
    assert (HW : after_word (render_trivia mid ++ render_lit l ++ Y) = true)
      by (apply trivia_after_word; [exact Hm|apply lit_after_word]).
    pose proof (read_ident_at F i a id [] dn (render_trivia mid ++ render_lit l ++ Y) _ A1 eq_refl Hid HW) as Hi.
    cbn [render_trivia map concat rev app] in Hi. rewrite Hi by exact HF. clear Hi.
    assert (A2 : at_ i (rev (a :: id) ++ dn) (render_trivia mid ++ render_lit l ++ Y)
                   (landed i (rev (a :: id) ++ dn) (render_trivia mid ++ render_lit l ++ Y)))
      by (apply landed_at; now apply after_word_hd_ok).
    change (rev id ++ [a]) with (rev (a :: id)).
    rewrite (read_string_at F HF1 i mid l _ Y _ A2 Hm Hl).
    2:{ revert HF. cbn [length]. rewrite !app_length. lia. }
    f_equal. listnorm. reflexivity.
Qed.

Definition group_step (s : st) : st * bool :=
  let (c, s) := peek_byte F true s in
  if negb (beq c RPAREN) && no_err s then (read_import F s, true) else (s, false).

Definition specs_paths (specs : list (list triv * ispec)) : list bytes :=
  concat (map (fun x => spec_paths (snd x)) specs).

Lemma group_loop_at tend Y specs : wf_trivia tend = true -> forall i dn s f,
  at_ i dn (render_specs specs ++ render_trivia tend ++ RPAREN :: Y) s ->
  forallb (fun x => wf_trivia (fst x) && wf_spec (snd x)) specs = true ->
  length specs + 1 <= f ->
  length (render_specs specs ++ render_trivia tend ++ RPAREN :: Y) + 4 <= F ->
  loop f oofs group_step s
  = landed (i ++ specs_paths specs) (rev (render_trivia tend) ++ rev (render_specs specs) ++ dn) (RPAREN :: Y).
Proof.
  intros Hte. induction specs as [|[t sp] specs IH]; intros i dn s f Hat Hwf Hf HF.
  - destruct f as [|f]; [cbn in Hf; lia|]. cbn [loop render_specs map concat app rev specs_paths] in *.
    unfold group_step. rewrite (peek_true_at F i dn tend (RPAREN :: Y) s Hat Hte eq_refl HF).
    cbn [hd]. rewrite beq_refl. cbn [negb andb]. now rewrite app_nil_r.
  - cbn [forallb fst snd] in Hwf. apply andb_true_iff in Hwf. destruct Hwf as [Hw1 Hwf].
    apply andb_true_iff in Hw1. destruct Hw1 as [Hwt Hws].
    destruct f as [|f]; [cbn in Hf; lia|].
    change (render_specs ((t, sp) :: specs)) with ((render_trivia t ++ render_spec sp) ++ render_specs specs) in *.
    rewrite <- !app_assoc in *. cbn [loop]. unfold group_step at 1.
    set (Z := render_specs specs ++ render_trivia tend ++ RPAREN :: Y) in *.
    destruct (spec_head sp Z Hws) as [Hh [Hr _]].
    rewrite (peek_true_at F i dn t (render_spec sp ++ Z) s Hat Hwt Hh HF).
    rewrite Hr. cbn [negb andb].
    assert (Hok : hd_ok (render_spec sp ++ Z)) by (now apply after_triv_hd_ok).
    replace (no_err (landed i (rev (render_trivia t) ++ dn) (render_spec sp ++ Z))) with true
      by (destruct (render_spec sp ++ Z); reflexivity).
    rewrite (read_import_at i sp _ Z _ (landed_at i _ _ Hok) Hws).
    2:{ revert HF. rewrite !app_length. lia. }
    rewrite (IH _ _ _ f (at_fresh _ _ _) Hwf); [|cbn [length] in Hf; lia|revert HF; rewrite !app_length; lia].
    unfold specs_paths. cbn [map concat snd]. rewrite <- !app_assoc. f_equal. listnorm. reflexivity.
Qed.

Lemma import_group_at i dn specs tend Y :
  wf_trivia tend = true -> forallb (fun x => wf_trivia (fst x) && wf_spec (snd x)) specs = true ->
  length (LPAREN :: render_specs specs ++ render_trivia tend ++ RPAREN :: Y) + 4 <= F ->
  import_group F (landed i dn (LPAREN :: render_specs specs ++ render_trivia tend ++ RPAREN :: Y))
  = cst Y (RPAREN :: rev (render_trivia tend) ++ rev (render_specs specs) ++ LPAREN :: dn) NUL (i ++ specs_paths specs).
Proof.
  intros Hte Hwf HF. assert (HF1 : 1 <= F) by lia. unfold import_group.
  assert (A0 : at_ i dn (LPAREN :: render_specs specs ++ render_trivia tend ++ RPAREN :: Y)
                 (landed i dn (LPAREN :: render_specs specs ++ render_trivia tend ++ RPAREN :: Y)))
    by (apply landed_at; discriminate).
  rewrite (next_false_at F i dn LPAREN _ _ A0) by (discriminate || exact HF1).
  change (fun s0 : st => set_fail s0 FFuel) with oofs.
  match goal with |- context [loop F oofs ?st _] => change st with group_step end.
  rewrite (group_loop_at tend Y specs Hte i (LPAREN :: dn) _ F (at_fresh _ _ _) Hwf).
  2:{ assert (length specs <= length (render_specs specs)).
      { clear. induction specs as [|[t sp] specs IH]; [cbn; lia|].
        change (render_specs ((t, sp) :: specs)) with ((render_trivia t ++ render_spec sp) ++ render_specs specs).
        rewrite !app_length. unfold render_spec. rewrite !app_length.
        assert (1 <= length (render_lit (sp_path sp))) by (destruct (sp_path sp); cbn; lia).
        cbn [length]. lia. }
      revert HF. cbn [length]. rewrite !app_length. lia. }
  2:{ revert HF. cbn [length]. lia. }
  assert (A1 : at_ (i ++ specs_paths specs) (rev (render_trivia tend) ++ rev (render_specs specs) ++ LPAREN :: dn) (RPAREN :: Y)
                 (landed (i ++ specs_paths specs) (rev (render_trivia tend) ++ rev (render_specs specs) ++ LPAREN :: dn) (RPAREN :: Y)))
    by (apply landed_at; discriminate).
  rewrite (next_false_at F _ _ RPAREN Y _ A1) by (discriminate || exact HF1). reflexivity.
Qed.

Lemma kw_import_eq : kw_import = LOWER_I :: [x6d; x70; x6f; x72; x74].
Proof. reflexivity. Qed.

Lemma decl_after_import d Y : wf_decl d = true ->
  exists Y1, render_decl d ++ Y = kw_import ++ Y1 /\ after_word Y1 = true.
Proof.
  intros Hwf. destruct d as [t1 sp|t1 specs tend]; cbn [render_decl wf_decl] in *.
  - exists (render_trivia t1 ++ render_spec sp ++ Y). split; [now rewrite <- !app_assoc|].
    apply andb_true_iff in Hwf. destruct Hwf as [Hwf Hn]. apply andb_true_iff in Hwf. destruct Hwf as [Ht Hs].
    destruct t1 as [|t t1].
    + cbn [render_trivia map concat app]. unfold wf_spec, render_spec in *. destruct sp as [n mid l].
      cbn [sp_name sp_mid sp_path] in *. destruct n as [| |id]; cbn [render_name app].
      * apply andb_true_iff in Hs. destruct Hs as [Hs _]. apply andb_true_iff in Hs. destruct Hs as [Hs _].
        apply is_nil_b_true in Hs. rewrite Hs. cbn [app]. apply lit_after_word.
      * reflexivity.
      * discriminate.
    + cbn [wf_trivia forallb] in Ht. apply andb_true_iff in Ht. destruct Ht as [Ht _].
      now apply triv_head_after_word.
  - exists (render_trivia t1 ++ LPAREN :: render_specs specs ++ render_trivia tend ++ RPAREN :: Y).
    split; [appnorm; reflexivity|].
    apply andb_true_iff in Hwf. destruct Hwf as [Hwf _]. apply andb_true_iff in Hwf. destruct Hwf as [Ht _].
    apply trivia_after_word; [exact Ht|reflexivity].
Qed.

Lemma import_decl_at i dn d Y : wf_decl d = true -> length (render_decl d ++ Y) + 4 <= F ->
  import_decl F (landed i dn (render_decl d ++ Y))
  = cst Y (rev (render_decl d) ++ dn) NUL (i ++ decl_paths d).
Proof.
  intros Hwf HF. assert (HF1 : 1 <= F) by lia. unfold import_decl.
  destruct (decl_after_import d Y Hwf) as [Y1 [E1 HW1]].
  assert (A0 : at_ i dn (render_trivia [] ++ (LOWER_I :: [x6d; x70; x6f; x72; x74]) ++ Y1)
                 (landed i dn (render_decl d ++ Y))).
  { cbn [render_trivia map concat app]. rewrite E1, kw_import_eq. apply landed_at. discriminate. }
  pose proof (read_keyword_at F i LOWER_I [x6d; x70; x6f; x72; x74] [] dn Y1 _ A0 eq_refl eq_refl eq_refl HW1) as A1.
  rewrite <- kw_import_eq in A1. cbn [render_trivia map concat rev app] in A1.
  assert (HF' : length (kw_import ++ Y1) + 4 <= F) by (rewrite <- E1; exact HF).
  specialize (A1 HF'). set (s1 := read_keyword F kw_import (landed i dn (render_decl d ++ Y))) in *.
  destruct d as [t1 sp|t1 specs tend]; cbn [render_decl wf_decl decl_paths] in *.
  - apply andb_true_iff in Hwf. destruct Hwf as [Hwf Hn]. apply andb_true_iff in Hwf. destruct Hwf as [Ht Hs].
    rewrite <- !app_assoc in E1. apply app_inv_head in E1. subst Y1.
    destruct (spec_head sp Y Hs) as [Hh [_ Hl]].
    rewrite (peek_true_at F i _ t1 (render_spec sp ++ Y) s1 A1 Ht Hh).
    2:{ revert HF'. rewrite !app_length. lia. }
    rewrite Hl.
    rewrite (read_import_at i sp _ Y _ (landed_at i _ _ (after_triv_hd_ok _ Hh)) Hs).
    2:{ revert HF'. rewrite !app_length. lia. }
    f_equal. listnorm. reflexivity.
  - apply andb_true_iff in Hwf. destruct Hwf as [Hwf Hte]. apply andb_true_iff in Hwf. destruct Hwf as [Ht Hsp].
    rewrite <- !app_assoc in E1. apply app_inv_head in E1. cbn [app] in E1. try rewrite <- !app_assoc in E1. subst Y1.
    rewrite (peek_true_at F i _ t1 (LPAREN :: render_specs specs ++ render_trivia tend ++ RPAREN :: Y) s1 A1 Ht eq_refl).
    2:{ revert HF'. rewrite !app_length. lia. }
    cbn [hd]. rewrite beq_refl.
    rewrite (import_group_at i _ specs tend Y Hte Hsp).
    2:{ revert HF'. rewrite !app_length. lia. }
    f_equal. listnorm. reflexivity.
Qed.

Definition top_step (s : st) : st * bool :=
  let (c, s) := peek_byte F true s in
  if beq c LOWER_I then (import_decl F s, true) else (s, false).

Definition decls_paths (decls : list (list triv * idecl)) : list bytes :=
  concat (map (fun x => decl_paths (snd x)) decls).

Lemma stop_rest_after_triv rest : stop_rest rest = true ->
  after_triv rest = true /\ beq (hd NUL rest) LOWER_I = false.
Proof.
  destruct rest as [|c r]; [split; reflexivity|]. cbn [stop_rest stop_byte after_triv hd].
  intros H. apply andb_true_iff in H. destruct H as [H H4]. apply andb_true_iff in H. destruct H as [H H3].
  apply andb_true_iff in H. destruct H as [H1 H2]. rewrite H1, H2, H3. split; [reflexivity|].
  now apply negb_true_iff in H4.
Qed.

Lemma top_loop_at tend rest decls : wf_trivia tend = true -> stop_rest rest = true -> forall i dn s f,
  at_ i dn (render_decls decls ++ render_trivia tend ++ rest) s ->
  forallb (fun x => wf_trivia (fst x) && wf_decl (snd x)) decls = true ->
  length decls + 1 <= f ->
  length (render_decls decls ++ render_trivia tend ++ rest) + 4 <= F ->
  loop f oofs top_step s
  = landed (i ++ decls_paths decls) (rev (render_trivia tend) ++ rev (render_decls decls) ++ dn) rest.
Proof.
  intros Hte Hst. destruct (stop_rest_after_triv rest Hst) as [Hra Hri].
  induction decls as [|[t d] decls IH]; intros i dn s f Hat Hwf Hf HF.
  - destruct f as [|f]; [cbn in Hf; lia|]. cbn [loop render_decls map concat app rev decls_paths] in *.
    unfold top_step. rewrite (peek_true_at F i dn tend rest s Hat Hte Hra HF).
    rewrite Hri. now rewrite app_nil_r.
  - cbn [forallb fst snd] in Hwf. apply andb_true_iff in Hwf. destruct Hwf as [Hw1 Hwf].
    apply andb_true_iff in Hw1. destruct Hw1 as [Hwt Hwd].
    destruct f as [|f]; [cbn in Hf; lia|].
    change (render_decls ((t, d) :: decls)) with ((render_trivia t ++ render_decl d) ++ render_decls decls) in *.
    rewrite <- !app_assoc in *. cbn [loop]. unfold top_step at 1.
    set (Z := render_decls decls ++ render_trivia tend ++ rest) in *.
    assert (Hd : exists R, render_decl d ++ Z = LOWER_I :: R).
    { destruct d; cbn [render_decl]; rewrite kw_import_eq; cbn [app]; eauto. }
    destruct Hd as [R Hd].
    assert (Hh : after_triv (render_decl d ++ Z) = true) by (rewrite Hd; reflexivity).
    rewrite (peek_true_at F i dn t (render_decl d ++ Z) s Hat Hwt Hh HF).
    rewrite Hd at 1. cbn [hd]. rewrite beq_refl.
    rewrite (import_decl_at i _ d Z Hwd).
    2:{ revert HF. rewrite !app_length. lia. }
    rewrite (IH _ _ _ f (at_fresh _ _ _) Hwf); [|cbn [length] in Hf; lia|revert HF; rewrite !app_length; lia].
    unfold decls_paths. cbn [map concat snd]. rewrite <- !app_assoc. f_equal. listnorm. reflexivity.
Qed.

Lemma kw_package_eq : kw_package = x70 :: [x61; x63; x6b; x61; x67; x65].
Proof. reflexivity. Qed.

Lemma decls_length decls : length decls <= length (render_decls decls).
Proof.
  induction decls as [|[t d] decls IH]; [cbn; lia|].
  change (render_decls ((t, d) :: decls)) with ((render_trivia t ++ render_decl d) ++ render_decls decls).
  rewrite !app_length. assert (1 <= length (render_decl d)) by (destruct d; cbn [render_decl]; rewrite kw_import_eq; cbn [app length]; lia).
  cbn [length]. lia.
Qed.

Lemma scan_at g rest : wf_section g rest = true -> length (render_body g ++ rest) + 4 <= F ->
  scan_imports F (cst (render_body g ++ rest) [] NUL [])
  = landed (paths g) (rev (render_body g)) rest.
Proof.
  unfold wf_section, render_body, paths. destruct g as [bm t0 t1 pkg decls tend].
  cbn [f_bom f_t0 f_t1 f_pkg f_decls f_tend]. intros Hwf HF.
  repeat (let H := fresh "W" in apply andb_true_iff in Hwf; destruct Hwf as [Hwf H]).
  rename Hwf into Wt0, W5 into Wt1, W4 into Wne, W3 into Wpkg, W2 into Wdecls, W1 into Wtend, W0 into Wstop, W into HWZ.
  unfold scan_imports. rewrite <- !app_assoc in *.
  set (Z := render_decls decls ++ render_trivia tend ++ rest) in *.
  (* package *)
  assert (HW1 : after_word (render_trivia t1 ++ pkg ++ Z) = true).
  { destruct t1 as [|t t1]; [discriminate Wne|]. cbn [wf_trivia forallb] in Wt1.
    apply andb_true_iff in Wt1. destruct Wt1 as [Ht _]. now apply triv_head_after_word. }
  rewrite kw_package_eq in *.
  pose proof (read_keyword_at F [] x70 [x61; x63; x6b; x61; x67; x65] t0 [] (render_trivia t1 ++ pkg ++ Z) _
                (at_fresh _ _ _) Wt0 eq_refl eq_refl HW1 HF) as A1.
  rewrite <- kw_package_eq in *.
  set (s1 := read_keyword F kw_package _) in *.
  (* the package name *)
  unfold wf_ident in Wpkg. apply andb_true_iff in Wpkg. destruct Wpkg as [Hne Hid].
  destruct pkg as [|a pkg]; [discriminate Hne|].
  rewrite (read_ident_at F [] a pkg t1 _ Z s1 A1); auto.
  2:{ revert HF. rewrite !app_length. lia. }
  change (fun s0 : st => set_fail s0 FFuel) with oofs.
  match goal with |- context [loop F oofs ?st _] => change st with top_step end.
  rewrite (top_loop_at tend rest decls Wtend Wstop [] _ _ F (landed_at _ _ _ (after_word_hd_ok _ HWZ)) Wdecls).
  - unfold decls_paths. cbn [app]. f_equal. listnorm. now rewrite app_nil_r.
  - pose proof (decls_length decls). revert HF. unfold Z. rewrite !app_length. lia.
  - revert HF. unfold Z. rewrite !app_length. lia.
Qed.

End Section_.

(* ------------------------------------------------------------------ *)
(* the completeness theorem                                            *)

Lemma body_no_bom g rest : wf_section g rest = true -> has_prefix bom (render_body g ++ rest) = false.
Proof.
  unfold wf_section, render_body. destruct g as [bm t0 t1 pkg decls tend].
  cbn [f_bom f_t0 f_t1 f_pkg f_decls f_tend]. intros Hwf.
  repeat (let H := fresh "W" in apply andb_true_iff in Hwf; destruct Hwf as [Hwf H]).
  destruct t0 as [|t t0].
  - reflexivity.
  - cbn [wf_trivia forallb] in Hwf. apply andb_true_iff in Hwf. destruct Hwf as [Ht _].
    rewrite render_trivia_cons, <- !app_assoc. destruct t as [b|body|body]; cbn [render_triv app].
    + cbn [wf_triv] in Ht. destruct b; cbn in Ht; try discriminate; reflexivity.
    + reflexivity.
    + reflexivity.
Qed.

Lemma strip_bom_render g rest : wf_section g rest = true ->
  strip_bom (render g ++ rest) = render_body g ++ rest.
Proof.
  intros Hwf. unfold render, strip_bom. destruct (f_bom g).
  - rewrite <- app_assoc. rewrite has_prefix_app. apply skipn_length_app.
  - cbn [app]. now rewrite (body_no_bom g rest Hwf).
Qed.

Theorem read_imports_complete report g rest : wf_section g rest = true ->
  read_imports report (render g ++ rest) = ROk (paths g) (render_body g) ENone.
Proof.
  intros Hwf. unfold read_imports. rewrite (strip_bom_render g rest Hwf). cbv zeta.
  change (init_st (render_body g ++ rest)) with (cst (render_body g ++ rest) [] NUL []).
  rewrite (scan_at _ g rest Hwf) by (unfold fuel_for; lia).
  destruct rest as [|y R]; unfold landed, finish_imports, est, cst; cbn; now rewrite rev_involutive.
Qed.

(* the returned prefix is itself an import section of G with the same paths: reading it
   again gives the same imports and returns it unchanged *)
Definition without_bom (g : isection) : isection :=
  mksection false (f_t0 g) (f_t1 g) (f_pkg g) (f_decls g) (f_tend g).

Lemma after_word_prefix X rest : after_word (X ++ rest) = true -> after_word (X ++ []) = true.
Proof. destruct X; [reflexivity|intros H; exact H]. Qed.

Lemma wf_section_prefix g rest : wf_section g rest = true -> wf_section (without_bom g) [] = true.
Proof.
  unfold wf_section, without_bom. cbn [f_bom f_t0 f_t1 f_pkg f_decls f_tend]. intros Hwf.
  repeat (let H := fresh "W" in apply andb_true_iff in Hwf; destruct Hwf as [Hwf H]).
  rewrite Hwf, W5, W4, W3, W2, W1. cbn [andb stop_rest].
  rewrite app_assoc in W |- *. now apply (after_word_prefix _ rest).
Qed.

Theorem prefix_reparses report g rest : wf_section g rest = true ->
  render (without_bom g) ++ [] = render_body g
  /\ read_imports report (render_body g) = ROk (paths g) (render_body g) ENone.
Proof.
  intros Hwf. pose proof (read_imports_complete report (without_bom g) [] (wf_section_prefix g rest Hwf)) as H.
  unfold render in *. cbn [without_bom f_bom app] in *. rewrite app_nil_r in *.
  split; [reflexivity|exact H].
Qed.

(* ------------------------------------------------------------------ *)
(* Examples: a non-trivial member of G                                 *)

(* BOM, a line comment, newline, package, blank, block comment, p, then
   ;import <interpreted f,escaped quote,m>  newline  import ( x <raw a/b> ; . <interpreted c> )
   newline, an empty line comment; followed by func *)
Definition ex_section : isection :=
  mksection true
    [TLine [x20; x63]; TSp x0a]
    [TSp x20; TBlock [x2a]]
    [x70]
    [ ([TSp x3b], DSingle [] (mkspec NNone [] (SInterp [IPlain x66; IEsc x22; IPlain x6d])));
      ([TSp x0a], DGroup [TSp x20]
          [ ([TSp x0a; TSp x09], mkspec (NId [x78]) [TSp x20] (SRaw [x61; x2f; x62]));
            ([TSp x3b], mkspec NDot [] (SInterp [IPlain x63])) ]
          [TSp x0a]) ]
    [TSp x0a; TLine []].

Example ex_section_wf : wf_section ex_section [x66; x75; x6e; x63] = true.
Proof. vm_compute. reflexivity. Qed.

Example ex_section_read :
  read_imports true (render ex_section ++ [x66; x75; x6e; x63])
  = ROk [[x22; x66; x5c; x22; x6d; x22]; [x60; x61; x2f; x62; x60]; [x22; x63; x22]]
        (render_body ex_section) ENone.
Proof. vm_compute. reflexivity. Qed.

(* the hypothesis of no_report_whole is satisfiable: "x\ny" is not a Go file *)
Example ex_no_report :
  read_imports true [x78; x0a; x79] = ROk [] [x78] ESyntax
  /\ read_imports false [x78; x0a; x79] = ROk [] [x78; x0a; x79] ENone
  /\ read_imports false [x78; x00; x79] = ROk [] [x78; x00] ENUL.
Proof. vm_compute. repeat split. Qed.

(* The grammar G of import sections against which the completeness of ReadImports is
   stated: an abstract syntax with all its trivia, its rendering to bytes, the import
   path literals it contains, and the side conditions that make the rendering a token
   sequence (no NUL, comments closed where they say, tokens not glued together).
   Definitions only.  G is deliberately a little larger than Go (an identifier may start
   with a digit, separators between import specs are optional): ReadImports does not look
   at more than this, and every file produced by the runner's generator from the same
   grammar is validated by go/parser. *)
From Coq Require Import List Bool Arith NArith.
From Coq.Strings Require Import Byte.
From GI Require Import Lib.Bytes Imports.Read.
Import ListNotations.

(* ---- trivia: blanks, newlines, semicolons, // and /* */ comments *)
Inductive triv :=
| TSp (b : byte)          (* ' ', \f, \t, \r, \n or ';' *)
| TLine (body : bytes)    (* // body \n *)
| TBlock (body : bytes).  (* /* body */ *)

Definition render_triv (t : triv) : bytes :=
  match t with
  | TSp b => [b]
  | TLine body => SLASH :: SLASH :: body ++ [NL]
  | TBlock body => SLASH :: STAR :: body ++ [STAR; SLASH]
  end.
Definition render_trivia (ts : list triv) : bytes := concat (map render_triv ts).

Definition no_byte (c : byte) (d : bytes) : bool := forallb (fun b => negb (beq b c)) d.
(* no "*/" in prev :: d *)
Fixpoint no_star_slash (prev : byte) (d : bytes) : bool :=
  match d with
  | [] => true
  | b :: r => negb (beq prev STAR && beq b SLASH) && no_star_slash b r
  end.

Definition wf_triv (t : triv) : bool :=
  match t with
  | TSp b => is_spacec b
  | TLine body => no_byte NL body && no_byte NUL body
  | TBlock body => no_star_slash NUL body && no_byte NUL body
  end.
Definition wf_trivia (ts : list triv) : bool := forallb wf_triv ts.

(* ---- string literals *)
Inductive sitem := IPlain (b : byte) | IEsc (b : byte).   (* b, or backslash b *)
Inductive strlit := SRaw (body : bytes) | SInterp (items : list sitem).

Definition render_item (it : sitem) : bytes :=
  match it with IPlain b => [b] | IEsc b => [BSLASH; b] end.
Definition render_lit (l : strlit) : bytes :=
  match l with
  | SRaw body => BQUOTE :: body ++ [BQUOTE]
  | SInterp items => DQUOTE :: concat (map render_item items) ++ [DQUOTE]
  end.
Definition wf_item (it : sitem) : bool :=
  match it with
  | IPlain b => negb (beq b DQUOTE) && negb (beq b BSLASH) && negb (beq b NL) && negb (beq b NUL)
  | IEsc b => negb (beq b NUL)
  end.
Definition wf_lit (l : strlit) : bool :=
  match l with
  | SRaw body => no_byte BQUOTE body && no_byte NUL body
  | SInterp items => forallb wf_item items
  end.

(* ---- import specs and declarations *)
Inductive iname := NNone | NDot | NId (id : bytes).
Record ispec := mkspec { sp_name : iname; sp_mid : list triv; sp_path : strlit }.

Definition is_nil_b (d : bytes) : bool := match d with [] => true | _ => false end.
Definition wf_ident (id : bytes) : bool := negb (is_nil_b id) && forallb is_ident id.

Definition render_name (n : iname) : bytes :=
  match n with NNone => [] | NDot => [DOTB] | NId id => id end.
Definition render_spec (sp : ispec) : bytes :=
  render_name (sp_name sp) ++ render_trivia (sp_mid sp) ++ render_lit (sp_path sp).
Definition wf_spec (sp : ispec) : bool :=
  match sp_name sp with
  | NNone => is_nil_b (render_trivia (sp_mid sp))   (* trivia before a bare path belongs to the context *)
  | NDot => true
  | NId id => wf_ident id
  end && wf_trivia (sp_mid sp) && wf_lit (sp_path sp).

Inductive idecl :=
| DSingle (t1 : list triv) (sp : ispec)                                   (* import t1 spec *)
| DGroup (t1 : list triv) (specs : list (list triv * ispec)) (tend : list triv).  (* import t1 ( {t spec} tend ) *)

Definition render_specs (l : list (list triv * ispec)) : bytes :=
  concat (map (fun x => render_trivia (fst x) ++ render_spec (snd x)) l).
Definition render_decl (d : idecl) : bytes :=
  match d with
  | DSingle t1 sp => kw_import ++ render_trivia t1 ++ render_spec sp
  | DGroup t1 specs tend =>
      kw_import ++ render_trivia t1 ++ [LPAREN] ++ render_specs specs ++ render_trivia tend ++ [RPAREN]
  end.
Definition wf_decl (d : idecl) : bool :=
  match d with
  | DSingle t1 sp =>
      wf_trivia t1 && wf_spec sp
      && match sp_name sp with NId _ => negb (is_nil_b (render_trivia t1)) | _ => true end
  | DGroup t1 specs tend =>
      wf_trivia t1 && forallb (fun x => wf_trivia (fst x) && wf_spec (snd x)) specs && wf_trivia tend
  end.

Definition spec_paths (sp : ispec) : list bytes := [render_lit (sp_path sp)].
Definition decl_paths (d : idecl) : list bytes :=
  match d with
  | DSingle _ sp => spec_paths sp
  | DGroup _ specs _ => concat (map (fun x => spec_paths (snd x)) specs)
  end.

(* ---- the import section of a file *)
Record isection := mksection {
  f_bom : bool;
  f_t0 : list triv;                      (* before `package` *)
  f_t1 : list triv;                      (* between `package` and the name: not empty *)
  f_pkg : bytes;
  f_decls : list (list triv * idecl);    (* trivia before each `import` *)
  f_tend : list triv                     (* trivia after the last declaration *)
}.

Definition render_decls (l : list (list triv * idecl)) : bytes :=
  concat (map (fun x => render_trivia (fst x) ++ render_decl (snd x)) l).
(* without the byte-order mark *)
Definition render_body (g : isection) : bytes :=
  render_trivia (f_t0 g) ++ kw_package ++ render_trivia (f_t1 g) ++ f_pkg g
  ++ render_decls (f_decls g) ++ render_trivia (f_tend g).
Definition render (g : isection) : bytes := (if f_bom g then bom else []) ++ render_body g.
Definition paths (g : isection) : list bytes := concat (map (fun x => decl_paths (snd x)) (f_decls g)).

(* what may follow the import section: the end of the file, or a byte that is neither
   trivia, nor NUL, nor the 'i' of another import *)
Definition stop_byte (c : byte) : bool :=
  negb (is_spacec c) && negb (beq c SLASH) && negb (beq c NUL) && negb (beq c LOWER_I).
Definition stop_rest (rest : bytes) : bool :=
  match rest with [] => true | c :: _ => stop_byte c end.

(* what may follow a keyword or an identifier: the end, or a byte that is not part of one *)
Definition after_word (Y : bytes) : bool :=
  match Y with [] => true | y :: _ => negb (is_ident y) && negb (beq y NUL) end.

Definition wf_section (g : isection) (rest : bytes) : bool :=
  wf_trivia (f_t0 g) && wf_trivia (f_t1 g) && negb (is_nil_b (render_trivia (f_t1 g)))
  && wf_ident (f_pkg g)
  && forallb (fun x => wf_trivia (fst x) && wf_decl (snd x)) (f_decls g)
  && wf_trivia (f_tend g)
  && stop_rest rest
  (* the package name is not glued to what follows it *)
  && after_word (render_decls (f_decls g) ++ render_trivia (f_tend g) ++ rest).

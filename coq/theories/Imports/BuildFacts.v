(* Proofs about the model of imports/build.go (Build.v): the model equals the
   specification written from the property text. *)
From Coq Require Import List Bool Arith NArith Lia.
From Coq.Strings Require Import Byte.
From GI Require Import Lib.Bytes Lib.BytesFacts Gen.ImportsConsts Imports.Build.
Import ListNotations.

(* ------------------------------------------------------------------ *)
(* facts about the regenerated constants (re-checked on every run)     *)

Lemma known_os_nonempty : known known_os [] = false.
Proof. reflexivity. Qed.
Lemma known_arch_nonempty : known known_arch [] = false.
Proof. reflexivity. Qed.
Lemma known_os_tagchars : forallb tag_chars known_os = true.
Proof. vm_compute. reflexivity. Qed.
Lemma known_arch_tagchars : forallb tag_chars known_arch = true.
Proof. vm_compute. reflexivity. Qed.
Lemma test_word_no_us : ~ In US test_word.
Proof. apply mem_byte_false. reflexivity. Qed.
Lemma ignore_not_linux : bytes_eqb ignore linux = false.
Proof. reflexivity. Qed.
Lemma bang_not_tag_chars r : tag_chars (BANG :: r) = false.
Proof. reflexivity. Qed.

(* ------------------------------------------------------------------ *)
(* small list facts                                                    *)

Lemma forallb_eq {A} (f g : A -> bool) l : (forall x, f x = g x) -> forallb f l = forallb g l.
Proof. intros H. induction l as [|x l IH]; [reflexivity|]. cbn. now rewrite H, IH. Qed.
Lemma existsb_eq {A} (f g : A -> bool) l : (forall x, f x = g x) -> existsb f l = existsb g l.
Proof. intros H. induction l as [|x l IH]; [reflexivity|]. cbn. now rewrite H, IH. Qed.

Lemma known_tagchars tab x :
  forallb tag_chars tab = true -> known tab x = true -> tag_chars x = true.
Proof.
  intros Hall Hk. unfold known in Hk. apply existsb_exists in Hk. destruct Hk as [y [Hin Heq]].
  apply bytes_eqb_eq in Heq. subst y. rewrite forallb_forall in Hall. now apply Hall.
Qed.

(* ------------------------------------------------------------------ *)
(* terms and options                                                   *)

Lemma match_tag_true name tags : name <> [] ->
  match_tag name tags true = tag_chars name && (wild tags name || selects tags name).
Proof.
  intros Hne. unfold match_tag, wild, selects. destruct name as [|b r]; [contradiction|].
  cbn [is_nil negb].
  destruct (tag_chars (b :: r)), (tags star), (bytes_eqb (b :: r) ignore),
    (bytes_eqb (b :: r) linux), (tags (b :: r)), (tags android); reflexivity.
Qed.

Lemma match_tag_false name tags : name <> [] ->
  match_tag name tags false = tag_chars name && (wild tags name || negb (selects tags name)).
Proof.
  intros Hne. unfold match_tag, wild, selects. destruct name as [|b r]; [contradiction|].
  cbn [is_nil negb].
  destruct (tag_chars (b :: r)), (tags star), (bytes_eqb (b :: r) ignore),
    (bytes_eqb (b :: r) linux), (tags (b :: r)), (tags android); reflexivity.
Qed.

Lemma match_tag_nostar name tags : tags star = false ->
  match_tag name tags true = tag_chars name && selects tags name.
Proof.
  intros Hs. unfold match_tag, selects. rewrite Hs. cbn [andb].
  destruct (tag_chars name), (bytes_eqb name linux), (tags name), (tags android); reflexivity.
Qed.

Lemma match_term_spec t tags : match_term t tags = term_ok tags t.
Proof.
  destruct t as [|b r]; [reflexivity|].
  unfold match_term, term_ok. cbn [is_nil]. cbn [has_prefix]. rewrite (beq_sym BANG b).
  destruct (beq b BANG) eqn:Eb.
  - apply beq_eq in Eb. subst b. cbn [andb].
    destruct r as [|c r'].
    + reflexivity.
    + destruct (beq BANG c) eqn:Ec.
      * apply beq_eq in Ec. subst c. cbn [andb]. unfold wf_tag. cbn [is_nil negb].
        rewrite bang_not_tag_chars. reflexivity.
      * cbn [andb]. cbn [length skipn]. change (1 <? S (S (length r'))) with true. cbn [andb].
        rewrite match_tag_false by discriminate. unfold wf_tag. reflexivity.
  - cbn [andb]. rewrite match_tag_true by discriminate. unfold wf_tag. reflexivity.
Qed.

Lemma split_on_nonnil c d : split_on c d <> [].
Proof.
  destruct d as [|b r]; cbn [split_on]; [discriminate|].
  destruct (beq b c); [discriminate|]. destruct (split_on c r); discriminate.
Qed.

Lemma match_tags_go_spec tags d : forall cur,
  match_tags_go tags cur d =
  match split_on COMMA d with
  | l :: ls => match_term (rev cur ++ l) tags && forallb (fun t => match_term t tags) ls
  | [] => true
  end.
Proof.
  induction d as [|b r IH]; intros cur; cbn [match_tags_go split_on].
  - now rewrite app_nil_r, andb_true_r.
  - destruct (beq b COMMA) eqn:Eb.
    + rewrite IH. rewrite app_nil_r. cbn [rev app].
      destruct (split_on COMMA r) as [|l ls] eqn:Es; [now apply split_on_nonnil in Es|].
      reflexivity.
    + rewrite IH. destruct (split_on COMMA r) as [|l ls] eqn:Es; [now apply split_on_nonnil in Es|].
      cbn [rev]. now rewrite <- app_assoc.
Qed.

Lemma match_tags_spec name tags : match_tags name tags = option_ok tags name.
Proof.
  unfold match_tags, option_ok. destruct name as [|b r]; [reflexivity|]. cbn [is_nil].
  rewrite match_tags_go_spec. cbn [rev app].
  destruct (split_on COMMA (b :: r)) as [|l ls] eqn:Es; [now apply split_on_nonnil in Es|].
  cbn [forallb]. rewrite match_term_spec. f_equal. apply forallb_eq. intros x. apply match_term_spec.
Qed.

(* ------------------------------------------------------------------ *)
(* ShouldBuild                                                         *)

Lemma followed_by_blank_none run : existsb blank run = false -> followed_by_blank run = [].
Proof. intros H. destruct run as [|l r]; [reflexivity|]. cbn [followed_by_blank]. now rewrite H. Qed.

Lemma pass1_spec ls : forall acc pend,
  pass1 acc pend ls =
  acc ++ (if existsb blank (leading_run ls) then pend ++ followed_by_blank (leading_run ls) else []).
Proof.
  induction ls as [|l r IH]; intros acc pend; cbn [pass1 leading_run].
  - cbn. now rewrite app_nil_r.
  - assert (Hb : is_nil (trim_space l) = blank l) by reflexivity.
    assert (Hc : has_prefix slashslash (trim_space l) = comment l) by reflexivity.
    rewrite Hb, Hc. destruct (blank l) eqn:Eb.
    + cbn [orb]. rewrite IH. cbn [existsb followed_by_blank]. rewrite Eb. cbn [orb].
      rewrite <- !app_assoc. f_equal. f_equal. cbn [app]. f_equal.
      destruct (existsb blank (leading_run r)) eqn:Ee; [reflexivity|].
      now rewrite followed_by_blank_none.
    + cbn [orb]. destruct (comment l) eqn:Ec; cbn [negb].
      * rewrite IH. cbn [existsb followed_by_blank]. rewrite Eb. cbn [orb].
        destruct (existsb blank (leading_run r)); [|reflexivity].
        now rewrite <- app_assoc.
      * cbn. now rewrite app_nil_r.
Qed.

Definition line_spec (tags : tagset) (l : bytes) : bool :=
  match build_options l with
  | Some opts => existsb (option_ok tags) opts
  | None => true
  end.

Lemma fields_go_nonnil d : forall cur k, cur <> [] -> fields_go d cur k <> [].
Proof.
  induction d as [|b r IH]; intros cur k Hc; cbn [fields_go].
  - destruct cur; [contradiction|discriminate].
  - destruct k as [|k]; [|now apply IH].
    destruct (space_prefix (b :: r)).
    + apply IH. discriminate.
    + destruct cur; [contradiction|]. discriminate.
Qed.

Lemma space_prefix_plus r : space_prefix (PLUS :: r) = 0.
Proof. reflexivity. Qed.

Lemma fields_plus r : fields (PLUS :: r) <> [].
Proof.
  unfold fields. cbn [fields_go]. rewrite space_prefix_plus. apply fields_go_nonnil. discriminate.
Qed.

Lemma line_ok_spec tags l : line_ok tags l = Some (line_spec tags l).
Proof.
  unfold line_ok, line_spec, build_options, comment, comment_text.
  destruct (has_prefix slashslash (trim_space l)); cbn [negb andb]; [|reflexivity].
  destruct (trim_space (skipn (length slashslash) (trim_space l))) as [|b r] eqn:Et; [reflexivity|].
  cbn [has_prefix]. rewrite (beq_sym PLUS b). destruct (beq b PLUS) eqn:Eb; cbn [andb]; [|reflexivity].
  apply beq_eq in Eb. subst b.
  destruct (fields (PLUS :: r)) as [|f0 args] eqn:Ef; [now apply fields_plus in Ef|].
  destruct (bytes_eqb f0 plus_build); [|reflexivity].
  f_equal. apply existsb_eq. intros x. apply match_tags_spec.
Qed.

Lemma pass2_spec tags ls : forall allok,
  pass2 tags allok ls = Some (allok && forallb (line_spec tags) ls).
Proof.
  induction ls as [|l r IH]; intros allok; cbn [pass2 forallb].
  - now rewrite andb_true_r.
  - rewrite line_ok_spec, IH. f_equal. destruct (line_spec tags l), allok; reflexivity.
Qed.

Lemma should_build_spec content tags :
  should_build content tags = Some (spec_should_build content tags).
Proof.
  unfold should_build, spec_should_build, header. rewrite pass1_spec, pass2_spec. cbn [app andb].
  f_equal.
  destruct (existsb blank (leading_run (go_lines content))) eqn:Ee; [reflexivity|].
  now rewrite followed_by_blank_none.
Qed.

(* ------------------------------------------------------------------ *)
(* tags["*"]                                                           *)

Lemma term_ok_star tags t : tags star = true -> term_ok tags t = star_term_ok tags t.
Proof.
  intros Hs. unfold term_ok, star_term_ok, wild, selects. rewrite Hs. cbn [andb].
  assert (H : forall r, (negb (bytes_eqb r ignore) || negb (tags r || bytes_eqb r linux && tags android))
                        = (negb (bytes_eqb r ignore) || negb (tags ignore))
                     /\ (negb (bytes_eqb r ignore) || (tags r || bytes_eqb r linux && tags android))
                        = (negb (bytes_eqb r ignore) || tags ignore)).
  { intros r. destruct (bytes_eqb r ignore) eqn:Ei; cbn [negb orb]; [|now split].
    apply bytes_eqb_eq in Ei. subst r. rewrite ignore_not_linux. cbn [andb]. now rewrite orb_false_r. }
  destruct t as [|b r]; [reflexivity|].
  destruct (beq b BANG); [now rewrite (proj1 (H r))|now rewrite (proj2 (H (b :: r)))].
Qed.

Lemma star_accepts_all_but_ignore tags :
  tags star = true ->
  (forall name, match_file name tags = true) /\
  (forall content,
     should_build content tags =
     Some (forallb (fun l => match build_options l with
                             | Some opts => existsb (fun o => forallb (star_term_ok tags) (split_on COMMA o)) opts
                             | None => true
                             end) (header content))).
Proof.
  intros Hs. split.
  - intros name. unfold match_file. now rewrite Hs.
  - intros content. rewrite should_build_spec. f_equal. unfold spec_should_build.
    apply forallb_eq. intros l. destruct (build_options l) as [opts|]; [|reflexivity].
    apply existsb_eq. intros o. unfold option_ok. apply forallb_eq. intros t. now apply term_ok_star.
Qed.

(* ------------------------------------------------------------------ *)
(* MatchFile: segments and suffixes                                    *)

Fixpoint join (c : byte) (ls : list bytes) : bytes :=
  match ls with
  | [] => []
  | x :: r => match r with [] => x | _ => x ++ c :: join c r end
  end.

Lemma join_split c d : join c (split_on c d) = d.
Proof.
  induction d as [|b r IH]; [reflexivity|]. cbn [split_on].
  destruct (beq b c) eqn:Eb.
  - apply beq_eq in Eb. subst b.
    destruct (split_on c r) as [|l ls] eqn:Es; [now apply split_on_nonnil in Es|].
    cbn [join app] in *. now rewrite IH.
  - destruct (split_on c r) as [|l ls] eqn:Es; [now apply split_on_nonnil in Es|].
    destruct ls as [|y ys]; cbn [join] in *; [now rewrite IH|].
    cbn [app]. now rewrite IH.
Qed.

Lemma split_on_segments c d : Forall (fun t => ~ In c t) (split_on c d).
Proof.
  induction d as [|b r IH]; cbn [split_on].
  - constructor; [intros []|constructor].
  - destruct (beq b c) eqn:Eb.
    + constructor; [intros []|exact IH].
    + destruct (split_on c r) as [|l ls]; [constructor; [|constructor]|].
      * intros [H|[]]. subst. now rewrite beq_refl in Eb.
      * inversion IH as [|? ? Hl Hls]; subst. constructor; [|exact Hls].
        intros [H|H]; [subst; now rewrite beq_refl in Eb|now apply Hl].
Qed.

Lemma split_on_none c t : ~ In c t -> split_on c t = [t].
Proof.
  induction t as [|b r IH]; intros H; [reflexivity|]. cbn [split_on].
  destruct (beq b c) eqn:Eb; [apply beq_eq in Eb; subst; exfalso; apply H; now left|].
  rewrite IH; [reflexivity|]. intros Hin. apply H. now right.
Qed.

Lemma split_on_snoc c front t : ~ In c t ->
  split_on c (front ++ c :: t) = split_on c front ++ [t].
Proof.
  intros Ht. induction front as [|b f IH]; cbn [app split_on].
  - rewrite beq_refl. now rewrite split_on_none.
  - destruct (beq b c); [now rewrite IH|]. rewrite IH.
    destruct (split_on c f) as [|l ls] eqn:Es; [now apply split_on_nonnil in Es|]. reflexivity.
Qed.

Lemma join_snoc c ls t : ls <> [] -> join c (ls ++ [t]) = join c ls ++ c :: t.
Proof.
  induction ls as [|x r IH]; intros Hne; [contradiction|].
  destruct r as [|y r'].
  - reflexivity.
  - change (join c ((x :: y :: r') ++ [t])) with (x ++ c :: join c ((y :: r') ++ [t])).
    rewrite IH by discriminate. change (join c (x :: y :: r')) with (x ++ c :: join c (y :: r')).
    now rewrite <- app_assoc.
Qed.

Lemma from_first_some c d s : from_first c d = Some s ->
  exists pre rest, d = pre ++ c :: rest /\ ~ In c pre /\ s = c :: rest.
Proof.
  induction d as [|b r IH]; cbn [from_first]; [discriminate|].
  destruct (beq b c) eqn:Eb.
  - intros [= <-]. apply beq_eq in Eb. subst b. exists [], r. repeat split. intros [].
  - intros H. destruct (IH H) as [pre [rest [-> [Hp ->]]]]. exists (b :: pre), rest. repeat split.
    intros [Hin|Hin]; [subst; now rewrite beq_refl in Eb|now apply Hp].
Qed.

Lemma from_first_intro c pre rest : ~ In c pre -> from_first c (pre ++ c :: rest) = Some (c :: rest).
Proof.
  induction pre as [|b p IH]; intros H; cbn [app from_first].
  - now rewrite beq_refl.
  - rewrite beq_false; [apply IH; intros Hin; apply H; now right|].
    intros ->. apply H. now left.
Qed.

Lemma from_first_none c d : from_first c d = None -> ~ In c d.
Proof.
  induction d as [|b r IH]; cbn [from_first]; [intros _ []|].
  destruct (beq b c) eqn:Eb; [discriminate|].
  intros H [Hin|Hin]; [subst; now rewrite beq_refl in Eb|now apply IH].
Qed.

(* the segments of the tail after one trailing "_test" was dropped *)
Lemma strip_test_cases rest s : s = US :: rest ->
  (exists x, s = x ++ US :: test_word /\ strip_test s = x /\
             split_on US s = split_on US x ++ [test_word])
  \/ (strip_test s = s /\
      forall y r, rev (split_on US s) = y :: r -> bytes_eqb y test_word = false).
Proof.
  intros Hdef. unfold strip_test. destruct (has_suffix (US :: test_word) s) eqn:Hs.
  - left. apply has_suffix_iff in Hs. destruct Hs as [x Hx]. exists x. split; [exact Hx|]. split.
    + rewrite Hx. rewrite app_length.
      replace (length x + length (US :: test_word) - length (US :: test_word)) with (length x) by lia.
      apply firstn_length_app.
    + rewrite Hx. apply split_on_snoc. apply test_word_no_us.
  - right. split; [reflexivity|]. intros y r Hr.
    destruct (bytes_eqb y test_word) eqn:Ey; [|reflexivity]. exfalso.
    apply bytes_eqb_eq in Ey. subst y.
    assert (Hl : split_on US s = rev r ++ [test_word]).
    { rewrite <- (rev_involutive (split_on US s)), Hr. reflexivity. }
    assert (Hne : rev r <> []).
    { intros He. rewrite He in Hl. rewrite Hdef in Hl. cbn [split_on app] in Hl. rewrite beq_refl in Hl.
      destruct (split_on US rest) eqn:Es; [now apply split_on_nonnil in Es|discriminate]. }
    pose proof (join_split US s) as Hj. rewrite Hl, join_snoc in Hj by exact Hne.
    assert (Hs' : has_suffix (US :: test_word) s = true).
    { apply has_suffix_iff. eexists. symmetry. exact Hj. }
    congruence.
Qed.

Lemma model_segments rest :
  match rev (split_on US (US :: rest)) with
  | x :: r => if bytes_eqb x test_word then r else x :: r
  | [] => []
  end = rev (split_on US (strip_test (US :: rest))).
Proof.
  destruct (strip_test_cases rest (US :: rest) eq_refl) as [[x [Hx [Hst Hsp]]]|[Hst Hno]].
  - rewrite Hst, Hsp, rev_app_distr. cbn [rev app]. now rewrite bytes_eqb_refl.
  - rewrite Hst. destruct (rev (split_on US (US :: rest))) as [|y r] eqn:Er; [reflexivity|].
    now rewrite (Hno y r eq_refl).
Qed.

(* what is looked at is empty or starts with '_' *)
Lemma strip_test_shape rest :
  strip_test (US :: rest) = [] \/ exists r', strip_test (US :: rest) = US :: r'.
Proof.
  destruct (strip_test_cases rest (US :: rest) eq_refl) as [[x [Hx [Hst _]]]|[Hst _]].
  - rewrite Hst. destruct x as [|b x']; [now left|]. right. cbn [app] in Hx.
    injection Hx as <- _. now exists x'.
  - right. rewrite Hst. now exists rest.
Qed.

Lemma ends1_iff s t :
  ends_with_tokens s [t] <-> exists ls, ls <> [] /\ split_on US s = ls ++ [t].
Proof.
  unfold ends_with_tokens, join_us. cbn [map concat]. rewrite app_nil_r. split.
  - intros [[front ->] Hf]. inversion Hf as [|? ? Ht _]; subst.
    exists (split_on US front). split; [apply split_on_nonnil|]. now apply split_on_snoc.
  - intros [ls [Hne Hs]]. pose proof (join_split US s) as Hj. rewrite Hs, join_snoc in Hj by exact Hne.
    split; [eexists; symmetry; exact Hj|].
    pose proof (split_on_segments US s) as Hseg. rewrite Hs in Hseg.
    apply Forall_app in Hseg. exact (proj2 Hseg).
Qed.

Lemma ends2_iff s o a :
  ends_with_tokens s [o; a] <-> exists ls, ls <> [] /\ split_on US s = ls ++ [o; a].
Proof.
  unfold ends_with_tokens, join_us. cbn [map concat]. rewrite app_nil_r. split.
  - intros [[front ->] Hf]. inversion Hf as [|? ? Ho Hf']; subst.
    inversion Hf' as [|? ? Ha _]; subst.
    exists (split_on US front). split; [apply split_on_nonnil|].
    change (front ++ (US :: o) ++ US :: a) with (front ++ (US :: o) ++ US :: a).
    rewrite app_assoc, split_on_snoc by exact Ha. rewrite split_on_snoc by exact Ho.
    now rewrite <- app_assoc.
  - intros [ls [Hne Hs]]. pose proof (join_split US s) as Hj.
    change (ls ++ [o; a]) with (ls ++ [o] ++ [a]) in Hs. rewrite app_assoc in Hs.
    rewrite Hs, join_snoc in Hj by (destruct ls; discriminate).
    rewrite join_snoc in Hj by exact Hne.
    split.
    + exists (join US ls). rewrite <- Hj. now rewrite <- app_assoc.
    + pose proof (split_on_segments US s) as Hseg. rewrite Hs in Hseg.
      apply Forall_app in Hseg. destruct Hseg as [Hseg Ha]. apply Forall_app in Hseg.
      destruct Hseg as [_ Ho]. inversion Ho; inversion Ha; subst. now repeat constructor.
Qed.

Lemma known_match_tag tab t tags :
  forallb tag_chars tab = true -> known tab t = true -> tags star = false ->
  match_tag t tags true = selects tags t.
Proof.
  intros Hall Hk Hs. rewrite match_tag_nostar by exact Hs.
  now rewrite (known_tagchars tab t Hall Hk).
Qed.

Lemma match_file_spec name tags : match_file name tags = false <-> rejected name tags.
Proof.
  unfold match_file, rejected. split.
  - (* the model says no: exhibit the suffix *)
    destruct (tags star) eqn:Hs; [discriminate|]. intros H. split; [reflexivity|].
    destruct (from_first US (take_until DOT name)) as [s|] eqn:Ef; [|discriminate].
    destruct (from_first_some _ _ _ Ef) as [pre [rest [Hbase [Hpre ->]]]].
    rewrite (model_segments rest) in H.
    exists (strip_test (US :: rest)). split; [now exists pre, rest|].
    set (s' := strip_test (US :: rest)) in *.
    assert (Hlen2 : forall x y, split_on US s' = [x; y] -> x = []).
    { intros x y Hxy. destruct (strip_test_shape rest) as [He|[r' He]]; fold s' in He; rewrite He in Hxy.
      - discriminate.
      - cbn [split_on] in Hxy. rewrite beq_refl in Hxy. now injection Hxy as <- _. }
    assert (Hlen1 : forall x, split_on US s' = [x] -> x = []).
    { intros x Hx. destruct (strip_test_shape rest) as [He|[r' He]]; fold s' in He; rewrite He in Hx.
      - now injection Hx as <-.
      - cbn [split_on] in Hx. rewrite beq_refl in Hx.
        destruct (split_on US r') eqn:Es; [now apply split_on_nonnil in Es|discriminate]. }
    destruct (rev (split_on US s')) as [|a [|o tl]] eqn:Er; [discriminate| |].
    + (* one segment: it is empty, hence unknown *)
      assert (Hl : split_on US s' = [a]) by (rewrite <- (rev_involutive (split_on US s')), Er; reflexivity).
      rewrite (Hlen1 a Hl), known_os_nonempty, known_arch_nonempty in H. discriminate.
    + assert (Hl : split_on US s' = rev tl ++ [o; a]).
      { rewrite <- (rev_involutive (split_on US s')), Er. cbn [rev]. now rewrite <- app_assoc. }
      assert (E1 : ends_with_tokens s' [a]).
      { apply ends1_iff. exists (rev tl ++ [o]). split; [destruct (rev tl); discriminate|].
        rewrite Hl. now rewrite <- app_assoc. }
      destruct (known known_os o && known known_arch a) eqn:Eoa.
      * apply andb_true_iff in Eoa. destruct Eoa as [Ho Ha].
        rewrite (known_match_tag _ _ _ known_os_tagchars Ho Hs),
                (known_match_tag _ _ _ known_arch_tagchars Ha Hs) in H.
        destruct (selects tags a) eqn:Sa.
        -- rewrite andb_true_r in H. right. exists o, a. split; [|now repeat split].
           apply ends2_iff. exists (rev tl). split; [|exact Hl].
           intros He. rewrite He in Hl. cbn [app] in Hl. rewrite (Hlen2 o a Hl) in Ho.
           rewrite known_os_nonempty in Ho. discriminate.
        -- left. exists a. split; [exact E1|]. split; [now right|exact Sa].
      * destruct (known known_os a) eqn:Ka.
        -- rewrite (known_match_tag _ _ _ known_os_tagchars Ka Hs) in H.
           left. exists a. split; [exact E1|]. split; [now left|exact H].
        -- destruct (known known_arch a) eqn:Kb; [|discriminate].
           rewrite (known_match_tag _ _ _ known_arch_tagchars Kb Hs) in H.
           left. exists a. split; [exact E1|]. split; [now right|exact H].
  - (* a rejected suffix makes the model say no *)
    intros [Hs [s' [[pre [rest [Hbase [Hpre ->]]]] Hrule]]]. rewrite Hs.
    rewrite Hbase, (from_first_intro US pre rest Hpre), (model_segments rest).
    destruct Hrule as [[t [E1 [Hk St]]]|[o [a [E2 [Ko [Ka So]]]]]].
    + apply ends1_iff in E1. destruct E1 as [ls [Hne Hl]]. rewrite Hl, rev_app_distr. cbn [rev app].
      destruct (rev ls) as [|o tl] eqn:Erl.
      { exfalso. apply Hne. rewrite <- (rev_involutive ls), Erl. reflexivity. }
      assert (Mt : forall tab, forallb tag_chars tab = true -> known tab t = true ->
                               match_tag t tags true = false).
      { intros tab Hall Hkt. now rewrite (known_match_tag _ _ _ Hall Hkt Hs). }
      destruct (known known_os o && known known_arch t) eqn:Eoa.
      * apply andb_true_iff in Eoa. rewrite (Mt _ known_arch_tagchars (proj2 Eoa)). apply andb_false_r.
      * destruct (known known_os t) eqn:K1; [now apply (Mt _ known_os_tagchars)|].
        destruct (known known_arch t) eqn:K2; [now apply (Mt _ known_arch_tagchars)|].
        destruct Hk; discriminate.
    + apply ends2_iff in E2. destruct E2 as [ls [Hne Hl]]. rewrite Hl, rev_app_distr. cbn [rev app].
      rewrite Ko, Ka. cbn [andb].
      now rewrite (known_match_tag _ _ _ known_os_tagchars Ko Hs), So.
Qed.

(* ------------------------------------------------------------------ *)
(* Examples: the hypotheses / definitions are inhabited non-trivially  *)

Definition ex_tags (on : list bytes) : tagset := fun t => existsb (bytes_eqb t) on.

(* "// +build linux,!foo bar\n\npackage x" under {linux}: accepted through the first option *)
Example ex_should_build :
  let src := [x2f;x2f;x20;x2b;x62;x75;x69;x6c;x64;x20;x6c;x69;x6e;x75;x78;x2c;x21;x66;x6f;x6f;x20;x62;x61;x72;
              x0a;x0a;x70;x61;x63;x6b;x61;x67;x65;x20;x78] in
  should_build src (ex_tags [linux]) = Some true
  /\ should_build src (ex_tags [android]) = Some true
  /\ should_build src (ex_tags []) = Some false
  /\ length (header src) = 2.
Proof. vm_compute. repeat split. Qed.

(* x_linux.go under {android} is accepted (the corrected behaviour); x_linux_arm_test.go under
   {linux} is rejected, and the witness of [rejected] exists *)
Example ex_match_file :
  match_file [x78;x5f;x6c;x69;x6e;x75;x78;x2e;x67;x6f] (ex_tags [android]) = true
  /\ match_file [x78;x5f;x6c;x69;x6e;x75;x78;x5f;x61;x72;x6d;x5f;x74;x65;x73;x74;x2e;x67;x6f] (ex_tags [linux]) = false.
Proof. vm_compute. split; reflexivity. Qed.

Example ex_rejected :
  rejected [x78;x5f;x6c;x69;x6e;x75;x78;x5f;x61;x72;x6d;x5f;x74;x65;x73;x74;x2e;x67;x6f] (ex_tags [linux]).
Proof. apply match_file_spec. vm_compute. reflexivity. Qed.

Example ex_star : ex_tags [star] star = true.
Proof. reflexivity. Qed.

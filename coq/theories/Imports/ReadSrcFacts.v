(* Gen/ImportsReadSrc.v is imports/read.go (the import reader behind ReadImports) translated to
   Gallina by harness/go2coq on every run.  This file proves that each generated function
   returns Ok of exactly what the hand-written model Imports/Read.v computes:

   - the reader of the source is a function [abs] of the model's state (r.buf is the model's
     reversed buffer, the bufio.Reader its unread input, r.err the image [err_of] of the
     model's error kind, r.nerr the counter as an int); the model's sticky failure flag and
     its list of imports have no counterpart in the struct: *imports is [absI];
   - isIdent, syntaxError, readByte: for every state, unconditionally;
   - peekByte, nextByte, readKeyword, readIdent, readString, readImport: for every state s,
     every F within which the MODEL's run from s ends with its failure flag clear (neither the
     "import reader looping" panic nor the model's own fuel F exhausted) and every bound
     fuel >= F on the iterations of each loop of the translation; readString / readImport in
     addition for states in which a byte held in r.peek is in r.buf ([pkwf], an invariant of
     every state the reader reaches from newImportReader): the slice r.buf[start:] needs it;
   - ReadImports: for every input, both values of reportSyntaxError, every *imports, and
     every fuel >= 2 * len(data) + 8 (Imports/ReadFacts.v shows that the model's run from
     the initial state ends with the flag clear within fuel_for = 2 * len + 8).

   So the translated functions never panic (no slice expression out of range, no nil
   dereference of *imports, no "looping" panic) and never exhaust the bound, and a change of
   read.go that changes the generated text stops these proofs from compiling.

   The proofs do not mention generated hypothesis or bound-variable names: functions are
   unfolded, conditions are rewritten to the model's, loops go by induction on the model's
   iteration count with the translation's count generalised; that the model's flag is sticky
   ([*_mono]) turns "clear at the end" into "clear at every intermediate state". *)
From Coq Require Import List Bool Arith ZArith NArith Lia ZifyBool.
From Coq.Strings Require Import Byte.
From GI Require Import Lib.Bytes Lib.BytesFacts Lib.GoSem Lib.GoSemExt Lib.GoSemExtFacts Lib.GoSemIO
  Imports.Read Imports.ReadFacts Imports.ReadSrcLib Gen.ImportsReadSrc.
Import ListNotations.
Local Open Scope nat_scope.

(* ------------------------------------------------------------------ *)
(* the reader of the source as a function of the model's state         *)

Definition err_of (e : errk) : goerr :=
  match e with ENone => ErrNil | ESyntax => src_errSyntax | ENUL => src_errNUL end.

Definition abs (s : st) : ireader :=
  mk_ireader (rest s) (rev (rbuf s)) (peek s) (err_of (err s)) (eof s) (Z.of_N (nerr s)).

Lemma err_of_nil e : goerr_eqb (err_of e) ErrNil = match e with ENone => true | _ => false end.
Proof. destruct e; reflexivity. Qed.
Lemma err_of_syntax e : goerr_eqb (err_of e) src_errSyntax = match e with ESyntax => true | _ => false end.
Proof. destruct e; reflexivity. Qed.
Lemma goerr_consts :
  goerr_eqb ErrNil ErrNil = true /\ goerr_eqb src_errNUL ErrNil = false /\ goerr_eqb src_errNUL go_io_EOF = false
  /\ goerr_eqb go_io_EOF ErrNil = false /\ goerr_eqb go_io_EOF go_io_EOF = true.
Proof. repeat split. Qed.
Ltac err_red :=
  let H := fresh in
  pose proof goerr_consts as H; destruct H as (?E1 & ?E2 & ?E3 & ?E4 & ?E5);
  rewrite ?E1, ?E2, ?E3, ?E4, ?E5; clear E1 E2 E3 E4 E5.
Lemma abs_no_err s : goerr_eqb (ir_err (abs s)) ErrNil = no_err s.
Proof. cbn [abs ir_err]. apply err_of_nil. Qed.

Lemma err_of_no_err s : goerr_eqb (err_of (err s)) ErrNil = no_err s.
Proof. apply err_of_nil. Qed.

Lemma src_consts :
  x00 = NUL /\ x2f = SLASH /\ x2a = STAR /\ x60 = BQUOTE /\ x22 = DQUOTE /\ x5c = BSLASH /\ x28 = LPAREN
  /\ x29 = RPAREN /\ x2e = DOTB /\ x69 = LOWER_I /\ x0a = NL /\ 10000%Z = Z.of_N looping_limit /\ src_bom = bom
  /\ [x70; x61; x63; x6b; x61; x67; x65] = kw_package /\ [x69; x6d; x70; x6f; x72; x74] = kw_import.
Proof. repeat split. Qed.

Ltac go_red ::=
  cbv beta iota zeta;
  cbn [bind bindT bindO bindL negb orb andb fst snd opt_res returned app
       abs ir_b ir_buf ir_peek ir_err ir_eof ir_nerr].

(* the record the translated code builds is [abs] of the model state [s'] *)
Ltac fold_abs s' :=
  match goal with
  | |- context [mk_ireader ?a ?b ?c ?d ?e ?f] => change (mk_ireader a b c d e f) with (abs s')
  end.

(* ------------------------------------------------------------------ *)
(* the model's failure flag is sticky                                  *)

Lemma set_fail_mono s f : fail (set_fail s f) = FNone -> fail s = FNone.
Proof. destruct s as [a b c d e g h i]. cbn. destruct h; intros; congruence. Qed.

Lemma loop_fail_mono {A} (fl : A -> failk) n oof step :
  (forall a, fl (oof a) <> FNone) ->
  (forall a, fl (fst (step a)) = FNone -> fl a = FNone) ->
  forall a, fl (loop n oof step a) = FNone -> fl a = FNone.
Proof.
  intros Ho Hs. induction n as [|n IH]; intros a H; cbn [loop] in H.
  - now elim (Ho a).
  - specialize (Hs a). destruct (step a) as [a' again]. cbn [fst] in Hs. destruct again; auto.
Qed.

Lemma set_fail_fuel s : fail (set_fail s FFuel) <> FNone.
Proof. destruct s as [a b c d e g h i]. cbn. destruct h; discriminate. Qed.

Lemma syntax_error_fail s : fail (syntax_error s) = fail s.
Proof. unfold syntax_error. destruct (no_err s); reflexivity. Qed.

Lemma read_byte_fail s : fail (snd (read_byte s)) = fail s.
Proof.
  unfold read_byte. destruct (rest s); [reflexivity|]. destruct (beq _ _); [|reflexivity].
  cbn [snd]. destruct (no_err _); reflexivity.
Qed.

(* ------------------------------------------------------------------ *)
(* isIdent, syntaxError, readByte                                      *)

Theorem src_isIdent_eq c : src_isIdent c = Ok (is_ident c).
Proof. destruct c; reflexivity. Qed.

Lemma is_spacec_eq c :
  (((((beq c x20 || beq c x0c) || beq c x09) || beq c x0d) || beq c x0a) || beq c x3b) = is_spacec c.
Proof. destruct c; reflexivity. Qed.

Theorem src_syntaxError_eq s : src_importReader_syntaxError (abs s) = Ok (abs (syntax_error s)).
Proof.
  unfold src_importReader_syntaxError, syntax_error. rewrite abs_no_err.
  destruct (no_err s); reflexivity.
Qed.

Theorem src_readByte_eq s :
  src_importReader_readByte (abs s) = Ok (abs (snd (read_byte s)), fst (read_byte s)).
Proof.
  destruct s as [rs rb pk ef er ne fl im].
  unfold src_importReader_readByte, read_byte, go_bufio_ReadByte, go_append, abs, no_err.
  cbn [rest rbuf peek eof err nerr fail imps set_rest_buf set_eof set_err]. go_red.
  destruct rs as [|c r]; go_red; err_red; go_red; [reflexivity|].
  change x00 with NUL. destruct (beq c NUL) eqn:Ec; go_red; err_red; go_red; [|reflexivity].
  rewrite err_of_nil. destruct er; reflexivity.
Qed.

(* ------------------------------------------------------------------ *)
(* peekByte: the two comment loops, the main loop                      *)

Definition lc_step : byte * st -> (byte * st) * bool :=
  fun cs => let '(c, s) := cs in
    if negb (beq c NL) && no_err s && negb (eof s) then (read_byte s, true) else (cs, false).
Definition bc_step : byte * byte * st -> (byte * byte * st) * bool :=
  fun x => let '(c, c1, s) := x in
    if (negb (beq c STAR) || negb (beq c1 SLASH)) && no_err s then
      let s := if eof s then syntax_error s else s in
      let (b, s) := read_byte s in ((c1, b, s), true)
    else (x, false).
Definition pk_step (F : nat) (skip : bool) : byte * st -> (byte * st) * bool :=
  fun cs => let '(c, s) := cs in
    if no_err s && negb (eof s) && skip then
      if is_spacec c then (read_byte s, true)
      else if beq c SLASH then
        let (c, s) := read_byte s in
        let s :=
          if beq c SLASH then snd (line_comment F c s)
          else if beq c STAR then snd (block_comment F c NUL s)
          else syntax_error s in
        (read_byte s, true)
      else (cs, false)
    else (cs, false).

Lemma line_comment_unfold F c s : line_comment F c s = loop F oof1 lc_step (c, s).
Proof. reflexivity. Qed.
Lemma block_comment_unfold F c c1 s : block_comment F c c1 s = loop F oof2 bc_step (c, c1, s).
Proof. reflexivity. Qed.
Lemma peek_byte_unfold F skip s :
  peek_byte F skip s =
  if negb (no_err s) then
    let n := N.succ (nerr s) in
    let s := set_nerr s n in
    (NUL, if N.ltb looping_limit n then set_fail s FPanic else s)
  else
    let (c, s) := if beq (peek s) NUL then read_byte s else (peek s, s) in
    let (c, s) := loop F oof1 (pk_step F skip) (c, s) in
    (c, set_peek s c).
Proof. reflexivity. Qed.

Lemma src_peekByte_loop2_eq (L : Type) fuel : forall n m c s, n <= m ->
  fail (snd (loop n oof1 lc_step (c, s))) = FNone ->
  @src_importReader_peekByte_loop2 L fuel m (abs s) c =
  Ok (Normal (abs (snd (loop n oof1 lc_step (c, s))), fst (loop n oof1 lc_step (c, s)))).
Proof.
  induction n as [|n IH]; intros m c s Hm Hf.
  - cbn [loop oof1 fst snd] in Hf. now elim (set_fail_fuel s).
  - destruct m as [|m]; [lia|]. cbn [loop src_importReader_peekByte_loop2] in *.
    rewrite abs_no_err. change x0a with NL. cbn [abs ir_eof]. unfold lc_step at 1 in Hf. unfold lc_step at 1. unfold lc_step at 2.
    destruct (negb (beq c NL) && no_err s && negb (eof s)) eqn:Ec; go_red; [|reflexivity].
    rewrite src_readByte_eq. go_red. destruct (read_byte s) as [c' s'] eqn:Er. cbn [fst snd].
    apply IH; [lia|exact Hf].
Qed.

Lemma src_peekByte_loop3_eq (L : Type) fuel : forall n m c c1 s, n <= m ->
  fail (snd (loop n oof2 bc_step (c, c1, s))) = FNone ->
  @src_importReader_peekByte_loop3 L fuel m (abs s) c c1 =
  Ok (Normal (abs (snd (loop n oof2 bc_step (c, c1, s))),
              fst (fst (loop n oof2 bc_step (c, c1, s))), snd (fst (loop n oof2 bc_step (c, c1, s))))).
Proof.
  induction n as [|n IH]; intros m c c1 s Hm Hf.
  - cbn [loop oof2 fst snd] in Hf. now elim (set_fail_fuel s).
  - destruct m as [|m]; [lia|]. cbn [loop src_importReader_peekByte_loop3] in *.
    rewrite abs_no_err. change x2a with STAR. change x2f with SLASH. cbn [abs ir_eof].
    unfold bc_step at 1 in Hf. unfold bc_step at 1. unfold bc_step at 2. unfold bc_step at 3.
    destruct ((negb (beq c STAR) || negb (beq c1 SLASH)) && no_err s) eqn:Ec; go_red; [|reflexivity].
    assert (E1 : (if eof s then bind (src_importReader_syntaxError (abs s)) (fun v_r => Ok v_r) else Ok (abs s))
                 = Ok (abs (if eof s then syntax_error s else s))).
    { destruct (eof s); [now rewrite src_syntaxError_eq|reflexivity]. }
    fold (abs s). rewrite E1. go_red. rewrite src_readByte_eq. go_red.
    destruct (read_byte (if eof s then syntax_error s else s)) as [b s'] eqn:Er. cbn [fst snd].
    apply IH; [lia|exact Hf].
Qed.

Definition fl1 (cs : byte * st) : failk := fail (snd cs).
Definition fl2 (x : byte * byte * st) : failk := fail (snd x).

Lemma lc_mono n a : fl1 (loop n oof1 lc_step a) = FNone -> fl1 a = FNone.
Proof.
  apply loop_fail_mono.
  - intros [c s]. apply set_fail_fuel.
  - intros [c s]. unfold lc_step, fl1. destruct (_ && _); cbn [fst snd]; [|auto]. now rewrite read_byte_fail.
Qed.

Lemma bc_mono n a : fl2 (loop n oof2 bc_step a) = FNone -> fl2 a = FNone.
Proof.
  apply loop_fail_mono.
  - intros [[c c1] s]. apply set_fail_fuel.
  - intros [[c c1] s]. unfold bc_step, fl2. destruct (_ && _); cbn [fst snd]; [|auto].
    destruct (read_byte _) as [b s'] eqn:Er. cbn [fst snd]. intros H.
    assert (E : fail s' = fail (if eof s then syntax_error s else s)) by (now rewrite <- (read_byte_fail (if eof s then syntax_error s else s)), Er).
    rewrite H in E. destruct (eof s); [now rewrite syntax_error_fail in E|auto].
Qed.

Lemma pk_step_mono F skip a : fl1 (fst (pk_step F skip a)) = FNone -> fl1 a = FNone.
Proof.
  destruct a as [c s]. unfold pk_step, fl1. destruct (_ && _ && _); cbn [fst snd]; [|auto].
  destruct (is_spacec c); cbn [fst snd]; [now rewrite read_byte_fail|].
  destruct (beq c SLASH); cbn [fst snd]; [|auto].
  destruct (read_byte s) as [c' s'] eqn:Er. cbn [fst snd]. rewrite read_byte_fail.
  assert (E : fail s' = fail s) by (now rewrite <- (read_byte_fail s), Er).
  destruct (beq c' SLASH).
  - intros H. apply (lc_mono F (c', s')) in H. unfold fl1 in H. cbn [snd] in H. congruence.
  - destruct (beq c' STAR).
    + intros H. apply (bc_mono F (c', NUL, s')) in H. unfold fl2 in H. cbn [snd] in H. congruence.
    + rewrite syntax_error_fail. congruence.
Qed.

Lemma pk_mono F skip n a : fl1 (loop n oof1 (pk_step F skip) a) = FNone -> fl1 a = FNone.
Proof.
  apply loop_fail_mono.
  - intros [c s]. apply set_fail_fuel.
  - apply pk_step_mono.
Qed.

Lemma src_peekByte_loop1_eq (L : Type) F fuel skip : F <= fuel -> forall n m c s, n <= m ->
  fail (snd (loop n oof1 (pk_step F skip) (c, s))) = FNone ->
  @src_importReader_peekByte_loop1 L fuel m skip (abs s) c =
  Ok (Normal (abs (snd (loop n oof1 (pk_step F skip) (c, s))), fst (loop n oof1 (pk_step F skip) (c, s)))).
Proof.
  intros HF. induction n as [|n IH]; intros m c s Hm Hf.
  - cbn [loop oof1 fst snd] in Hf. now elim (set_fail_fuel s).
  - destruct m as [|m]; [lia|]. cbn [loop src_importReader_peekByte_loop1] in *.
    rewrite abs_no_err. cbn [abs ir_eof]. fold (abs s).
    destruct (pk_step F skip (c, s)) as [[c2 s2] again] eqn:Es. unfold pk_step in Es.
    destruct (no_err s && negb (eof s)) eqn:Ec; cbn [andb] in Es; go_red.
    2:{ injection Es as <- <- <-. reflexivity. }
    destruct skip; go_red.
    2:{ injection Es as <- <- <-. reflexivity. }
    rewrite is_spacec_eq. destruct (is_spacec c) eqn:Esp; go_red.
    { rewrite src_readByte_eq. go_red. injection Es as E1 <-. rewrite E1. cbn [fst snd].
      apply IH; [lia|exact Hf]. }
    change x2f with SLASH. change x2a with STAR. destruct (beq c SLASH) eqn:Esl; go_red.
    2:{ injection Es as <- <- <-. reflexivity. }
    rewrite src_readByte_eq. go_red. destruct (read_byte s) as [c' s'] eqn:Er. cbn [fst snd] in *.
    injection Es as Es <-. 
    assert (Hf2 : fail s2 = FNone) by (apply (pk_mono F true n (c2, s2)) in Hf; exact Hf).
    assert (Hf3 : fail (if beq c' SLASH then snd (line_comment F c' s')
                        else if beq c' STAR then snd (block_comment F c' NUL s') else syntax_error s') = FNone).
    { rewrite <- read_byte_fail, Es. exact Hf2. }
    destruct (beq c' SLASH) eqn:E1; go_red.
    + rewrite (src_peekByte_loop2_eq _ fuel F fuel c' s' HF Hf3). go_red. fold (abs (snd (line_comment F c' s'))).
      rewrite <- line_comment_unfold. rewrite src_readByte_eq. go_red. rewrite Es. cbn [fst snd].
      apply IH; [lia|exact Hf].
    + destruct (beq c' STAR) eqn:E2; go_red.
      * rewrite (src_peekByte_loop3_eq _ fuel F fuel c' NUL s' HF Hf3). go_red.
        rewrite <- block_comment_unfold. fold (abs (snd (block_comment F c' NUL s'))).
        rewrite src_readByte_eq. go_red. rewrite Es. cbn [fst snd]. apply IH; [lia|exact Hf].
      * rewrite src_syntaxError_eq. go_red. fold (abs (syntax_error s')). rewrite src_readByte_eq. go_red.
        rewrite Es. cbn [fst snd]. apply IH; [lia|exact Hf].
Qed.

Lemma set_fail_panic s : fail (set_fail s FPanic) <> FNone.
Proof. destruct s as [a b c d e g h i]. cbn. destruct h; discriminate. Qed.

Lemma peek_byte_mono F skip s : fail (snd (peek_byte F skip s)) = FNone -> fail s = FNone.
Proof.
  rewrite peek_byte_unfold. destruct (negb (no_err s)).
  - cbv zeta. cbn [snd]. destruct (N.ltb _ _); [intros H; now elim (set_fail_panic _ H)|auto].
  - destruct (if beq (peek s) NUL then read_byte s else (peek s, s)) as [c s1] eqn:E1.
    destruct (loop F oof1 (pk_step F skip) (c, s1)) as [c2 s2] eqn:E2. cbn [snd]. intros H.
    assert (H1 : fl1 (c, s1) = FNone) by (apply (pk_mono F skip F); rewrite E2; exact H).
    unfold fl1 in H1. cbn [snd] in H1. destruct (beq (peek s) NUL).
    + now rewrite <- (read_byte_fail s), E1.
    + now injection E1 as _ <-.
Qed.

Theorem src_peekByte_eq F fuel skip s : F <= fuel -> fail (snd (peek_byte F skip s)) = FNone ->
  src_importReader_peekByte fuel (abs s) skip = Ok (abs (snd (peek_byte F skip s)), fst (peek_byte F skip s)).
Proof.
  intros HF Hf. rewrite peek_byte_unfold in *. unfold src_importReader_peekByte.
  rewrite abs_no_err. destruct (no_err s) eqn:En; cbn [negb] in *.
  - go_red. change x00 with NUL.
    assert (E1 : (if beq (peek s) NUL
                  then bind (src_importReader_readByte (abs s)) (fun x => let (v_r, t1) := x in Ok (v_r, t1))
                  else Ok (abs s, peek s))
                 = Ok (abs (snd (if beq (peek s) NUL then read_byte s else (peek s, s))),
                       fst (if beq (peek s) NUL then read_byte s else (peek s, s)))).
    { destruct (beq (peek s) NUL); [rewrite src_readByte_eq; go_red|]; reflexivity. }
    fold (abs s). rewrite E1. go_red.
    destruct (if beq (peek s) NUL then read_byte s else (peek s, s)) as [c s1] eqn:Ei. cbn [fst snd].
    destruct (loop F oof1 (pk_step F skip) (c, s1)) as [c2 s2] eqn:El. cbn [fst snd] in *.
    assert (Hf' : fail (snd (loop F oof1 (pk_step F skip) (c, s1))) = FNone) by (rewrite El; exact Hf).
    rewrite (src_peekByte_loop1_eq _ F fuel skip HF F fuel c s1 HF Hf'). rewrite El. go_red. reflexivity.
  - cbv zeta in *. cbn [fst snd] in *. go_red.
    destruct (N.ltb looping_limit (N.succ (nerr s))) eqn:El; [now elim (set_fail_panic _ Hf)|].
    apply N.ltb_ge in El. unfold looping_limit in El.
    assert (Ez : (Z.of_N (nerr s) + 1 >? 10000)%Z = false) by lia. rewrite Ez.
    unfold abs. cbn [rest rbuf peek err eof nerr set_nerr]. rewrite N2Z.inj_succ. reflexivity.
Qed.

Lemma next_byte_mono F skip s : fail (snd (next_byte F skip s)) = FNone -> fail s = FNone.
Proof.
  unfold next_byte. destruct (peek_byte F skip s) as [c s1] eqn:E. cbn [snd]. intros H.
  apply (peek_byte_mono F skip). now rewrite E.
Qed.

Theorem src_nextByte_eq F fuel skip s : F <= fuel -> fail (snd (next_byte F skip s)) = FNone ->
  src_importReader_nextByte fuel (abs s) skip = Ok (abs (snd (next_byte F skip s)), fst (next_byte F skip s)).
Proof.
  intros HF Hf. unfold next_byte, src_importReader_nextByte in *.
  destruct (peek_byte F skip s) as [c s1] eqn:E. cbn [fst snd] in Hf.
  rewrite (src_peekByte_eq F fuel skip s HF) by (rewrite E; exact Hf). rewrite E. go_red. reflexivity.
Qed.

(* ------------------------------------------------------------------ *)
(* readKeyword                                                         *)

Lemma keyword_chars_mono F kw : forall s, fail (fst (keyword_chars F kw s)) = FNone -> fail s = FNone.
Proof.
  induction kw as [|k kw IH]; intros s H; cbn [keyword_chars fst] in H; [exact H|].
  destruct (next_byte F false s) as [c s1] eqn:E.
  apply (next_byte_mono F false). rewrite E. cbn [snd].
  destruct (negb (beq c k)); [cbn [fst] in H; now rewrite syntax_error_fail in H|now apply IH].
Qed.

Lemma src_readKeyword_loop_eq (L : Type) F fuel kw : F <= fuel -> forall suf pre s, kw = pre ++ suf ->
  fail (fst (keyword_chars F suf s)) = FNone ->
  @src_importReader_readKeyword_loop1 L fuel kw (map Z.of_nat (seq (length pre) (length suf))) (abs s) =
  if snd (keyword_chars F suf s) then Ok (Normal (abs (fst (keyword_chars F suf s))))
  else Ok (Return (abs (fst (keyword_chars F suf s)))).
Proof.
  intros HF. induction suf as [|k suf IH]; intros pre s Hkw Hf; [reflexivity|].
  cbn [length seq map src_importReader_readKeyword_loop1 keyword_chars] in *.
  destruct (next_byte F false s) as [c s1] eqn:En.
  assert (Hf1 : fail s1 = FNone).
  { destruct (negb (beq c k)); [cbn [fst] in Hf; now rewrite syntax_error_fail in Hf|now apply (keyword_chars_mono F suf)]. }
  rewrite (src_nextByte_eq F fuel false s HF) by (rewrite En; exact Hf1). rewrite En. go_red.
  unfold go_index. rewrite index_z_nat by (rewrite Hkw, app_length; cbn [length]; lia).
  rewrite Hkw at 1. rewrite nth_error_app2 by lia. rewrite Nat.sub_diag. cbn [nth_error]. go_red.
  destruct (negb (beq c k)) eqn:Ek; go_red.
  - rewrite src_syntaxError_eq. go_red. reflexivity.
  - specialize (IH (pre ++ [k]) s1). rewrite app_length in IH. cbn [length] in IH.
    replace (length pre + 1) with (S (length pre)) in IH by lia.
    rewrite IH; [|rewrite <- app_assoc; exact Hkw|exact Hf].
    destruct (snd (keyword_chars F suf s1)); reflexivity.
Qed.

Lemma read_keyword_mono F kw s : fail (read_keyword F kw s) = FNone -> fail s = FNone.
Proof.
  unfold read_keyword. destruct (peek_byte F true s) as [c0 s0] eqn:E0.
  destruct (keyword_chars F kw s0) as [s1 ok] eqn:E1. intros H.
  apply (peek_byte_mono F true). rewrite E0. cbn [snd].
  apply (keyword_chars_mono F kw). rewrite E1. cbn [fst].
  destruct ok; [|exact H]. destruct (peek_byte F false s1) as [c2 s2] eqn:E2.
  apply (peek_byte_mono F false). rewrite E2. cbn [snd].
  destruct (is_ident c2); [now rewrite syntax_error_fail in H|exact H].
Qed.

Theorem src_readKeyword_eq F fuel kw s : F <= fuel -> fail (read_keyword F kw s) = FNone ->
  src_importReader_readKeyword fuel (abs s) kw = Ok (abs (read_keyword F kw s)).
Proof.
  intros HF Hf. unfold read_keyword, src_importReader_readKeyword in *.
  destruct (peek_byte F true s) as [c0 s0] eqn:E0.
  destruct (keyword_chars F kw s0) as [s1 ok] eqn:E1.
  assert (Hf1 : fail s1 = FNone).
  { destruct ok; [|exact Hf]. destruct (peek_byte F false s1) as [c2 s2] eqn:E2.
    apply (peek_byte_mono F false). rewrite E2. cbn [snd].
    destruct (is_ident c2); [now rewrite syntax_error_fail in Hf|exact Hf]. }
  assert (Hf0 : fail s0 = FNone) by (apply (keyword_chars_mono F kw); now rewrite E1).
  rewrite (src_peekByte_eq F fuel true s HF) by (now rewrite E0). rewrite E0. go_red.
  unfold go_int_range, len. rewrite Nat2Z.id.
  rewrite (src_readKeyword_loop_eq _ F fuel kw HF kw [] s0 eq_refl) by (now rewrite E1).
  rewrite E1. cbn [fst snd]. destruct ok; go_red; [|reflexivity].
  destruct (peek_byte F false s1) as [c2 s2] eqn:E2.
  assert (Hf2 : fail s2 = FNone) by (destruct (is_ident c2); [now rewrite syntax_error_fail in Hf|exact Hf]).
  rewrite (src_peekByte_eq F fuel false s1 HF) by (now rewrite E2). rewrite E2. go_red.
  rewrite src_isIdent_eq. go_red. destruct (is_ident c2); go_red; [rewrite src_syntaxError_eq|]; reflexivity.
Qed.

(* ------------------------------------------------------------------ *)
(* readIdent                                                           *)

Lemma st_loop_mono step n :
  (forall s, fail (fst (step s)) = FNone -> fail s = FNone) ->
  forall s, fail (loop n oofs step s) = FNone -> fail s = FNone.
Proof. intros H. apply (loop_fail_mono fail); [apply set_fail_fuel|exact H]. Qed.

Definition ri_step (F : nat) : st -> st * bool :=
  fun s => let (c, s) := peek_byte F false s in if is_ident c then (set_peek s NUL, true) else (s, false).

Lemma ri_step_mono F s : fail (fst (ri_step F s)) = FNone -> fail s = FNone.
Proof.
  unfold ri_step. destruct (peek_byte F false s) as [c s1] eqn:E. intros H.
  apply (peek_byte_mono F false). rewrite E. cbn [snd]. destruct (is_ident c); exact H.
Qed.

Lemma read_ident_unfold F s :
  read_ident F s =
  let (c, s) := peek_byte F true s in
  if negb (is_ident c) then syntax_error s else loop F oofs (ri_step F) s.
Proof. reflexivity. Qed.

Lemma src_readIdent_loop_eq (L : Type) F fuel : F <= fuel -> forall n m s, n <= m ->
  fail (loop n oofs (ri_step F) s) = FNone ->
  @src_importReader_readIdent_loop1 L fuel m (abs s) = Ok (Normal (abs (loop n oofs (ri_step F) s))).
Proof.
  intros HF. induction n as [|n IH]; intros m s Hm Hf.
  - cbn [loop] in Hf. now elim (set_fail_fuel s).
  - destruct m as [|m]; [lia|]. cbn [loop src_importReader_readIdent_loop1] in *.
    destruct (ri_step F s) as [s2 again] eqn:Es.
    assert (Hf2 : fail s2 = FNone).
    { destruct again; [now apply (st_loop_mono (ri_step F) n (ri_step_mono F))|exact Hf]. }
    unfold ri_step in Es. destruct (peek_byte F false s) as [c s1] eqn:Ep.
    assert (Hf1 : fail s1 = FNone) by (destruct (is_ident c); injection Es as <- _; exact Hf2).
    rewrite (src_peekByte_eq F fuel false s HF) by (now rewrite Ep). rewrite Ep. go_red.
    rewrite src_isIdent_eq. go_red. destruct (is_ident c); injection Es as <- <-; go_red; [|reflexivity].
    change x00 with NUL. fold_abs (set_peek s1 NUL). apply IH; [lia|exact Hf].
Qed.

Lemma read_ident_mono F s : fail (read_ident F s) = FNone -> fail s = FNone.
Proof.
  rewrite read_ident_unfold. destruct (peek_byte F true s) as [c s1] eqn:E. intros H.
  apply (peek_byte_mono F true). rewrite E. cbn [snd].
  destruct (negb (is_ident c)); [now rewrite syntax_error_fail in H|].
  now apply (st_loop_mono (ri_step F) F (ri_step_mono F)).
Qed.

Theorem src_readIdent_eq F fuel s : F <= fuel -> fail (read_ident F s) = FNone ->
  src_importReader_readIdent fuel (abs s) = Ok (abs (read_ident F s)).
Proof.
  intros HF Hf. pose proof (read_ident_mono F s Hf) as Hf0. rewrite read_ident_unfold in *.
  unfold src_importReader_readIdent. destruct (peek_byte F true s) as [c s1] eqn:E.
  assert (Hf1 : fail s1 = FNone).
  { destruct (negb (is_ident c)); [now rewrite syntax_error_fail in Hf|].
    now apply (st_loop_mono (ri_step F) F (ri_step_mono F)). }
  rewrite (src_peekByte_eq F fuel true s HF) by (now rewrite E). rewrite E. go_red.
  rewrite src_isIdent_eq. go_red. destruct (negb (is_ident c)); go_red.
  - now rewrite src_syntaxError_eq.
  - rewrite (src_readIdent_loop_eq _ F fuel HF F fuel s1 HF Hf). reflexivity.
Qed.

(* ------------------------------------------------------------------ *)
(* two invariants of the model that the slice expressions of readString need: a byte held in
   r.peek has been read (it is in r.buf), and r.buf only grows                                *)

Definition pkwf (s : st) : Prop := peek s <> NUL -> rbuf s <> [].
Definition ext (s s' : st) : Prop := exists x, rbuf s' = x ++ rbuf s.

Lemma ext_refl s : ext s s.
Proof. now exists []. Qed.
Lemma ext_trans s1 s2 s3 : ext s1 s2 -> ext s2 s3 -> ext s1 s3.
Proof. intros [x Hx] [y Hy]. exists (y ++ x). now rewrite Hy, Hx, app_assoc. Qed.
Lemma ext_length s s' : ext s s' -> length (rbuf s) <= length (rbuf s').
Proof. intros [x Hx]. rewrite Hx, app_length. lia. Qed.

Lemma loop_inv_simple {A} (J : A -> Prop) n oof step :
  (forall a, J a -> J (oof a)) -> (forall a, J a -> J (fst (step a))) ->
  forall a, J a -> J (loop n oof step a).
Proof.
  intros Ho Hs. induction n as [|n IH]; intros a Ha; cbn [loop]; [now apply Ho|].
  specialize (Hs a Ha). destruct (step a) as [a' again]. cbn [fst] in Hs. destruct again; auto.
Qed.

Lemma read_byte_ext s : ext s (snd (read_byte s)).
Proof.
  unfold read_byte. destruct (rest s) as [|c r]; [now exists []|].
  destruct (beq c NUL); cbn [snd]; [destruct (no_err _)|]; now exists [c].
Qed.
Lemma read_byte_nz s : fst (read_byte s) <> NUL -> rbuf (snd (read_byte s)) <> [].
Proof.
  unfold read_byte. destruct (rest s) as [|c r]; [intros H; now elim H|].
  destruct (beq c NUL); cbn [fst snd]; [intros H; now elim H|discriminate].
Qed.
Lemma read_byte_peek' s : peek (snd (read_byte s)) = peek s.
Proof.
  unfold read_byte. destruct (rest s) as [|c r]; [reflexivity|].
  destruct (beq c NUL); cbn [snd]; [destruct (no_err _)|]; reflexivity.
Qed.
Lemma syntax_error_rbuf s : rbuf (syntax_error s) = rbuf s.
Proof. unfold syntax_error. destruct (no_err s); reflexivity. Qed.
Lemma syntax_error_peek s : peek (syntax_error s) = peek s.
Proof. unfold syntax_error. destruct (no_err s); reflexivity. Qed.
Lemma syntax_error_ext s : ext s (syntax_error s).
Proof. exists []. now rewrite syntax_error_rbuf. Qed.
Lemma set_fail_rbuf s f : rbuf (set_fail s f) = rbuf s.
Proof. reflexivity. Qed.

Lemma line_comment_ext F c s : ext s (snd (line_comment F c s)).
Proof.
  rewrite line_comment_unfold.
  apply (loop_inv_simple (fun cs => ext s (snd cs))); [| |apply ext_refl].
  - intros [c' s'] H. exact H.
  - intros [c' s'] H. unfold lc_step. destruct (_ && _); cbn [fst snd] in *; [|exact H].
    eapply ext_trans; [exact H|apply read_byte_ext].
Qed.
Lemma block_comment_ext F c c1 s : ext s (snd (block_comment F c c1 s)).
Proof.
  rewrite block_comment_unfold.
  apply (loop_inv_simple (fun x => ext s (snd x))); [| |apply ext_refl].
  - intros [[c' c1'] s'] H. exact H.
  - intros [[c' c1'] s'] H. unfold bc_step. destruct (_ && _); cbn [fst snd] in *; [|exact H].
    pose proof (read_byte_ext (if eof s' then syntax_error s' else s')) as Hx.
    destruct (read_byte _) as [b s2]. cbn [fst snd] in *.
    eapply ext_trans; [exact H|]. eapply ext_trans; [|exact Hx].
    destruct (eof s'); [apply syntax_error_ext|apply ext_refl].
Qed.

(* the pairs (c, s) of the loop of peekByte: c is r.peek-to-be *)
Definition pair_ok (s0 : st) (cs : byte * st) : Prop :=
  (fst cs <> NUL -> rbuf (snd cs) <> []) /\ ext s0 (snd cs).

Lemma read_byte_pair_ok s0 s : ext s0 s -> pair_ok s0 (read_byte s).
Proof. intros H. split; [apply read_byte_nz|eapply ext_trans; [exact H|apply read_byte_ext]]. Qed.

Lemma pk_loop_ok F skip s0 n cs : pair_ok s0 cs -> pair_ok s0 (loop n oof1 (pk_step F skip) cs).
Proof.
  apply (loop_inv_simple (pair_ok s0)).
  - intros [c s] H. exact H.
  - intros [c s] [H1 H2]. unfold pk_step. destruct (_ && _ && _); cbn [fst snd] in *; [|now split].
    destruct (is_spacec c); cbn [fst]; [now apply read_byte_pair_ok|].
    destruct (beq c SLASH); cbn [fst]; [|now split].
    pose proof (read_byte_ext s) as Hx.
    destruct (read_byte s) as [c' s']. cbn [fst snd] in *. apply read_byte_pair_ok.
    assert (H3 : ext s0 s') by (eapply ext_trans; [exact H2|exact Hx]).
    destruct (beq c' SLASH); [eapply ext_trans; [exact H3|apply line_comment_ext]|].
    destruct (beq c' STAR); [eapply ext_trans; [exact H3|apply block_comment_ext]|].
    eapply ext_trans; [exact H3|apply syntax_error_ext].
Qed.

Lemma peek_byte_ok F skip s : pkwf s ->
  pkwf (snd (peek_byte F skip s)) /\ ext s (snd (peek_byte F skip s))
  /\ (fst (peek_byte F skip s) <> NUL -> rbuf (snd (peek_byte F skip s)) <> []).
Proof.
  intros W. rewrite peek_byte_unfold. destruct (negb (no_err s)).
  - cbv zeta. cbn [fst snd]. split; [|split; [|intros H; now elim H]].
    + destruct (N.ltb _ _); exact W.
    + destruct (N.ltb _ _); now exists [].
  - assert (H0 : pair_ok s (if beq (peek s) NUL then read_byte s else (peek s, s))).
    { destruct (beq (peek s) NUL) eqn:E; [apply read_byte_pair_ok, ext_refl|].
      split; [cbn [fst snd]; exact W|apply ext_refl]. }
    destruct (if beq (peek s) NUL then read_byte s else (peek s, s)) as [c s1].
    pose proof (pk_loop_ok F skip s F (c, s1) H0) as [H1 H2].
    destruct (loop F oof1 (pk_step F skip) (c, s1)) as [c2 s2]. cbn [fst snd] in *.
    split; [exact H1|]. split; [exact H2|exact H1].
Qed.

Lemma next_byte_ok F skip s : pkwf s ->
  pkwf (snd (next_byte F skip s)) /\ ext s (snd (next_byte F skip s))
  /\ (fst (next_byte F skip s) <> NUL -> rbuf (snd (next_byte F skip s)) <> []).
Proof.
  intros W. destruct (peek_byte_ok F skip s W) as [H1 [H2 H3]]. unfold next_byte.
  destruct (peek_byte F skip s) as [c s1]. cbn [fst snd] in *.
  split; [intros H; now elim H|]. split; [exact H2|exact H3].
Qed.

(* the reader proper never touches the list of imports *)
Lemma read_byte_imps s : imps (snd (read_byte s)) = imps s.
Proof.
  unfold read_byte. destruct (rest s) as [|c r]; [reflexivity|].
  destruct (beq c NUL); cbn [snd]; [destruct (no_err _)|]; reflexivity.
Qed.
Lemma syntax_error_imps s : imps (syntax_error s) = imps s.
Proof. unfold syntax_error. destruct (no_err s); reflexivity. Qed.
Lemma line_comment_imps F c s : imps (snd (line_comment F c s)) = imps s.
Proof.
  rewrite line_comment_unfold.
  apply (loop_inv_simple (fun cs => imps (snd cs) = imps s)); [| |reflexivity].
  - intros [c' s'] H. exact H.
  - intros [c' s'] H. unfold lc_step. destruct (_ && _); cbn [fst snd] in *; [|exact H].
    now rewrite read_byte_imps.
Qed.
Lemma block_comment_imps F c c1 s : imps (snd (block_comment F c c1 s)) = imps s.
Proof.
  rewrite block_comment_unfold.
  apply (loop_inv_simple (fun x => imps (snd x) = imps s)); [| |reflexivity].
  - intros [[c' c1'] s'] H. exact H.
  - intros [[c' c1'] s'] H. unfold bc_step. destruct (_ && _); cbn [fst snd] in *; [|exact H].
    pose proof (read_byte_imps (if eof s' then syntax_error s' else s')) as Hx.
    destruct (read_byte _) as [b s2]. cbn [fst snd] in *. rewrite Hx.
    destruct (eof s'); [now rewrite syntax_error_imps|exact H].
Qed.
Lemma pk_loop_imps F skip s0 n cs : imps (snd cs) = imps s0 -> imps (snd (loop n oof1 (pk_step F skip) cs)) = imps s0.
Proof.
  apply (loop_inv_simple (fun cs => imps (snd cs) = imps s0)).
  - intros [c s] H. exact H.
  - intros [c s] H. unfold pk_step. destruct (_ && _ && _); cbn [fst snd] in *; [|exact H].
    destruct (is_spacec c); cbn [fst]; [now rewrite read_byte_imps|].
    destruct (beq c SLASH); cbn [fst]; [|exact H].
    pose proof (read_byte_imps s) as Hx.
    destruct (read_byte s) as [c' s']. cbn [fst snd] in *. rewrite read_byte_imps.
    destruct (beq c' SLASH); [rewrite line_comment_imps; congruence|].
    destruct (beq c' STAR); [rewrite block_comment_imps; congruence|].
    rewrite syntax_error_imps. congruence.
Qed.
Lemma peek_byte_imps F skip s : imps (snd (peek_byte F skip s)) = imps s.
Proof.
  rewrite peek_byte_unfold. destruct (negb (no_err s)).
  - cbv zeta. cbn [snd]. destruct (N.ltb _ _); reflexivity.
  - assert (H0 : imps (snd (if beq (peek s) NUL then read_byte s else (peek s, s))) = imps s).
    { destruct (beq (peek s) NUL); [apply read_byte_imps|reflexivity]. }
    destruct (if beq (peek s) NUL then read_byte s else (peek s, s)) as [c s1].
    pose proof (pk_loop_imps F skip s F (c, s1) H0) as H1.
    destruct (loop F oof1 (pk_step F skip) (c, s1)) as [c2 s2]. cbn [fst snd] in *. exact H1.
Qed.
Lemma next_byte_imps F skip s : imps (snd (next_byte F skip s)) = imps s.
Proof.
  pose proof (peek_byte_imps F skip s) as H. unfold next_byte.
  destruct (peek_byte F skip s) as [c s1]. exact H.
Qed.

(* ------------------------------------------------------------------ *)
(* readString                                                          *)

(* *imports as the caller sees it: nil stays nil, otherwise what was there (l0) followed by
   the model's list *)
Definition absI (keep : bool) (l0 : list bytes) (s : st) : option (list bytes) :=
  if keep then Some (l0 ++ imps s) else None.

Lemma absI_imps keep l0 s s' : imps s' = imps s -> absI keep l0 s = absI keep l0 s'.
Proof. unfold absI. now intros ->. Qed.

Definition rs_step1 (F : nat) (start : nat) : st -> st * bool :=
  fun s =>
    if no_err s then
      let (c, s) := next_byte F false s in
      if beq c BQUOTE then (add_imp s (buf_from s start), false)
      else ((if eof s then syntax_error s else s), true)
    else (s, false).
Definition rs_step2 (F : nat) (start : nat) : st -> st * bool :=
  fun s =>
    if no_err s then
      let (c, s) := next_byte F false s in
      if beq c DQUOTE then (add_imp s (buf_from s start), false)
      else
        let s := if eof s || beq c NL then syntax_error s else s in
        let s := if beq c BSLASH then snd (next_byte F false s) else s in
        (s, true)
    else (s, false).

Lemma read_string_unfold F s :
  read_string F true s =
  let (q, s) := next_byte F true s in
  if beq q BQUOTE then loop F oofs (rs_step1 F (length (rbuf s) - 1)) s
  else if beq q DQUOTE then loop F oofs (rs_step2 F (length (rbuf s) - 1)) s
  else syntax_error s.
Proof. reflexivity. Qed.

Lemma rs_step1_mono F start s : fail (fst (rs_step1 F start s)) = FNone -> fail s = FNone.
Proof.
  unfold rs_step1. destruct (no_err s); [|auto]. destruct (next_byte F false s) as [c s1] eqn:E. intros H.
  apply (next_byte_mono F false). rewrite E. cbn [snd].
  destruct (beq c BQUOTE); cbn [fst] in H; [exact H|]. destruct (eof s1); [now rewrite syntax_error_fail in H|exact H].
Qed.
Lemma rs_step2_mono F start s : fail (fst (rs_step2 F start s)) = FNone -> fail s = FNone.
Proof.
  unfold rs_step2. destruct (no_err s); [|auto]. destruct (next_byte F false s) as [c s1] eqn:E. intros H.
  apply (next_byte_mono F false). rewrite E. cbn [snd].
  destruct (beq c DQUOTE); cbn [fst] in H; [exact H|].
  assert (H2 : fail (if eof s1 || beq c NL then syntax_error s1 else s1) = FNone).
  { destruct (beq c BSLASH); [now apply (next_byte_mono F false)|exact H]. }
  destruct (eof s1 || beq c NL); [now rewrite syntax_error_fail in H2|exact H2].
Qed.

(* the slice r.buf[start:] *)
Lemma src_buf_from s start : start <= length (rbuf s) ->
  go_slice (rev (rbuf s)) (Z.of_nat start) (len (rev (rbuf s))) = Ok (buf_from s start).
Proof.
  intros H. unfold go_slice. rewrite slice_z_from by (rewrite rev_length; exact H). reflexivity.
Qed.

Lemma save_step keep l0 s p :
  (if negb (go_ptr_is_nil (absI keep l0 s))
   then bind (go_ptr_load (absI keep l0 s)) (fun t =>
        bind (Ok p) (fun t' => bind (go_ptr_store (absI keep l0 s) (go_append t [t'])) (fun v => Ok v)))
   else Ok (absI keep l0 s))
  = Ok (absI keep l0 (add_imp s p)).
Proof.
  unfold absI, go_append. destruct keep; cbn; [|reflexivity]. now rewrite app_assoc.
Qed.

Lemma src_readString_loop1_eq (L : Type) F fuel keep l0 start : F <= fuel -> forall n m s, n <= m ->
  pkwf s -> start <= length (rbuf s) ->
  fail (loop n oofs (rs_step1 F start) s) = FNone ->
  @src_importReader_readString_loop1 L fuel m (Z.of_nat start) (abs s) (absI keep l0 s) =
  Ok (Normal (abs (loop n oofs (rs_step1 F start) s), absI keep l0 (loop n oofs (rs_step1 F start) s))).
Proof.
  intros HF. induction n as [|n IH]; intros m s Hm W Hs Hf.
  - cbn [loop] in Hf. now elim (set_fail_fuel s).
  - destruct m as [|m]; [lia|]. cbn [loop src_importReader_readString_loop1] in *.
    rewrite abs_no_err. destruct (rs_step1 F start s) as [s2 again] eqn:Es.
    assert (Hf2 : fail s2 = FNone).
    { destruct again; [now apply (st_loop_mono (rs_step1 F start) n (rs_step1_mono F start))|exact Hf]. }
    unfold rs_step1 in Es. destruct (no_err s) eqn:En.
    2:{ injection Es as <- <-. reflexivity. }
    destruct (next_byte_ok F false s W) as [W1 [X1 _]]. pose proof (next_byte_imps F false s) as Hi.
    destruct (next_byte F false s) as [c s1] eqn:Eb. cbn [fst snd] in *.
    assert (Hf1 : fail s1 = FNone).
    { destruct (beq c BQUOTE); injection Es as <- _; [exact Hf2|].
      destruct (eof s1); [now rewrite syntax_error_fail in Hf2|exact Hf2]. }
    go_red. rewrite (src_nextByte_eq F fuel false s HF) by (now rewrite Eb). rewrite Eb. go_red.
    change x60 with BQUOTE. pose proof (ext_length _ _ X1) as Hl.
    destruct (beq c BQUOTE); injection Es as <- <-; go_red.
    + rewrite src_buf_from by lia. rewrite (absI_imps keep l0 s s1 Hi).
      rewrite save_step. go_red. reflexivity.
    + assert (E1 : (if eof s1 then bind (src_importReader_syntaxError (abs s1)) (fun v_r => Ok v_r) else Ok (abs s1))
                   = Ok (abs (if eof s1 then syntax_error s1 else s1))).
      { destruct (eof s1); [now rewrite src_syntaxError_eq|reflexivity]. }
      fold (abs s1). rewrite E1. go_red.
      rewrite (absI_imps keep l0 s s1 Hi).
      replace (absI keep l0 s1) with (absI keep l0 (if eof s1 then syntax_error s1 else s1))
        by (unfold absI, syntax_error; destruct keep, (eof s1), (no_err s1); reflexivity).
      apply IH; [lia| | |exact Hf].
      * unfold pkwf. destruct (eof s1); [rewrite syntax_error_peek, syntax_error_rbuf|]; exact W1.
      * destruct (eof s1); [rewrite syntax_error_rbuf|]; lia.
Qed.

Lemma src_readString_loop2_eq (L : Type) F fuel keep l0 start : F <= fuel -> forall n m s, n <= m ->
  pkwf s -> start <= length (rbuf s) ->
  fail (loop n oofs (rs_step2 F start) s) = FNone ->
  @src_importReader_readString_loop2 L fuel m (Z.of_nat start) (abs s) (absI keep l0 s) =
  Ok (Normal (abs (loop n oofs (rs_step2 F start) s), absI keep l0 (loop n oofs (rs_step2 F start) s))).
Proof.
  intros HF. induction n as [|n IH]; intros m s Hm W Hs Hf.
  - cbn [loop] in Hf. now elim (set_fail_fuel s).
  - destruct m as [|m]; [lia|]. cbn [loop src_importReader_readString_loop2] in *.
    rewrite abs_no_err. destruct (rs_step2 F start s) as [s4 again] eqn:Es.
    assert (Hf4 : fail s4 = FNone).
    { destruct again; [now apply (st_loop_mono (rs_step2 F start) n (rs_step2_mono F start))|exact Hf]. }
    unfold rs_step2 in Es. destruct (no_err s) eqn:En.
    2:{ injection Es as <- <-. reflexivity. }
    destruct (next_byte_ok F false s W) as [W1 [X1 _]]. pose proof (next_byte_imps F false s) as Hi.
    destruct (next_byte F false s) as [c s1] eqn:Eb. cbn [fst snd] in *.
    set (s2 := if eof s1 || beq c NL then syntax_error s1 else s1) in *.
    set (s3 := if beq c BSLASH then snd (next_byte F false s2) else s2) in *.
    assert (Hf1 : fail s1 = FNone /\ (beq c DQUOTE = false -> fail s2 = FNone /\ fail s3 = FNone)).
    { destruct (beq c DQUOTE); injection Es as <- _; [split; [exact Hf4|discriminate]|].
      assert (H2 : fail s2 = FNone) by (unfold s3 in Hf4; destruct (beq c BSLASH); [now apply (next_byte_mono F false)|exact Hf4]).
      split; [|auto]. unfold s2 in H2. destruct (eof s1 || beq c NL); [now rewrite syntax_error_fail in H2|exact H2]. }
    destruct Hf1 as [Hf1 Hf23].
    go_red. rewrite (src_nextByte_eq F fuel false s HF) by (now rewrite Eb). rewrite Eb. go_red.
    change x22 with DQUOTE. change x0a with NL. change x5c with BSLASH. pose proof (ext_length _ _ X1) as Hl.
    rewrite (absI_imps keep l0 s s1 Hi).
    destruct (beq c DQUOTE); injection Es as <- <-; go_red.
    + rewrite src_buf_from by lia. rewrite save_step. go_red. reflexivity.
    + destruct (Hf23 eq_refl) as [Hf2 Hf3].
      assert (E1 : (if eof s1 || beq c NL then bind (src_importReader_syntaxError (abs s1)) (fun v_r => Ok v_r) else Ok (abs s1))
                   = Ok (abs s2)).
      { unfold s2. destruct (eof s1 || beq c NL); [now rewrite src_syntaxError_eq|reflexivity]. }
      fold (abs s1). rewrite E1. go_red.
      assert (W2 : pkwf s2 /\ length (rbuf s1) <= length (rbuf s2) /\ imps s2 = imps s1).
      { unfold s2, pkwf. destruct (eof s1 || beq c NL); [rewrite syntax_error_peek, syntax_error_rbuf, syntax_error_imps|]; auto. }
      destruct W2 as [W2 [Hl2 Hi2]].
      assert (E2 : (if beq c BSLASH
                    then bind (src_importReader_nextByte fuel (abs s2) false) (fun x => let (v_r, t8) := x in Ok v_r)
                    else Ok (abs s2)) = Ok (abs s3)).
      { unfold s3 in *. destruct (beq c BSLASH); [|reflexivity].
        rewrite (src_nextByte_eq F fuel false s2 HF) by exact Hf3. go_red. reflexivity. }
      fold (abs s2). rewrite E2. go_red.
      assert (W3 : pkwf s3 /\ length (rbuf s2) <= length (rbuf s3) /\ imps s3 = imps s2).
      { unfold s3. destruct (beq c BSLASH); [|auto]. destruct (next_byte_ok F false s2 W2) as [A [B _]].
        split; [exact A|]. split; [now apply ext_length|apply next_byte_imps]. }
      destruct W3 as [W3 [Hl3 Hi3]].
      rewrite (absI_imps keep l0 s1 s3) by congruence.
      apply IH; [lia|exact W3|lia|exact Hf].
Qed.

Lemma read_string_mono F s : fail (read_string F true s) = FNone -> fail s = FNone.
Proof.
  rewrite read_string_unfold. destruct (next_byte F true s) as [q s1] eqn:E. intros H.
  apply (next_byte_mono F true). rewrite E. cbn [snd].
  destruct (beq q BQUOTE); [now apply (st_loop_mono _ F (rs_step1_mono F (length (rbuf s1) - 1)))|].
  destruct (beq q DQUOTE); [now apply (st_loop_mono _ F (rs_step2_mono F (length (rbuf s1) - 1)))|].
  now rewrite syntax_error_fail in H.
Qed.

Theorem src_readString_eq F fuel keep l0 s : F <= fuel -> pkwf s -> fail (read_string F true s) = FNone ->
  src_importReader_readString fuel (abs s) (absI keep l0 s) =
  Ok (abs (read_string F true s), absI keep l0 (read_string F true s)).
Proof.
  intros HF W Hf. rewrite read_string_unfold in *. unfold src_importReader_readString.
  destruct (next_byte_ok F true s W) as [W1 [X1 Hnz]]. pose proof (next_byte_imps F true s) as Hi.
  destruct (next_byte F true s) as [q s1] eqn:Eq. cbn [fst snd] in *.
  assert (Hf1 : fail s1 = FNone).
  { destruct (beq q BQUOTE); [now apply (st_loop_mono _ F (rs_step1_mono F (length (rbuf s1) - 1)))|].
    destruct (beq q DQUOTE); [now apply (st_loop_mono _ F (rs_step2_mono F (length (rbuf s1) - 1)))|].
    now rewrite syntax_error_fail in Hf. }
  rewrite (src_nextByte_eq F fuel true s HF) by (now rewrite Eq). rewrite Eq. go_red.
  change x60 with BQUOTE. change x22 with DQUOTE. rewrite (absI_imps keep l0 s s1 Hi).
  assert (Hst : q <> NUL -> (len (rev (rbuf s1)) - 1)%Z = Z.of_nat (length (rbuf s1) - 1)
                            /\ length (rbuf s1) - 1 <= length (rbuf s1)).
  { intros Hq. specialize (Hnz Hq). unfold len. rewrite rev_length. destruct (rbuf s1); [now elim Hnz|cbn [length]; lia]. }
  destruct (beq q BQUOTE) eqn:E1; go_red.
  - apply beq_eq in E1. destruct Hst as [Hz Hle]; [subst q; discriminate|]. rewrite Hz.
    rewrite (src_readString_loop1_eq _ F fuel keep l0 _ HF F fuel s1 HF W1 Hle Hf). reflexivity.
  - destruct (beq q DQUOTE) eqn:E2; go_red.
    + apply beq_eq in E2. destruct Hst as [Hz Hle]; [subst q; discriminate|]. rewrite Hz.
      rewrite (src_readString_loop2_eq _ F fuel keep l0 _ HF F fuel s1 HF W1 Hle Hf). reflexivity.
    + rewrite src_syntaxError_eq. go_red.
      replace (absI keep l0 s1) with (absI keep l0 (syntax_error s1))
        by (apply absI_imps; now rewrite syntax_error_imps). reflexivity.
Qed.

(* ------------------------------------------------------------------ *)
(* the invariants through readKeyword, readIdent, readString           *)

Lemma pkwf_syntax_error s : pkwf s -> pkwf (syntax_error s).
Proof. unfold pkwf. now rewrite syntax_error_peek, syntax_error_rbuf. Qed.

Lemma keyword_chars_ok F kw : forall s, pkwf s ->
  pkwf (fst (keyword_chars F kw s)) /\ imps (fst (keyword_chars F kw s)) = imps s.
Proof.
  induction kw as [|k kw IH]; intros s W; cbn [keyword_chars fst]; [now split|].
  destruct (next_byte_ok F false s W) as [W1 _]. pose proof (next_byte_imps F false s) as Hi.
  destruct (next_byte F false s) as [c s1]. cbn [fst snd] in *.
  destruct (negb (beq c k)); cbn [fst].
  - split; [now apply pkwf_syntax_error|now rewrite syntax_error_imps].
  - destruct (IH s1 W1) as [A B]. split; [exact A|congruence].
Qed.

Lemma read_keyword_ok F kw s : pkwf s -> pkwf (read_keyword F kw s) /\ imps (read_keyword F kw s) = imps s.
Proof.
  intros W. unfold read_keyword.
  destruct (peek_byte_ok F true s W) as [W0 _]. pose proof (peek_byte_imps F true s) as H0.
  destruct (peek_byte F true s) as [c0 s0]. cbn [fst snd] in *.
  destruct (keyword_chars_ok F kw s0 W0) as [W1 H1].
  destruct (keyword_chars F kw s0) as [s1 ok]. cbn [fst snd] in *.
  destruct ok; [|split; [exact W1|congruence]].
  destruct (peek_byte_ok F false s1 W1) as [W2 _]. pose proof (peek_byte_imps F false s1) as H2.
  destruct (peek_byte F false s1) as [c2 s2]. cbn [fst snd] in *.
  destruct (is_ident c2); [split; [now apply pkwf_syntax_error|rewrite syntax_error_imps; congruence]|split; [exact W2|congruence]].
Qed.

Lemma read_ident_ok F s : pkwf s -> pkwf (read_ident F s) /\ imps (read_ident F s) = imps s.
Proof.
  intros W. rewrite read_ident_unfold.
  destruct (peek_byte_ok F true s W) as [W1 _]. pose proof (peek_byte_imps F true s) as H1.
  destruct (peek_byte F true s) as [c s1]. cbn [fst snd] in *.
  destruct (negb (is_ident c)); [split; [now apply pkwf_syntax_error|rewrite syntax_error_imps; congruence]|].
  apply (loop_inv_simple (fun a => pkwf a /\ imps a = imps s)); [| |now split].
  - intros a H. exact H.
  - intros a [Wa Ha]. unfold ri_step.
    destruct (peek_byte_ok F false a Wa) as [W2 _]. pose proof (peek_byte_imps F false a) as H2.
    destruct (peek_byte F false a) as [c2 a2]. cbn [fst snd] in *.
    destruct (is_ident c2); cbn [fst]; (split; [|cbn; congruence]); [|exact W2]. intros H. now elim H.
Qed.

Lemma read_string_pkwf F s : pkwf s -> pkwf (read_string F true s).
Proof.
  intros W. rewrite read_string_unfold. destruct (next_byte_ok F true s W) as [W1 _].
  destruct (next_byte F true s) as [q s1]. cbn [fst snd] in *.
  destruct (beq q BQUOTE).
  { apply (loop_inv_simple pkwf); [auto| |exact W1]. intros a Wa. unfold rs_step1.
    destruct (no_err a); [|exact Wa]. destruct (next_byte_ok F false a Wa) as [W2 _].
    destruct (next_byte F false a) as [c a1]. cbn [fst snd] in *.
    destruct (beq c BQUOTE); cbn [fst]; [exact W2|]. destruct (eof a1); [now apply pkwf_syntax_error|exact W2]. }
  destruct (beq q DQUOTE); [|now apply pkwf_syntax_error].
  apply (loop_inv_simple pkwf); [auto| |exact W1]. intros a Wa. unfold rs_step2.
  destruct (no_err a); [|exact Wa]. destruct (next_byte_ok F false a Wa) as [W2 _].
  destruct (next_byte F false a) as [c a1]. cbn [fst snd] in *.
  destruct (beq c DQUOTE); cbn [fst]; [exact W2|].
  assert (W3 : pkwf (if eof a1 || beq c NL then syntax_error a1 else a1))
    by (destruct (eof a1 || beq c NL); [now apply pkwf_syntax_error|exact W2]).
  destruct (beq c BSLASH); [|exact W3]. now destruct (next_byte_ok F false _ W3) as [W4 _].
Qed.

(* ------------------------------------------------------------------ *)
(* readImport                                                          *)

Definition import_head' (F : nat) (s : st) : st :=
  let (c, s) := peek_byte F true s in
  if beq c DOTB then set_peek s NUL else if is_ident c then read_ident F s else s.

Lemma read_import_unfold F s : read_import F s = read_string F true (import_head' F s).
Proof. unfold read_import, import_head'. now destruct (peek_byte F true s). Qed.

Lemma import_head_ok F s : pkwf s -> pkwf (import_head' F s) /\ imps (import_head' F s) = imps s.
Proof.
  intros W. unfold import_head'.
  destruct (peek_byte_ok F true s W) as [W1 _]. pose proof (peek_byte_imps F true s) as H1.
  destruct (peek_byte F true s) as [c s1]. cbn [fst snd] in *.
  destruct (beq c DOTB); [split; [intros H; now elim H|exact H1]|].
  destruct (is_ident c); [|now split]. destruct (read_ident_ok F s1 W1) as [A B]. split; [exact A|congruence].
Qed.

Lemma import_head_mono F s : fail (import_head' F s) = FNone -> fail s = FNone.
Proof.
  unfold import_head'. destruct (peek_byte F true s) as [c s1] eqn:E. intros H.
  apply (peek_byte_mono F true). rewrite E. cbn [snd].
  destruct (beq c DOTB); [exact H|]. destruct (is_ident c); [now apply (read_ident_mono F)|exact H].
Qed.

Lemma read_import_mono F s : fail (read_import F s) = FNone -> fail s = FNone.
Proof. rewrite read_import_unfold. intros H. now apply (import_head_mono F), (read_string_mono F). Qed.

Lemma read_import_pkwf F s : pkwf s -> pkwf (read_import F s).
Proof. intros W. rewrite read_import_unfold. apply read_string_pkwf. now apply import_head_ok. Qed.

Theorem src_readImport_eq F fuel keep l0 s : F <= fuel -> pkwf s -> fail (read_import F s) = FNone ->
  src_importReader_readImport fuel (abs s) (absI keep l0 s) =
  Ok (abs (read_import F s), absI keep l0 (read_import F s)).
Proof.
  intros HF W Hf. rewrite read_import_unfold in *.
  pose proof (read_string_mono F _ Hf) as Hfh. destruct (import_head_ok F s W) as [Wh Hih].
  unfold src_importReader_readImport. unfold import_head' in *.
  destruct (peek_byte_ok F true s W) as [W1 _]. pose proof (peek_byte_imps F true s) as H1.
  destruct (peek_byte F true s) as [c s1] eqn:Ep. cbn [fst snd] in *.
  assert (Hf1 : fail s1 = FNone).
  { destruct (beq c DOTB); [exact Hfh|]. destruct (is_ident c); [now apply (read_ident_mono F)|exact Hfh]. }
  rewrite (src_peekByte_eq F fuel true s HF) by (now rewrite Ep). rewrite Ep. go_red.
  change x2e with DOTB. change x00 with NUL.
  set (sh := if beq c DOTB then set_peek s1 NUL else if is_ident c then read_ident F s1 else s1) in *.
  assert (E1 : (if beq c DOTB then Ok (abs (set_peek s1 NUL))
                else bind (src_isIdent c) (fun t2 =>
                     bind (if t2 then bind (src_importReader_readIdent fuel (abs s1)) (fun v_r => Ok v_r) else Ok (abs s1))
                          (fun v_r => Ok v_r))) = Ok (abs sh)).
  { unfold sh in *. destruct (beq c DOTB); [reflexivity|]. rewrite src_isIdent_eq. go_red.
    destruct (is_ident c); go_red; [|reflexivity]. now rewrite (src_readIdent_eq F fuel s1 HF Hfh). }
  fold_abs (set_peek s1 NUL). fold (abs s1). rewrite E1. go_red.
  rewrite (absI_imps keep l0 s sh) by exact Hih.
  rewrite (src_readString_eq F fuel keep l0 sh HF Wh Hf). reflexivity.
Qed.

(* ------------------------------------------------------------------ *)
(* ReadImports: the loops over import declarations                     *)

Definition ig_step (F : nat) : st -> st * bool :=
  fun s => let (c, s) := peek_byte F true s in
           if negb (beq c RPAREN) && no_err s then (read_import F s, true) else (s, false).
Definition sc_step (F : nat) : st -> st * bool :=
  fun s => let (c, s) := peek_byte F true s in
           if beq c LOWER_I then (import_decl F s, true) else (s, false).
Definition drain_step' : st -> st * bool :=
  fun s => if no_err s && negb (eof s) then (snd (read_byte s), true) else (s, false).

Lemma import_group_unfold F s :
  import_group F s =
  let (_, s) := next_byte F false s in
  snd (next_byte F false (loop F oofs (ig_step F) s)).
Proof. reflexivity. Qed.
Lemma scan_imports_unfold F s :
  scan_imports F s = loop F oofs (sc_step F) (read_ident F (read_keyword F kw_package s)).
Proof. reflexivity. Qed.

Lemma ig_step_mono F s : fail (fst (ig_step F s)) = FNone -> fail s = FNone.
Proof.
  unfold ig_step. destruct (peek_byte F true s) as [c s1] eqn:E. intros H.
  apply (peek_byte_mono F true). rewrite E. cbn [snd].
  destruct (negb (beq c RPAREN) && no_err s1); [now apply (read_import_mono F)|exact H].
Qed.
Lemma import_group_mono F s : fail (import_group F s) = FNone -> fail s = FNone.
Proof.
  rewrite import_group_unfold. destruct (next_byte F false s) as [c s1] eqn:E. intros H.
  apply (next_byte_mono F false). rewrite E. cbn [snd].
  apply (st_loop_mono (ig_step F) F (ig_step_mono F)). now apply (next_byte_mono F false).
Qed.
Lemma import_decl_mono F s : fail (import_decl F s) = FNone -> fail s = FNone.
Proof.
  unfold import_decl. intros H. apply (read_keyword_mono F kw_import).
  destruct (peek_byte F true (read_keyword F kw_import s)) as [c s1] eqn:E.
  apply (peek_byte_mono F true). rewrite E. cbn [snd].
  destruct (beq c LPAREN); [now apply (import_group_mono F)|now apply (read_import_mono F)].
Qed.
Lemma sc_step_mono F s : fail (fst (sc_step F s)) = FNone -> fail s = FNone.
Proof.
  unfold sc_step. destruct (peek_byte F true s) as [c s1] eqn:E. intros H.
  apply (peek_byte_mono F true). rewrite E. cbn [snd].
  destruct (beq c LOWER_I); [now apply (import_decl_mono F)|exact H].
Qed.

Lemma ig_loop_pkwf F n s : pkwf s -> pkwf (loop n oofs (ig_step F) s).
Proof.
  apply (loop_inv_simple pkwf); [auto|]. intros a Wa. unfold ig_step.
  destruct (peek_byte_ok F true a Wa) as [W1 _]. destruct (peek_byte F true a) as [c a1]. cbn [fst snd] in *.
  destruct (negb (beq c RPAREN) && no_err a1); cbn [fst]; [now apply read_import_pkwf|exact W1].
Qed.
Lemma import_group_pkwf F s : pkwf s -> pkwf (import_group F s).
Proof.
  intros W. rewrite import_group_unfold. destruct (next_byte_ok F false s W) as [W1 _].
  destruct (next_byte F false s) as [c s1]. cbn [fst snd] in *.
  now destruct (next_byte_ok F false _ (ig_loop_pkwf F F s1 W1)) as [W2 _].
Qed.
Lemma import_decl_pkwf F s : pkwf s -> pkwf (import_decl F s).
Proof.
  intros W. unfold import_decl. destruct (read_keyword_ok F kw_import s W) as [W1 _].
  destruct (peek_byte_ok F true _ W1) as [W2 _].
  destruct (peek_byte F true (read_keyword F kw_import s)) as [c s2]. cbn [fst snd] in *.
  destruct (beq c LPAREN); [now apply import_group_pkwf|now apply read_import_pkwf].
Qed.

Lemma src_ReadImports_loop2_eq (L : Type) F fuel keep l0 : F <= fuel -> forall n m s, n <= m ->
  pkwf s -> fail (loop n oofs (ig_step F) s) = FNone ->
  @src_ReadImports_loop2 L fuel m (absI keep l0 s) (abs s) =
  Ok (Normal (absI keep l0 (loop n oofs (ig_step F) s), abs (loop n oofs (ig_step F) s))).
Proof.
  intros HF. induction n as [|n IH]; intros m s Hm W Hf.
  - cbn [loop] in Hf. now elim (set_fail_fuel s).
  - destruct m as [|m]; [lia|]. cbn [loop src_ReadImports_loop2] in *.
    destruct (ig_step F s) as [s2 again] eqn:Es.
    assert (Hf2 : fail s2 = FNone).
    { destruct again; [now apply (st_loop_mono (ig_step F) n (ig_step_mono F))|exact Hf]. }
    unfold ig_step in Es. destruct (peek_byte_ok F true s W) as [W1 _]. pose proof (peek_byte_imps F true s) as Hi.
    destruct (peek_byte F true s) as [c s1] eqn:Ep. cbn [fst snd] in *.
    assert (Hf1 : fail s1 = FNone).
    { destruct (negb (beq c RPAREN) && no_err s1); injection Es as <- _; [now apply (read_import_mono F)|exact Hf2]. }
    rewrite (src_peekByte_eq F fuel true s HF) by (now rewrite Ep). rewrite Ep. go_red.
    rewrite err_of_no_err. change x29 with RPAREN. rewrite (absI_imps keep l0 s s1 Hi). fold (abs s1).
    destruct (negb (beq c RPAREN) && no_err s1); injection Es as <- <-; go_red; [|reflexivity].
    rewrite (src_readImport_eq F fuel keep l0 s1 HF W1 Hf2). go_red.
    apply IH; [lia|now apply read_import_pkwf|exact Hf].
Qed.

Lemma src_import_group_eq (L : Type) F fuel keep l0 s : F <= fuel -> pkwf s -> fail (import_group F s) = FNone ->
  bind (src_importReader_nextByte fuel (abs s) false) (fun x => let (v_r, _) := x in
    bindO (@src_ReadImports_loop2 L fuel fuel (absI keep l0 s) v_r) (fun y => let (v_imports, v_r) := y in
      bind (src_importReader_nextByte fuel v_r false) (fun z => let (v_r, _) := z in
        Ok (@Normal _ L (option (list bytes) * bytes * goerr) (v_imports, v_r)))))
  = Ok (Normal (absI keep l0 (import_group F s), abs (import_group F s))).
Proof.
  intros HF W Hf. rewrite import_group_unfold in *.
  destruct (next_byte_ok F false s W) as [W1 _]. pose proof (next_byte_imps F false s) as Hi.
  destruct (next_byte F false s) as [c s1] eqn:En. cbn [fst snd] in *.
  pose proof (next_byte_mono F false _ Hf) as Hf2.
  pose proof (st_loop_mono (ig_step F) F (ig_step_mono F) _ Hf2) as Hf1.
  rewrite (src_nextByte_eq F fuel false s HF) by (now rewrite En). rewrite En. go_red.
  rewrite (absI_imps keep l0 s s1 Hi).
  rewrite (src_ReadImports_loop2_eq _ F fuel keep l0 HF F fuel s1 HF W1 Hf2). go_red.
  set (s2 := loop F oofs (ig_step F) s1) in *.
  rewrite (src_nextByte_eq F fuel false s2 HF Hf). go_red.
  rewrite (absI_imps keep l0 s2 (snd (next_byte F false s2))) by apply next_byte_imps.
  destruct (next_byte F false s2); reflexivity.
Qed.

Lemma sc_loop_pkwf F n s : pkwf s -> pkwf (loop n oofs (sc_step F) s).
Proof.
  apply (loop_inv_simple pkwf); [auto|]. intros a Wa. unfold sc_step.
  destruct (peek_byte_ok F true a Wa) as [W1 _]. destruct (peek_byte F true a) as [c a1]. cbn [fst snd] in *.
  destruct (beq c LOWER_I); cbn [fst]; [now apply import_decl_pkwf|exact W1].
Qed.

Lemma src_ReadImports_loop1_eq (L : Type) F fuel keep l0 : F <= fuel -> forall n m s, n <= m ->
  pkwf s -> fail (loop n oofs (sc_step F) s) = FNone ->
  @src_ReadImports_loop1 L fuel m (absI keep l0 s) (abs s) =
  Ok (Normal (absI keep l0 (loop n oofs (sc_step F) s), abs (loop n oofs (sc_step F) s))).
Proof.
  intros HF. induction n as [|n IH]; intros m s Hm W Hf.
  - cbn [loop] in Hf. now elim (set_fail_fuel s).
  - destruct m as [|m]; [lia|]. cbn [loop src_ReadImports_loop1] in *.
    destruct (sc_step F s) as [s9 again] eqn:Es.
    assert (Hf9 : fail s9 = FNone).
    { destruct again; [now apply (st_loop_mono (sc_step F) n (sc_step_mono F))|exact Hf]. }
    unfold sc_step in Es. destruct (peek_byte_ok F true s W) as [W1 _]. pose proof (peek_byte_imps F true s) as Hi.
    destruct (peek_byte F true s) as [c s1] eqn:Ep. cbn [fst snd] in *.
    assert (Hf1 : fail s1 = FNone).
    { destruct (beq c LOWER_I); injection Es as <- _; [now apply (import_decl_mono F)|exact Hf9]. }
    rewrite (src_peekByte_eq F fuel true s HF) by (now rewrite Ep). rewrite Ep. go_red.
    change [x69; x6d; x70; x6f; x72; x74] with kw_import.
    change x69 with LOWER_I. rewrite (absI_imps keep l0 s s1 Hi). fold (abs s1).
    destruct (beq c LOWER_I); injection Es as <- <-; go_red; [|reflexivity].
    (* the body: import_decl *)
    unfold import_decl in *.
    destruct (read_keyword_ok F kw_import s1 W1) as [W2 Hi2].
    set (s2 := read_keyword F kw_import s1) in *.
    destruct (peek_byte_ok F true s2 W2) as [W3 _]. pose proof (peek_byte_imps F true s2) as Hi3.
    destruct (peek_byte F true s2) as [c3 s3] eqn:Ep3. cbn [fst snd] in *.
    assert (Hf3 : fail s3 = FNone).
    { destruct (beq c3 LPAREN); [now apply (import_group_mono F)|now apply (read_import_mono F)]. }
    assert (Hf2 : fail s2 = FNone) by (apply (peek_byte_mono F true); now rewrite Ep3).
    rewrite (src_readKeyword_eq F fuel kw_import s1 HF Hf2). go_red. fold s2.
    rewrite (src_peekByte_eq F fuel true s2 HF) by (now rewrite Ep3). rewrite Ep3. go_red.
    change x28 with LPAREN. rewrite (absI_imps keep l0 s1 s3) by congruence. fold (abs s3).
    destruct (beq c3 LPAREN); go_red.
    + rewrite (src_import_group_eq _ F fuel keep l0 s3 HF W3 Hf9). go_red.
      apply IH; [lia|now apply import_group_pkwf|exact Hf].
    + rewrite (src_readImport_eq F fuel keep l0 s3 HF W3 Hf9). go_red.
      apply IH; [lia|now apply read_import_pkwf|exact Hf].
Qed.

(* the loop that consumes the rest of the file after a syntax error *)
Lemma src_ReadImports_loop3_eq (L : Type) fuel : forall n m s, n <= m ->
  fail (loop n oofs drain_step' s) = FNone ->
  @src_ReadImports_loop3 L fuel m (abs s) = Ok (Normal (abs (loop n oofs drain_step' s))).
Proof.
  induction n as [|n IH]; intros m s Hm Hf.
  - cbn [loop] in Hf. now elim (set_fail_fuel s).
  - destruct m as [|m]; [lia|]. cbn [loop src_ReadImports_loop3] in *.
    rewrite abs_no_err. cbn [abs ir_eof]. fold (abs s).
    destruct (drain_step' s) as [s2 again] eqn:Es. unfold drain_step' in Es.
    destruct (no_err s && negb (eof s)); injection Es as <- <-; go_red; [|reflexivity].
    rewrite src_readByte_eq. go_red. apply IH; [lia|exact Hf].
Qed.

(* ------------------------------------------------------------------ *)
(* newImportReader, ReadImports                                        *)

Lemma bom_test b :
  (goerr_eqb (if (len b <? 3)%Z then go_io_EOF else ErrNil) ErrNil && bytes_eqb (firstn 3 b) src_bom)
  = has_prefix bom b.
Proof.
  assert (E0 : goerr_eqb go_io_EOF ErrNil = false) by reflexivity.
  destruct b as [|b0 [|b1 [|b2 r]]]; try reflexivity.
  - change (len [b0] <? 3)%Z with true. cbv iota. rewrite E0. cbn [andb has_prefix bom].
    destruct (beq xef b0); reflexivity.
  - change (len [b0; b1] <? 3)%Z with true. cbv iota. rewrite E0. cbn [andb has_prefix bom].
    destruct (beq xef b0), (beq xbb b1); reflexivity.
  - assert (E : (len (b0 :: b1 :: b2 :: r) <? 3)%Z = false) by (unfold len; cbn [length]; lia).
    rewrite E. cbn [firstn]. unfold src_bom, bom. cbn [bytes_eqb has_prefix goerr_eqb andb].
    rewrite (beq_sym b0), (beq_sym b1), (beq_sym b2).
    destruct (beq xef b0), (beq xbb b1), (beq xbf b2); reflexivity.
Qed.

Theorem src_newImportReader_eq data : src_newImportReader data = Ok (abs (init_st (strip_bom data))).
Proof.
  unfold src_newImportReader, go_bufio_Peek, go_bufio_Discard, strip_bom.
  change (0 <=? 3)%Z with true. change (3 <=? bufio_min_buffer)%Z with true. change (Z.to_nat 3) with 3.
  cbn [andb]. go_red. rewrite bom_test. destruct (has_prefix bom data); reflexivity.
Qed.

Lemma init_pkwf x : pkwf (init_st x).
Proof. intros H. now elim H. Qed.

Lemma slice_init (x : byte) (b : bytes) :
  go_slice (rev (x :: b)) 0 (len (rev (x :: b)) - 1) = Ok (rev b).
Proof.
  unfold go_slice. cbn [rev]. replace (len (rev b ++ [x]) - 1)%Z with (Z.of_nat (length (rev b))).
  - rewrite slice_z_to by (rewrite app_length; lia). rewrite firstn_app, Nat.sub_diag, firstn_all. cbn [firstn].
    now rewrite app_nil_r.
  - unfold len. rewrite app_length. cbn [length]. lia.
Qed.

Theorem src_ReadImports_eq fuel data report (keep : bool) (l0 ims : list bytes) out e :
  fuel_for (strip_bom data) <= fuel ->
  read_imports report data = ROk ims out e ->
  src_ReadImports fuel data report (if keep then Some l0 else None) =
  Ok (if keep then Some (l0 ++ ims) else None, out, err_of e).
Proof.
  intros HF. unfold read_imports. set (input := strip_bom data) in *. set (F := fuel_for input) in *.
  destruct (finish_imports F report (scan_imports F (init_st input))) as [[s' o] e'] eqn:Efin.
  destruct (fail s') eqn:Efl; try discriminate. intros [= <- <- <-].
  unfold src_ReadImports, go_bufio_NewReader. rewrite src_newImportReader_eq. go_red. fold input.
  (* what the model's run says about the intermediate states *)
  unfold finish_imports in Efin. set (s3 := scan_imports F (init_st input)) in *.
  assert (Hf3 : fail s3 = FNone).
  { destruct (no_err s3 && negb (eof s3)).
    - destruct (rbuf s3); injection Efin as <- _ _; [now elim (set_fail_panic s3)|exact Efl].
    - injection Efin as <- _ _. destruct (err s3); try exact Efl.
      destruct (negb report); [|exact Efl].
      apply (st_loop_mono drain_step' F) in Efl; [exact Efl|].
      intros a. unfold drain_step'. destruct (_ && _); cbn [fst]; [now rewrite read_byte_fail|auto]. }
  unfold s3 in Hf3. rewrite scan_imports_unfold in Hf3.
  set (s1 := read_keyword F kw_package (init_st input)) in *. set (s2 := read_ident F s1) in *.
  pose proof (st_loop_mono (sc_step F) F (sc_step_mono F) _ Hf3) as Hf2.
  pose proof (read_ident_mono F _ Hf2) as Hf1.
  destruct (read_keyword_ok F kw_package _ (init_pkwf input)) as [W1 Hi1]. fold s1 in W1, Hi1.
  destruct (read_ident_ok F s1 W1) as [W2 Hi2]. fold s2 in W2, Hi2.
  change [x70; x61; x63; x6b; x61; x67; x65] with kw_package.
  rewrite (src_readKeyword_eq F fuel kw_package (init_st input) HF Hf1). go_red. fold s1.
  rewrite (src_readIdent_eq F fuel s1 HF Hf2). go_red. fold s2.
  assert (Ei : (if keep then Some l0 else None) = absI keep l0 s2).
  { unfold absI. rewrite Hi2, Hi1. cbn [imps init_st]. now rewrite app_nil_r. }
  rewrite Ei. rewrite (src_ReadImports_loop1_eq _ F fuel keep l0 HF F fuel s2 HF W2 Hf3). go_red.
  change (loop F oofs (sc_step F) s2) with s3. rewrite err_of_no_err.
  destruct (no_err s3 && negb (eof s3)) eqn:Ec; go_red.
  - destruct (rbuf s3) as [|x b] eqn:Eb; injection Efin as <- <- <-; [now elim (set_fail_panic s3)|].
    rewrite slice_init. go_red. reflexivity.
  - injection Efin as <- <- <-. rewrite err_of_syntax.
    destruct (err s3) eqn:Ee; go_red; try reflexivity.
    destruct (negb report); go_red; [|rewrite Ee; reflexivity].
    fold_abs (set_err s3 ENone).
    change (fun s0 : st => set_fail s0 FFuel) with oofs in *.
    change (fun s0 : st => if no_err s0 && negb (eof s0) then (snd (read_byte s0), true) else (s0, false)) with drain_step' in *.
    rewrite (src_ReadImports_loop3_eq _ fuel F fuel (set_err s3 ENone) HF Efl). go_red.
    set (s4 := loop F oofs drain_step' (set_err s3 ENone)).
    assert (Hi4 : imps s4 = imps s3).
    { unfold s4. apply (loop_inv_simple (fun a => imps a = imps s3)); [auto| |reflexivity].
      intros a Ha. unfold drain_step'. destruct (no_err a && negb (eof a)); cbn [fst]; [now rewrite read_byte_imps|exact Ha]. }
    unfold absI. rewrite Hi4. reflexivity.
Qed.

(* ------------------------------------------------------------------ *)
(* the theorems of C18 on the translated ReadImports                   *)

Lemma strip_bom_length data : length (strip_bom data) <= length data.
Proof. unfold strip_bom. destruct (has_prefix bom data); [rewrite skipn_length|]; lia. Qed.

Lemma fuel_enough data fuel : 2 * length data + 8 <= fuel -> fuel_for (strip_bom data) <= fuel.
Proof. intros H. unfold fuel_for. pose proof (strip_bom_length data). lia. Qed.

(* *imports, as a function of what it was: nil stays nil *)
Definition imports_after (o : option (list bytes)) (found : list bytes) : option (list bytes) :=
  match o with Some l0 => Some (l0 ++ found) | None => None end.

Theorem src_ReadImports_model fuel data report o : 2 * length data + 8 <= fuel ->
  exists found out e,
    read_imports report data = ROk found out e /\
    src_ReadImports fuel data report o = Ok (imports_after o found, out, err_of e).
Proof.
  intros HF. destruct (read_total report data) as [found [out [e H]]]. exists found, out, e. split; [exact H|].
  destruct o as [l0|].
  - exact (src_ReadImports_eq fuel data report true l0 found out e (fuel_enough _ _ HF) H).
  - exact (src_ReadImports_eq fuel data report false [] found out e (fuel_enough _ _ HF) H).
Qed.

(* totality: on arbitrary bytes the translated function returns: it neither panics (the
   "looping" panic, a slice out of range, a nil *imports) nor exhausts the bound *)
Theorem src_ReadImports_total fuel data report o : 2 * length data + 8 <= fuel ->
  exists o' out e, src_ReadImports fuel data report o = Ok (o', out, e).
Proof. intros HF. destruct (src_ReadImports_model fuel data report o HF) as [f [out [e [_ H]]]]. eauto. Qed.

(* the returned bytes are a prefix of the input, an optional leading byte-order mark aside *)
Theorem src_ReadImports_prefix fuel data report o o' out e : 2 * length data + 8 <= fuel ->
  src_ReadImports fuel data report o = Ok (o', out, e) ->
  (exists tl, strip_bom data = out ++ tl) /\ (data = strip_bom data \/ data = bom ++ strip_bom data).
Proof.
  intros HF H. destruct (src_ReadImports_model fuel data report o HF) as [f [out' [e' [Hm Hs]]]].
  rewrite Hs in H. injection H as _ <- _. exact (output_is_prefix report data f out' e' Hm).
Qed.

(* the error returned is nil, errSyntax or errNUL; with reportSyntaxError = false never errSyntax *)
Theorem src_ReadImports_errors fuel data report o o' out e : 2 * length data + 8 <= fuel ->
  src_ReadImports fuel data report o = Ok (o', out, e) ->
  e = ErrNil \/ e = src_errSyntax \/ e = src_errNUL.
Proof.
  intros HF H. destruct (src_ReadImports_model fuel data report o HF) as [f [out' [e' [Hm Hs]]]].
  rewrite Hs in H. injection H as _ _ <-. destruct e'; cbn [err_of]; auto.
Qed.

(* every method of the reader, in one statement (Properties/C18.v) *)
Theorem src_methods_eq :
  (forall c, src_isIdent c = Ok (is_ident c))
  /\ (forall s, src_importReader_syntaxError (abs s) = Ok (abs (syntax_error s)))
  /\ (forall s, src_importReader_readByte (abs s) = Ok (abs (snd (read_byte s)), fst (read_byte s)))
  /\ (forall F fuel skip s, F <= fuel -> fail (snd (peek_byte F skip s)) = FNone ->
        src_importReader_peekByte fuel (abs s) skip = Ok (abs (snd (peek_byte F skip s)), fst (peek_byte F skip s)))
  /\ (forall F fuel skip s, F <= fuel -> fail (snd (next_byte F skip s)) = FNone ->
        src_importReader_nextByte fuel (abs s) skip = Ok (abs (snd (next_byte F skip s)), fst (next_byte F skip s)))
  /\ (forall F fuel kw s, F <= fuel -> fail (read_keyword F kw s) = FNone ->
        src_importReader_readKeyword fuel (abs s) kw = Ok (abs (read_keyword F kw s)))
  /\ (forall F fuel s, F <= fuel -> fail (read_ident F s) = FNone ->
        src_importReader_readIdent fuel (abs s) = Ok (abs (read_ident F s)))
  /\ (forall F fuel keep l0 s, F <= fuel -> pkwf s -> fail (read_string F true s) = FNone ->
        src_importReader_readString fuel (abs s) (absI keep l0 s) =
        Ok (abs (read_string F true s), absI keep l0 (read_string F true s)))
  /\ (forall F fuel keep l0 s, F <= fuel -> pkwf s -> fail (read_import F s) = FNone ->
        src_importReader_readImport fuel (abs s) (absI keep l0 s) =
        Ok (abs (read_import F s), absI keep l0 (read_import F s)))
  /\ (forall data, src_newImportReader data = Ok (abs (init_st (strip_bom data)))).
Proof.
  repeat split.
  - exact src_isIdent_eq.
  - exact src_syntaxError_eq.
  - exact src_readByte_eq.
  - intros. now apply src_peekByte_eq.
  - intros. now apply src_nextByte_eq.
  - intros. now apply src_readKeyword_eq.
  - intros. now apply src_readIdent_eq.
  - intros. now apply src_readString_eq.
  - intros. now apply src_readImport_eq.
  - exact src_newImportReader_eq.
Qed.

(* ------------------------------------------------------------------ *)
(* the hypotheses are satisfiable, and the statements say what they seem to say *)

(* package x\nimport "a"\nfunc *)
Definition ex_file : bytes :=
  [x70; x61; x63; x6b; x61; x67; x65; x20; x78; x0a; x69; x6d; x70; x6f; x72; x74; x20; x22; x61; x22; x0a; x66; x75; x6e; x63].

Example ex_src_ReadImports :
  2 * length ex_file + 8 <= 58
  /\ src_ReadImports 58 ex_file true (Some [[x7a]])
     = Ok (Some [[x7a]; [x22; x61; x22]], firstn 21 ex_file, ErrNil)
  /\ src_ReadImports 58 ex_file true None = Ok (None, firstn 21 ex_file, ErrNil)
  /\ src_ReadImports 58 (firstn 19 ex_file) true (Some []) = Ok (Some [], firstn 19 ex_file, src_errSyntax)
  /\ src_ReadImports 58 (firstn 19 ex_file) false (Some []) = Ok (Some [], firstn 19 ex_file, ErrNil)
  /\ src_ReadImports 1 ex_file true None = OutOfFuel.
Proof. vm_compute. repeat split. apply le_n. Qed.

(* a state that satisfies the hypotheses of the method theorems: the reader in front of the
   import declaration of ex_file *)
Example ex_method_state :
  let s := read_ident 58 (read_keyword 58 kw_package (init_st ex_file)) in
  pkwf s /\ fail (read_import 58 (snd (next_byte 58 true s))) = FNone
  /\ fail (snd (peek_byte 58 true s)) = FNone.
Proof.
  cbv zeta. split; [|vm_compute; split; reflexivity].
  apply read_ident_ok, read_keyword_ok, init_pkwf.
Qed.

(* C04 -- the translated segment of RunT that names a script (Gen/TsBatchSrc.v, regenerated from
   testscript/testscript.go on every run by harness/go2coq) is equal to the hand-written model
   TsBatch/Names.v, and the names of a batch are pairwise distinct.

   What is translated (table: harness/cmd/genconsts/gen_tsbatch_src.go):
     src_RunT_name   the body of RunT's loop over the files from  name := filepath.Base(file)
                     to  names[name] = true  (both CutSuffix tests, the disambiguation loop
                     for i := 1; names[name]; i++ { name = prefix + "#" + strconv.Itoa(i) })
   Fuel: the disambiguation loop tests at most (number of bindings of the map) + 2 candidates,
   so  length l + 2 <= fuel  suffices.  The proofs name no generated bound variable. *)
From Coq Require Import List Bool Arith ZArith Lia DecimalNat.
From Coq.Strings Require Import Byte.
From GI Require Import Lib.Bytes Lib.BytesFacts Lib.GoSem Lib.GoSemData Lib.GoSemDataFacts Lib.GoSemState.
From GI Require Import TsBatch.SrcLib TsBatch.Names Gen.TsBatchSrc.
Import ListNotations.

(* ------------------------------------------------------------------ decimal digits are injective *)

Lemma uint_digits_inj u : forall v, uint_digits u = uint_digits v -> u = v.
Proof.
  induction u; intros v H; destruct v; cbn [uint_digits] in H; try discriminate H; try reflexivity;
    injection H as H; f_equal; apply IHu; exact H.
Qed.

Lemma fmt_nat_inj a b : go_fmt_int (Z.of_nat a) = go_fmt_int (Z.of_nat b) -> a = b.
Proof.
  rewrite !go_fmt_int_nat. intros H. apply Unsigned.to_uint_inj. apply uint_digits_inj. exact H.
Qed.

Lemma cand_inj p a b : 1 <= a -> 1 <= b -> cand p a = cand p b -> a = b.
Proof.
  intros Ha Hb H. destruct a as [|a]; [lia|]. destruct b as [|b]; [lia|].
  unfold cand in H. apply app_inv_head in H. apply fmt_nat_inj. exact H.
Qed.

(* ------------------------------------------------------------------ some candidate is free *)

Lemma taken_in l k : taken l k = true -> In k (map fst l).
Proof.
  unfold taken. induction l as [|[k' v] l IH]; cbn [assoc_get map fst]; [discriminate|].
  destruct (bytes_eqb k' k) eqn:E.
  - intros _. left. apply bytes_eqb_eq in E. exact E.
  - intros H. right. apply IH. exact H.
Qed.

Lemma forallb_false_ex {A} (f : A -> bool) l : forallb f l = false -> exists x, In x l /\ f x = false.
Proof.
  induction l as [|a l IH]; cbn [forallb]; [discriminate|].
  destruct (f a) eqn:E; cbn [andb].
  - intros H. destruct (IH H) as (x & I & F). exists x. split; [right; exact I | exact F].
  - intros _. exists a. split; [left; reflexivity | exact E].
Qed.

Lemma NoDup_map_in {A B} (f : A -> B) (l : list A) :
  (forall a b, In a l -> In b l -> f a = f b -> a = b) -> NoDup l -> NoDup (map f l).
Proof.
  induction l as [|x l IH]; intros Inj ND; [constructor|].
  inversion ND as [|? ? Nx NDl]; subst. cbn [map]. constructor.
  - intros H. apply in_map_iff in H. destruct H as (y & E & Iy).
    assert (y = x) by (apply Inj; [right; exact Iy | left; reflexivity | exact E]). subst. contradiction.
  - apply IH; [|exact NDl]. intros a b' Ia Ib. apply Inj; right; assumption.
Qed.

Lemma free_candidate l p : exists k, 1 <= k <= length l + 1 /\ taken l (cand p k) = false.
Proof.
  set (ks := seq 1 (length l + 1)).
  destruct (forallb (fun k => taken l (cand p k)) ks) eqn:F.
  - exfalso. rewrite forallb_forall in F.
    assert (ND : NoDup (map (cand p) ks)).
    { apply NoDup_map_in; [|apply seq_NoDup].
      intros a b Ia Ib. unfold ks in Ia, Ib. apply in_seq in Ia, Ib. apply cand_inj; lia. }
    assert (I : incl (map (cand p) ks) (map fst l)).
    { intros c Hc. apply in_map_iff in Hc. destruct Hc as (k & <- & Ik). apply taken_in. apply F. exact Ik. }
    pose proof (NoDup_incl_length ND I) as Len. rewrite !map_length in Len. unfold ks in Len. rewrite seq_length in Len. lia.
  - destruct (forallb_false_ex _ _ F) as (k & Ik & Fk). unfold ks in Ik. apply in_seq in Ik.
    exists k. split; [lia | exact Fk].
Qed.

(* pick finds the first free candidate when there is one within its range *)
Lemma pick_finds l p : forall n k j, k <= j < k + n -> taken l (cand p j) = false ->
  exists i, k <= i <= j /\ pick l p k n = Some (cand p i) /\ taken l (cand p i) = false /\
            forall i', k <= i' < i -> taken l (cand p i') = true.
Proof.
  induction n as [|n IH]; intros k j Hj Fj; [lia|].
  cbn [pick]. destruct (taken l (cand p k)) eqn:Tk.
  - assert (k <> j) by (intros ->; rewrite Tk in Fj; discriminate).
    destruct (IH (S k) j ltac:(lia) Fj) as (i & Hi & P & Fi & Below).
    exists i. split; [lia|]. split; [exact P|]. split; [exact Fi|].
    intros i' Hi'. destruct (Nat.eq_dec i' k) as [->|N]; [exact Tk | apply Below; lia].
  - exists k. split; [lia|]. split; [reflexivity|]. split; [exact Tk|]. intros i' Hi'. lia.
Qed.

Lemma pick_total l p : exists i, i <= length l + 1 /\ pick l p 0 (length l + 2) = Some (cand p i) /\
  taken l (cand p i) = false /\ forall i', i' < i -> taken l (cand p i') = true.
Proof.
  destruct (free_candidate l p) as (k & Hk & Fk).
  destruct (pick_finds l p (length l + 2) 0 k ltac:(lia) Fk) as (i & Hi & P & Fi & Below).
  exists i. split; [lia|]. split; [exact P|]. split; [exact Fi|]. intros i' Hi'. apply Below. lia.
Qed.

(* pick with more tries than needed gives the same *)
Lemma pick_more l p : forall n k name, pick l p k n = Some name -> forall m, n <= m -> pick l p k m = Some name.
Proof.
  induction n as [|n IH]; intros k name H m Hm; [discriminate|].
  destruct m as [|m]; [lia|]. cbn [pick] in *. destruct (taken l (cand p k)); [|exact H].
  apply IH; [exact H | lia].
Qed.

(* ------------------------------------------------------------------ the loop is pick *)

Lemma loop_eq {L : Type} fuel l p : forall n k name, pick l p k n = Some name ->
  exists z, src_RunT_name_loop1 (L := L) fuel n (Some l) p (cand p k) (Z.of_nat (S k)) = Ok (Normal (name, z)).
Proof.
  induction n as [|n IH]; intros k name H; [discriminate|].
  cbn [pick] in H. cbn [src_RunT_name_loop1 go_mapref_get].
  change (assoc_get false l (cand p k)) with (taken l (cand p k)).
  destruct (taken l (cand p k)).
  - cbn [bindL]. unfold go_strconv_Itoa.
    change ((p ++ [x23]) ++ go_fmt_int (Z.of_nat (S k))) with (cand p (S k)).
    replace (Z.of_nat (S k) + 1)%Z with (Z.of_nat (S (S k))) by lia.
    apply IH. exact H.
  - injection H as <-. eexists. reflexivity.
Qed.

(* ------------------------------------------------------------------ the segment is the model *)

Lemma script_prefix_eq file :
  script_prefix file =
    (let b := go_filepath_Base file in
     let '(b1, ok1) := go_strings_CutSuffix b [x2e; x74; x78; x74] in
     if ok1 then b1 else
     let '(b2, ok2) := go_strings_CutSuffix b [x2e; x74; x78; x74; x61; x72] in
     if ok2 then b2 else b).
Proof. reflexivity. Qed.

Theorem src_name_eq fuel l file name : length l + 2 <= fuel ->
  pick l (script_prefix file) 0 (length l + 2) = Some name ->
  src_RunT_name fuel (Some l) file = Ok (Normal (Some ((name, true) :: l), name)).
Proof.
  intros Hf P. apply (pick_more _ _ _ _ _ P fuel) in Hf.
  unfold src_RunT_name.
  rewrite script_prefix_eq in Hf. cbv zeta in Hf.
  destruct (go_strings_CutSuffix (go_filepath_Base file) [x2e; x74; x78; x74]) as [b1 ok1].
  destruct ok1.
  - cbn [bind]. destruct (loop_eq (L := mapref bool) fuel l b1 fuel 0 name Hf) as (z & E).
    change (cand b1 0) with b1 in E. change (Z.of_nat 1) with 1%Z in E. rewrite E. reflexivity.
  - destruct (go_strings_CutSuffix (go_filepath_Base file) [x2e; x74; x78; x74; x61; x72]) as [b2 ok2].
    destruct ok2; cbn [bind].
    + destruct (loop_eq (L := mapref bool) fuel l b2 fuel 0 name Hf) as (z & E).
      change (cand b2 0) with b2 in E. change (Z.of_nat 1) with 1%Z in E. rewrite E. reflexivity.
    + destruct (loop_eq (L := mapref bool) fuel l (go_filepath_Base file) fuel 0 name Hf) as (z & E).
      change (cand (go_filepath_Base file) 0) with (go_filepath_Base file) in E. change (Z.of_nat 1) with 1%Z in E.
      rewrite E. reflexivity.
Qed.

(* never Panic, never OutOfFuel with enough fuel: the segment always names the script, with a
   name that is not in the map, the first free candidate *)
Theorem src_name_total fuel l file : length l + 2 <= fuel ->
  exists i, i <= length l + 1 /\
    src_RunT_name fuel (Some l) file =
      Ok (Normal (Some ((cand (script_prefix file) i, true) :: l), cand (script_prefix file) i)) /\
    taken l (cand (script_prefix file) i) = false /\
    forall i', i' < i -> taken l (cand (script_prefix file) i') = true.
Proof.
  intros Hf. destruct (pick_total l (script_prefix file)) as (i & Hi & P & Fi & Below).
  exists i. split; [exact Hi|]. split; [apply src_name_eq; assumption|]. split; assumption.
Qed.

(* ------------------------------------------------------------------ a batch *)

(* RunT's loop over the files, as far as the names go: the translated segment for each file in
   turn, the map handed on (the t.Run call between two iterations does not touch it: it is a
   local of RunT that the function literal does not mention) *)
Fixpoint src_batch_names (fuel : nat) (m : mapref bool) (files : list bytes) : res (list bytes) :=
  match files with
  | [] => Ok []
  | f :: r =>
      bind (src_RunT_name fuel m f) (fun o =>
      match o with
      | Normal (m', name) => bind (src_batch_names fuel m' r) (fun ns => Ok (name :: ns))
      | _ => Panic
      end)
  end.

Lemma assign_length l files : length (assign l files) = length files.
Proof.
  revert l. induction files as [|f r IH]; intros l; [reflexivity|]. cbn [assign].
  destruct (pick_total l (script_prefix f)) as (i & _ & P & _). rewrite P. cbn [length]. rewrite IH. reflexivity.
Qed.

Theorem src_batch_names_eq fuel : forall files l, length l + length files + 1 <= fuel ->
  src_batch_names fuel (Some l) files = Ok (assign l files).
Proof.
  induction files as [|f r IH]; intros l Hf; [reflexivity|].
  cbn [src_batch_names assign length] in *.
  destruct (pick_total l (script_prefix f)) as (i & _ & P & _). rewrite P.
  rewrite (src_name_eq fuel l f _ ltac:(lia) P). cbn [bind].
  rewrite IH by (cbn [length]; lia). reflexivity.
Qed.

(* every assigned name is new with respect to the map it is assigned under *)
Lemma assign_fresh : forall files l name, In name (assign l files) -> taken l name = false.
Proof.
  induction files as [|f r IH]; intros l name H; [destruct H|].
  cbn [assign] in H. destruct (pick_total l (script_prefix f)) as (i & _ & P & Fi & _). rewrite P in H.
  destruct H as [<-|H]; [exact Fi|].
  pose proof (IH _ _ H) as T. unfold taken in T. cbn [assoc_get] in T.
  destruct (bytes_eqb (cand (script_prefix f) i) name); [discriminate T | exact T].
Qed.

Theorem assign_NoDup : forall files l, NoDup (assign l files).
Proof.
  induction files as [|f r IH]; intros l; [constructor|].
  cbn [assign]. destruct (pick_total l (script_prefix f)) as (i & _ & P & _). rewrite P.
  constructor; [|apply IH].
  intros H. apply assign_fresh in H. unfold taken in H. cbn [assoc_get] in H.
  rewrite bytes_eqb_refl in H. discriminate H.
Qed.

(* The names RunT gives to the scripts of one call are pairwise distinct, whatever the files
   are called (also a/foo.txt, b/foo.txtar and c/foo#1.txt). *)
Theorem src_batch_names_distinct fuel files : length files + 1 <= fuel ->
  exists names, src_batch_names fuel (Some []) files = Ok names /\ length names = length files /\ NoDup names.
Proof.
  intros Hf. exists (assign [] files). split; [apply src_batch_names_eq; cbn [length]; lia|].
  split; [apply assign_length | apply assign_NoDup].
Qed.

(* ------------------------------------------------------------------ examples *)

Local Definition b (s : list byte) := s.

(* filepath.Base and strings.CutSuffix on the values Go 1.23.5 returns *)
Example base_examples :
  go_filepath_Base [] = [x2e] /\ go_filepath_Base [x2f] = [x2f] /\ go_filepath_Base [x2f; x2f] = [x2f] /\
  go_filepath_Base [x61] = [x61] /\ go_filepath_Base [x61; x2f] = [x61] /\ go_filepath_Base [x61; x2f; x2f] = [x61] /\
  go_filepath_Base [x2f; x61] = [x61] /\ go_filepath_Base [x2f; x61; x2f; x62] = [x62] /\
  go_filepath_Base [x61; x2f; x2e; x2e] = [x2e; x2e] /\ go_filepath_Base [x2e] = [x2e] /\
  go_filepath_Base [x2f; x2f; x2f; x78; x2f; x2f; x2f] = [x78] /\
  go_filepath_Base [x78; x2f; x23; x31; x2e; x74; x78; x74; x61; x72] = [x23; x31; x2e; x74; x78; x74; x61; x72].
Proof. vm_compute. repeat split. Qed.

Example cut_suffix_examples :
  go_strings_CutSuffix [x61; x2e; x74; x78; x74] txt_suffix = ([x61], true) /\
  go_strings_CutSuffix txt_suffix txt_suffix = ([], true) /\
  go_strings_CutSuffix [x74; x78; x74] txt_suffix = ([x74; x78; x74], false) /\
  go_strings_CutSuffix [x61; x2e; x74; x78; x74; x61; x72] txt_suffix = ([x61; x2e; x74; x78; x74; x61; x72], false) /\
  go_strings_CutSuffix [x61; x2e; x74; x78; x74; x61; x72] txtar_suffix = ([x61], true) /\
  go_strings_CutSuffix [] txt_suffix = ([], false).
Proof. vm_compute. repeat split. Qed.

(* the example of the comment in RunT: a/foo.txt, b/foo.txtar, c/foo#1.txt -> foo, foo#1, foo#1#1 *)
Example names_example :
  src_batch_names 4 (Some [])
    [[x61; x2f; x66; x6f; x6f; x2e; x74; x78; x74];
     [x62; x2f; x66; x6f; x6f; x2e; x74; x78; x74; x61; x72];
     [x63; x2f; x66; x6f; x6f; x23; x31; x2e; x74; x78; x74]] =
  Ok [[x66; x6f; x6f]; [x66; x6f; x6f; x23; x31]; [x66; x6f; x6f; x23; x31; x23; x31]].
Proof. vm_compute. reflexivity. Qed.

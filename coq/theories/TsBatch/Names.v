(* C04 -- the names RunT gives to the scripts of a batch (and with them the work directories
   testTempDir/script-<name>): hand-written model, definitions only.  Anchor: testscript/
   testscript.go RunT, from  name := filepath.Base(file)  to  names[name] = true.
   TsBatch/SrcFacts.v proves the translated segment (Gen/TsBatchSrc.v) equal to it. *)
From Coq Require Import List Bool ZArith.
From Coq.Strings Require Import Byte.
From GI Require Import Lib.Bytes Lib.GoSem Lib.GoSemData Lib.GoSemState TsBatch.SrcLib.
Import ListNotations.

Definition txt_suffix : bytes := [x2e; x74; x78; x74].
Definition txtar_suffix : bytes := [x2e; x74; x78; x74; x61; x72].

(* the base name without its .txt / .txtar suffix *)
Definition script_prefix (file : bytes) : bytes :=
  let b := go_filepath_Base file in
  let '(b1, ok1) := go_strings_CutSuffix b txt_suffix in
  if ok1 then b1 else
  let '(b2, ok2) := go_strings_CutSuffix b txtar_suffix in
  if ok2 then b2 else b.

(* the k-th candidate: the prefix itself, then prefix#1, prefix#2, ... *)
Definition cand (prefix : bytes) (k : nat) : bytes :=
  match k with
  | O => prefix
  | S _ => (prefix ++ [x23]) ++ go_fmt_int (Z.of_nat k)
  end.

(* names[name]: the newest binding, false when there is none *)
Definition taken (l : list (bytes * bool)) (name : bytes) : bool := assoc_get false l name.

(* for i := 1; names[name]; i++ { name = prefix + "#" + strconv.Itoa(i) }: the first candidate
   from the k-th on that is not taken, trying at most n of them *)
Fixpoint pick (l : list (bytes * bool)) (prefix : bytes) (k n : nat) : option bytes :=
  match n with
  | O => None
  | S n' => if taken l (cand prefix k) then pick l prefix (S k) n' else Some (cand prefix k)
  end.

(* the names of a batch, in the order of the files; l = the map when the first of them is named *)
Fixpoint assign (l : list (bytes * bool)) (files : list bytes) : list bytes :=
  match files with
  | [] => []
  | f :: r =>
      match pick l (script_prefix f) 0 (length l + 2) with
      | Some name => name :: assign ((name, true) :: l) r
      | None => []
      end
  end.

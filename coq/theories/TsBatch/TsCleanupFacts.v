(* C04 — lemmas about TsCleanup.v: removeAll of a directory changes nothing outside it (when the
   mode is changed for directories only), removes everything below it (for root, and for an owner
   whose parent directory is writable), and does change a link target outside when every entry is
   chmod'ed (the change seeded as C04-r4m3). *)
From Coq Require Import List Bool Arith NArith Lia.
From Coq.Strings Require Import Byte.
From GI Require Import Lib.Bytes Lib.BytesFacts Gen.TsBatchConsts TsBatch.TsBatch TsBatch.TsBatchFacts TsBatch.TsCleanup.
Import ListNotations.

(* ------------------------------------------------------------------ paths *)

Lemma path_prefix_refl p : path_prefix p p = true.
Proof. induction p as [|x p IH]; [reflexivity|]. cbn. now rewrite bytes_eqb_refl. Qed.

Lemma path_prefix_length p q : path_prefix p q = true -> length p <= length q.
Proof.
  revert q. induction p as [|x p IH]; intros [|y q] H; cbn in *; try lia; try discriminate.
  apply andb_true_iff in H as [_ H]. apply IH in H. lia.
Qed.

Lemma path_prefix_trans p q r : path_prefix p q = true -> path_prefix q r = true -> path_prefix p r = true.
Proof.
  revert q r. induction p as [|x p IH]; intros [|y q] [|z r] H1 H2; cbn in *; try reflexivity; try discriminate.
  apply andb_true_iff in H1 as [E1 H1]. apply andb_true_iff in H2 as [E2 H2].
  apply bytes_eqb_eq in E1. apply bytes_eqb_eq in E2. subst. rewrite bytes_eqb_refl. cbn. eapply IH; eauto.
Qed.

Lemma removelast_length {A} (l : list A) : l <> [] -> S (length (removelast l)) = length l.
Proof.
  induction l as [|x l IH]; [congruence|]. intros _. destruct l as [|y l]; [reflexivity|].
  cbn [removelast length] in *. rewrite IH; [reflexivity|discriminate].
Qed.

(* the parent of dir is not below dir *)
Lemma parent_not_below dir : dir <> [] -> path_prefix dir (removelast dir) = false.
Proof.
  intro H. destruct (path_prefix dir (removelast dir)) eqn:E; [|reflexivity].
  apply path_prefix_length in E. pose proof (removelast_length dir H). lia.
Qed.

(* the parent of something strictly below dir is below (or equal to) dir *)
Lemma parent_below dir : forall q, path_prefix dir q = true -> q <> dir -> path_prefix dir (removelast q) = true.
Proof.
  induction dir as [|x d IH]; intros q H N; [reflexivity|].
  destruct q as [|y q]; [discriminate|]. cbn [path_prefix] in H. apply andb_true_iff in H as [E H].
  destruct q as [|z q].
  - destruct d; [|discriminate]. apply bytes_eqb_eq in E. subst. congruence.
  - change (removelast (y :: z :: q)) with (y :: removelast (z :: q)). cbn [path_prefix]. rewrite E. cbn [andb].
    apply IH; [exact H|]. intro X. apply N. apply bytes_eqb_eq in E. subst. reflexivity.
Qed.

(* ------------------------------------------------------------------ the table *)

Lemma gget_set_perm fs q m p :
  gget (gset_perm fs q m) p = if path_eqb q p then option_map (fun n => with_perm n m) (gget fs p) else gget fs p.
Proof.
  unfold gset_perm. induction fs as [|[r n] fs IH]; cbn [map gget fst snd].
  - now destruct (path_eqb q p).
  - destruct (path_eqb r q) eqn:Erq; cbn [gget fst snd].
    + apply path_eqb_eq in Erq. subst r. destruct (path_eqb q p) eqn:Eqp; [reflexivity|exact IH].
    + destruct (path_eqb r p) eqn:Erp.
      * apply path_eqb_eq in Erp. subst r. destruct (path_eqb q p) eqn:E; [|reflexivity].
        apply path_eqb_eq in E. subst q. now rewrite path_eqb_refl in Erq.
      * exact IH.
Qed.

Lemma gget_filter_keep (f : path * gnode -> bool) fs p :
  (forall e, In e fs -> path_eqb (fst e) p = true -> f e = true) -> gget (filter f fs) p = gget fs p.
Proof.
  induction fs as [|[r n] fs IH]; intro H; [reflexivity|]. cbn [filter].
  destruct (path_eqb r p) eqn:E.
  - rewrite (H (r, n) (or_introl eq_refl) E). cbn [gget]. now rewrite E.
  - assert (IH' := IH (fun e He => H e (or_intror He))).
    destruct (f (r, n)); cbn [gget]; rewrite ?E; exact IH'.
Qed.

Lemma gget_filter_drop (f : path * gnode -> bool) fs p :
  (forall e, In e fs -> path_eqb (fst e) p = true -> f e = false) -> gget (filter f fs) p = None.
Proof.
  induction fs as [|[r n] fs IH]; intro H; [reflexivity|]. cbn [filter].
  assert (IH' := IH (fun e He => H e (or_intror He))).
  destruct (path_eqb r p) eqn:E.
  - now rewrite (H (r, n) (or_introl eq_refl) E).
  - destruct (f (r, n)); cbn [gget]; rewrite ?E; exact IH'.
Qed.

Lemma gget_some_in fs p n : gget fs p = Some n -> exists e, In e fs /\ fst e = p.
Proof.
  induction fs as [|[r k] fs IH]; [discriminate|]. cbn [gget].
  destruct (path_eqb r p) eqn:E.
  - intros _. apply path_eqb_eq in E. exists (r, k). split; [now left|exact E].
  - intro H. destruct (IH H) as (e & He & Hp). exists e. split; [now right|exact Hp].
Qed.

(* ------------------------------------------------------------------ the chmod pass, directories only *)

(* one visit: a directory the process may chmod gets 0o777, nothing else changes *)
Lemma visit_dirs_only root mine fs q p :
  gget (visit true root mine fs q) p =
  match gget fs p with
  | Some (GDir m) => if path_eqb q p && can_chmod root mine p then Some (GDir perm_all) else Some (GDir m)
  | o => o
  end.
Proof.
  unfold visit. destruct (gget fs q) as [[m|m d|t]|] eqn:Eq.
  - destruct (can_chmod root mine q) eqn:Ec.
    + rewrite gget_set_perm. destruct (path_eqb q p) eqn:E.
      * apply path_eqb_eq in E. subst p. rewrite Eq, Ec. reflexivity.
      * now destruct (gget fs p) as [[]|].
    + destruct (gget fs p) as [[m'|m' d'|t']|] eqn:Ep; try reflexivity.
      destruct (path_eqb q p) eqn:E; [|reflexivity]. apply path_eqb_eq in E. subst p. now rewrite Ec.
  - destruct (gget fs p) as [[m'|m' d'|t']|] eqn:Ep; try reflexivity.
    destruct (path_eqb q p) eqn:E; [|reflexivity]. apply path_eqb_eq in E. subst p. congruence.
  - destruct (gget fs p) as [[m'|m' d'|t']|] eqn:Ep; try reflexivity.
    destruct (path_eqb q p) eqn:E; [|reflexivity]. apply path_eqb_eq in E. subst p. congruence.
  - destruct (gget fs p) as [[m'|m' d'|t']|] eqn:Ep; try reflexivity.
    destruct (path_eqb q p) eqn:E; [|reflexivity]. apply path_eqb_eq in E. subst p. congruence.
Qed.

Lemma visits_dirs_only root mine l : forall fs p,
  gget (fold_left (visit true root mine) l fs) p =
  match gget fs p with
  | Some (GDir m) => if existsb (fun q => path_eqb q p) l && can_chmod root mine p then Some (GDir perm_all) else Some (GDir m)
  | o => o
  end.
Proof.
  induction l as [|q l IH]; intros fs p; cbn [fold_left existsb].
  - now destruct (gget fs p) as [[]|].
  - rewrite IH, visit_dirs_only. destruct (gget fs p) as [[m|m d|t]|]; try reflexivity.
    destruct (path_eqb q p); cbn [orb andb]; [|reflexivity].
    destruct (can_chmod root mine p); [|now rewrite andb_false_r].
    rewrite andb_true_r. now destruct (existsb _ l).
Qed.

Lemma in_entries_below fs dir p : existsb (fun q => path_eqb q p) (entries_below fs dir) = true ->
  path_prefix dir p = true.
Proof.
  unfold entries_below. intro H. apply existsb_exists in H as (q & Hq & E). apply path_eqb_eq in E. subst q.
  apply in_map_iff in Hq as (e & <- & He). apply filter_In in He as [_ He]. exact He.
Qed.

Lemma entries_below_has fs dir p n : gget fs p = Some n -> path_prefix dir p = true ->
  existsb (fun q => path_eqb q p) (entries_below fs dir) = true.
Proof.
  intros G P. destruct (gget_some_in _ _ _ G) as (e & He & <-). apply existsb_exists. exists (fst e).
  split; [|apply path_eqb_refl]. unfold entries_below. apply in_map. apply filter_In. now split.
Qed.

(* the whole pass: exactly the directories at or below dir that the process may chmod become 0o777 *)
Lemma chmod_pass_dirs_only root mine fs dir p :
  gget (chmod_pass true root mine fs dir) p =
  match gget fs p with
  | Some (GDir m) => if path_prefix dir p && can_chmod root mine p then Some (GDir perm_all) else Some (GDir m)
  | o => o
  end.
Proof.
  unfold chmod_pass. rewrite visits_dirs_only. destruct (gget fs p) as [[m|m d|t]|] eqn:G; try reflexivity.
  destruct (path_prefix dir p) eqn:P.
  - now rewrite (entries_below_has _ _ _ _ G P).
  - destruct (existsb _ _) eqn:E; [|reflexivity]. apply in_entries_below in E. congruence.
Qed.

(* ------------------------------------------------------------------ frame *)

(* removeAll(dir) with the mode changed for directories only: nothing that is not at or below dir is
   touched — not its mode, not its content, not its existence — whatever links the tree holds and
   wherever they lead *)
Lemma remove_all_frame root mine fs dir p :
  path_prefix dir p = false -> gget (remove_all_at true root mine fs dir) p = gget fs p.
Proof.
  intro P. unfold remove_all_at, g_remove_all. rewrite gget_filter_keep.
  - rewrite chmod_pass_dirs_only, P. now destruct (gget fs p) as [[]|].
  - intros e _ E. apply path_eqb_eq in E. subst p. now rewrite P.
Qed.

Lemma remove_all_now_frame root mine fs dir p :
  remove_all_chmods_dirs_only = true ->
  path_prefix dir p = false -> gget (remove_all_now root mine fs dir) p = gget fs p.
Proof. unfold remove_all_now. intros ->. apply remove_all_frame. Qed.

(* the statement for the source as it is: the generated constant says "directories only" *)
Lemma cleanup_touches_only_workdir root mine fs dir p :
  path_prefix dir p = false -> gget (remove_all_now root mine fs dir) p = gget fs p.
Proof. apply remove_all_now_frame. reflexivity. Qed.

(* ------------------------------------------------------------------ everything below is removed *)

Lemma g_remove_all_none root fs dir p :
  path_prefix dir p = true -> g_stuck root fs p = false -> gget (g_remove_all root fs dir) p = None.
Proof.
  intros P S. unfold g_remove_all. apply gget_filter_drop. intros e _ E. apply path_eqb_eq in E. subst p.
  now rewrite P, S.
Qed.

Lemma root_nothing_stuck fs p : g_stuck true fs p = false.
Proof.
  unfold g_stuck. apply not_true_is_false. intro H. apply existsb_exists in H as (e & _ & He).
  apply andb_true_iff in He as [_ He]. unfold g_unremovable in He.
  destruct (gget fs (removelast (fst e))) as [[]|]; discriminate.
Qed.

(* root: whatever the modes *)
Lemma remove_all_removes_root dirs_only mine fs dir p :
  path_prefix dir p = true -> gget (remove_all_at dirs_only true mine fs dir) p = None.
Proof. intro P. unfold remove_all_at. apply g_remove_all_none; [exact P | apply root_nothing_stuck]. Qed.

Lemma owner_w_all : owner_w perm_all = true.
Proof. reflexivity. Qed.

(* the owner: provided the directory that holds dir is writable *)
Lemma remove_all_removes_owner mine fs dir p :
  dir <> [] ->
  (forall q, path_prefix dir q = true -> can_chmod false mine q = true) ->
  g_unremovable false fs dir = false ->
  path_prefix dir p = true -> gget (remove_all_at true false mine fs dir) p = None.
Proof.
  intros Hne Hown Hpar P. unfold remove_all_at. apply g_remove_all_none; [exact P|].
  set (fs1 := chmod_pass true false mine fs dir).
  unfold g_stuck. destruct (existsb _ fs1) eqn:E; [|reflexivity]. exfalso.
  apply existsb_exists in E as (e & _ & He). apply andb_true_iff in He as [Hpe Hu].
  assert (Pe : path_prefix dir (fst e) = true) by (eapply path_prefix_trans; eauto).
  unfold g_unremovable in Hu. unfold fs1 in Hu. rewrite chmod_pass_dirs_only in Hu.
  destruct (path_eqb (fst e) dir) eqn:Eed.
  - apply path_eqb_eq in Eed. rewrite Eed in Hu. rewrite (parent_not_below dir Hne) in Hu. cbn [andb] in Hu.
    unfold g_unremovable in Hpar. destruct (gget fs (removelast dir)) as [[m|m d|t]|]; try discriminate. congruence.
  - assert (Nd : fst e <> dir) by (intro X; rewrite X, path_eqb_refl in Eed; discriminate).
    rewrite (parent_below dir _ Pe Nd) in Hu. rewrite (Hown _ (parent_below dir _ Pe Nd)) in Hu. cbn [andb] in Hu.
    destruct (gget fs (removelast (fst e))) as [[m|m d|t]|]; discriminate.
Qed.

(* ------------------------------------------------------------------ chmod of every entry: refuted *)

Definition seg (s : list byte) : name := s.
Definition p_w : path := [[x77]].                 (* /w     the work directory *)
Definition p_wl : path := [[x77]; [x6c]].         (* /w/l   a link in it *)
Definition p_h : path := [[x68]].                 (* /h     a directory of the host *)
Definition p_hf : path := [[x68]; [x66]].         (* /h/f   a read-only file of the host *)
Definition fs_link_out : gfs :=
  [([], GDir 493); (p_w, GDir 493); (p_wl, GLink p_hf); (p_h, GDir 493); (p_hf, GFile 292 [x61])].

(* with os.Chmod applied to every entry the mode of /h/f, outside the directory being removed, changes *)
Lemma chmod_every_entry_refuted :
  exists root mine fs dir p,
    path_prefix dir p = false /\ gget (remove_all_at false root mine fs dir) p <> gget fs p.
Proof. exists true, [], fs_link_out, p_w, p_hf. split; [reflexivity|]. vm_compute. discriminate. Qed.

(* the same tree under the source's removeAll: /w and the link are gone, the host is as it was *)
Example cleanup_example :
  remove_all_now false [p_w] fs_link_out p_w = [([], GDir 493); (p_h, GDir 493); (p_hf, GFile 292 [x61])].
Proof. reflexivity. Qed.

(* a read-only directory with content inside the work directory, a link to a sibling's read-only
   directory, a dangling link and a link loop: removed by the owner, the sibling untouched *)
Definition p_s : path := [[x73]].                       (* /s    a sibling's work directory *)
Definition p_sr : path := [[x73]; [x72]].               (* /s/r  read-only directory in it *)
Definition fs_mixed : gfs :=
  [([], GDir 493); (p_w, GDir 493); ([[x77]; [x64]], GDir 365); ([[x77]; [x64]; [x66]], GFile 292 []);
   ([[x77]; [x31]], GLink p_sr); ([[x77]; [x32]], GLink [[x6e]]); ([[x77]; [x33]], GLink [[x77]; [x33]]);
   (p_s, GDir 493); (p_sr, GDir 365)].

Example cleanup_example_mixed :
  remove_all_now false [p_w] fs_mixed p_w = [([], GDir 493); (p_s, GDir 493); (p_sr, GDir 365)]
  /\ (forall q, path_prefix p_w q = true -> can_chmod false [p_w] q = true)
  /\ g_unremovable false fs_mixed p_w = false.
Proof.
  split; [reflexivity|]. split; [|reflexivity]. intros q H. unfold can_chmod. cbn [existsb orb]. now rewrite H.
Qed.

(* without the chmod pass the owner cannot remove the read-only directory's content *)
Example cleanup_needs_chmod_pass :
  gget (g_remove_all false fs_mixed p_w) [[x77]; [x64]; [x66]] = Some (GFile 292 []).
Proof. reflexivity. Qed.

(* ------------------------------------------------------------------ rm and symlink in the per-script tree *)

Lemma tree_get_filter_keep (f : path * node -> bool) t p :
  (forall e, In e t -> path_eqb (fst e) p = true -> f e = true) -> tree_get (filter f t) p = tree_get t p.
Proof.
  induction t as [|[r n] t IH]; intro H; [reflexivity|]. cbn [filter].
  destruct (path_eqb r p) eqn:E.
  - rewrite (H (r, n) (or_introl eq_refl) E). cbn [tree_get]. now rewrite E.
  - assert (IH' := IH (fun e He => H e (or_intror He))).
    destruct (f (r, n)); cbn [tree_get]; rewrite ?E; exact IH'.
Qed.

Lemma tree_get_filter_drop (f : path * node -> bool) t p :
  (forall e, In e t -> path_eqb (fst e) p = true -> f e = false) -> tree_get (filter f t) p = None.
Proof.
  induction t as [|[r n] t IH]; intro H; [reflexivity|]. cbn [filter].
  assert (IH' := IH (fun e He => H e (or_intror He))).
  destruct (path_eqb r p) eqn:E.
  - now rewrite (H (r, n) (or_introl eq_refl) E).
  - destruct (f (r, n)); cbn [tree_get]; rewrite ?E; exact IH'.
Qed.

Lemma remove_at_get t q p : tree_get (remove_at t q) p = if path_prefix q p then None else tree_get t p.
Proof.
  unfold remove_at. destruct (path_prefix q p) eqn:P.
  - apply tree_get_filter_drop. intros e _ E. apply path_eqb_eq in E. subst p. now rewrite P.
  - apply tree_get_filter_keep. intros e _ E. apply path_eqb_eq in E. subst p. now rewrite P.
Qed.

Lemma remove_below_get t q p : tree_get (remove_below t q) p = if below q p then None else tree_get t p.
Proof.
  unfold remove_below. destruct (below q p) eqn:P.
  - apply tree_get_filter_drop. intros e _ E. apply path_eqb_eq in E. subst p. now rewrite P.
  - apply tree_get_filter_keep. intros e _ E. apply path_eqb_eq in E. subst p. now rewrite P.
Qed.

Definition rm_tree (r : rm_result) : tree := match r with RmOk t => t | RmFail t => t end.

(* `rm q`, successful or not, changes nothing that is not at or below q *)
Lemma rm_frame root t q p : path_prefix q p = false -> tree_get (rm_tree (rm_path root t q)) p = tree_get t p.
Proof.
  intro P. unfold rm_path. destruct q as [|s q]; [reflexivity|].
  destruct (blocked_by_file t (s :: q)); [reflexivity|].
  destruct (tree_get t (s :: q)) as [n|] eqn:G; [|reflexivity].
  destruct (unremovable root t (s :: q)); cbn [rm_tree].
  - destruct n; try reflexivity. rewrite tree_get_set.
    destruct (path_eqb (s :: q) p) eqn:E.
    + apply path_eqb_eq in E. subst p. now rewrite path_prefix_refl in P.
    + rewrite remove_below_get. unfold below. now rewrite P.
  - now rewrite remove_at_get, P.
Qed.

(* a successful `rm q` of something that exists leaves nothing at or below q *)
Lemma rm_ok_removes root t q t' n p :
  rm_path root t q = RmOk t' -> tree_get t q = Some n -> path_prefix q p = true -> tree_get t' p = None.
Proof.
  unfold rm_path. destruct q as [|s q]; [discriminate|].
  destruct (blocked_by_file t (s :: q)); [discriminate|]. intros H G P. rewrite G in H.
  destruct (unremovable root t (s :: q)); [discriminate|]. injection H as <-. now rewrite remove_at_get, P.
Qed.

(* `symlink q -> tg` adds the link at q and changes nothing else; q did not exist *)
Lemma symlink_exact root t q tg t' :
  symlink_at root t q tg = Some t' ->
  tree_get t q = None /\ forall p, tree_get t' p = if path_eqb q p then Some (Link tg) else tree_get t p.
Proof.
  unfold symlink_at. destruct q as [|s q]; [discriminate|].
  destruct (tree_get t (s :: q)) eqn:G; [discriminate|].
  destruct (dir_writable root t (removelast (s :: q))); [|discriminate]. intros [= <-].
  split; [reflexivity|]. intro p. apply tree_get_set.
Qed.

(* the chmod pass of removeAll leaves links as they are (and has no way to reach what they point to:
   the tree of a script holds nothing but its own files) *)
Lemma chmod_all_keeps_links t p tg : tree_get t p = Some (Link tg) -> tree_get (chmod_all t) p = Some (Link tg).
Proof. intro H. now rewrite chmod_all_get, H. Qed.

Example rm_and_symlink_example :
  let a := [x61] in let l := [x6c] in let t0 := [([a], Dir true); ([a; a], File [x31] false)] in
  symlink_at true t0 [a; l] [x2f; x68] = Some [([a; l], Link [x2f; x68]); ([a], Dir true); ([a; a], File [x31] false)]
  /\ symlink_at false t0 [a; l] [x2f; x68] = None
  /\ rm_path false [([a; l], Link [x2f; x68]); ([a], Dir true); ([a; a], File [x31] false)] [a] = RmOk []
  /\ rm_path false t0 [a; a] = RmFail t0
  /\ rm_path false t0 [a; a; l] = RmFail t0
  /\ rm_path false t0 [l; a] = RmOk t0.
Proof. repeat split; reflexivity. Qed.

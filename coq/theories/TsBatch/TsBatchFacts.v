(* C04 — lemmas about the batch model of TsBatch.v. *)
From Coq Require Import List Bool Arith NArith Lia.
From Coq.Strings Require Import Byte.
From GI Require Import Lib.Bytes Lib.BytesFacts Gen.TsBatchConsts TsBatch.TsBatch.
Import ListNotations.

(* ------------------------------------------------------------------ equalities *)

Lemma path_eqb_eq a b : path_eqb a b = true <-> a = b.
Proof.
  revert b. induction a as [|x a IH]; intros [|y b]; cbn [path_eqb]; split; intro H;
    try reflexivity; try discriminate.
  - apply andb_true_iff in H as [H1 H2]. apply bytes_eqb_eq in H1. apply IH in H2. now subst.
  - injection H as -> ->. apply andb_true_iff. split; [apply bytes_eqb_refl | now apply IH].
Qed.

Lemma path_eqb_refl a : path_eqb a a = true.
Proof. now apply path_eqb_eq. Qed.

Lemma path_eqb_neq a b : path_eqb a b = false <-> a <> b.
Proof.
  split.
  - intros H E. apply path_eqb_eq in E. congruence.
  - intros H. destruct (path_eqb a b) eqn:E; [|reflexivity]. apply path_eqb_eq in E. contradiction.
Qed.

Lemma opt_bytes_eqb_eq a b : opt_bytes_eqb a b = true <-> a = b.
Proof.
  destruct a, b; cbn; split; intro H; try reflexivity; try discriminate.
  - apply bytes_eqb_eq in H. now subst.
  - injection H as ->. apply bytes_eqb_refl.
Qed.

Lemma value_eqb_eq a b : value_eqb a b = true <-> a = b.
Proof.
  destruct a, b; cbn [value_eqb]; split; intro H; try discriminate.
  - apply bytes_eqb_eq in H. now subst.
  - injection H as ->. apply bytes_eqb_refl.
  - apply andb_true_iff in H as [H1 H2]. apply Nat.eqb_eq in H1. apply path_eqb_eq in H2. now subst.
  - injection H as -> ->. now rewrite Nat.eqb_refl, path_eqb_refl.
  - apply andb_true_iff in H as [H12 H3]. apply andb_true_iff in H12 as [H1 H2].
    apply Nat.eqb_eq in H1. apply path_eqb_eq in H2. apply opt_bytes_eqb_eq in H3. now subst.
  - injection H as -> -> ->. rewrite Nat.eqb_refl, path_eqb_refl. cbn. now apply opt_bytes_eqb_eq.
Qed.

Lemma ckey_eqb_eq a b : ckey_eqb a b = true <-> a = b.
Proof.
  destruct a as [a1 a2], b as [b1 b2]. unfold ckey_eqb. cbn [fst snd]. split; intro H.
  - apply andb_true_iff in H as [H1 H2]. apply bytes_eqb_eq in H2. subst.
    destruct a1, b1; try discriminate; try reflexivity.
    apply value_eqb_eq in H1. now subst.
  - injection H as -> ->. apply andb_true_iff. split; [|apply bytes_eqb_refl].
    destruct b1; [now apply value_eqb_eq | reflexivity].
Qed.

Lemma cache_get_cons k v c k2 :
  cache_get ((k, v) :: c) k2 = if ckey_eqb k k2 then Some v else cache_get c k2.
Proof. reflexivity. Qed.

(* ------------------------------------------------------------------ environment from scratch *)

Lemma resolve_all_names h s l : map fst (resolve_all h s l) = map fst l.
Proof. unfold resolve_all. rewrite map_map. reflexivity. Qed.

Definition passthrough_present (h : host) : list name :=
  filter (fun n => match host_get h n with [] => false | _ => true end) passthrough_names.

Lemma passthrough_names_of h : map fst (passthrough h) = passthrough_present h.
Proof.
  unfold passthrough, passthrough_present. induction passthrough_names as [|n l IH]; [reflexivity|].
  cbn [flat_map filter]. destruct (host_get h n); cbn; [exact IH | now rewrite IH].
Qed.

(* the names of the initial environment: the documented ones, the pass-through ones that are set
   in the host, the tail, then Setup's *)
Lemma initial_env_names h s adds :
  map fst (initial_env h s adds)
  = map fst setup_env_head ++ passthrough_present h ++ map fst setup_env_tail ++ map fst adds.
Proof.
  unfold initial_env. rewrite !map_app, !resolve_all_names, passthrough_names_of. reflexivity.
Qed.

Lemma resolve_all_indep h h' s l :
  (forall n, In n (src_host_names l) -> host_get h n = host_get h' n) ->
  resolve_all h s l = resolve_all h' s l.
Proof.
  unfold resolve_all, src_host_names. induction l as [|[n src] l IH]; intro H; [reflexivity|].
  cbn [map fst snd]. f_equal.
  - destruct src as [| |m|v]; cbn [resolve]; try reflexivity. rewrite (H m); [reflexivity|].
    cbn [flat_map snd]. now left.
  - apply IH. intros m Hm. apply H. cbn [flat_map]. apply in_or_app. now right.
Qed.

Lemma passthrough_indep h h' :
  (forall n, In n passthrough_names -> host_get h n = host_get h' n) -> passthrough h = passthrough h'.
Proof.
  unfold passthrough. induction passthrough_names as [|n l IH]; intro H; [reflexivity|].
  cbn [flat_map]. rewrite (H n) by now left. f_equal. apply IH. intros m Hm. apply H. now right.
Qed.

(* the initial environment depends on the host environment only through the variables setup()
   reads: the sources of the Vars literal and the pass-through list *)
Lemma initial_env_indep h h' s adds :
  (forall n, In n host_reads -> host_get h n = host_get h' n) ->
  initial_env h s adds = initial_env h' s adds.
Proof.
  intro H. unfold initial_env, host_reads in *.
  rewrite (resolve_all_indep h h' s setup_env_head), (passthrough_indep h h'),
    (resolve_all_indep h h' s setup_env_tail); [reflexivity| | |];
    intros n Hn; apply H; rewrite !in_app_iff; auto.
Qed.

(* a host variable that setup() does not read can be set to anything *)
Lemma host_get_cons_other h k v n : bytes_eqb k n = false -> host_get ((k, v) :: h) n = host_get h n.
Proof. intro H. cbn [host_get]. now rewrite H. Qed.

Lemma initial_env_ignores_other_var h s adds k v :
  ~ In k host_reads -> initial_env ((k, v) :: h) s adds = initial_env h s adds.
Proof.
  intro Hk. apply initial_env_indep. intros n Hn. apply host_get_cons_other.
  destruct (bytes_eqb k n) eqn:E; [|reflexivity]. apply bytes_eqb_eq in E. subst. contradiction.
Qed.

(* ------------------------------------------------------------------ trees *)

Lemma tree_get_remove t p q :
  tree_get (tree_remove t p) q = if path_eqb p q then None else tree_get t q.
Proof.
  unfold tree_remove. induction t as [|[r n] t IH]; cbn [filter tree_get fst].
  - now destruct (path_eqb p q).
  - destruct (path_eqb r p) eqn:Erp; cbn [negb].
    + apply path_eqb_eq in Erp. subst r. rewrite IH. now destruct (path_eqb p q).
    + cbn [tree_get]. rewrite IH. destruct (path_eqb r q) eqn:Erq; [|reflexivity].
      apply path_eqb_eq in Erq. subst r. destruct (path_eqb p q) eqn:Epq; [|reflexivity].
      apply path_eqb_eq in Epq. subst. now rewrite path_eqb_refl in Erp.
Qed.

Lemma tree_get_set t p n q :
  tree_get (tree_set t p n) q = if path_eqb p q then Some n else tree_get t q.
Proof.
  unfold tree_set. cbn [tree_get]. destruct (path_eqb p q) eqn:E; [reflexivity|].
  rewrite tree_get_remove, E. reflexivity.
Qed.

(* removeAll removes everything, whatever the permissions: after the WalkDir no directory is
   read-only, so nothing is stuck. *)
Lemma chmod_all_get t p :
  tree_get (chmod_all t) p = match tree_get t p with Some (Dir _) => Some (Dir false) | o => o end.
Proof.
  unfold chmod_all. induction t as [|[q n] t IH]; [reflexivity|].
  cbn [map tree_get fst snd]. destruct (path_eqb q p); [now destruct n | exact IH].
Qed.

Lemma chmod_all_unremovable root t q : unremovable root (chmod_all t) q = false.
Proof.
  unfold unremovable, get_node. destruct (removelast q) as [|x r]; [reflexivity|].
  rewrite chmod_all_get. destruct (tree_get t (x :: r)) as [[ro|d xx]|]; reflexivity.
Qed.

Lemma os_remove_all_nothing_stuck root u :
  (forall q, unremovable root u q = false) -> os_remove_all root u = [].
Proof.
  intro H. unfold os_remove_all.
  assert (Hs : forall p, stuck root u p = false).
  { intro p. unfold stuck. induction u as [|a l IH] at 2; [reflexivity|].
    cbn [existsb]. now rewrite H, andb_false_r, IH. }
  induction u as [|a l IH] at 2; [reflexivity|]. cbn [filter]. now rewrite Hs.
Qed.

Lemma remove_all_empty root t : remove_all root t = [].
Proof. apply os_remove_all_nothing_stuck. apply chmod_all_unremovable. Qed.

(* without the chmod pass a read-only directory with content stays (when not root) *)
Example os_remove_all_needs_chmod :
  os_remove_all false [([[x61]], Dir true); ([[x61]; [x62]], File [] false)]
  = [([[x61]], Dir true); ([[x61]; [x62]], File [] false)].
Proof. reflexivity. Qed.

(* ------------------------------------------------------------------ the tree after setup *)

Lemma existsb_map_cons x p' y (L : list path) :
  existsb (path_eqb (x :: p')) (map (cons y) L) = bytes_eqb x y && existsb (path_eqb p') L.
Proof.
  induction L as [|a L IH]; cbn [map existsb]; [now rewrite andb_false_r|].
  rewrite IH. cbn [path_eqb]. destruct (bytes_eqb x y); reflexivity.
Qed.

Lemma existsb_nil_map_cons y (L : list path) : existsb (path_eqb []) (map (cons y) L) = false.
Proof. induction L as [|a L IH]; [reflexivity|]. cbn [map existsb path_eqb]. exact IH. Qed.

Lemma in_prefixes p d : existsb (path_eqb p) (prefixes d) = negb (is_nil p) && path_prefix p d.
Proof.
  revert p. induction d as [|y r IH]; intro p.
  - cbn [prefixes existsb]. destruct p; reflexivity.
  - cbn [prefixes existsb]. destruct p as [|x p'].
    + cbn [path_eqb is_nil negb andb orb]. apply existsb_nil_map_cons.
    + rewrite existsb_map_cons, IH. cbn [path_eqb path_prefix is_nil negb andb].
      destruct (bytes_eqb x y); [|reflexivity]. cbn [andb].
      destruct p'; cbn [path_eqb is_nil negb andb orb path_prefix]; reflexivity.
Qed.

Definition xbit (t : tree) (p : path) : bool :=
  match tree_get t p with Some (File _ x) => x | _ => false end.

Lemma mkdir_one_get root t q t1 :
  mkdir_one root t q = Some t1 ->
  forall p, tree_get t1 p = match tree_get t p with
                            | Some n => Some n
                            | None => if path_eqb p q then Some (Dir false) else None
                            end.
Proof.
  unfold mkdir_one. intros H p.
  destruct (tree_get t q) as [[ro|d x]|] eqn:Eq.
  - injection H as <-. destruct (tree_get t p) eqn:Ep; [reflexivity|].
    destruct (path_eqb p q) eqn:E; [|reflexivity]. apply path_eqb_eq in E. subst. congruence.
  - discriminate.
  - destruct (dir_writable root t (removelast q)); [|discriminate]. injection H as <-.
    rewrite tree_get_set. destruct (path_eqb q p) eqn:E.
    + apply path_eqb_eq in E. subst. now rewrite Eq, path_eqb_refl.
    + destruct (tree_get t p); [reflexivity|].
      destruct (path_eqb p q) eqn:E'; [|reflexivity]. apply path_eqb_eq in E'. subst.
      now rewrite path_eqb_refl in E.
Qed.

Lemma mkdir_list_get root l : forall t t1,
  mkdir_list root t l = Some t1 ->
  forall p, tree_get t1 p = match tree_get t p with
                            | Some n => Some n
                            | None => if existsb (path_eqb p) l then Some (Dir false) else None
                            end.
Proof.
  induction l as [|q l IH]; intros t t1 H p; cbn [mkdir_list] in H.
  - injection H as <-. now destruct (tree_get t p).
  - destruct (mkdir_one root t q) as [t'|] eqn:E1; [|discriminate].
    rewrite (IH _ _ H p), (mkdir_one_get _ _ _ _ E1 p). cbn [existsb].
    destruct (tree_get t p); [reflexivity|]. destruct (path_eqb p q); reflexivity.
Qed.

Lemma mkdir_all_get root t d t1 :
  mkdir_all root t d = Some t1 ->
  forall p, tree_get t1 p = match tree_get t p with
                            | Some n => Some n
                            | None => if negb (is_nil p) && path_prefix p d then Some (Dir false) else None
                            end.
Proof. intros H p. unfold mkdir_all in H. rewrite (mkdir_list_get _ _ _ _ H p), in_prefixes. reflexivity. Qed.

Lemma write_file_get root t q d t2 :
  write_file root t q d = Some t2 ->
  forall p, tree_get t2 p = if path_eqb q p then Some (File d (xbit t q)) else tree_get t p.
Proof.
  unfold write_file, xbit. intros H p. destruct q as [|s q']; [discriminate|].
  destruct (tree_get t (s :: q')) as [[ro|d' x]|] eqn:Eq; [discriminate| |].
  - injection H as <-. apply tree_get_set.
  - destruct (dir_writable root t (removelast (s :: q'))); [|discriminate]. injection H as <-. apply tree_get_set.
Qed.

Lemma unpack_get root files : forall t0 t,
  unpack root t0 files = Some t ->
  forall p, tree_get t p =
    match last_file files p with
    | Some d => Some (File d (xbit t0 p))
    | None => match tree_get t0 p with
              | Some n => Some n
              | None => if is_dir_of files p then Some (Dir false) else None
              end
    end.
Proof.
  induction files as [|[q d] r IH]; intros t0 t H p; cbn [unpack] in H.
  - injection H as <-. cbn [last_file]. unfold is_dir_of. cbn [existsb]. rewrite andb_false_r.
    now destruct (tree_get t0 p).
  - destruct (mkdir_all root t0 (removelast q)) as [t1|] eqn:E1; [|discriminate].
    destruct (write_file root t1 q d) as [t2|] eqn:E2; [|discriminate].
    pose proof (mkdir_all_get _ _ _ _ E1) as M. pose proof (write_file_get _ _ _ _ _ E2) as W.
    rewrite (IH _ _ H p). cbn [last_file].
    assert (X : forall p', xbit t1 p' = xbit t0 p').
    { intro p'. unfold xbit. rewrite (M p'). destruct (tree_get t0 p'); [reflexivity|].
      now destruct (negb (is_nil p') && path_prefix p' (removelast q)). }
    assert (X2 : xbit t2 p = xbit t0 p).
    { unfold xbit at 1. rewrite (W p). destruct (path_eqb q p) eqn:E.
      - apply path_eqb_eq in E. subst. apply X.
      - apply X. }
    destruct (last_file r p) as [d'|]; [now rewrite X2|].
    rewrite (W p). destruct (path_eqb q p) eqn:E.
    + apply path_eqb_eq in E. subst. now rewrite X.
    + rewrite (M p). destruct (tree_get t0 p); [reflexivity|].
      unfold is_dir_of. cbn [existsb fst].
      destruct (negb (is_nil p)); cbn [andb]; [|reflexivity].
      destruct (path_prefix p (removelast q)); reflexivity.
Qed.

(* the tree a script starts with is exactly what the archive says, plus .tmp *)
Lemma setup_tree_exact root files t :
  setup_tree root files = Some t -> forall p, tree_get t p = expected_node files p.
Proof.
  unfold setup_tree, expected_node. intros H p. rewrite (unpack_get _ _ _ _ H p).
  unfold xbit, tmp_tree. cbn [tree_get].
  destruct (last_file files p).
  - now destruct (path_eqb [tmp_dir_name] p).
  - destruct (path_eqb [tmp_dir_name] p) eqn:E.
    + apply path_eqb_eq in E. subst. now rewrite path_eqb_refl.
    + destruct (path_eqb p [tmp_dir_name]) eqn:E'; [|reflexivity].
      apply path_eqb_eq in E'. subst. now rewrite path_eqb_refl in E.
Qed.

(* a concrete archive: two files in one directory, one of them given twice *)
Example setup_tree_example :
  let a := [x61] in let b := [x62] in let c := [x63] in
  setup_tree false [([a; b], [x31]); ([c], [x32]); ([a; b], [x33])]
  = Some [([a; b], File [x33] false); ([c], File [x32] false); ([a], Dir false); ([tmp_dir_name], Dir false)].
Proof. reflexivity. Qed.

(* a file and a directory of the same name cannot both be unpacked: setup fails *)
Example setup_tree_conflict :
  setup_tree false [([[x61]], [x31]); ([[x61]; [x62]], [x32])] = None.
Proof. reflexivity. Qed.

(* ------------------------------------------------------------------ what one script line can do *)

Definition setup_events (l : list event) : list (env * tree) :=
  flat_map (fun e => match e with EvSetup e t => [(e, t)] | _ => [] end) l.
Definition work_removed (l : list event) : list unit :=
  flat_map (fun e => match e with EvWorkRemoved => [tt] | _ => [] end) l.

Lemma defer_regs_app a b : defer_regs (a ++ b) = defer_regs a ++ defer_regs b.
Proof. apply flat_map_app. Qed.
Lemma defer_runs_app a b : defer_runs (a ++ b) = defer_runs a ++ defer_runs b.
Proof. apply flat_map_app. Qed.
Lemma bg_started_app a b : bg_started (a ++ b) = bg_started a ++ bg_started b.
Proof. apply flat_map_app. Qed.
Lemma bg_interrupted_app a b : bg_interrupted (a ++ b) = bg_interrupted a ++ bg_interrupted b.
Proof. apply flat_map_app. Qed.
Lemma bg_waited_app a b : bg_waited (a ++ b) = bg_waited a ++ bg_waited b.
Proof. apply flat_map_app. Qed.
Lemma setup_events_app a b : setup_events (a ++ b) = setup_events a ++ setup_events b.
Proof. apply flat_map_app. Qed.
Lemma work_removed_app a b : work_removed (a ++ b) = work_removed a ++ work_removed b.
Proof. apply flat_map_app. Qed.

Lemma ev_int_all_proj b :
  bg_interrupted (ev_int_all b) = map fst b /\ bg_waited (ev_int_all b) = [] /\ bg_started (ev_int_all b) = []
  /\ defer_regs (ev_int_all b) = [] /\ defer_runs (ev_int_all b) = [] /\ setup_events (ev_int_all b) = []
  /\ work_removed (ev_int_all b) = [].
Proof.
  repeat split; induction b as [|[h n] b IH]; cbn; try reflexivity; first [exact IH | f_equal; exact IH].
Qed.

Lemma ev_wait_all_proj b :
  bg_waited (ev_wait_all b) = map fst b /\ bg_interrupted (ev_wait_all b) = [] /\ bg_started (ev_wait_all b) = []
  /\ defer_regs (ev_wait_all b) = [] /\ defer_runs (ev_wait_all b) = [] /\ setup_events (ev_wait_all b) = []
  /\ work_removed (ev_wait_all b) = [].
Proof.
  repeat split; induction b as [|[h n] b IH]; cbn; try reflexivity; first [exact IH | f_equal; exact IH].
Qed.

Lemma skip_wait_proj b evs ok :
  skip_wait b = (evs, ok) ->
  bg_interrupted evs = [] /\ bg_started evs = [] /\ defer_regs evs = [] /\ defer_runs evs = []
  /\ setup_events evs = [] /\ work_removed evs = [] /\ (ok = true -> bg_waited evs = map fst b).
Proof.
  revert evs ok. induction b as [|[h n] b IH]; intros evs ok H; cbn [skip_wait] in H.
  - injection H as <- <-. cbn. tauto.
  - destruct n.
    + destruct (skip_wait b) as [evs' ok'] eqn:E. injection H as <- <-.
      destruct (IH _ _ eq_refl) as (H1 & H2 & H3 & H4 & H5 & H6 & H7).
      repeat split; try assumption. intro Hok. cbn. f_equal. exact (H7 Hok).
    + injection H as <- <-. cbn. repeat split; try reflexivity. discriminate.
Qed.

(* the events one line appends, and what it does to the other components *)
Record line_effect (ss ss' : sstate) (l : list event) : Prop := {
  le_obs : obs ss' = obs ss ++ l;
  le_ph : ph ss' = ph ss;
  le_wp : wpresent ss' = wpresent ss;
  le_runs : defer_runs l = [];
  le_setup : setup_events l = [];
  le_removed : work_removed l = [];
  le_dstack : map fst (dstack ss') = rev (defer_regs l) ++ map fst (dstack ss);
  le_bg_new : forall h, In h (bg_started l) -> In h (map fst (bgl ss'));
  le_bg_old : forall h, In h (map fst (bgl ss)) ->
                In h (map fst (bgl ss')) \/ (In h (bg_interrupted l) /\ In h (bg_waited l))
}.

Lemma line_effect_refl ss : line_effect ss ss [].
Proof. constructor; cbn; try reflexivity; try (now rewrite app_nil_r); try tauto. Qed.

Lemma line_effect_same ss ss' :
  obs ss' = obs ss -> ph ss' = ph ss -> wpresent ss' = wpresent ss -> dstack ss' = dstack ss -> bgl ss' = bgl ss ->
  line_effect ss ss' [].
Proof.
  intros H1 H2 H3 H4 H5. constructor; cbn; try reflexivity; try assumption.
  - now rewrite app_nil_r.
  - now rewrite H4.
  - tauto.
  - intros h Hh. left. now rewrite H5.
Qed.

Lemma line_effect_cond ss ss' prog ans l :
  line_effect (add_obs ss [EvCond prog ans]) ss' l -> line_effect ss ss' (EvCond prog ans :: l).
Proof.
  intros [A1 A2 A3 A4 A5 A6 A7 A8 A9]. cbn [add_obs obs ph wpresent dstack bgl] in *.
  constructor; cbn; try assumption.
  - now rewrite A1, <- app_assoc.
Qed.

Lemma exec_action_effect cfg s a : forall c ss c' ss' o,
  exec_action cfg s c ss a = (c', ss', o) -> exists l, line_effect ss ss' l.
Proof.
  induction a as [p d|p ro|p|p|k v|sub keep|id bad|h neg| | | | | |neg prog a IH]; intros c ss c' ss' o H;
    cbn [exec_action] in H.
  - destruct (write_file _ _ _ _); injection H as <- <- <-; exists []; [now apply line_effect_same | apply line_effect_refl].
  - destruct (mkdir_all _ _ _); injection H as <- <- <-; exists []; [now apply line_effect_same | apply line_effect_refl].
  - destruct (cwd ss ++ p); [injection H as <- <- <-; exists []; apply line_effect_refl|].
    destruct (tree_get _ _) as [[?|? ?]|]; injection H as <- <- <-; exists [];
      first [now apply line_effect_same | apply line_effect_refl].
  - destruct (get_node _ _) as [[?|? ?]|]; injection H as <- <- <-; exists [];
      first [now apply line_effect_same | apply line_effect_refl].
  - injection H as <- <- <-. exists []. now apply line_effect_same.
  - injection H as <- <- <-. exists []. now apply line_effect_same.
  - injection H as <- <- <-. exists [EvDeferReg id].
    constructor; cbn; try reflexivity; try tauto.
  - destruct (look _ _ _ _ _).
    + injection H as <- <- <-. exists [EvBgStart h].
      constructor; cbn; try reflexivity.
      * intros h' [<-|[]]. rewrite map_app. apply in_or_app. right. now left.
      * intros h' Hh. left. rewrite map_app. apply in_or_app. now left.
    + injection H as <- <- <-. exists []. apply line_effect_refl.
  - injection H as <- <- <-. exists [EvProbe (cwd ss) (senv ss) (tr ss)].
    constructor; cbn; try reflexivity; try tauto.
  - injection H as <- <- <-. exists []. apply line_effect_refl.
  - destruct (skip_wait (bgl ss)) as [waited ok] eqn:E.
    destruct (skip_wait_proj _ _ _ E) as (W1 & W2 & W3 & W4 & W5 & W6 & W7).
    destruct (ev_int_all_proj (bgl ss)) as (I1 & I2 & I3 & I4 & I5 & I6 & I7).
    exists (ev_int_all (bgl ss) ++ waited).
    destruct ok; injection H as <- <- <-;
      (constructor; cbn [add_obs set_bgl obs ph wpresent dstack bgl]; try reflexivity;
       [ now rewrite defer_runs_app, I5, W4
       | now rewrite setup_events_app, I6, W5
       | now rewrite work_removed_app, I7, W6
       | now rewrite defer_regs_app, I4, W3
       | rewrite bg_started_app, I3, W2; intros h []
       | ]).
    + intros h Hh. right. rewrite bg_interrupted_app, bg_waited_app, I1, I2, W1, (W7 eq_refl), app_nil_r. cbn. tauto.
    + intros h Hh. now left.
  - injection H as <- <- <-. exists []. apply line_effect_refl.
  - injection H as <- <- <-. exists []. apply line_effect_refl.
  - destruct (cached_look cfg s c ss prog) as [ans c1] eqn:E.
    destruct (Bool.eqb ans (negb neg)).
    + destruct (IH _ _ _ _ _ H) as [l Hl]. exists (EvCond prog ans :: l). now apply line_effect_cond.
    + injection H as <- <- <-. exists [EvCond prog ans]. apply line_effect_cond. apply line_effect_refl.
Qed.

(* ------------------------------------------------------------------ the per-script invariant *)

Definition bgok (ss : sstate) : Prop :=
  forall h, In h (bg_started (obs ss)) ->
    In h (map fst (bgl ss)) \/ (In h (bg_interrupted (obs ss)) /\ In h (bg_waited (obs ss))).

Definition defers_pending (ss : sstate) : Prop :=
  defer_runs (obs ss) = [] /\ map fst (dstack ss) = rev (defer_regs (obs ss)).
Definition defers_done (ss : sstate) : Prop :=
  defer_runs (obs ss) = rev (defer_regs (obs ss)) /\ dstack ss = [].

Definition setup_ok (cfg : config) (p : script) (s : nat) (ss : sstate) : Prop :=
  setup_events (obs ss) = [] \/
  exists t, setup_tree (is_root cfg) (archive p) = Some t /\
            setup_events (obs ss) = [(initial_env (hostenv cfg) s (setup_adds p), t)].

Definition sinv (cfg : config) (p : script) (s : nat) (ss : sstate) : Prop :=
  bgok ss /\ setup_ok cfg p s ss /\
  (retain cfg = true -> work_removed (obs ss) = [] /\ (ph ss <> NotStarted -> wpresent ss = true)) /\
  match ph ss with
  | NotStarted => obs ss = [] /\ dstack ss = [] /\ bgl ss = [] /\ wpresent ss = false
  | Running _ | Ending _ SInt | Ending _ SDefers => defers_pending ss
  | Ending _ SWait => defers_pending ss /\ (forall h, In h (map fst (bgl ss)) -> In h (bg_interrupted (obs ss)))
  | Ending _ SBgClean => defers_done ss
  | Ending _ SCleanup => defers_done ss /\ bgl ss = []
  | Done _ => defers_done ss /\ bgl ss = [] /\ (retain cfg = false -> wpresent ss = false /\ tr ss = [])
  end.

Lemma sinv_init cfg p s : sinv cfg p s sstate0.
Proof.
  unfold sinv, bgok, setup_ok. cbn. repeat split; try tauto; try (now left); congruence.
Qed.

Lemma defer_regs_of_setup (l : list (nat * bool)) :
  defer_regs (map (fun d => EvDeferReg (fst d)) l) = map fst l
  /\ defer_runs (map (fun d => EvDeferReg (fst d)) l) = []
  /\ bg_started (map (fun d => EvDeferReg (fst d)) l) = []
  /\ setup_events (map (fun d => EvDeferReg (fst d)) l) = []
  /\ work_removed (map (fun d => EvDeferReg (fst d)) l) = [].
Proof. repeat split; induction l as [|a l IH]; cbn; try reflexivity; first [exact IH | f_equal; exact IH]. Qed.

Lemma defer_runs_of_stack (l : list (nat * bool)) :
  defer_runs (map (fun d => EvDeferRun (fst d)) l) = map fst l
  /\ defer_regs (map (fun d => EvDeferRun (fst d)) l) = []
  /\ bg_started (map (fun d => EvDeferRun (fst d)) l) = []
  /\ bg_interrupted (map (fun d => EvDeferRun (fst d)) l) = []
  /\ bg_waited (map (fun d => EvDeferRun (fst d)) l) = []
  /\ setup_events (map (fun d => EvDeferRun (fst d)) l) = []
  /\ work_removed (map (fun d => EvDeferRun (fst d)) l) = [].
Proof. repeat split; induction l as [|a l IH]; cbn; try reflexivity; first [exact IH | f_equal; exact IH]. Qed.

Lemma bgok_line ss ss' l : bgok ss -> line_effect ss ss' l -> bgok ss'.
Proof.
  intros B [A1 A2 A3 A4 A5 A6 A7 A8 A9] h Hh. rewrite A1 in *.
  rewrite bg_started_app in Hh. rewrite bg_interrupted_app, bg_waited_app.
  apply in_app_or in Hh as [Hh|Hh].
  - destruct (B h Hh) as [Hb|[Hi Hw]].
    + destruct (A9 h Hb) as [?|[? ?]]; [now left|]. right. split; apply in_or_app; now right.
    + right. split; apply in_or_app; now left.
  - left. now apply A8.
Qed.

Lemma setup_ok_ext cfg p s ss ss' l :
  setup_ok cfg p s ss -> obs ss' = obs ss ++ l -> setup_events l = [] -> setup_ok cfg p s ss'.
Proof.
  unfold setup_ok. intros H E El. rewrite E, setup_events_app, El, app_nil_r. exact H.
Qed.

Lemma sstep_sinv cfg p s c ss c' ss' e :
  sinv cfg p s ss -> sstep cfg p s c ss = (c', ss', e) -> sinv cfg p s ss'.
Proof.
  intros (B & SU & RT & PH) H. unfold sstep in H.
  destruct (ph ss) as [|pc|v st|v] eqn:Eph.
  - (* setup *)
    destruct PH as (O & D & G & W).
    destruct (defer_regs_of_setup (setup_defers p)) as (R1 & R2 & R3 & R4 & R5).
    destruct (setup_tree (is_root cfg) (archive p)) as [t|] eqn:Et.
    + assert (K : forall ph0, match ph0 with Running _ | Ending _ SDefers => True | _ => False end ->
                  sinv cfg p s {| ph := ph0; cwd := []; senv := initial_env (hostenv cfg) s (setup_adds p); tr := t;
                                  wpresent := true; dstack := rev (setup_defers p); bgl := [];
                                  obs := map (fun d => EvDeferReg (fst d)) (setup_defers p)
                                         ++ [EvSetup (initial_env (hostenv cfg) s (setup_adds p)) t] |}).
      { intros ph0 Hph0. unfold sinv, bgok, setup_ok, defers_pending. cbn [obs bgl ph dstack wpresent].
        rewrite bg_started_app, setup_events_app, work_removed_app, defer_runs_app, defer_regs_app, R1, R2, R3, R4, R5.
        cbn [app bg_started setup_events work_removed defer_runs defer_regs flat_map].
        split; [intros h []|]. split; [right; exists t; now split|]. split; [now intros _|].
        assert (DP : [] = ([] : list nat) /\ map fst (rev (setup_defers p)) = rev (map fst (setup_defers p) ++ [])).
        { now rewrite app_nil_r, map_rev. }
        destruct ph0 as [|?|? []|?]; try contradiction; exact DP. }
      destruct (setup_err p); injection H as <- <- <-; apply K; exact I.
    + injection H as <- <- <-. unfold sinv, bgok, setup_ok, defers_pending. cbn.
      split; [intros h []|]. split; [now left|]. split; [now intros _|]. now split.
  - (* one line *)
    destruct (nth_error (body p) pc) as [a|].
    + destruct (exec_action cfg s c ss a) as [[c1 ss1] o] eqn:Ea. injection H as <- <- <-.
      destruct (exec_action_effect _ _ _ _ _ _ _ _ Ea) as [l L].
      pose proof (bgok_line _ _ _ B L) as B1. destruct L as [A1 A2 A3 A4 A5 A6 A7 A8 A9].
      assert (DP : defers_pending ss1).
      { destruct PH as [P1 P2]. split.
        - now rewrite A1, defer_runs_app, P1, A4.
        - rewrite A7, A1, defer_regs_app, rev_app_distr, P2. reflexivity. }
      unfold sinv. cbn [set_ph ph obs bgl dstack wpresent].
      split; [exact B1|]. split; [eapply setup_ok_ext; eauto|]. split.
      * intro Hr. destruct (RT Hr) as [R1 R2]. split.
        -- now rewrite A1, work_removed_app, R1, A6.
        -- intros _. rewrite A3. apply R2. try rewrite Eph; discriminate.
      * destruct o; exact DP.
    + injection H as <- <- <-. unfold sinv. cbn [set_ph ph obs bgl dstack wpresent].
      split; [exact B|]. split; [exact SU|]. split; [|exact PH].
      intro Hr. destruct (RT Hr) as [R1 R2]. split; [exact R1|]. intros _. apply R2. try rewrite Eph; discriminate.
  - (* the end of run *)
    assert (WP : retain cfg = true -> wpresent ss = true).
    { intro Hr. apply RT; [exact Hr|]. try rewrite Eph; discriminate. }
    destruct st.
    + (* SInt *)
      injection H as <- <- <-. destruct (ev_int_all_proj (bgl ss)) as (I1 & I2 & I3 & I4 & I5 & I6 & I7).
      unfold sinv, bgok, setup_ok, defers_pending in *. cbn [set_ph add_obs ph obs bgl dstack wpresent].
      rewrite bg_started_app, bg_interrupted_app, bg_waited_app, setup_events_app, work_removed_app,
        defer_runs_app, defer_regs_app, I1, I2, I3, I4, I5, I6, I7, !app_nil_r.
      split; [|split; [exact SU|split]].
      * intros h Hh. destruct (B h Hh) as [?|[? ?]]; [now left|]. right. split; [apply in_or_app; now left|assumption].
      * intro Hr. split; [now apply RT | intros _; now apply WP].
      * split; [exact PH|]. intros h Hh. apply in_or_app. now right.
    + (* SWait *)
      injection H as <- <- <-. destruct (ev_wait_all_proj (bgl ss)) as (I1 & I2 & I3 & I4 & I5 & I6 & I7).
      destruct PH as [PH1 PH2].
      unfold sinv, bgok, setup_ok, defers_pending in *. cbn [set_ph set_bgl add_obs ph obs bgl dstack wpresent].
      rewrite bg_started_app, bg_interrupted_app, bg_waited_app, setup_events_app, work_removed_app,
        defer_runs_app, defer_regs_app, I1, I2, I3, I4, I5, I6, I7, !app_nil_r.
      split; [|split; [exact SU|split]].
      * intros h Hh. right. destruct (B h Hh) as [Hb|[Hi Hw]].
        -- split; [now apply PH2 | apply in_or_app; now right].
        -- split; [assumption | apply in_or_app; now left].
      * intro Hr. split; [now apply RT | intros _; now apply WP].
      * exact PH1.
    + (* SDefers *)
      injection H as <- <- <-. destruct (defer_runs_of_stack (dstack ss)) as (D1 & D2 & D3 & D4 & D5 & D6 & D7).
      destruct PH as [PH1 PH2].
      unfold sinv, bgok, setup_ok, defers_done in *. cbn [set_ph set_dstack add_obs ph obs bgl dstack wpresent].
      rewrite bg_started_app, bg_interrupted_app, bg_waited_app, setup_events_app, work_removed_app,
        defer_runs_app, defer_regs_app, D1, D2, D3, D4, D5, D6, D7, !app_nil_r.
      split; [exact B|split; [exact SU|split]].
      * intro Hr. split; [now apply RT | intros _; now apply WP].
      * rewrite PH1, PH2. now split.
    + (* SBgClean *)
      injection H as <- <- <-. destruct (ev_int_all_proj (bgl ss)) as (I1 & I2 & I3 & I4 & I5 & I6 & I7).
      destruct (ev_wait_all_proj (bgl ss)) as (W1 & W2 & W3 & W4 & W5 & W6 & W7).
      unfold sinv, bgok, setup_ok, defers_done in *. cbn [set_ph set_bgl add_obs ph obs bgl dstack wpresent].
      rewrite !bg_started_app, !bg_interrupted_app, !bg_waited_app, !setup_events_app, !work_removed_app,
        !defer_runs_app, !defer_regs_app, I1, I2, I3, I4, I5, I6, I7, W1, W2, W3, W4, W5, W6, W7, !app_nil_r.
      split; [|split; [exact SU|split]].
      * intros h Hh. right. destruct (B h Hh) as [Hb|[Hi Hw]].
        -- split; apply in_or_app; now right.
        -- split; apply in_or_app; now left.
      * intro Hr. split; [now apply RT | intros _; now apply WP].
      * split; [exact PH | reflexivity].
    + (* SCleanup *)
      destruct PH as [PH1 PH2].
      destruct (retain cfg) eqn:Er.
      * injection H as <- <- <-. unfold sinv. cbn [set_ph ph obs bgl dstack wpresent].
        split; [exact B|split; [exact SU|split]].
        -- intros _. split; [now apply RT | intros _; now apply WP].
        -- split; [exact PH1|]. split; [exact PH2|]. intro Hf. rewrite Er in Hf. discriminate.
      * injection H as <- <- <-. rewrite remove_all_empty.
        unfold sinv, bgok, setup_ok, defers_done in *. cbn [ph obs bgl dstack wpresent tr].
        rewrite bg_started_app, bg_interrupted_app, bg_waited_app, setup_events_app, defer_runs_app, defer_regs_app.
        cbn [bg_started bg_interrupted bg_waited setup_events defer_runs defer_regs flat_map app]. rewrite !app_nil_r.
        split; [exact B|split; [exact SU|split]].
        -- intro Hf. rewrite ?Er in Hf. discriminate.
        -- split; [exact PH1|]. split; [exact PH2|]. now intros _.
  - injection H as <- <- <-. unfold sinv. rewrite Eph. auto.
Qed.

(* ------------------------------------------------------------------ the batch: frame *)

Lemma nth_error_upd_same {A} (l : list A) i x y : nth_error l i = Some y -> nth_error (upd l i x) i = Some x.
Proof. revert i. induction l as [|a l IH]; intros [|i] H; cbn in *; try discriminate; [reflexivity | now apply IH]. Qed.

Lemma nth_error_upd_other {A} (l : list A) i j x : i <> j -> nth_error (upd l i x) j = nth_error l j.
Proof.
  revert i j. induction l as [|a l IH]; intros [|i] [|j] H; cbn; try reflexivity; try congruence.
  apply IH. congruence.
Qed.

Lemma length_upd {A} (l : list A) i x : length (upd l i x) = length l.
Proof. revert i. induction l as [|a l IH]; intros [|i]; cbn; try reflexivity. now rewrite IH. Qed.

(* a step of script s leaves every other script's component alone *)
Lemma step_frame cfg progs st s s' :
  s <> s' -> nth_error (scripts (step cfg progs st s)) s' = nth_error (scripts st) s'.
Proof.
  intro H. unfold step. destruct (nth_error progs s) as [p|]; [|reflexivity].
  destruct (nth_error (scripts st) s) as [ss|]; [|reflexivity].
  destruct (sstep cfg p s (xcache (sh st)) ss) as [[c ss'] e]. cbn [scripts]. now apply nth_error_upd_other.
Qed.

Lemma step_length cfg progs st s : length (scripts (step cfg progs st s)) = length (scripts st).
Proof.
  unfold step. destruct (nth_error progs s) as [p|]; [|reflexivity].
  destruct (nth_error (scripts st) s) as [ss|]; [|reflexivity].
  destruct (sstep cfg p s (xcache (sh st)) ss) as [[c ss'] e]. cbn [scripts]. apply length_upd.
Qed.

(* and touches the root, the reference count and the cancel function only when it is the step
   that finishes the script *)
Lemma sstep_effect cfg p s c ss c' ss' e :
  sstep cfg p s c ss = (c', ss', e) ->
  match e with
  | Finished => retain cfg = false /\ (exists v, ph ss = Ending v SCleanup /\ ph ss' = Done v)
  | NoEffect => is_done ss' = is_done ss \/ retain cfg = true
  end.
Proof.
  unfold sstep. intro H. destruct (ph ss) as [|pc|v st|v] eqn:Eph.
  - destruct (setup_tree _ _); [destruct (setup_err p)|]; injection H as <- <- <-; left; unfold is_done; cbn; now rewrite Eph.
  - destruct (nth_error (body p) pc).
    + destruct (exec_action cfg s c ss a) as [[c1 ss1] o]. injection H as <- <- <-. left.
      unfold is_done. cbn. rewrite Eph. now destruct o.
    + injection H as <- <- <-. left. unfold is_done. cbn. now rewrite Eph.
  - destruct st; try (injection H as <- <- <-; left; unfold is_done; cbn; now rewrite Eph).
    destruct (retain cfg) eqn:Er; injection H as <- <- <-; [now right|].
    split; [reflexivity|]. exists v. now split.
  - injection H as <- <- <-. now left.
Qed.

Lemma step_shared_frame cfg progs st s :
  let st' := step cfg progs st s in
  (forall ss ss', nth_error (scripts st) s = Some ss -> nth_error (scripts st') s = Some ss' ->
                  is_done ss' = is_done ss) ->
  retain cfg = false ->
  root_present (sh st') = root_present (sh st) /\ refcount (sh st') = refcount (sh st)
  /\ cancelled (sh st') = cancelled (sh st) /\ root_removals (sh st') = root_removals (sh st).
Proof.
  cbn zeta. unfold step. destruct (nth_error progs s) as [p|]; [|tauto].
  destruct (nth_error (scripts st) s) as [ss|] eqn:Es; [|tauto].
  destruct (sstep cfg p s (xcache (sh st)) ss) as [[c ss'] e] eqn:E. cbn [scripts sh].
  intros H Hr. pose proof (sstep_effect _ _ _ _ _ _ _ _ E) as Ef. destruct e; cbn [apply_effect]; [tauto|].
  destruct Ef as (_ & v & E1 & E2).
  specialize (H ss ss' eq_refl (nth_error_upd_same _ _ _ _ Es)). unfold is_done in H. rewrite E1, E2 in H. discriminate.
Qed.

(* ------------------------------------------------------------------ every reachable batch state *)

Definition all_sinv (cfg : config) (progs : list script) (st : bstate) : Prop :=
  length (scripts st) = length progs /\
  forall s p ss, nth_error progs s = Some p -> nth_error (scripts st) s = Some ss -> sinv cfg p s ss.

Lemma nth_error_map_const {A B} (l : list A) (b : B) i x :
  nth_error (map (fun _ => b) l) i = Some x -> x = b.
Proof. revert i. induction l as [|a l IH]; intros [|i] H; cbn in H; try discriminate; [congruence | eauto]. Qed.

Lemma init_all_sinv cfg progs : all_sinv cfg progs (init progs).
Proof.
  split; [apply map_length|]. intros s p ss Hp Hs. cbn in Hs.
  apply nth_error_map_const in Hs. subst. apply sinv_init.
Qed.

Lemma step_all_sinv cfg progs st s : all_sinv cfg progs st -> all_sinv cfg progs (step cfg progs st s).
Proof.
  intros [L H]. split; [now rewrite step_length|].
  intros s' p ss Hp Hs. destruct (Nat.eq_dec s s') as [<-|Hne].
  - unfold step in Hs. rewrite Hp in Hs. destruct (nth_error (scripts st) s) as [ss0|] eqn:E0; [|eauto].
    destruct (sstep cfg p s (xcache (sh st)) ss0) as [[c ss'] e] eqn:E. cbn [scripts] in Hs.
    rewrite (nth_error_upd_same _ _ _ _ E0) in Hs. injection Hs as <-.
    eapply sstep_sinv; eauto.
  - rewrite step_frame in Hs by assumption. eauto.
Qed.

Lemma run_all_sinv cfg progs sched : forall st, all_sinv cfg progs st -> all_sinv cfg progs (run cfg progs st sched).
Proof.
  unfold run. induction sched as [|s sched IH]; intros st H; [exact H|]. cbn [fold_left]. apply IH. now apply step_all_sinv.
Qed.

(* ---- reference count and root *)

Lemma not_done_count_upd_same l s ss ss' :
  nth_error l s = Some ss -> is_done ss' = is_done ss -> not_done_count (upd l s ss') = not_done_count l.
Proof.
  unfold not_done_count. revert s. induction l as [|a l IH]; intros [|s] H E; cbn in H; try discriminate.
  - injection H as ->. cbn [upd filter]. rewrite E. destruct (negb (is_done ss)); reflexivity.
  - cbn [upd filter]. destruct (negb (is_done a)); cbn [length]; rewrite (IH s H E); reflexivity.
Qed.

Lemma not_done_count_upd_finish l s ss ss' :
  nth_error l s = Some ss -> is_done ss = false -> is_done ss' = true ->
  not_done_count l = S (not_done_count (upd l s ss')).
Proof.
  unfold not_done_count. revert s. induction l as [|a l IH]; intros [|s] H E E'; cbn in H; try discriminate.
  - injection H as ->. cbn [upd filter]. now rewrite E, E'.
  - cbn [upd filter]. destruct (negb (is_done a)); cbn [length]; rewrite (IH s H E E'); reflexivity.
Qed.

Lemma not_done_count_zero l : not_done_count l = 0 <-> forallb is_done l = true.
Proof.
  unfold not_done_count. induction l as [|a l IH]; cbn [filter forallb]; [tauto|].
  destruct (is_done a); cbn [negb andb length]; [exact IH|]. split; discriminate.
Qed.

Lemma not_done_count_init (progs : list script) : not_done_count (map (fun _ => sstate0) progs) = length progs.
Proof. unfold not_done_count. induction progs as [|a l IH]; [reflexivity|]. cbn. now rewrite IH. Qed.

Definition rc_inv (cfg : config) (st : bstate) : Prop :=
  refcount (sh st) = not_done_count (scripts st) /\
  (if Nat.eqb (refcount (sh st)) 0
   then root_present (sh st) = false /\ root_removals (sh st) = 1 /\ cancelled (sh st) = has_cancel cfg
   else root_present (sh st) = true /\ root_removals (sh st) = 0 /\ cancelled (sh st) = false).

Lemma rc_inv_init cfg progs : progs <> [] -> rc_inv cfg (init progs).
Proof.
  intro H. unfold rc_inv, init. cbn [sh scripts refcount root_present root_removals cancelled].
  rewrite not_done_count_init. split; [reflexivity|]. destruct progs; [contradiction|]. cbn. auto.
Qed.

Lemma rc_inv_step cfg progs st s : retain cfg = false -> rc_inv cfg st -> rc_inv cfg (step cfg progs st s).
Proof.
  intros Hr [R1 R2]. unfold step. destruct (nth_error progs s) as [p|]; [|now split].
  destruct (nth_error (scripts st) s) as [ss|] eqn:Es; [|now split].
  destruct (sstep cfg p s (xcache (sh st)) ss) as [[c ss'] e] eqn:E.
  pose proof (sstep_effect _ _ _ _ _ _ _ _ E) as Ef. unfold rc_inv. cbn [sh scripts].
  destruct e; cbn [apply_effect].
  - destruct Ef as [Ef|Ef]; [|congruence]. cbn [refcount root_present root_removals cancelled].
    rewrite (not_done_count_upd_same _ _ _ _ Es Ef). now split.
  - destruct Ef as (_ & v & E1 & E2).
    assert (D0 : is_done ss = false) by (unfold is_done; now rewrite E1).
    assert (D1 : is_done ss' = true) by (unfold is_done; now rewrite E2).
    pose proof (not_done_count_upd_finish _ _ _ _ Es D0 D1) as N.
    assert (Hrc : pred (refcount (sh st)) = not_done_count (upd (scripts st) s ss')) by (rewrite R1, N; reflexivity).
    destruct (Nat.eqb (pred (refcount (sh st))) 0) eqn:Ez; cbn [refcount root_present root_removals cancelled]; rewrite Ez.
    + split; [exact Hrc|]. destruct (Nat.eqb (refcount (sh st)) 0) eqn:Ez0.
      * apply Nat.eqb_eq in Ez0. rewrite R1, N in Ez0. discriminate.
      * destruct R2 as (_ & -> & _). auto.
    + split; [exact Hrc|]. destruct (Nat.eqb (refcount (sh st)) 0) eqn:Ez0; [|exact R2].
      apply Nat.eqb_eq in Ez0. rewrite Ez0 in Ez. discriminate.
Qed.

Lemma rc_inv_run cfg progs sched : retain cfg = false -> forall st, rc_inv cfg st -> rc_inv cfg (run cfg progs st sched).
Proof.
  intro Hr. unfold run. induction sched as [|s sched IH]; intros st H; [exact H|]. cbn [fold_left]. apply IH. now apply rc_inv_step.
Qed.

(* with retention the root, the count and the cancel function are never touched *)
Definition keep_inv (st : bstate) : Prop :=
  root_present (sh st) = true /\ root_removals (sh st) = 0 /\ cancelled (sh st) = false.

Lemma keep_inv_step cfg progs st s : retain cfg = true -> keep_inv st -> keep_inv (step cfg progs st s).
Proof.
  intros Hr K. unfold step. destruct (nth_error progs s) as [p|]; [|exact K].
  destruct (nth_error (scripts st) s) as [ss|] eqn:Es; [|exact K].
  destruct (sstep cfg p s (xcache (sh st)) ss) as [[c ss'] e] eqn:E.
  pose proof (sstep_effect _ _ _ _ _ _ _ _ E) as Ef. destruct e.
  - exact K.
  - destruct Ef as [Ef _]. congruence.
Qed.

Lemma keep_inv_run cfg progs sched : retain cfg = true -> forall st, keep_inv st -> keep_inv (run cfg progs st sched).
Proof.
  intro Hr. unfold run. induction sched as [|s sched IH]; intros st H; [exact H|]. cbn [fold_left]. apply IH. now apply keep_inv_step.
Qed.

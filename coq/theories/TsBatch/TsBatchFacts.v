(* C04 — lemmas about the batch model of TsBatch.v. *)
From Coq Require Import List Bool Arith NArith Lia.
From Coq.Strings Require Import Byte.
From GI Require Import Lib.Bytes Lib.BytesFacts Gen.TsBatchConsts TsBatch.TsBatch.
Import ListNotations.

(* ------------------------------------------------------------------ equalities *)

Lemma path_eqb_eq a b : path_eqb a b = true <-> a = b.
Proof.
  revert b. induction a as [|x a IH]; intros [|y b]; cbn [path_eqb]; split; intro H;
    try reflexivity; try discriminate.
  - apply andb_true_iff in H as [H1 H2]. apply bytes_eqb_eq in H1. apply IH in H2. now subst.
  - injection H as -> ->. apply andb_true_iff. split; [apply bytes_eqb_refl | now apply IH].
Qed.

Lemma path_eqb_refl a : path_eqb a a = true.
Proof. now apply path_eqb_eq. Qed.

Lemma path_eqb_neq a b : path_eqb a b = false <-> a <> b.
Proof.
  split.
  - intros H E. apply path_eqb_eq in E. congruence.
  - intros H. destruct (path_eqb a b) eqn:E; [|reflexivity]. apply path_eqb_eq in E. contradiction.
Qed.

Lemma opt_bytes_eqb_eq a b : opt_bytes_eqb a b = true <-> a = b.
Proof.
  destruct a, b; cbn; split; intro H; try reflexivity; try discriminate.
  - apply bytes_eqb_eq in H. now subst.
  - injection H as ->. apply bytes_eqb_refl.
Qed.

Lemma value_eqb_eq a b : value_eqb a b = true <-> a = b.
Proof.
  destruct a, b; cbn [value_eqb]; split; intro H; try discriminate.
  - apply bytes_eqb_eq in H. now subst.
  - injection H as ->. apply bytes_eqb_refl.
  - apply andb_true_iff in H as [H1 H2]. apply Nat.eqb_eq in H1. apply path_eqb_eq in H2. now subst.
  - injection H as -> ->. now rewrite Nat.eqb_refl, path_eqb_refl.
  - apply andb_true_iff in H as [H12 H3]. apply andb_true_iff in H12 as [H1 H2].
    apply Nat.eqb_eq in H1. apply path_eqb_eq in H2. apply opt_bytes_eqb_eq in H3. now subst.
  - injection H as -> -> ->. rewrite Nat.eqb_refl, path_eqb_refl. cbn. now apply opt_bytes_eqb_eq.
Qed.

Lemma ckey_eqb_eq a b : ckey_eqb a b = true <-> a = b.
Proof.
  destruct a as [a1 a2], b as [b1 b2]. unfold ckey_eqb. cbn [fst snd]. split; intro H.
  - apply andb_true_iff in H as [H1 H2]. apply bytes_eqb_eq in H2. subst.
    destruct a1, b1; try discriminate; try reflexivity.
    apply value_eqb_eq in H1. now subst.
  - injection H as -> ->. apply andb_true_iff. split; [|apply bytes_eqb_refl].
    destruct b1; [now apply value_eqb_eq | reflexivity].
Qed.

Lemma cache_get_cons k v c k2 :
  cache_get ((k, v) :: c) k2 = if ckey_eqb k k2 then Some v else cache_get c k2.
Proof. reflexivity. Qed.

(* ------------------------------------------------------------------ environment from scratch *)

Lemma resolve_all_names h s l : map fst (resolve_all h s l) = map fst l.
Proof. unfold resolve_all. rewrite map_map. reflexivity. Qed.

Definition passthrough_present (h : host) : list name :=
  filter (fun n => match host_get h n with [] => false | _ => true end) passthrough_names.

Lemma passthrough_names_of h : map fst (passthrough h) = passthrough_present h.
Proof.
  unfold passthrough, passthrough_present. induction passthrough_names as [|n l IH]; [reflexivity|].
  cbn [flat_map filter]. destruct (host_get h n); cbn; [exact IH | now rewrite IH].
Qed.

(* the names of the initial environment: the documented ones, the pass-through ones that are set
   in the host, the tail, then Setup's *)
Lemma initial_env_names h s adds :
  map fst (initial_env h s adds)
  = map fst setup_env_head ++ passthrough_present h ++ map fst setup_env_tail ++ map fst adds.
Proof.
  unfold initial_env. rewrite !map_app, !resolve_all_names, passthrough_names_of. reflexivity.
Qed.

Lemma resolve_all_indep h h' s l :
  (forall n, In n (src_host_names l) -> host_get h n = host_get h' n) ->
  resolve_all h s l = resolve_all h' s l.
Proof.
  unfold resolve_all, src_host_names. induction l as [|[n src] l IH]; intro H; [reflexivity|].
  cbn [map fst snd]. f_equal.
  - destruct src as [| |m|v]; cbn [resolve]; try reflexivity. rewrite (H m); [reflexivity|].
    cbn [flat_map snd]. now left.
  - apply IH. intros m Hm. apply H. cbn [flat_map]. apply in_or_app. now right.
Qed.

Lemma passthrough_indep h h' :
  (forall n, In n passthrough_names -> host_get h n = host_get h' n) -> passthrough h = passthrough h'.
Proof.
  unfold passthrough. induction passthrough_names as [|n l IH]; intro H; [reflexivity|].
  cbn [flat_map]. rewrite (H n) by now left. f_equal. apply IH. intros m Hm. apply H. now right.
Qed.

(* the initial environment depends on the host environment only through the variables setup()
   reads: the sources of the Vars literal and the pass-through list *)
Lemma initial_env_indep h h' s adds :
  (forall n, In n host_reads -> host_get h n = host_get h' n) ->
  initial_env h s adds = initial_env h' s adds.
Proof.
  intro H. unfold initial_env, host_reads in *.
  rewrite (resolve_all_indep h h' s setup_env_head), (passthrough_indep h h'),
    (resolve_all_indep h h' s setup_env_tail); [reflexivity| | |];
    intros n Hn; apply H; rewrite !in_app_iff; auto.
Qed.

(* a host variable that setup() does not read can be set to anything *)
Lemma host_get_cons_other h k v n : bytes_eqb k n = false -> host_get ((k, v) :: h) n = host_get h n.
Proof. intro H. cbn [host_get]. now rewrite H. Qed.

Lemma initial_env_ignores_other_var h s adds k v :
  ~ In k host_reads -> initial_env ((k, v) :: h) s adds = initial_env h s adds.
Proof.
  intro Hk. apply initial_env_indep. intros n Hn. apply host_get_cons_other.
  destruct (bytes_eqb k n) eqn:E; [|reflexivity]. apply bytes_eqb_eq in E. subst. contradiction.
Qed.

(* the same for the list Params.Setup leaves behind when it filters Env.Vars by an allow-list *)
Definition documented_names (h : host) : list name :=
  map fst setup_env_head ++ passthrough_present h ++ map fst setup_env_tail.

Lemma base_env_names h s : map fst (base_env h s) = documented_names h.
Proof.
  unfold base_env, documented_names. rewrite !map_app, !resolve_all_names, passthrough_names_of. reflexivity.
Qed.

Lemma base_env_indep h h' s :
  (forall n, In n host_reads -> host_get h n = host_get h' n) -> base_env h s = base_env h' s.
Proof.
  intro H. unfold base_env, host_reads in *.
  rewrite (resolve_all_indep h h' s setup_env_head), (passthrough_indep h h'),
    (resolve_all_indep h h' s setup_env_tail); [reflexivity| | |];
    intros n Hn; apply H; rewrite !in_app_iff; auto.
Qed.

Lemma setup_env_indep h h' s keep adds :
  (forall n, In n host_reads -> host_get h n = host_get h' n) ->
  setup_env h s keep adds = setup_env h' s keep adds.
Proof. intro H. unfold setup_env. now rewrite (base_env_indep h h' s H). Qed.

Lemma setup_env_ignores_other_var h s keep adds k v :
  ~ In k host_reads -> setup_env ((k, v) :: h) s keep adds = setup_env h s keep adds.
Proof.
  intro Hk. apply setup_env_indep. intros n Hn. apply host_get_cons_other.
  destruct (bytes_eqb k n) eqn:E; [|reflexivity]. apply bytes_eqb_eq in E. subst. contradiction.
Qed.

Lemma keep_env_names_incl keep e k : In k (map fst (keep_env keep e)) -> In k (map fst e).
Proof.
  destruct keep as [l|]; [|exact (fun H => H)]. unfold keep_env. intro H.
  apply in_map_iff in H as (kv & <- & Hin). apply filter_In in Hin as [Hin _]. now apply in_map.
Qed.

Lemma keep_env_names_kept l e k : In k (map fst (keep_env (Some l) e)) -> name_in l k = true.
Proof.
  unfold keep_env. intro H. apply in_map_iff in H as (kv & <- & Hin). now apply filter_In in Hin as [_ Hin].
Qed.

(* every name of the list is a documented one or one Setup added; with an allow-list, the documented
   ones that remain are on it *)
Lemma setup_env_names h s keep adds k :
  In k (map fst (setup_env h s keep adds)) ->
  (In k (documented_names h) /\ match keep with Some l => name_in l k = true | None => True end)
  \/ In k (map fst adds).
Proof.
  unfold setup_env. rewrite map_app, in_app_iff. intros [H|H]; [left|now right]. split.
  - rewrite <- (base_env_names h s). now apply keep_env_names_incl in H.
  - destruct keep as [l|]; [now apply keep_env_names_kept in H | exact I].
Qed.

(* an allow-list that keeps nothing (or Env.Vars = nil) leaves exactly what Setup adds *)
Lemma setup_env_keep_nothing h s adds : setup_env h s (Some []) adds = adds.
Proof.
  unfold setup_env, keep_env, name_in. cbn [existsb].
  assert (E : forall e : env, filter (fun _ => false) e = []) by (induction e; auto). now rewrite E.
Qed.

(* ------------------------------------------------------------------ trees *)

Lemma tree_get_remove t p q :
  tree_get (tree_remove t p) q = if path_eqb p q then None else tree_get t q.
Proof.
  unfold tree_remove. induction t as [|[r n] t IH]; cbn [filter tree_get fst].
  - now destruct (path_eqb p q).
  - destruct (path_eqb r p) eqn:Erp; cbn [negb].
    + apply path_eqb_eq in Erp. subst r. rewrite IH. now destruct (path_eqb p q).
    + cbn [tree_get]. rewrite IH. destruct (path_eqb r q) eqn:Erq; [|reflexivity].
      apply path_eqb_eq in Erq. subst r. destruct (path_eqb p q) eqn:Epq; [|reflexivity].
      apply path_eqb_eq in Epq. subst. now rewrite path_eqb_refl in Erp.
Qed.

Lemma tree_get_set t p n q :
  tree_get (tree_set t p n) q = if path_eqb p q then Some n else tree_get t q.
Proof.
  unfold tree_set. cbn [tree_get]. destruct (path_eqb p q) eqn:E; [reflexivity|].
  rewrite tree_get_remove, E. reflexivity.
Qed.

(* removeAll removes everything, whatever the permissions: after the WalkDir no directory is
   read-only, so nothing is stuck. *)
Lemma chmod_all_get t p :
  tree_get (chmod_all t) p = match tree_get t p with Some (Dir _) => Some (Dir false) | o => o end.
Proof.
  unfold chmod_all. induction t as [|[q n] t IH]; [reflexivity|].
  cbn [map tree_get fst snd]. destruct (path_eqb q p); [now destruct n | exact IH].
Qed.

Lemma chmod_all_unremovable root t q : unremovable root (chmod_all t) q = false.
Proof.
  unfold unremovable, get_node. destruct (removelast q) as [|x r]; [reflexivity|].
  rewrite chmod_all_get. destruct (tree_get t (x :: r)) as [[ro|d xx|tg]|]; reflexivity.
Qed.

Lemma os_remove_all_nothing_stuck root u :
  (forall q, unremovable root u q = false) -> os_remove_all root u = [].
Proof.
  intro H. unfold os_remove_all.
  assert (Hs : forall p, stuck root u p = false).
  { intro p. unfold stuck. induction u as [|a l IH] at 2; [reflexivity|].
    cbn [existsb]. now rewrite H, andb_false_r, IH. }
  induction u as [|a l IH] at 2; [reflexivity|]. cbn [filter]. now rewrite Hs.
Qed.

Lemma remove_all_empty root t : remove_all root t = [].
Proof. apply os_remove_all_nothing_stuck. apply chmod_all_unremovable. Qed.

(* without the chmod pass a read-only directory with content stays (when not root) *)
Example os_remove_all_needs_chmod :
  os_remove_all false [([[x61]], Dir true); ([[x61]; [x62]], File [] false)]
  = [([[x61]], Dir true); ([[x61]; [x62]], File [] false)].
Proof. reflexivity. Qed.

(* ------------------------------------------------------------------ the tree after setup *)

Lemma existsb_map_cons x p' y (L : list path) :
  existsb (path_eqb (x :: p')) (map (cons y) L) = bytes_eqb x y && existsb (path_eqb p') L.
Proof.
  induction L as [|a L IH]; cbn [map existsb]; [now rewrite andb_false_r|].
  rewrite IH. cbn [path_eqb]. destruct (bytes_eqb x y); reflexivity.
Qed.

Lemma existsb_nil_map_cons y (L : list path) : existsb (path_eqb []) (map (cons y) L) = false.
Proof. induction L as [|a L IH]; [reflexivity|]. cbn [map existsb path_eqb]. exact IH. Qed.

Lemma in_prefixes p d : existsb (path_eqb p) (prefixes d) = negb (is_nil p) && path_prefix p d.
Proof.
  revert p. induction d as [|y r IH]; intro p.
  - cbn [prefixes existsb]. destruct p; reflexivity.
  - cbn [prefixes existsb]. destruct p as [|x p'].
    + cbn [path_eqb is_nil negb andb orb]. apply existsb_nil_map_cons.
    + rewrite existsb_map_cons, IH. cbn [path_eqb path_prefix is_nil negb andb].
      destruct (bytes_eqb x y); [|reflexivity]. cbn [andb].
      destruct p'; cbn [path_eqb is_nil negb andb orb path_prefix]; reflexivity.
Qed.

Definition xbit (t : tree) (p : path) : bool :=
  match tree_get t p with Some (File _ x) => x | _ => false end.

Lemma mkdir_one_get root t q t1 :
  mkdir_one root t q = Some t1 ->
  forall p, tree_get t1 p = match tree_get t p with
                            | Some n => Some n
                            | None => if path_eqb p q then Some (Dir false) else None
                            end.
Proof.
  unfold mkdir_one. intros H p.
  destruct (tree_get t q) as [[ro|d x|tg]|] eqn:Eq.
  - injection H as <-. destruct (tree_get t p) eqn:Ep; [reflexivity|].
    destruct (path_eqb p q) eqn:E; [|reflexivity]. apply path_eqb_eq in E. subst. congruence.
  - discriminate.
  - discriminate.
  - destruct (dir_writable root t (removelast q)); [|discriminate]. injection H as <-.
    rewrite tree_get_set. destruct (path_eqb q p) eqn:E.
    + apply path_eqb_eq in E. subst. now rewrite Eq, path_eqb_refl.
    + destruct (tree_get t p); [reflexivity|].
      destruct (path_eqb p q) eqn:E'; [|reflexivity]. apply path_eqb_eq in E'. subst.
      now rewrite path_eqb_refl in E.
Qed.

Lemma mkdir_list_get root l : forall t t1,
  mkdir_list root t l = Some t1 ->
  forall p, tree_get t1 p = match tree_get t p with
                            | Some n => Some n
                            | None => if existsb (path_eqb p) l then Some (Dir false) else None
                            end.
Proof.
  induction l as [|q l IH]; intros t t1 H p; cbn [mkdir_list] in H.
  - injection H as <-. now destruct (tree_get t p).
  - destruct (mkdir_one root t q) as [t'|] eqn:E1; [|discriminate].
    rewrite (IH _ _ H p), (mkdir_one_get _ _ _ _ E1 p). cbn [existsb].
    destruct (tree_get t p); [reflexivity|]. destruct (path_eqb p q); reflexivity.
Qed.

Lemma mkdir_all_get root t d t1 :
  mkdir_all root t d = Some t1 ->
  forall p, tree_get t1 p = match tree_get t p with
                            | Some n => Some n
                            | None => if negb (is_nil p) && path_prefix p d then Some (Dir false) else None
                            end.
Proof. intros H p. unfold mkdir_all in H. rewrite (mkdir_list_get _ _ _ _ H p), in_prefixes. reflexivity. Qed.

Lemma write_file_get root t q d t2 :
  write_file root t q d = Some t2 ->
  forall p, tree_get t2 p = if path_eqb q p then Some (File d (xbit t q)) else tree_get t p.
Proof.
  unfold write_file, xbit. intros H p. destruct q as [|s q']; [discriminate|].
  destruct (tree_get t (s :: q')) as [[ro|d' x|tg]|] eqn:Eq; [discriminate| |discriminate|].
  - injection H as <-. apply tree_get_set.
  - destruct (dir_writable root t (removelast (s :: q'))); [|discriminate]. injection H as <-. apply tree_get_set.
Qed.

Lemma unpack_get root files : forall t0 t,
  unpack root t0 files = Some t ->
  forall p, tree_get t p =
    match last_file files p with
    | Some d => Some (File d (xbit t0 p))
    | None => match tree_get t0 p with
              | Some n => Some n
              | None => if is_dir_of files p then Some (Dir false) else None
              end
    end.
Proof.
  induction files as [|[q d] r IH]; intros t0 t H p; cbn [unpack] in H.
  - injection H as <-. cbn [last_file]. unfold is_dir_of. cbn [existsb]. rewrite andb_false_r.
    now destruct (tree_get t0 p).
  - destruct (mkdir_all root t0 (removelast q)) as [t1|] eqn:E1; [|discriminate].
    destruct (write_file root t1 q d) as [t2|] eqn:E2; [|discriminate].
    pose proof (mkdir_all_get _ _ _ _ E1) as M. pose proof (write_file_get _ _ _ _ _ E2) as W.
    rewrite (IH _ _ H p). cbn [last_file].
    assert (X : forall p', xbit t1 p' = xbit t0 p').
    { intro p'. unfold xbit. rewrite (M p'). destruct (tree_get t0 p'); [reflexivity|].
      now destruct (negb (is_nil p') && path_prefix p' (removelast q)). }
    assert (X2 : xbit t2 p = xbit t0 p).
    { unfold xbit at 1. rewrite (W p). destruct (path_eqb q p) eqn:E.
      - apply path_eqb_eq in E. subst. apply X.
      - apply X. }
    destruct (last_file r p) as [d'|]; [now rewrite X2|].
    rewrite (W p). destruct (path_eqb q p) eqn:E.
    + apply path_eqb_eq in E. subst. now rewrite X.
    + rewrite (M p). destruct (tree_get t0 p); [reflexivity|].
      unfold is_dir_of. cbn [existsb fst].
      destruct (negb (is_nil p)); cbn [andb]; [|reflexivity].
      destruct (path_prefix p (removelast q)); reflexivity.
Qed.

(* the tree a script starts with is exactly what the archive says, plus .tmp *)
Lemma setup_tree_exact root files t :
  setup_tree root files = Some t -> forall p, tree_get t p = expected_node files p.
Proof.
  unfold setup_tree, expected_node. intros H p. rewrite (unpack_get _ _ _ _ H p).
  unfold xbit, tmp_tree. cbn [tree_get].
  destruct (last_file files p).
  - now destruct (path_eqb [tmp_dir_name] p).
  - destruct (path_eqb [tmp_dir_name] p) eqn:E.
    + apply path_eqb_eq in E. subst. now rewrite path_eqb_refl.
    + destruct (path_eqb p [tmp_dir_name]) eqn:E'; [|reflexivity].
      apply path_eqb_eq in E'. subst. now rewrite path_eqb_refl in E.
Qed.

(* a concrete archive: two files in one directory, one of them given twice *)
Example setup_tree_example :
  let a := [x61] in let b := [x62] in let c := [x63] in
  setup_tree false [([a; b], [x31]); ([c], [x32]); ([a; b], [x33])]
  = Some [([a; b], File [x33] false); ([c], File [x32] false); ([a], Dir false); ([tmp_dir_name], Dir false)].
Proof. reflexivity. Qed.

(* a file and a directory of the same name cannot both be unpacked: setup fails *)
Example setup_tree_conflict :
  setup_tree false [([[x61]], [x31]); ([[x61]; [x62]], [x32])] = None.
Proof. reflexivity. Qed.

(* ------------------------------------------------------------------ what one script line can do *)

Definition setup_events (l : list event) : list (env * tree * list path) :=
  flat_map (fun e => match e with EvSetup e t o => [(e, t, o)] | _ => [] end) l.
Definition work_removed (l : list event) : list unit :=
  flat_map (fun e => match e with EvWorkRemoved => [tt] | _ => [] end) l.

Lemma defer_regs_app a b : defer_regs (a ++ b) = defer_regs a ++ defer_regs b.
Proof. apply flat_map_app. Qed.
Lemma defer_runs_app a b : defer_runs (a ++ b) = defer_runs a ++ defer_runs b.
Proof. apply flat_map_app. Qed.
Lemma bg_started_app a b : bg_started (a ++ b) = bg_started a ++ bg_started b.
Proof. apply flat_map_app. Qed.
Lemma bg_gone_app a b : bg_gone (a ++ b) = bg_gone a ++ bg_gone b.
Proof. apply flat_map_app. Qed.
Lemma bg_waited_app a b : bg_waited (a ++ b) = bg_waited a ++ bg_waited b.
Proof. apply flat_map_app. Qed.
Lemma setup_events_app a b : setup_events (a ++ b) = setup_events a ++ setup_events b.
Proof. apply flat_map_app. Qed.
Lemma work_removed_app a b : work_removed (a ++ b) = work_removed a ++ work_removed b.
Proof. apply flat_map_app. Qed.

Lemma ev_int_all_proj b :
  bg_gone (ev_int_all b) = map fst b /\ bg_waited (ev_int_all b) = [] /\ bg_started (ev_int_all b) = []
  /\ defer_regs (ev_int_all b) = [] /\ defer_runs (ev_int_all b) = [] /\ setup_events (ev_int_all b) = []
  /\ work_removed (ev_int_all b) = [].
Proof.
  repeat split; induction b as [|[h n] b IH]; cbn; try reflexivity; first [exact IH | f_equal; exact IH].
Qed.

Lemma ev_wait_all_proj b :
  bg_waited (ev_wait_all b) = map fst b /\ bg_gone (ev_wait_all b) = [] /\ bg_started (ev_wait_all b) = []
  /\ defer_regs (ev_wait_all b) = [] /\ defer_runs (ev_wait_all b) = [] /\ setup_events (ev_wait_all b) = []
  /\ work_removed (ev_wait_all b) = [].
Proof.
  repeat split; induction b as [|[h n] b IH]; cbn; try reflexivity; first [exact IH | f_equal; exact IH].
Qed.

Lemma skip_wait_proj b evs ok :
  skip_wait b = (evs, ok) ->
  bg_gone evs = [] /\ bg_started evs = [] /\ defer_regs evs = [] /\ defer_runs evs = []
  /\ setup_events evs = [] /\ work_removed evs = [] /\ (ok = true -> bg_waited evs = map fst b).
Proof.
  revert evs ok. induction b as [|[h n] b IH]; intros evs ok H; cbn [skip_wait] in H.
  - injection H as <- <-. cbn. tauto.
  - destruct n.
    + destruct (skip_wait b) as [evs' ok'] eqn:E. injection H as <- <-.
      destruct (IH _ _ eq_refl) as (H1 & H2 & H3 & H4 & H5 & H6 & H7).
      repeat split; try assumption. intro Hok. cbn. f_equal. exact (H7 Hok).
    + injection H as <- <-. cbn. repeat split; try reflexivity. discriminate.
Qed.

Lemma wait_list_proj sig b : forall evs res,
  wait_list sig b = (evs, res) ->
  bg_gone evs = [] /\ bg_started evs = [] /\ defer_regs evs = [] /\ defer_runs evs = []
  /\ setup_events evs = [] /\ work_removed evs = [] /\
  (res = WOk -> bg_waited evs = map fst b /\ forall h, In h (map fst b) -> quick_fail h = true \/ sig h = true).
Proof.
  induction b as [|[h n] b IH]; intros evs res H; cbn [wait_list] in H.
  - injection H as <- <-. cbn. repeat split; tauto.
  - destruct (quick_fail h || sig h) eqn:Eq.
    + destruct n.
      * destruct (wait_list sig b) as [evs' res'] eqn:E. injection H as <- <-.
        destruct (IH _ _ eq_refl) as (H1 & H2 & H3 & H4 & H5 & H6 & H7).
        repeat split; try assumption.
        -- cbn. f_equal. now apply H7.
        -- intros h' [<-|Hin]; [now apply orb_true_iff | now apply H7].
      * injection H as <- <-. cbn. repeat split; try reflexivity; discriminate.
    + injection H as <- <-. cbn. repeat split; try reflexivity; discriminate.
Qed.

Lemma gone_of_started_quick l h : In h (bg_started l) -> quick_fail h = true -> In h (bg_gone l).
Proof.
  unfold bg_started, bg_gone. intros H Q. apply in_flat_map in H as (e & He & Hh). apply in_flat_map.
  exists e. split; [exact He|]. destruct e; cbn in Hh; try contradiction. destruct Hh as [<-|[]]. rewrite Q. now left.
Qed.

Lemma gone_of_signalled l h : signalled l h = true -> In h (bg_gone l).
Proof.
  unfold signalled, bg_interrupted_ev, bg_gone. intro H. apply existsb_exists in H as (x & Hx & E).
  apply Nat.eqb_eq in E. subst x. apply in_flat_map in Hx as (e & He & Hh). apply in_flat_map.
  exists e. split; [exact He|]. destruct e; cbn in Hh; try contradiction. exact Hh.
Qed.

(* the events one line appends, and what it does to the other components *)
Record line_effect (ss ss' : sstate) (l : list event) : Prop := {
  le_obs : obs ss' = obs ss ++ l;
  le_ph : ph ss' = ph ss;
  le_wp : wpresent ss' = wpresent ss;
  le_runs : defer_runs l = [];
  le_setup : setup_events l = [];
  le_removed : work_removed l = [];
  le_dstack : map fst (dstack ss') = rev (defer_regs l) ++ map fst (dstack ss);
  le_bg_new : forall h, In h (bg_started l) -> In h (map fst (bgl ss'));
  le_bg_old : forall h, In h (map fst (bgl ss)) ->
                In h (map fst (bgl ss')) \/
                ((In h (bg_gone (obs ss ++ l)) \/ quick_fail h = true) /\ In h (bg_waited l))
}.

Lemma line_effect_refl ss : line_effect ss ss [].
Proof. constructor; cbn; try reflexivity; try (now rewrite app_nil_r); try tauto. Qed.

Lemma line_effect_same ss ss' :
  obs ss' = obs ss -> ph ss' = ph ss -> wpresent ss' = wpresent ss -> dstack ss' = dstack ss -> bgl ss' = bgl ss ->
  line_effect ss ss' [].
Proof.
  intros H1 H2 H3 H4 H5. constructor; cbn; try reflexivity; try assumption.
  - now rewrite app_nil_r.
  - now rewrite H4.
  - tauto.
  - intros h Hh. left. now rewrite H5.
Qed.

Lemma line_effect_cond ss ss' prog ans l :
  line_effect (add_obs ss [EvCond prog ans]) ss' l -> line_effect ss ss' (EvCond prog ans :: l).
Proof.
  intros [A1 A2 A3 A4 A5 A6 A7 A8 A9]. cbn [add_obs obs ph wpresent dstack bgl] in *.
  constructor; cbn; try assumption.
  - now rewrite A1, <- app_assoc.
  - intros h Hh. destruct (A9 h Hh) as [?|[G W]]; [now left|]. right. split; [|exact W].
    rewrite <- app_assoc in G. exact G.
Qed.

Lemma exec_action_effect cfg s a : forall c ss c' ss' o,
  exec_action cfg s c ss a = (c', ss', o) -> exists l, line_effect ss ss' l.
Proof.
  induction a as [p d|p ro|p|p|k v|sub keep|id bad|h neg| | | | | | | | |xneg xprog|lp ltg|rp|neg prog a IH| |]; intros c ss c' ss' o H;
    cbn [exec_action] in H.
  - destruct (write_file _ _ _ _); injection H as <- <- <-; exists []; [now apply line_effect_same | apply line_effect_refl].
  - destruct (mkdir_all _ _ _); injection H as <- <- <-; exists []; [now apply line_effect_same | apply line_effect_refl].
  - destruct (cwd ss ++ p); [injection H as <- <- <-; exists []; apply line_effect_refl|].
    destruct (tree_get _ _) as [[?|? ?|?]|]; injection H as <- <- <-; exists [];
      first [now apply line_effect_same | apply line_effect_refl].
  - destruct (get_node _ _) as [[?|? ?|?]|]; injection H as <- <- <-; exists [];
      first [now apply line_effect_same | apply line_effect_refl].
  - injection H as <- <- <-. exists []. now apply line_effect_same.
  - injection H as <- <- <-. exists []. now apply line_effect_same.
  - injection H as <- <- <-. exists [EvDeferReg id].
    constructor; cbn; try reflexivity; try tauto.
  - destruct (bg_by_path h || look _ _ _ _ _).
    + injection H as <- <- <-. exists [EvBgStart h].
      constructor; cbn; try reflexivity.
      * intros h' [<-|[]]. rewrite map_app. apply in_or_app. right. now left.
      * intros h' Hh. left. rewrite map_app. apply in_or_app. now left.
    + injection H as <- <- <-. exists []. apply line_effect_refl.
  - injection H as <- <- <-. exists [EvProbe (cwd ss) (child_env cfg s (cwd ss) (senv ss)) (tr ss)].
    constructor; cbn; try reflexivity; try tauto.
  - injection H as <- <- <-. exists []. apply line_effect_refl.
  - destruct (skip_wait (bgl ss)) as [waited ok] eqn:E.
    destruct (skip_wait_proj _ _ _ E) as (W1 & W2 & W3 & W4 & W5 & W6 & W7).
    destruct (ev_int_all_proj (bgl ss)) as (I1 & I2 & I3 & I4 & I5 & I6 & I7).
    exists (ev_int_all (bgl ss) ++ waited).
    destruct ok; injection H as <- <- <-;
      (constructor; cbn [add_obs set_bgl obs ph wpresent dstack bgl]; try reflexivity;
       [ now rewrite defer_runs_app, I5, W4
       | now rewrite setup_events_app, I6, W5
       | now rewrite work_removed_app, I7, W6
       | now rewrite defer_regs_app, I4, W3
       | rewrite bg_started_app, I3, W2; intros h []
       | ]).
    + intros h Hh. right. rewrite !bg_gone_app, bg_waited_app, I1, I2, W1, (W7 eq_refl). cbn [app].
      split; [left; rewrite !in_app_iff; tauto | exact Hh].
    + intros h Hh. now left.
  - injection H as <- <- <-. exists []. apply line_effect_refl.
  - injection H as <- <- <-. exists []. apply line_effect_refl.
  - (* kill *)
    injection H as <- <- <-. destruct (ev_int_all_proj (bgl ss)) as (I1 & I2 & I3 & I4 & I5 & I6 & I7).
    exists (ev_int_all (bgl ss)).
    constructor; cbn [add_obs obs ph wpresent dstack bgl]; try reflexivity; try assumption.
    + now rewrite I4.
    + rewrite I3. intros h [].
    + intros h Hh. now left.
  - (* kill; wait *)
    destruct (skip_wait (bgl ss)) as [waited ok] eqn:E.
    destruct (skip_wait_proj _ _ _ E) as (W1 & W2 & W3 & W4 & W5 & W6 & W7).
    destruct (ev_int_all_proj (bgl ss)) as (I1 & I2 & I3 & I4 & I5 & I6 & I7).
    exists (ev_int_all (bgl ss) ++ waited).
    destruct ok; injection H as <- <- <-;
      (constructor; cbn [add_obs set_bgl obs ph wpresent dstack bgl]; try reflexivity;
       [ now rewrite defer_runs_app, I5, W4
       | now rewrite setup_events_app, I6, W5
       | now rewrite work_removed_app, I7, W6
       | now rewrite defer_regs_app, I4, W3
       | rewrite bg_started_app, I3, W2; intros h []
       | ]).
    + intros h Hh. right. rewrite !bg_gone_app, bg_waited_app, I1, I2, W1, (W7 eq_refl). cbn [app].
      split; [left; rewrite !in_app_iff; tauto | exact Hh].
    + intros h Hh. now left.
  - (* wait *)
    destruct (wait_list (signalled (obs ss)) (bgl ss)) as [waited res] eqn:E.
    destruct (wait_list_proj _ _ _ _ E) as (W1 & W2 & W3 & W4 & W5 & W6 & W7).
    exists waited.
    destruct res; injection H as <- <- <-;
      (constructor; cbn [add_obs set_bgl obs ph wpresent dstack bgl]; try reflexivity; try assumption;
       [ now rewrite W3 | rewrite W2; intros h [] | ]).
    + destruct (W7 eq_refl) as [Ww Wq]. intros h Hh. right. split; [|now rewrite Ww].
      destruct (Wq h Hh) as [Q|Sg]; [now right | left]. rewrite bg_gone_app. apply in_or_app. left.
      now apply gone_of_signalled.
    + intros h Hh. now left.
    + intros h Hh. now left.
  - destruct (look _ _ _ _ _); injection H as <- <- <-; exists []; apply line_effect_refl.
  - destruct (symlink_at _ _ _ _); injection H as <- <- <-; exists []; [now apply line_effect_same | apply line_effect_refl].
  - destruct (rm_path _ _ _); injection H as <- <- <-; exists []; now apply line_effect_same.
  - destruct (cached_look cfg s c ss prog) as [ans c1] eqn:E.
    destruct (Bool.eqb ans (negb neg)).
    + destruct (IH _ _ _ _ _ H) as [l Hl]. exists (EvCond prog ans :: l). now apply line_effect_cond.
    + injection H as <- <- <-. exists [EvCond prog ans]. apply line_effect_cond. apply line_effect_refl.
  - injection H as <- <- <-. exists []. apply line_effect_refl.
  - injection H as <- <- <-. exists []. apply line_effect_refl.
Qed.

(* ------------------------------------------------------------------ the per-script invariant *)

Definition bgok (ss : sstate) : Prop :=
  forall h, In h (bg_started (obs ss)) ->
    In h (map fst (bgl ss)) \/ (In h (bg_gone (obs ss)) /\ In h (bg_waited (obs ss))).

Definition defers_pending (ss : sstate) : Prop :=
  defer_runs (obs ss) = [] /\ map fst (dstack ss) = rev (defer_regs (obs ss)).
Definition defers_done (ss : sstate) : Prop :=
  defer_runs (obs ss) = rev (defer_regs (obs ss)) /\ dstack ss = [].

Definition setup_ok (cfg : config) (p : script) (s : nat) (ss : sstate) : Prop :=
  setup_events (obs ss) = [] \/
  exists t, setup_result cfg p = Some t /\
            setup_events (obs ss) = [(setup_env (hostenv cfg) s (setup_keep p) (setup_adds p), t, escapes_of cfg p)].

Definition sinv (cfg : config) (p : script) (s : nat) (ss : sstate) : Prop :=
  bgok ss /\ setup_ok cfg p s ss /\
  (retain cfg = true -> work_removed (obs ss) = [] /\ (ph ss <> NotStarted -> wpresent ss = true)) /\
  match ph ss with
  | NotStarted => obs ss = [] /\ dstack ss = [] /\ bgl ss = [] /\ wpresent ss = false
  | Running _ | Ending _ SInt | Ending _ SDefers | Stuck => defers_pending ss
  | Ending _ SWait => defers_pending ss /\ (forall h, In h (map fst (bgl ss)) -> In h (bg_gone (obs ss)))
  | Ending _ SBgClean => defers_done ss
  | Ending _ SCleanup => defers_done ss /\ bgl ss = []
  | Done _ => defers_done ss /\ bgl ss = [] /\ (retain cfg = false -> wpresent ss = false /\ tr ss = [])
  end.

Lemma sinv_init cfg p s : sinv cfg p s sstate0.
Proof.
  unfold sinv, bgok, setup_ok. cbn. repeat split; try tauto; try (now left); congruence.
Qed.

Lemma defer_regs_of_setup (l : list (nat * bool)) :
  defer_regs (map (fun d => EvDeferReg (fst d)) l) = map fst l
  /\ defer_runs (map (fun d => EvDeferReg (fst d)) l) = []
  /\ bg_started (map (fun d => EvDeferReg (fst d)) l) = []
  /\ setup_events (map (fun d => EvDeferReg (fst d)) l) = []
  /\ work_removed (map (fun d => EvDeferReg (fst d)) l) = [].
Proof. repeat split; induction l as [|a l IH]; cbn; try reflexivity; first [exact IH | f_equal; exact IH]. Qed.

Lemma defer_runs_of_stack (l : list (nat * bool)) :
  defer_runs (map (fun d => EvDeferRun (fst d)) l) = map fst l
  /\ defer_regs (map (fun d => EvDeferRun (fst d)) l) = []
  /\ bg_started (map (fun d => EvDeferRun (fst d)) l) = []
  /\ bg_gone (map (fun d => EvDeferRun (fst d)) l) = []
  /\ bg_waited (map (fun d => EvDeferRun (fst d)) l) = []
  /\ setup_events (map (fun d => EvDeferRun (fst d)) l) = []
  /\ work_removed (map (fun d => EvDeferRun (fst d)) l) = [].
Proof. repeat split; induction l as [|a l IH]; cbn; try reflexivity; first [exact IH | f_equal; exact IH]. Qed.

Lemma bgok_line ss ss' l : bgok ss -> line_effect ss ss' l -> bgok ss'.
Proof.
  intros B [A1 A2 A3 A4 A5 A6 A7 A8 A9] h Hh. rewrite A1 in *.
  rewrite bg_started_app in Hh. rewrite bg_gone_app, bg_waited_app.
  apply in_app_or in Hh as [Hh|Hh].
  - destruct (B h Hh) as [Hb|[Hi Hw]].
    + destruct (A9 h Hb) as [?|[[G|Q] W]]; [now left| |].
      * right. split; [now rewrite <- bg_gone_app | apply in_or_app; now right].
      * right. split; [apply in_or_app; left; now apply gone_of_started_quick | apply in_or_app; now right].
    + right. split; apply in_or_app; now left.
  - left. now apply A8.
Qed.

Lemma setup_ok_ext cfg p s ss ss' l :
  setup_ok cfg p s ss -> obs ss' = obs ss ++ l -> setup_events l = [] -> setup_ok cfg p s ss'.
Proof.
  unfold setup_ok. intros H E El. rewrite E, setup_events_app, El, app_nil_r. exact H.
Qed.

Lemma sstep_sinv cfg p s c ss c' ss' e :
  sinv cfg p s ss -> sstep cfg p s c ss = (c', ss', e) -> sinv cfg p s ss'.
Proof.
  intros (B & SU & RT & PH) H. unfold sstep in H.
  destruct (ph ss) as [|pc|v st|v|] eqn:Eph.
  - (* setup *)
    destruct PH as (O & D & G & W).
    destruct (defer_regs_of_setup (setup_defers p)) as (R1 & R2 & R3 & R4 & R5).
    destruct (setup_result cfg p) as [t|] eqn:Et.
    + assert (K : forall ph0, match ph0 with Running _ | Ending _ SDefers => True | _ => False end ->
                  sinv cfg p s {| ph := ph0; cwd := []; senv := setup_env (hostenv cfg) s (setup_keep p) (setup_adds p); tr := t;
                                  wpresent := true; dstack := rev (setup_defers p); bgl := []; failedf := false;
                                  obs := map (fun d => EvDeferReg (fst d)) (setup_defers p)
                                         ++ [EvSetup (setup_env (hostenv cfg) s (setup_keep p) (setup_adds p)) t (escapes_of cfg p)] |}).
      { intros ph0 Hph0. unfold sinv, bgok, setup_ok, defers_pending. cbn [obs bgl ph dstack wpresent].
        rewrite bg_started_app, setup_events_app, work_removed_app, defer_runs_app, defer_regs_app, R1, R2, R3, R4, R5.
        cbn [app bg_started setup_events work_removed defer_runs defer_regs flat_map].
        split; [intros h []|]. split; [right; exists t; now split|]. split; [now intros _|].
        assert (DP : [] = ([] : list nat) /\ map fst (rev (setup_defers p)) = rev (map fst (setup_defers p) ++ [])).
        { now rewrite app_nil_r, map_rev. }
        destruct ph0 as [|?|? []|?|]; try contradiction; exact DP. }
      destruct (setup_err p); injection H as <- <- <-; apply K; exact I.
    + injection H as <- <- <-. unfold sinv, bgok, setup_ok, defers_pending. cbn.
      split; [intros h []|]. split; [now left|]. split; [now intros _|]. now split.
  - (* one line *)
    destruct (nth_error (body p) pc) as [a|].
    + destruct (exec_action cfg s c ss a) as [[c1 ss1] o] eqn:Ea. injection H as <- <- <-.
      destruct (exec_action_effect _ _ _ _ _ _ _ _ Ea) as [l L].
      pose proof (bgok_line _ _ _ B L) as B1. destruct L as [A1 A2 A3 A4 A5 A6 A7 A8 A9].
      assert (DP : defers_pending ss1).
      { destruct PH as [P1 P2]. split.
        - now rewrite A1, defer_runs_app, P1, A4.
        - rewrite A7, A1, defer_regs_app, rev_app_distr, P2. reflexivity. }
      assert (K : forall ssx, obs ssx = obs ss1 -> bgl ssx = bgl ss1 -> dstack ssx = dstack ss1 ->
                    wpresent ssx = wpresent ss1 ->
                    match ph ssx with Running _ | Ending _ SDefers | Ending _ SInt | Stuck => True | _ => False end ->
                    sinv cfg p s ssx).
      { intros ssx Eo Eb Ed Ew Hph. unfold sinv, bgok, setup_ok, defers_pending in *. rewrite Eo, Eb, Ed, Ew.
        split; [exact B1|]. split; [rewrite A1, setup_events_app, A5, app_nil_r; exact SU|]. split.
        - intro Hr. destruct (RT Hr) as [R1 R2]. split.
          + now rewrite A1, work_removed_app, R1, A6.
          + intros _. rewrite A3. apply R2. try rewrite Eph; discriminate.
        - destruct (ph ssx) as [|?|? []|?|]; try contradiction; exact DP. }
      destruct o; [| destruct (continue_on_error cfg) | | | | | |]; apply K; try reflexivity; exact I.
    + injection H as <- <- <-. unfold sinv. cbn [set_ph ph obs bgl dstack wpresent].
      split; [exact B|]. split; [exact SU|]. split; [|exact PH].
      intro Hr. destruct (RT Hr) as [R1 R2]. split; [exact R1|]. intros _. apply R2. try rewrite Eph; discriminate.
  - (* the end of run *)
    assert (WP : retain cfg = true -> wpresent ss = true).
    { intro Hr. apply RT; [exact Hr|]. try rewrite Eph; discriminate. }
    destruct st.
    + (* SInt *)
      injection H as <- <- <-. destruct (ev_int_all_proj (bgl ss)) as (I1 & I2 & I3 & I4 & I5 & I6 & I7).
      unfold sinv, bgok, setup_ok, defers_pending in *. cbn [set_ph add_obs ph obs bgl dstack wpresent].
      rewrite bg_started_app, bg_gone_app, bg_waited_app, setup_events_app, work_removed_app,
        defer_runs_app, defer_regs_app, I1, I2, I3, I4, I5, I6, I7, !app_nil_r.
      split; [|split; [exact SU|split]].
      * intros h Hh. destruct (B h Hh) as [?|[? ?]]; [now left|]. right. split; [apply in_or_app; now left|assumption].
      * intro Hr. split; [now apply RT | intros _; now apply WP].
      * split; [exact PH|]. intros h Hh. apply in_or_app. now right.
    + (* SWait *)
      injection H as <- <- <-. destruct (ev_wait_all_proj (bgl ss)) as (I1 & I2 & I3 & I4 & I5 & I6 & I7).
      destruct PH as [PH1 PH2].
      unfold sinv, bgok, setup_ok, defers_pending in *. cbn [set_ph set_bgl add_obs ph obs bgl dstack wpresent].
      rewrite bg_started_app, bg_gone_app, bg_waited_app, setup_events_app, work_removed_app,
        defer_runs_app, defer_regs_app, I1, I2, I3, I4, I5, I6, I7, !app_nil_r.
      split; [|split; [exact SU|split]].
      * intros h Hh. right. destruct (B h Hh) as [Hb|[Hi Hw]].
        -- split; [now apply PH2 | apply in_or_app; now right].
        -- split; [assumption | apply in_or_app; now left].
      * intro Hr. split; [now apply RT | intros _; now apply WP].
      * exact PH1.
    + (* SDefers *)
      injection H as <- <- <-. destruct (defer_runs_of_stack (dstack ss)) as (D1 & D2 & D3 & D4 & D5 & D6 & D7).
      destruct PH as [PH1 PH2].
      unfold sinv, bgok, setup_ok, defers_done in *. cbn [set_ph set_dstack add_obs ph obs bgl dstack wpresent].
      rewrite bg_started_app, bg_gone_app, bg_waited_app, setup_events_app, work_removed_app,
        defer_runs_app, defer_regs_app, D1, D2, D3, D4, D5, D6, D7, !app_nil_r.
      split; [exact B|split; [exact SU|split]].
      * intro Hr. split; [now apply RT | intros _; now apply WP].
      * rewrite PH1, PH2. now split.
    + (* SBgClean *)
      injection H as <- <- <-. destruct (ev_int_all_proj (bgl ss)) as (I1 & I2 & I3 & I4 & I5 & I6 & I7).
      destruct (ev_wait_all_proj (bgl ss)) as (W1 & W2 & W3 & W4 & W5 & W6 & W7).
      unfold sinv, bgok, setup_ok, defers_done in *. cbn [set_ph set_bgl add_obs ph obs bgl dstack wpresent].
      rewrite !bg_started_app, !bg_gone_app, !bg_waited_app, !setup_events_app, !work_removed_app,
        !defer_runs_app, !defer_regs_app, I1, I2, I3, I4, I5, I6, I7, W1, W2, W3, W4, W5, W6, W7, !app_nil_r.
      split; [|split; [exact SU|split]].
      * intros h Hh. right. destruct (B h Hh) as [Hb|[Hi Hw]].
        -- split; apply in_or_app; now right.
        -- split; apply in_or_app; now left.
      * intro Hr. split; [now apply RT | intros _; now apply WP].
      * split; [exact PH | reflexivity].
    + (* SCleanup *)
      destruct PH as [PH1 PH2].
      destruct (retain cfg) eqn:Er.
      * injection H as <- <- <-. unfold sinv. cbn [set_ph ph obs bgl dstack wpresent].
        split; [exact B|split; [exact SU|split]].
        -- intros _. split; [now apply RT | intros _; now apply WP].
        -- split; [exact PH1|]. split; [exact PH2|]. intro Hf. rewrite Er in Hf. discriminate.
      * injection H as <- <- <-. rewrite remove_all_empty.
        unfold sinv, bgok, setup_ok, defers_done in *. cbn [ph obs bgl dstack wpresent tr].
        rewrite bg_started_app, bg_gone_app, bg_waited_app, setup_events_app, defer_runs_app, defer_regs_app.
        cbn [bg_started bg_gone bg_waited setup_events defer_runs defer_regs flat_map app]. rewrite !app_nil_r.
        split; [exact B|split; [exact SU|split]].
        -- intro Hf. rewrite ?Er in Hf. discriminate.
        -- split; [exact PH1|]. split; [exact PH2|]. now intros _.
  - injection H as <- <- <-. unfold sinv. rewrite Eph. auto.
  - injection H as <- <- <-. unfold sinv. rewrite Eph. auto.
Qed.

(* ------------------------------------------------------------------ the batch: frame *)

Lemma nth_error_upd_same {A} (l : list A) i x y : nth_error l i = Some y -> nth_error (upd l i x) i = Some x.
Proof. revert i. induction l as [|a l IH]; intros [|i] H; cbn in *; try discriminate; [reflexivity | now apply IH]. Qed.

Lemma nth_error_upd_other {A} (l : list A) i j x : i <> j -> nth_error (upd l i x) j = nth_error l j.
Proof.
  revert i j. induction l as [|a l IH]; intros [|i] [|j] H; cbn; try reflexivity; try congruence.
  apply IH. congruence.
Qed.

Lemma length_upd {A} (l : list A) i x : length (upd l i x) = length l.
Proof. revert i. induction l as [|a l IH]; intros [|i]; cbn; try reflexivity. now rewrite IH. Qed.

(* a step of script s leaves every other script's component alone *)
Lemma step_frame cfg progs st s s' :
  s <> s' -> nth_error (scripts (step cfg progs st s)) s' = nth_error (scripts st) s'.
Proof.
  intro H. unfold step. destruct (nth_error progs s) as [p|]; [|reflexivity].
  destruct (nth_error (scripts st) s) as [ss|]; [|reflexivity].
  destruct (sstep cfg p s (xcache (sh st)) ss) as [[c ss'] e]. cbn [scripts]. now apply nth_error_upd_other.
Qed.

Lemma step_length cfg progs st s : length (scripts (step cfg progs st s)) = length (scripts st).
Proof.
  unfold step. destruct (nth_error progs s) as [p|]; [|reflexivity].
  destruct (nth_error (scripts st) s) as [ss|]; [|reflexivity].
  destruct (sstep cfg p s (xcache (sh st)) ss) as [[c ss'] e]. cbn [scripts]. apply length_upd.
Qed.

(* and touches the root, the reference count and the cancel function only when it is the step
   that finishes the script *)
Lemma sstep_effect cfg p s c ss c' ss' e :
  sstep cfg p s c ss = (c', ss', e) ->
  match e with
  | Finished => retain cfg = false /\ (exists v, ph ss = Ending v SCleanup /\ ph ss' = Done v)
  | NoEffect => is_done ss' = is_done ss \/ retain cfg = true
  end.
Proof.
  unfold sstep. intro H. destruct (ph ss) as [|pc|v st|v|] eqn:Eph.
  - destruct (setup_result cfg p); [destruct (setup_err p)|]; injection H as <- <- <-; left; unfold is_done; cbn; now rewrite Eph.
  - destruct (nth_error (body p) pc).
    + destruct (exec_action cfg s c ss a) as [[c1 ss1] o]. injection H as <- <- <-. left.
      unfold is_done. rewrite Eph. destruct o; [| destruct (continue_on_error cfg) | | | | | |]; reflexivity.
    + injection H as <- <- <-. left. unfold is_done. cbn. now rewrite Eph.
  - destruct st; try (injection H as <- <- <-; left; unfold is_done; cbn; now rewrite Eph).
    destruct (retain cfg) eqn:Er; injection H as <- <- <-; [now right|].
    split; [reflexivity|]. exists v. now split.
  - injection H as <- <- <-. now left.
  - injection H as <- <- <-. now left.
Qed.

Lemma step_shared_frame cfg progs st s :
  let st' := step cfg progs st s in
  (forall ss ss', nth_error (scripts st) s = Some ss -> nth_error (scripts st') s = Some ss' ->
                  is_done ss' = is_done ss) ->
  retain cfg = false ->
  root_present (sh st') = root_present (sh st) /\ refcount (sh st') = refcount (sh st)
  /\ cancelled (sh st') = cancelled (sh st) /\ root_removals (sh st') = root_removals (sh st).
Proof.
  cbn zeta. unfold step. destruct (nth_error progs s) as [p|]; [|tauto].
  destruct (nth_error (scripts st) s) as [ss|] eqn:Es; [|tauto].
  destruct (sstep cfg p s (xcache (sh st)) ss) as [[c ss'] e] eqn:E. cbn [scripts sh].
  intros H Hr. pose proof (sstep_effect _ _ _ _ _ _ _ _ E) as Ef. destruct e; cbn [apply_effect]; [tauto|].
  destruct Ef as (_ & v & E1 & E2).
  specialize (H ss ss' eq_refl (nth_error_upd_same _ _ _ _ Es)). unfold is_done in H. rewrite E1, E2 in H. discriminate.
Qed.

(* ------------------------------------------------------------------ every reachable batch state *)

Definition all_sinv (cfg : config) (progs : list script) (st : bstate) : Prop :=
  length (scripts st) = length progs /\
  forall s p ss, nth_error progs s = Some p -> nth_error (scripts st) s = Some ss -> sinv cfg p s ss.

Lemma nth_error_map_const {A B} (l : list A) (b : B) i x :
  nth_error (map (fun _ => b) l) i = Some x -> x = b.
Proof. revert i. induction l as [|a l IH]; intros [|i] H; cbn in H; try discriminate; [congruence | eauto]. Qed.

Lemma init_all_sinv cfg progs : all_sinv cfg progs (init progs).
Proof.
  split; [apply map_length|]. intros s p ss Hp Hs. cbn in Hs.
  apply nth_error_map_const in Hs. subst. apply sinv_init.
Qed.

Lemma step_all_sinv cfg progs st s : all_sinv cfg progs st -> all_sinv cfg progs (step cfg progs st s).
Proof.
  intros [L H]. split; [now rewrite step_length|].
  intros s' p ss Hp Hs. destruct (Nat.eq_dec s s') as [<-|Hne].
  - unfold step in Hs. rewrite Hp in Hs. destruct (nth_error (scripts st) s) as [ss0|] eqn:E0; [|eauto].
    destruct (sstep cfg p s (xcache (sh st)) ss0) as [[c ss'] e] eqn:E. cbn [scripts] in Hs.
    rewrite (nth_error_upd_same _ _ _ _ E0) in Hs. injection Hs as <-.
    eapply sstep_sinv; eauto.
  - rewrite step_frame in Hs by assumption. eauto.
Qed.

Lemma run_all_sinv cfg progs sched : forall st, all_sinv cfg progs st -> all_sinv cfg progs (run cfg progs st sched).
Proof.
  unfold run. induction sched as [|s sched IH]; intros st H; [exact H|]. cbn [fold_left]. apply IH. now apply step_all_sinv.
Qed.

(* ---- reference count and root *)

Lemma not_done_count_upd_same l s ss ss' :
  nth_error l s = Some ss -> is_done ss' = is_done ss -> not_done_count (upd l s ss') = not_done_count l.
Proof.
  unfold not_done_count. revert s. induction l as [|a l IH]; intros [|s] H E; cbn in H; try discriminate.
  - injection H as ->. cbn [upd filter]. rewrite E. destruct (negb (is_done ss)); reflexivity.
  - cbn [upd filter]. destruct (negb (is_done a)); cbn [length]; rewrite (IH s H E); reflexivity.
Qed.

Lemma not_done_count_upd_finish l s ss ss' :
  nth_error l s = Some ss -> is_done ss = false -> is_done ss' = true ->
  not_done_count l = S (not_done_count (upd l s ss')).
Proof.
  unfold not_done_count. revert s. induction l as [|a l IH]; intros [|s] H E E'; cbn in H; try discriminate.
  - injection H as ->. cbn [upd filter]. now rewrite E, E'.
  - cbn [upd filter]. destruct (negb (is_done a)); cbn [length]; rewrite (IH s H E E'); reflexivity.
Qed.

Lemma not_done_count_zero l : not_done_count l = 0 <-> forallb is_done l = true.
Proof.
  unfold not_done_count. induction l as [|a l IH]; cbn [filter forallb]; [tauto|].
  destruct (is_done a); cbn [negb andb length]; [exact IH|]. split; discriminate.
Qed.

Lemma not_done_count_init (progs : list script) : not_done_count (map (fun _ => sstate0) progs) = length progs.
Proof. unfold not_done_count. induction progs as [|a l IH]; [reflexivity|]. cbn. now rewrite IH. Qed.

Definition rc_inv (cfg : config) (st : bstate) : Prop :=
  refcount (sh st) = not_done_count (scripts st) /\
  (if Nat.eqb (refcount (sh st)) 0
   then root_present (sh st) = false /\ root_removals (sh st) = 1 /\ cancelled (sh st) = has_cancel cfg
   else root_present (sh st) = true /\ root_removals (sh st) = 0 /\ cancelled (sh st) = false).

Lemma rc_inv_init cfg progs : progs <> [] -> rc_inv cfg (init progs).
Proof.
  intro H. unfold rc_inv, init. cbn [sh scripts refcount root_present root_removals cancelled].
  rewrite not_done_count_init. split; [reflexivity|]. destruct progs; [contradiction|]. cbn. auto.
Qed.

Lemma rc_inv_step cfg progs st s : retain cfg = false -> rc_inv cfg st -> rc_inv cfg (step cfg progs st s).
Proof.
  intros Hr [R1 R2]. unfold step. destruct (nth_error progs s) as [p|]; [|now split].
  destruct (nth_error (scripts st) s) as [ss|] eqn:Es; [|now split].
  destruct (sstep cfg p s (xcache (sh st)) ss) as [[c ss'] e] eqn:E.
  pose proof (sstep_effect _ _ _ _ _ _ _ _ E) as Ef. unfold rc_inv. cbn [sh scripts].
  destruct e; cbn [apply_effect].
  - destruct Ef as [Ef|Ef]; [|congruence]. cbn [refcount root_present root_removals cancelled].
    rewrite (not_done_count_upd_same _ _ _ _ Es Ef). now split.
  - destruct Ef as (_ & v & E1 & E2).
    assert (D0 : is_done ss = false) by (unfold is_done; now rewrite E1).
    assert (D1 : is_done ss' = true) by (unfold is_done; now rewrite E2).
    pose proof (not_done_count_upd_finish _ _ _ _ Es D0 D1) as N.
    assert (Hrc : pred (refcount (sh st)) = not_done_count (upd (scripts st) s ss')) by (rewrite R1, N; reflexivity).
    destruct (Nat.eqb (pred (refcount (sh st))) 0) eqn:Ez; cbn [refcount root_present root_removals cancelled]; rewrite Ez.
    + split; [exact Hrc|]. destruct (Nat.eqb (refcount (sh st)) 0) eqn:Ez0.
      * apply Nat.eqb_eq in Ez0. rewrite R1, N in Ez0. discriminate.
      * destruct R2 as (_ & -> & _). auto.
    + split; [exact Hrc|]. destruct (Nat.eqb (refcount (sh st)) 0) eqn:Ez0; [|exact R2].
      apply Nat.eqb_eq in Ez0. rewrite Ez0 in Ez. discriminate.
Qed.

Lemma rc_inv_run cfg progs sched : retain cfg = false -> forall st, rc_inv cfg st -> rc_inv cfg (run cfg progs st sched).
Proof.
  intro Hr. unfold run. induction sched as [|s sched IH]; intros st H; [exact H|]. cbn [fold_left]. apply IH. now apply rc_inv_step.
Qed.

(* with retention the root, the count and the cancel function are never touched *)
Definition keep_inv (st : bstate) : Prop :=
  root_present (sh st) = true /\ root_removals (sh st) = 0 /\ cancelled (sh st) = false.

Lemma keep_inv_step cfg progs st s : retain cfg = true -> keep_inv st -> keep_inv (step cfg progs st s).
Proof.
  intros Hr K. unfold step. destruct (nth_error progs s) as [p|]; [|exact K].
  destruct (nth_error (scripts st) s) as [ss|] eqn:Es; [|exact K].
  destruct (sstep cfg p s (xcache (sh st)) ss) as [[c ss'] e] eqn:E.
  pose proof (sstep_effect _ _ _ _ _ _ _ _ E) as Ef. destruct e.
  - exact K.
  - destruct Ef as [Ef _]. congruence.
Qed.

Lemma keep_inv_run cfg progs sched : retain cfg = true -> forall st, keep_inv st -> keep_inv (run cfg progs st sched).
Proof.
  intro Hr. unfold run. induction sched as [|s sched IH]; intros st H; [exact H|]. cbn [fold_left]. apply IH. now apply keep_inv_step.
Qed.

(* ------------------------------------------------------------------ interleavings do not matter *)

Definition owner_ok (s : nat) (v : value) : Prop :=
  match value_owner v with None => True | Some o => o = s end.
Definition env_ok (s : nat) (e : env) : Prop := Forall (fun kv => owner_ok s (snd kv)) e.
(* what Params.Setup adds refers to no other script's work directory *)
Definition wf_script (s : nat) (p : script) : Prop := env_ok s (setup_adds p).

Lemma env_get_first_ok s e k v : env_ok s e -> env_get_first e k = Some v -> owner_ok s v.
Proof.
  induction e as [|[n w] e IH]; intros H G; cbn [env_get_first] in G; [discriminate|].
  inversion H as [|? ? H1 H2]; subst. destruct (bytes_eqb n k); [injection G as <-; exact H1 | now apply IH].
Qed.

Lemma env_get_ok s e k v : env_ok s e -> env_get e k = Some v -> owner_ok s v.
Proof. intros H. apply env_get_first_ok. unfold env_ok in *. now apply Forall_rev. Qed.

Lemma path_value_ok s e : env_ok s e -> owner_ok s (path_value e).
Proof.
  intro H. unfold path_value. destruct (env_get e PATH) eqn:E; [eapply env_get_ok; eauto | exact I].
Qed.

Lemma initial_env_ok h s adds : env_ok s adds -> env_ok s (initial_env h s adds).
Proof.
  intro H. unfold initial_env, env_ok. rewrite !Forall_app. repeat split; try exact H.
  - unfold resolve_all. apply Forall_map. apply Forall_forall. intros [n src] _. cbn. destruct src; cbn; auto. 
  - unfold passthrough. apply Forall_forall. intros x Hx. apply in_flat_map in Hx as (n & _ & Hx).
    destruct (host_get h n); [destruct Hx|]. destruct Hx as [<-|[]]. exact I.
  - unfold resolve_all. apply Forall_map. apply Forall_forall. intros [n src] _. cbn. destruct src; cbn; auto.
Qed.

Lemma base_env_ok h s : env_ok s (base_env h s).
Proof.
  pose proof (initial_env_ok h s [] (Forall_nil _)) as H. unfold initial_env in H.
  unfold base_env. unfold env_ok in *. rewrite !Forall_app in *. tauto.
Qed.

Lemma keep_env_ok s keep e : env_ok s e -> env_ok s (keep_env keep e).
Proof.
  intro H. destruct keep as [l|]; [|exact H]. unfold keep_env, env_ok in *.
  apply Forall_forall. intros x Hx. apply filter_In in Hx as [Hx _]. revert x Hx. now apply Forall_forall.
Qed.

Lemma setup_env_ok h s keep adds : env_ok s adds -> env_ok s (setup_env h s keep adds).
Proof.
  intro H. unfold setup_env, env_ok. apply Forall_app. split; [|exact H].
  apply keep_env_ok, base_env_ok.
Qed.

Lemma setup_env_none h s adds : setup_env h s None adds = initial_env h s adds.
Proof. unfold setup_env, keep_env, base_env, initial_env. now rewrite <- !app_assoc. Qed.

Definition key_lit (k : ckey) : Prop := exists b, fst k = Some (VLit b).
Definition usable (s : nat) (k : ckey) : Prop := exists pv, fst k = Some pv /\ owner_ok s pv.
Definition hostval (cfg : config) (k : ckey) : bool :=
  match fst k with Some (VLit b) => hosttab_get (hosttab cfg) b (snd k) | _ => false end.

(* the shared cache [cb] against the cache [ca] the script would have had alone *)
Definition Rel (cfg : config) (s : nat) (cb ca : cache) : Prop :=
  forall k, usable s k ->
    (forall v, cache_get ca k = Some v -> cache_get cb k = Some v) /\
    (forall v, cache_get cb k = Some v ->
               cache_get ca k = Some v \/ (cache_get ca k = None /\ key_lit k /\ v = hostval cfg k)).
Definition Glob (cfg : config) (cb : cache) : Prop :=
  forall k v, cache_get cb k = Some v -> key_lit k -> v = hostval cfg k.

Lemma usable_two s s' k : s <> s' -> usable s k -> usable s' k -> key_lit k.
Proof.
  intros Hne (pv & E & O) (pv' & E' & O'). rewrite E in E'. injection E' as <-.
  unfold owner_ok in *. destruct pv as [b|o sub|o sub rest]; cbn in *; [now exists b| |]; congruence.
Qed.

Lemma look_lit cfg s t b prog : look cfg s t (VLit b) prog = hostval cfg (Some (VLit b), prog).
Proof. reflexivity. Qed.

Lemma ckey_eqb_refl k : ckey_eqb k k = true.
Proof. now apply ckey_eqb_eq. Qed.

Lemma cached_look_sim cfg s cb ca ss prog vb cb' va ca' :
  key_by_path cfg = true -> Rel cfg s cb ca -> Glob cfg cb -> env_ok s (senv ss) ->
  cached_look cfg s cb ss prog = (vb, cb') -> cached_look cfg s ca ss prog = (va, ca') ->
  vb = va /\ Rel cfg s cb' ca' /\ Glob cfg cb' /\
  (forall s' ca2, s' <> s -> Rel cfg s' cb ca2 -> Rel cfg s' cb' ca2).
Proof.
  intros Hk R G E Hb Ha. unfold cached_look in *. rewrite Hk in *.
  set (pv := path_value (senv ss)) in *. set (k := (Some pv, prog) : ckey) in *.
  assert (U : usable s k) by (exists pv; split; [reflexivity | now apply path_value_ok]).
  destruct (R k U) as [R1 R2].
  destruct (cache_get cb k) as [v|] eqn:Ecb.
  - injection Hb as <- <-. destruct (R2 v eq_refl) as [Eca|(Eca & [b Hl] & Hv)].
    + rewrite Eca in Ha. injection Ha as <- <-. split; [reflexivity|]. split; [exact R|]. split; [exact G|]. auto.
    + rewrite Eca in Ha. injection Ha as <- <-.
      cbn [fst] in Hl. injection Hl as Hl. rewrite Hl, look_lit. fold pv in Hl.
      assert (Hv' : v = hostval cfg (Some (VLit b), prog)) by (rewrite Hv; unfold k; now rewrite Hl).
      split; [exact Hv'|]. split; [|split; [exact G | auto]].
      intros k2 U2. rewrite cache_get_cons. destruct (ckey_eqb k k2) eqn:Ek.
      * apply ckey_eqb_eq in Ek. subst k2. split.
        -- intros v2 Hv2. injection Hv2 as <-. rewrite <- Hv'. exact Ecb.
        -- intros v2 Hv2. left. rewrite Ecb in Hv2. rewrite <- Hv'. exact Hv2.
      * exact (R k2 U2).
  - assert (Eca : cache_get ca k = None).
    { destruct (cache_get ca k) as [v|] eqn:Eca; [|reflexivity]. specialize (R1 v eq_refl). discriminate. }
    rewrite Eca in Ha. injection Hb as <- <-. injection Ha as <- <-.
    split; [reflexivity|]. split; [|split].
    + intros k2 U2. rewrite !cache_get_cons. destruct (ckey_eqb k k2) eqn:Ek.
      * split; intros v2 Hv2; [exact Hv2 | now left].
      * exact (R k2 U2).
    + intros k2 v2. rewrite cache_get_cons. destruct (ckey_eqb k k2) eqn:Ek; [|apply G].
      apply ckey_eqb_eq in Ek. subst k2. intros Hv2 [b Hl]. injection Hv2 as <-.
      cbn [fst] in Hl. injection Hl as Hl. unfold k. rewrite Hl. apply look_lit.
    + intros s' ca2 Hne R' k2 U2. rewrite cache_get_cons. destruct (ckey_eqb k k2) eqn:Ek; [|exact (R' k2 U2)].
      apply ckey_eqb_eq in Ek. subst k2. destruct (R' k U2) as [R1' R2'].
      assert (Eca2 : cache_get ca2 k = None).
      { destruct (cache_get ca2 k) as [v|] eqn:Eca2; [|reflexivity]. specialize (R1' v eq_refl). rewrite Ecb in R1'. discriminate. }
      split.
      * intros v2 Hv2. rewrite Eca2 in Hv2. discriminate.
      * intros v2 Hv2. injection Hv2 as <-. right. split; [exact Eca2|].
        pose proof (usable_two s' s k Hne U2 U) as Hlit. split; [exact Hlit|].
        destruct Hlit as [b Hl]. cbn [fst] in Hl. injection Hl as Hl. unfold k. rewrite Hl. apply look_lit.
Qed.

Lemma exec_action_env_ok cfg s a : forall c ss c' ss' o,
  exec_action cfg s c ss a = (c', ss', o) -> env_ok s (senv ss) -> env_ok s (senv ss').
Proof.
  induction a as [p d|p ro|p|p|k v|sub keep|id bad|h neg| | | | | | | | |xneg xprog|lp ltg|rp|neg prog a IH| |]; intros c ss c' ss' o H E;
    cbn [exec_action] in H.
  - destruct (write_file _ _ _ _); injection H as <- <- <-; exact E.
  - destruct (mkdir_all _ _ _); injection H as <- <- <-; exact E.
  - destruct (cwd ss ++ p); [injection H as <- <- <-; exact E|].
    destruct (tree_get _ _) as [[?|? ?|?]|]; injection H as <- <- <-; exact E.
  - destruct (get_node _ _) as [[?|? ?|?]|]; injection H as <- <- <-; exact E.
  - injection H as <- <- <-. cbn [set_env senv]. apply Forall_app. split; [exact E|]. constructor; [exact I|constructor].
  - injection H as <- <- <-. cbn [set_env senv]. apply Forall_app. split; [exact E|]. constructor; [reflexivity|constructor].
  - injection H as <- <- <-. exact E.
  - destruct (bg_by_path h || look _ _ _ _ _); injection H as <- <- <-; exact E.
  - injection H as <- <- <-. exact E.
  - injection H as <- <- <-. exact E.
  - destruct (skip_wait (bgl ss)) as [waited ok]. destruct ok; injection H as <- <- <-; exact E.
  - injection H as <- <- <-. exact E.
  - injection H as <- <- <-. exact E.
  - injection H as <- <- <-. exact E.
  - destruct (skip_wait (bgl ss)) as [waited ok]. destruct ok; injection H as <- <- <-; exact E.
  - destruct (wait_list _ _) as [waited res]. destruct res; injection H as <- <- <-; exact E.
  - destruct (look _ _ _ _ _); injection H as <- <- <-; exact E.
  - destruct (symlink_at _ _ _ _); injection H as <- <- <-; exact E.
  - destruct (rm_path _ _ _); injection H as <- <- <-; exact E.
  - destruct (cached_look cfg s c ss prog) as [ans c1]. destruct (Bool.eqb ans (negb neg)).
    + eapply IH; eauto.
    + injection H as <- <- <-. exact E.
  - injection H as <- <- <-. exact E.
  - injection H as <- <- <-. exact E.
Qed.

(* a line without [exec:...] neither reads nor writes the cache *)
Lemma exec_action_nocond cfg s a : uses_cond a = false ->
  forall c1 c2 ss, exec_action cfg s c2 ss a =
                   (c2, snd (fst (exec_action cfg s c1 ss a)), snd (exec_action cfg s c1 ss a))
                   /\ fst (fst (exec_action cfg s c1 ss a)) = c1.
Proof.
  intros H c1 c2 ss. destruct a; try discriminate; cbn [exec_action];
    repeat match goal with
           | |- context [match ?x with _ => _ end] => destruct x
           end; split; reflexivity.
Qed.

Definition frame_others (cfg : config) (s : nat) (cb cb' : cache) : Prop :=
  forall s' ca2, s' <> s -> Rel cfg s' cb ca2 -> Rel cfg s' cb' ca2.

Lemma exec_action_sim cfg s a : key_by_path cfg = true ->
  forall cb ca ss cb' ssb ob ca' ssa oa,
  Rel cfg s cb ca -> Glob cfg cb -> env_ok s (senv ss) ->
  exec_action cfg s cb ss a = (cb', ssb, ob) -> exec_action cfg s ca ss a = (ca', ssa, oa) ->
  ssb = ssa /\ ob = oa /\ Rel cfg s cb' ca' /\ Glob cfg cb' /\ frame_others cfg s cb cb'.
Proof.
  intro Hk. induction a as [p d|p ro|p|p|k v|sub keep|id bad|h neg| | | | | | | | |xneg xprog|lp ltg|rp|neg prog a IH| |];
    intros cb ca ss cb' ssb ob ca' ssa oa R G E Hb Ha.
  20: {
    cbn [exec_action] in Hb, Ha.
    destruct (cached_look cfg s cb ss prog) as [vb cb1] eqn:Eb.
    destruct (cached_look cfg s ca ss prog) as [va ca1] eqn:Ea.
    destruct (cached_look_sim _ _ _ _ _ _ _ _ _ _ Hk R G E Eb Ea) as (-> & R1 & G1 & F1).
    destruct (Bool.eqb va (negb neg)).
    - assert (E1 : env_ok s (senv (add_obs ss [EvCond prog va]))) by exact E.
      destruct (IH _ _ _ _ _ _ _ _ _ R1 G1 E1 Hb Ha) as (-> & -> & R2 & G2 & F2).
      split; [reflexivity|]. split; [reflexivity|]. split; [exact R2|]. split; [exact G2|].
      intros s' ca2 Hne R'. apply F2; [assumption|]. now apply F1.
    - injection Hb as <- <- <-. injection Ha as <- <- <-.
      split; [reflexivity|]. split; [reflexivity|]. split; [exact R1|]. split; [exact G1|]. exact F1. }
  all: match goal with |- _ => idtac end.
  all: (match type of Hb with exec_action _ _ _ _ ?a = _ =>
          destruct (exec_action_nocond cfg s a eq_refl ca cb ss) as [X1 X2];
          destruct (exec_action_nocond cfg s a eq_refl ca ca ss) as [Y1 Y2] end);
       rewrite X1 in Hb; rewrite Y1 in Ha; injection Hb as <- <- <-; injection Ha as <- <- <-;
       (split; [reflexivity|]); (split; [reflexivity|]); (split; [exact R|]); (split; [exact G|]);
       intros s' ca2 _ R'; exact R'.
Qed.

Lemma frame_others_refl cfg s c : frame_others cfg s c c.
Proof. intros s' ca2 _ R. exact R. Qed.

Lemma sstep_sim cfg p s cb ca ss cb' ssb eb ca' ssa ea :
  key_by_path cfg = true -> wf_script s p ->
  Rel cfg s cb ca -> Glob cfg cb -> env_ok s (senv ss) ->
  sstep cfg p s cb ss = (cb', ssb, eb) -> sstep cfg p s ca ss = (ca', ssa, ea) ->
  ssb = ssa /\ Rel cfg s cb' ca' /\ Glob cfg cb' /\ env_ok s (senv ssb) /\ frame_others cfg s cb cb'.
Proof.
  intros Hk Hwf R G E Hb Ha. unfold sstep in Hb, Ha.
  destruct (ph ss) as [|pc|v st|v|].
  - destruct (setup_result cfg p) as [t|].
    + destruct (setup_err p); injection Hb as <- <- <-; injection Ha as <- <- <-;
        (split; [reflexivity|]); (split; [exact R|]); (split; [exact G|]);
        (split; [cbn; now apply setup_env_ok | apply frame_others_refl]).
    + injection Hb as <- <- <-; injection Ha as <- <- <-.
      split; [reflexivity|]. split; [exact R|]. split; [exact G|]. split; [constructor | apply frame_others_refl].
  - destruct (nth_error (body p) pc) as [a|].
    + destruct (exec_action cfg s cb ss a) as [[cb1 ssb1] ob] eqn:Eb.
      destruct (exec_action cfg s ca ss a) as [[ca1 ssa1] oa] eqn:Ea.
      destruct (exec_action_sim cfg s a Hk _ _ _ _ _ _ _ _ _ R G E Eb Ea) as (-> & -> & R1 & G1 & F1).
      injection Hb as <- <- <-; injection Ha as <- <- <-.
      split; [reflexivity|]. split; [exact R1|]. split; [exact G1|]. split; [|exact F1].
      assert (E1 : env_ok s (senv ssa1)) by (eapply exec_action_env_ok; eauto).
      destruct oa; [| destruct (continue_on_error cfg) | | | | | |]; exact E1.
    + injection Hb as <- <- <-; injection Ha as <- <- <-.
      split; [reflexivity|]. split; [exact R|]. split; [exact G|]. split; [exact E | apply frame_others_refl].
  - destruct st; try (injection Hb as <- <- <-; injection Ha as <- <- <-;
        (split; [reflexivity|]); (split; [exact R|]); (split; [exact G|]); (split; [exact E | apply frame_others_refl])).
    destruct (retain cfg); injection Hb as <- <- <-; injection Ha as <- <- <-;
        (split; [reflexivity|]); (split; [exact R|]); (split; [exact G|]); (split; [exact E | apply frame_others_refl]).
  - injection Hb as <- <- <-; injection Ha as <- <- <-.
    split; [reflexivity|]. split; [exact R|]. split; [exact G|]. split; [exact E | apply frame_others_refl].
  - injection Hb as <- <- <-; injection Ha as <- <- <-.
    split; [reflexivity|]. split; [exact R|]. split; [exact G|]. split; [exact E | apply frame_others_refl].
Qed.

(* the batch against every script's solitary run *)
Definition Sim (cfg : config) (progs : list script) (st : bstate) (k : nat -> nat) : Prop :=
  Glob cfg (xcache (sh st)) /\
  forall s p, nth_error progs s = Some p ->
    exists ss, nth_error (scripts st) s = Some ss /\ snd (alone cfg p s (k s)) = ss /\
               Rel cfg s (xcache (sh st)) (fst (alone cfg p s (k s))) /\ env_ok s (senv ss).

Lemma Rel_nil cfg s : Rel cfg s [] [].
Proof. intros k _. split; intros v H; discriminate. Qed.

Lemma nth_error_map_const_some {A B} (l : list A) (b : B) i a :
  nth_error l i = Some a -> nth_error (map (fun _ => b) l) i = Some b.
Proof. revert i. induction l as [|x l IH]; intros [|i] H; cbn in *; try discriminate; [reflexivity | eauto]. Qed.

Lemma Sim_init cfg progs : Sim cfg progs (init progs) (fun _ => 0).
Proof.
  split; [intros k v H; discriminate|]. intros s p Hp. exists sstate0. cbn.
  split; [eapply nth_error_map_const_some; eauto|]. split; [reflexivity|]. split; [apply Rel_nil | constructor].
Qed.

Lemma apply_effect_cache cfg h c e : xcache (apply_effect cfg h c e) = c.
Proof. destruct e; cbn [apply_effect]; [reflexivity|]. now destruct (Nat.eqb _ _). Qed.

Lemma Sim_step cfg progs st k s0 :
  key_by_path cfg = true -> (forall s p, nth_error progs s = Some p -> wf_script s p) ->
  Sim cfg progs st k -> Sim cfg progs (step cfg progs st s0) (fun s => if Nat.eqb s s0 then S (k s) else k s).
Proof.
  intros Hk Hwf [G H]. unfold step.
  destruct (nth_error progs s0) as [p0|] eqn:Ep0.
  2:{ split; [exact G|]. intros s p Hp. destruct (Nat.eqb s s0) eqn:E; [apply Nat.eqb_eq in E; congruence | now apply H]. }
  destruct (H s0 p0 Ep0) as (ss0 & Es0 & A0 & R0 & E0). rewrite Es0.
  destruct (sstep cfg p0 s0 (xcache (sh st)) ss0) as [[cb' ssb] eb] eqn:Eb.
  destruct (sstep cfg p0 s0 (fst (alone cfg p0 s0 (k s0))) ss0) as [[ca' ssa] ea] eqn:Ea.
  destruct (sstep_sim _ _ _ _ _ _ _ _ _ _ _ _ Hk (Hwf _ _ Ep0) R0 G E0 Eb Ea) as (<- & R1 & G1 & E1 & F1).
  unfold Sim. cbn [sh scripts]. rewrite apply_effect_cache. split; [exact G1|].
  intros s p Hp. destruct (Nat.eqb s s0) eqn:E.
  - apply Nat.eqb_eq in E. subst s. rewrite Ep0 in Hp. injection Hp as <-.
    exists ssb. split; [eapply nth_error_upd_same; eauto|].
    cbn [alone]. destruct (alone cfg p0 s0 (k s0)) as [ca ssx] eqn:Eal. cbn [fst snd] in *. subst ssx.
    rewrite Ea. cbn [fst snd]. auto.
  - apply Nat.eqb_neq in E. destruct (H s p Hp) as (ss & Es & A & R & Ee).
    exists ss. split; [rewrite nth_error_upd_other by congruence; exact Es|].
    split; [exact A|]. split; [apply F1; assumption | exact Ee].
Qed.

Lemma Sim_run cfg progs sched :
  key_by_path cfg = true -> (forall s p, nth_error progs s = Some p -> wf_script s p) ->
  forall st k, Sim cfg progs st k ->
  Sim cfg progs (run cfg progs st sched) (fun s => k s + count_occ Nat.eq_dec sched s).
Proof.
  intros Hk Hwf. unfold run. induction sched as [|s0 sched IH]; intros st k H.
  - cbn [fold_left count_occ]. destruct H as [G H]. split; [exact G|]. intros s p Hp. rewrite Nat.add_0_r. now apply H.
  - cbn [fold_left]. pose proof (IH _ _ (Sim_step _ _ _ _ s0 Hk Hwf H)) as [G' H']. split; [exact G'|].
    intros s p Hp. destruct (H' s p Hp) as (ss & Es & A & R & E). exists ss.
    assert (Q : (if Nat.eqb s s0 then S (k s) else k s) + count_occ Nat.eq_dec sched s = k s + count_occ Nat.eq_dec (s0 :: sched) s).
    { cbn [count_occ]. destruct (Nat.eq_dec s0 s) as [->|Hne].
      - rewrite Nat.eqb_refl. lia.
      - destruct (Nat.eqb s s0) eqn:E'; [apply Nat.eqb_eq in E'; congruence | reflexivity]. }
    rewrite <- Q. auto.
Qed.

(* Under any schedule every script is, after its k-th own step, exactly where it is after k steps
   run alone: verdict, directory, environment, files, deferred functions, background processes and
   everything it has observed. *)
Lemma interleaving_irrelevant cfg progs sched s p :
  key_by_path cfg = true -> (forall s p, nth_error progs s = Some p -> wf_script s p) ->
  nth_error progs s = Some p ->
  nth_error (scripts (run cfg progs (init progs) sched)) s
  = Some (snd (alone cfg p s (count_occ Nat.eq_dec sched s))).
Proof.
  intros Hk Hwf Hp. destruct (Sim_run cfg progs sched Hk Hwf _ _ (Sim_init cfg progs)) as [_ H].
  destruct (H s p Hp) as (ss & Es & A & _). cbn [Nat.add] in A. now rewrite Es, A.
Qed.

(* ---- scripts without [exec:...] conditions: whatever the key of the cache *)

Lemma sstep_nocond cfg p s : script_uses_cond p = false ->
  forall c1 c2 ss, snd (fst (sstep cfg p s c1 ss)) = snd (fst (sstep cfg p s c2 ss)).
Proof.
  intros H c1 c2 ss. unfold sstep. destruct (ph ss) as [|pc|v st|v|].
  - destruct (setup_result cfg p); [destruct (setup_err p)|]; reflexivity.
  - destruct (nth_error (body p) pc) as [a|] eqn:Ea; [|reflexivity].
    assert (Ha : uses_cond a = false).
    { unfold script_uses_cond in H. destruct (uses_cond a) eqn:E; [|reflexivity].
      assert (X : existsb uses_cond (body p) = true) by (apply existsb_exists; exists a; split; [eapply nth_error_In; eauto | exact E]).
      congruence. }
    destruct (exec_action_nocond cfg s a Ha c1 c2 ss) as [X _]. rewrite X.
    destruct (exec_action cfg s c1 ss a) as [[c ss1] o]. reflexivity.
  - destruct st; try reflexivity. destruct (retain cfg); reflexivity.
  - reflexivity.
  - reflexivity.
Qed.

Lemma interleaving_irrelevant_nocond cfg progs sched s p :
  nth_error progs s = Some p -> script_uses_cond p = false ->
  nth_error (scripts (run cfg progs (init progs) sched)) s
  = Some (snd (alone cfg p s (count_occ Nat.eq_dec sched s))).
Proof.
  intros Hp Hn.
  assert (G : forall sched st k, nth_error (scripts st) s = Some (snd (alone cfg p s k)) ->
              nth_error (scripts (run cfg progs st sched)) s = Some (snd (alone cfg p s (k + count_occ Nat.eq_dec sched s)))).
  { clear sched. unfold run. induction sched as [|s0 sched IH]; intros st k H.
    - cbn [fold_left count_occ]. now rewrite Nat.add_0_r.
    - cbn [fold_left count_occ]. destruct (Nat.eq_dec s0 s) as [->|Hne].
      + replace (k + S (count_occ Nat.eq_dec sched s)) with (S k + count_occ Nat.eq_dec sched s) by lia.
        apply IH. unfold step. rewrite Hp, H.
        destruct (sstep cfg p s (xcache (sh st)) (snd (alone cfg p s k))) as [[c ss'] e] eqn:E. cbn [scripts].
        rewrite (nth_error_upd_same _ _ _ _ H). f_equal. cbn [alone].
        destruct (alone cfg p s k) as [ca ssa]. cbn [snd] in *.
        pose proof (sstep_nocond cfg p s Hn (xcache (sh st)) ca ssa) as X. rewrite E in X. cbn [fst snd] in X.
        destruct (sstep cfg p s ca ssa) as [[c2 ss2] e2]. cbn [fst snd] in *. now subst.
      + apply IH. now rewrite step_frame. }
  apply (G sched (init progs) 0). cbn. eapply nth_error_map_const_some; eauto.
Qed.

(* ---- with the key the cache had before the repair (program name only) the statement is false *)

Definition b_bin : name := [x62; x69; x6e].
Definition b_tool : name := [x6d; x79; x74; x6f; x6f; x6c].
Definition cfg_prog_key : config :=
  {| retain := false; key_by_path := false; names_see_env := true; names_contained := true; empty_cleans := true; continue_on_error := false; has_cancel := false; pwd_appended := true; precancel_guarded := true; is_root := true;
     hostenv := [(PATH, [x2f; x75; x73; x72; x2f; x62; x69; x6e])]; hosttab := []; helper := [x68] |}.
(* A: chmod 755 bin/mytool; env PATH=$WORK/bin; [exec:mytool] stop; then a failing line.
   B: [exec:mytool] then a failing line (mytool is not on the host PATH). *)
Definition script_A : script :=
  {| archive := [([b_bin; b_tool], [])]; work_named := []; escaping_at := None; setup_keep := None; setup_adds := []; setup_defers := []; setup_err := false;
     body := [AChmodX [b_bin; b_tool]; ASetPathOwn [b_bin] false; AIfExec false b_tool AStop; AFail] |}.
Definition script_B : script :=
  {| archive := []; work_named := []; escaping_at := None; setup_keep := None; setup_adds := []; setup_defers := []; setup_err := false;
     body := [AIfExec false b_tool AFail] |}.

Definition verdict_of (st : bstate) (s : nat) : option phase := option_map ph (nth_error (scripts st) s).

Lemma prog_key_order_dependent :
  let progs := [script_A; script_B] in
  let a_first := repeat 0 12 ++ repeat 1 12 in
  let b_first := repeat 1 12 ++ repeat 0 12 in
  verdict_of (run cfg_prog_key progs (init progs) a_first) 0 = Some (Done VStop) /\
  verdict_of (run cfg_prog_key progs (init progs) a_first) 1 = Some (Done VFail) /\
  verdict_of (run cfg_prog_key progs (init progs) b_first) 0 = Some (Done VFail) /\
  verdict_of (run cfg_prog_key progs (init progs) b_first) 1 = Some (Done VPass).
Proof. vm_compute. repeat split. Qed.

(* the same two scripts with the key that includes PATH: both orders agree with the solitary runs *)
Example path_key_order_independent :
  let cfg := {| retain := false; key_by_path := true; names_see_env := true; names_contained := true; empty_cleans := true; continue_on_error := false; has_cancel := false; pwd_appended := true; precancel_guarded := true; is_root := true;
                hostenv := hostenv cfg_prog_key; hosttab := []; helper := [x68] |} in
  let progs := [script_A; script_B] in
  let a_first := repeat 0 12 ++ repeat 1 12 in
  let b_first := repeat 1 12 ++ repeat 0 12 in
  verdict_of (run cfg progs (init progs) a_first) 0 = Some (Done VStop) /\
  verdict_of (run cfg progs (init progs) a_first) 1 = Some (Done VPass) /\
  verdict_of (run cfg progs (init progs) b_first) 0 = Some (Done VStop) /\
  verdict_of (run cfg progs (init progs) b_first) 1 = Some (Done VPass).
Proof. vm_compute. repeat split. Qed.

(* ------------------------------------------------------------------ every script finishes *)

Definition mu (p : script) (ss : sstate) : nat :=
  match ph ss with
  | NotStarted => length (body p) + 7
  | Running pc => (length (body p) - pc) + 6
  | Ending _ SInt => 5
  | Ending _ SWait => 4
  | Ending _ SDefers => 3
  | Ending _ SBgClean => 2
  | Ending _ SCleanup => 1
  | Done _ => 0
  | Stuck => 0
  end.

Lemma sstep_mu cfg p s c ss c' ss' e :
  sstep cfg p s c ss = (c', ss', e) -> mu p ss' <= pred (mu p ss).
Proof.
  unfold sstep, mu. intro H. destruct (ph ss) as [|pc|v st|v|] eqn:Eph.
  - destruct (setup_result cfg p); [destruct (setup_err p)|]; injection H as <- <- <-; cbn [ph set_ph]; lia.
  - destruct (nth_error (body p) pc) as [a|] eqn:Ea.
    + destruct (exec_action cfg s c ss a) as [[c1 ss1] o]. injection H as <- <- <-. cbn [ph set_ph].
      assert (pc < length (body p)) by (apply nth_error_Some; congruence).
      destruct o; [| destruct (continue_on_error cfg) | | | | | |]; cbn [ph set_ph set_failed]; lia.
    + injection H as <- <- <-. cbn [ph set_ph]. lia.
  - destruct st; try (injection H as <- <- <-; cbn [ph set_ph]; lia).
    destruct (retain cfg); injection H as <- <- <-; cbn [ph set_ph]; lia.
  - injection H as <- <- <-. rewrite Eph. lia.
  - injection H as <- <- <-. rewrite Eph. lia.
Qed.

Lemma mu_zero_done p ss : mu p ss = 0 -> is_done ss = true \/ ph ss = Stuck.
Proof. unfold mu, is_done. destruct (ph ss) as [|pc|v []|v|]; intro H; try lia; auto. Qed.

Lemma run_mu cfg progs s p : nth_error progs s = Some p ->
  forall sched st ss, nth_error (scripts st) s = Some ss ->
  exists ss', nth_error (scripts (run cfg progs st sched)) s = Some ss' /\ mu p ss' <= mu p ss - count_occ Nat.eq_dec sched s.
Proof.
  intro Hp. unfold run. induction sched as [|s0 sched IH]; intros st ss Hs.
  - exists ss. cbn. split; [exact Hs | lia].
  - cbn [fold_left count_occ]. destruct (Nat.eq_dec s0 s) as [->|Hne].
    + unfold step at 2. rewrite Hp, Hs. destruct (sstep cfg p s (xcache (sh st)) ss) as [[c ss1] e] eqn:E.
      pose proof (sstep_mu _ _ _ _ _ _ _ _ E) as M.
      destruct (IH {| sh := apply_effect cfg (sh st) c e; scripts := upd (scripts st) s ss1 |} ss1) as (ss' & Hs' & M').
      { cbn [scripts]. eapply nth_error_upd_same; eauto. }
      exists ss'. split; [exact Hs' | lia].
    + destruct (IH (step cfg progs st s0) ss) as (ss' & Hs' & M'); [now rewrite step_frame|].
      exists ss'. split; [exact Hs' | lia].
Qed.

(* whatever the others do, a script that has been given steps_bound steps is finished: no exit path of
   run can get stuck — except a script that executes a bare `wait` while one of its background commands
   is still running and has not been signalled: that one waits for ever (as the code does) *)
Lemma every_script_finishes cfg progs sched s p :
  nth_error progs s = Some p -> steps_bound p <= count_occ Nat.eq_dec sched s ->
  exists ss, nth_error (scripts (run cfg progs (init progs) sched)) s = Some ss /\ (is_done ss = true \/ ph ss = Stuck).
Proof.
  intros Hp Hb. destruct (run_mu cfg progs s p Hp sched (init progs) sstate0) as (ss & Hs & M).
  { cbn. eapply nth_error_map_const_some; eauto. }
  exists ss. split; [exact Hs|]. apply (mu_zero_done p). unfold steps_bound in Hb. unfold mu at 2 in M. cbn [ph sstate0] in M. lia.
Qed.

(* a script without a bare `wait` never gets stuck *)
Lemma exec_action_not_stuck cfg s a : has_wait a = false -> forall c ss, snd (exec_action cfg s c ss a) <> OStuck.
Proof.
  induction a as [p d|p ro|p|p|k v|sub keep|id bad|h neg| | | | | | | | |xneg xprog|lp ltg|rp|neg prog a IH| |]; intros Hw c ss;
    cbn [exec_action has_wait] in *; try discriminate;
    repeat match goal with
           | |- context [match ?x with _ => _ end] => destruct x
           end; cbn [snd]; try discriminate.
  all: try (apply IH; assumption).
Qed.

Lemma sstep_not_stuck cfg p s c ss :
  script_has_wait p = false -> ph ss <> Stuck -> ph (snd (fst (sstep cfg p s c ss))) <> Stuck.
Proof.
  intros Hw Hs. unfold sstep. destruct (ph ss) as [|pc|v st|v|] eqn:Eph; [| | | |contradiction].
  - destruct (setup_result cfg p); [destruct (setup_err p)|]; cbn; discriminate.
  - destruct (nth_error (body p) pc) as [a|] eqn:Ea; [|cbn; discriminate].
    assert (Ha : has_wait a = false).
    { unfold script_has_wait in Hw. destruct (has_wait a) eqn:E; [|reflexivity].
      assert (X : existsb has_wait (body p) = true) by (apply existsb_exists; exists a; split; [eapply nth_error_In; eauto | exact E]).
      congruence. }
    pose proof (exec_action_not_stuck cfg s a Ha c ss) as N.
    destruct (exec_action cfg s c ss a) as [[c1 ss1] o]. cbn [snd fst] in *.
    destruct o; [| destruct (continue_on_error cfg) | | | | | |]; cbn; try discriminate. contradiction.
  - destruct st; cbn; try discriminate. destruct (retain cfg); cbn; discriminate.
  - cbn. rewrite Eph. discriminate.
Qed.

Lemma never_stuck cfg progs sched s p : nth_error progs s = Some p -> script_has_wait p = false ->
  forall st ss, nth_error (scripts st) s = Some ss -> ph ss <> Stuck ->
  forall ss', nth_error (scripts (run cfg progs st sched)) s = Some ss' -> ph ss' <> Stuck.
Proof.
  intros Hp Hw. unfold run. induction sched as [|s0 sched IH]; intros st ss Hs Hn ss' Hs'.
  - cbn in Hs'. congruence.
  - cbn [fold_left] in Hs'. destruct (Nat.eq_dec s0 s) as [->|Hne].
    + unfold step at 2 in Hs'. rewrite Hp, Hs in Hs'.
      pose proof (sstep_not_stuck cfg p s (xcache (sh st)) ss Hw Hn) as N.
      destruct (sstep cfg p s (xcache (sh st)) ss) as [[c ss1] e]. cbn [fst snd] in N.
      refine (IH _ ss1 _ N ss' Hs'). cbn [scripts]. eapply nth_error_upd_same; eauto.
    + refine (IH (step cfg progs st s0) ss _ Hn ss' Hs'). now rewrite step_frame.
Qed.

Lemma every_script_without_bare_wait_finishes cfg progs sched s p :
  nth_error progs s = Some p -> script_has_wait p = false -> steps_bound p <= count_occ Nat.eq_dec sched s ->
  exists ss, nth_error (scripts (run cfg progs (init progs) sched)) s = Some ss /\ is_done ss = true.
Proof.
  intros Hp Hw Hb. destruct (every_script_finishes cfg progs sched s p Hp Hb) as (ss & Hs & [D|S]); [eauto|].
  exfalso. eapply (never_stuck cfg progs sched s p Hp Hw (init progs) sstate0); [| | exact Hs | exact S].
  - cbn. eapply nth_error_map_const_some; eauto.
  - discriminate.
Qed.

(* a script that has replaced its PATH by a directory of its own cannot run (or see through [exec:...])
   any program of the host: the answer is a matter of its own files only, whatever the host's PATH and
   whatever is installed there *)
Lemma narrowed_path_hides_host cfg cfg' s t sub prog :
  look cfg s t (VOwnPath s sub None) prog = is_exec t (sub ++ [prog]) /\
  look cfg s t (VOwnPath s sub None) prog = look cfg' s t (VOwnPath s sub None) prog.
Proof. cbn [look]. rewrite Nat.eqb_refl, !orb_false_r. cbn. split; reflexivity. Qed.

Lemma exec_outcome cfg s c ss neg prog :
  exec_action cfg s c ss (AExec neg prog)
  = (c, ss, if Bool.eqb (look cfg s (tr ss) (path_value (senv ss)) prog) neg then OFail else OCont).
Proof. cbn [exec_action]. destruct (look _ _ _ _ _), neg; reflexivity. Qed.

(* ------------------------------------------------------------------ the statements of Properties/C04.v *)

Lemma nth_error_same_length {A B} (l : list A) (l' : list B) i x :
  length l = length l' -> nth_error l i = Some x -> exists y, nth_error l' i = Some y.
Proof.
  intros L H. assert (i < length l') by (rewrite <- L; apply nth_error_Some; congruence).
  destruct (nth_error l' i) eqn:E; [eauto|]. apply nth_error_None in E. lia.
Qed.

Lemma reachable_sinv cfg progs sched s p ss :
  nth_error progs s = Some p -> nth_error (scripts (run cfg progs (init progs) sched)) s = Some ss -> sinv cfg p s ss.
Proof.
  intros Hp Hs. destruct (run_all_sinv cfg progs sched _ (init_all_sinv cfg progs)) as [_ H]. eauto.
Qed.

Lemma in_setup_events e t o l : In (EvSetup e t o) l -> In (e, t, o) (setup_events l).
Proof. intro H. unfold setup_events. apply in_flat_map. exists (EvSetup e t o). split; [exact H | now left]. Qed.

Lemma setup_event_is_initial cfg progs sched s p ss e t o :
  nth_error progs s = Some p -> nth_error (scripts (run cfg progs (init progs) sched)) s = Some ss ->
  In (EvSetup e t o) (obs ss) ->
  e = setup_env (hostenv cfg) s (setup_keep p) (setup_adds p) /\ setup_result cfg p = Some t
  /\ o = escapes_of cfg p.
Proof.
  intros Hp Hs Hin. destruct (reachable_sinv _ _ _ _ _ _ Hp Hs) as (_ & SU & _).
  apply in_setup_events in Hin. destruct SU as [SU|(t0 & Et & SU)]; rewrite SU in Hin; [destruct Hin|].
  destruct Hin as [Hin|[]]. injection Hin as <- <- <-. repeat split; assumption.
Qed.

Lemma env_from_scratch cfg progs sched s p ss e t o :
  nth_error progs s = Some p -> nth_error (scripts (run cfg progs (init progs) sched)) s = Some ss ->
  In (EvSetup e t o) (obs ss) ->
  e = setup_env (hostenv cfg) s (setup_keep p) (setup_adds p)
  /\ (setup_keep p = None ->
      map fst e = map fst setup_env_head ++ passthrough_present (hostenv cfg) ++ map fst setup_env_tail ++ map fst (setup_adds p))
  /\ (forall k, In k (map fst e) ->
        (In k (map fst setup_env_head ++ passthrough_present (hostenv cfg) ++ map fst setup_env_tail)
         /\ match setup_keep p with Some l => name_in l k = true | None => True end)
        \/ In k (map fst (setup_adds p)))
  /\ (forall h', (forall n, In n host_reads -> host_get h' n = host_get (hostenv cfg) n) ->
                 setup_env h' s (setup_keep p) (setup_adds p) = e).
Proof.
  intros Hp Hs Hin. destruct (setup_event_is_initial _ _ _ _ _ _ _ _ _ Hp Hs Hin) as (-> & _ & _).
  split; [reflexivity|]. split; [|split].
  - intros ->. rewrite setup_env_none. apply initial_env_names.
  - intros k Hk. exact (setup_env_names _ _ _ _ _ Hk).
  - intros h' H. now apply setup_env_indep.
Qed.

(* the statement tied to the generated constants: it goes through only if setup() makes the
   initial variables visible before it expands the entry names, and refuses names that leave the
   work directory *)
Lemma setup_result_corrected cfg p t :
  names_see_env cfg = true -> names_contained cfg = true -> setup_result cfg p = Some t ->
  esc_index p = None /\ setup_tree (is_root cfg) (archive p) = Some t /\ escapes_of cfg p = [].
Proof.
  intros Hn Hc. unfold setup_result, setup_rejected, escapes_of, effective_files, esc_paths, kept. rewrite Hn, Hc.
  destruct (esc_index p); cbn; [discriminate|]. intro H. auto.
Qed.

Lemma workdir_exact cfg progs sched s p ss e t o :
  names_see_env cfg = entry_names_see_env -> names_contained cfg = entry_names_contained ->
  nth_error progs s = Some p -> nth_error (scripts (run cfg progs (init progs) sched)) s = Some ss ->
  In (EvSetup e t o) (obs ss) ->
  o = [] /\ esc_index p = None /\ forall q, tree_get t q = expected_node (archive p) q.
Proof.
  intros Hn Hc Hp Hs Hin. destruct (setup_event_is_initial _ _ _ _ _ _ _ _ _ Hp Hs Hin) as (_ & Ht & ->).
  assert (Hn' : names_see_env cfg = true) by (rewrite Hn; reflexivity).
  assert (Hc' : names_contained cfg = true) by (rewrite Hc; reflexivity).
  destruct (setup_result_corrected cfg p t Hn' Hc' Ht) as (E1 & E2 & E3).
  split; [exact E3|]. split; [exact E1|]. eapply setup_tree_exact; eauto.
Qed.

(* a script with an escaping entry name never gets past setup: it fails, with nothing written outside *)
Lemma escaping_name_fails_setup cfg p s c :
  names_contained cfg = entry_names_contained -> esc_index p <> None ->
  exists t, snd (fst (sstep cfg p s c sstate0))
            = {| ph := Ending VSetupFail SDefers; cwd := []; senv := []; tr := t; wpresent := true;
                 dstack := []; bgl := []; failedf := false; obs := [] |}.
Proof.
  intros Hc He. assert (Hc' : names_contained cfg = true) by (rewrite Hc; reflexivity).
  unfold sstep, setup_result, setup_rejected. cbn [ph sstate0]. rewrite Hc'.
  destruct (esc_index p); [|contradiction]. cbn. eexists. reflexivity.
Qed.

(* with the entry names expanded before the environment exists (the code before the repair) a
   file named $WORK/f is not in the work directory: it is unpacked outside *)
Lemma unexpanded_names_refuted :
  exists cfg p ss e t o,
    names_see_env cfg = false /\
    snd (fst (sstep cfg p 0 [] sstate0)) = ss /\ In (EvSetup e t o) (obs ss) /\
    o <> [] /\ exists q, tree_get t q <> expected_node (archive p) q.
Proof.
  exists {| retain := false; key_by_path := true; names_see_env := false; names_contained := true; empty_cleans := true; continue_on_error := false; has_cancel := false; pwd_appended := true; precancel_guarded := true; is_root := true;
            hostenv := []; hosttab := []; helper := [] |},
         {| archive := [([[x66]], [x31])]; work_named := [[[x66]]]; escaping_at := None; setup_keep := None; setup_adds := []; setup_defers := [];
            setup_err := false; body := [] |}.
  do 4 eexists. split; [reflexivity|]. split; [reflexivity|]. split; [cbn; left; reflexivity|].
  split; [discriminate|]. exists [[x66]]. vm_compute. discriminate.
Qed.

(* with escaping names written where they say (the code before the repair) the archive of one
   script puts a file outside its work directory *)
Lemma uncontained_names_refuted :
  exists cfg p ss e t o,
    names_contained cfg = false /\ names_see_env cfg = true /\
    snd (fst (sstep cfg p 0 [] sstate0)) = ss /\ In (EvSetup e t o) (obs ss) /\ o <> [].
Proof.
  exists {| retain := false; key_by_path := true; names_see_env := true; names_contained := false; empty_cleans := true;
            continue_on_error := false; has_cancel := false; pwd_appended := true; precancel_guarded := true; is_root := true; hostenv := []; hosttab := []; helper := [] |},
         {| archive := [([[x66]], [x31]); ([[x2e; x2e]; [x78]], [x32])]; work_named := []; escaping_at := Some 1; setup_keep := None;
            setup_adds := []; setup_defers := []; setup_err := false; body := [] |}.
  do 4 eexists. split; [reflexivity|]. split; [reflexivity|]. split; [reflexivity|]. split; [cbn; left; reflexivity|].
  discriminate.
Qed.

(* RunT without any script: the root is removed at once (unless retention was asked for) *)
Lemma empty_batch_leaves_nothing cfg :
  empty_cleans cfg = empty_batch_removes_root -> retain cfg = false ->
  root_present (sh (start cfg [])) = false /\ root_removals (sh (start cfg [])) = 1
  /\ cancelled (sh (start cfg [])) = has_cancel cfg.
Proof.
  intros He Hr. assert (He' : empty_cleans cfg = true) by (rewrite He; reflexivity).
  unfold start. rewrite He', Hr. cbn. auto.
Qed.

Lemma start_nonempty cfg progs : precancel_guarded cfg = true -> progs <> [] -> start cfg progs = init progs.
Proof. intros Hg. destruct progs; [contradiction | cbn [start]; now rewrite Hg]. Qed.

Lemma empty_batch_refuted :
  exists cfg, empty_cleans cfg = false /\ retain cfg = false /\ root_present (sh (start cfg [])) = true.
Proof.
  exists {| retain := false; key_by_path := true; names_see_env := true; names_contained := true; empty_cleans := false;
            continue_on_error := false; has_cancel := false; pwd_appended := true; precancel_guarded := true; is_root := true; hostenv := []; hosttab := []; helper := [] |}.
  repeat split.
Qed.

Lemma unpack_partial_of_success root files : forall t0 t,
  unpack root t0 files = Some t -> unpack_partial root t0 files = t.
Proof.
  induction files as [|[q d] r IH]; intros t0 t H; cbn [unpack unpack_partial] in *.
  - now injection H.
  - destruct (mkdir_all root t0 (removelast q)) as [t1|]; [|discriminate].
    destruct (write_file root t1 q d) as [t2|]; [|discriminate]. now apply IH.
Qed.

Lemma defers_lifo_all_paths cfg progs sched s p ss v :
  nth_error progs s = Some p -> nth_error (scripts (run cfg progs (init progs) sched)) s = Some ss ->
  ph ss = Done v ->
  defer_runs (obs ss) = rev (defer_regs (obs ss)) /\ dstack ss = [].
Proof.
  intros Hp Hs Hd. destruct (reachable_sinv _ _ _ _ _ _ Hp Hs) as (_ & _ & _ & PH). rewrite Hd in PH. apply PH.
Qed.

Lemma no_bg_left cfg progs sched s p ss v :
  nth_error progs s = Some p -> nth_error (scripts (run cfg progs (init progs) sched)) s = Some ss ->
  ph ss = Done v ->
  bgl ss = [] /\ forall h, In h (bg_started (obs ss)) -> In h (bg_gone (obs ss)) /\ In h (bg_waited (obs ss)).
Proof.
  intros Hp Hs Hd. destruct (reachable_sinv _ _ _ _ _ _ Hp Hs) as (B & _ & _ & PH). rewrite Hd in PH.
  destruct PH as (_ & Hb & _). split; [exact Hb|]. intros h Hh. destruct (B h Hh) as [Hin|H]; [|exact H].
  rewrite Hb in Hin. destruct Hin.
Qed.

Lemma all_done_count st : all_done st = true <-> not_done_count (scripts st) = 0.
Proof. unfold all_done. symmetry. apply not_done_count_zero. Qed.

Lemma refcount_root cfg progs sched :
  retain cfg = false -> progs <> [] ->
  let st := run cfg progs (init progs) sched in
  refcount (sh st) = not_done_count (scripts st)
  /\ (all_done st = false -> root_present (sh st) = true /\ root_removals (sh st) = 0 /\ cancelled (sh st) = false)
  /\ (all_done st = true -> root_present (sh st) = false /\ root_removals (sh st) = 1 /\ cancelled (sh st) = has_cancel cfg)
  /\ (forall s ss, nth_error (scripts st) s = Some ss -> is_done ss = true -> wpresent ss = false /\ tr ss = []).
Proof.
  intros Hr Hne st. destruct (rc_inv_run cfg progs sched Hr _ (rc_inv_init cfg progs Hne)) as [R1 R2]. fold st in R1, R2.
  split; [exact R1|]. split; [|split].
  - intro Hd. destruct (Nat.eqb (refcount (sh st)) 0) eqn:E; [|exact R2].
    apply Nat.eqb_eq in E. rewrite R1 in E. apply all_done_count in E. congruence.
  - intro Hd. apply all_done_count in Hd. rewrite <- R1 in Hd. rewrite Hd in R2. exact R2.
  - intros s ss Hs Hd. destruct (run_all_sinv cfg progs sched _ (init_all_sinv cfg progs)) as [L H]. fold st in L, H.
    destruct (nth_error_same_length _ progs _ _ L Hs) as [p Hp].
    destruct (H s p ss Hp Hs) as (_ & _ & _ & PH). unfold is_done in Hd. destruct (ph ss); try discriminate.
    destruct PH as (_ & _ & PH). now apply PH.
Qed.

Lemma retention_keeps_everything cfg progs sched :
  retain cfg = true ->
  let st := run cfg progs (init progs) sched in
  root_present (sh st) = true /\ root_removals (sh st) = 0 /\ cancelled (sh st) = false
  /\ (forall s ss, nth_error (scripts st) s = Some ss -> ph ss <> NotStarted ->
                   wpresent ss = true /\ work_removed (obs ss) = []).
Proof.
  intros Hr st. assert (K0 : keep_inv (init progs)) by (repeat split).
  destruct (keep_inv_run cfg progs sched Hr _ K0) as (K1 & K2 & K3). fold st in K1, K2, K3.
  repeat split; try assumption.
  - destruct (run_all_sinv cfg progs sched _ (init_all_sinv cfg progs)) as [L Hall]. fold st in L, Hall.
    destruct (nth_error_same_length _ progs _ _ L H) as [p Hp].
    destruct (Hall s p ss Hp H) as (_ & _ & RT & _). now apply RT.
  - destruct (run_all_sinv cfg progs sched _ (init_all_sinv cfg progs)) as [L Hall]. fold st in L, Hall.
    destruct (nth_error_same_length _ progs _ _ L H) as [p Hp].
    destruct (Hall s p ss Hp H) as (_ & _ & RT & _). now apply RT.
Qed.

(* the statement tied to the generated constant: it goes through only if the key of execCache
   mentions the PATH of the script *)
Lemma interleaving_irrelevant_gen cfg progs sched s p :
  key_by_path cfg = exec_cache_key_has_path -> (forall s p, nth_error progs s = Some p -> wf_script s p) ->
  nth_error progs s = Some p ->
  nth_error (scripts (run cfg progs (init progs) sched)) s
  = Some (snd (alone cfg p s (count_occ Nat.eq_dec sched s))).
Proof. intro H. apply interleaving_irrelevant. rewrite H. reflexivity. Qed.

Lemma prog_only_key_refuted :
  exists cfg progs sched1 sched2 s,
    key_by_path cfg = false /\ (forall s p, nth_error progs s = Some p -> wf_script s p) /\
    (forall s', s' < length progs -> option_map is_done (nth_error (scripts (run cfg progs (init progs) sched1)) s') = Some true
                                     /\ option_map is_done (nth_error (scripts (run cfg progs (init progs) sched2)) s') = Some true) /\
    verdict_of (run cfg progs (init progs) sched1) s <> verdict_of (run cfg progs (init progs) sched2) s.
Proof.
  exists cfg_prog_key, [script_A; script_B], (repeat 0 12 ++ repeat 1 12), (repeat 1 12 ++ repeat 0 12), 0.
  split; [reflexivity|]. split.
  - intros [|[|s]] p H; cbn in H; [injection H as <-; constructor | injection H as <-; constructor | destruct s; discriminate].
  - split.
    + intros [|[|s']] H; cbn in H; try lia; vm_compute; split; reflexivity.
    + destruct prog_key_order_dependent as (H1 & _ & H3 & _). cbv zeta in H1, H3. rewrite H1, H3. discriminate.
Qed.

(* ------------------------------------------------------------------ examples: every exit path occurs *)

Definition ex_cfg : config :=
  {| retain := false; key_by_path := true; names_see_env := true; names_contained := true; empty_cleans := true; continue_on_error := false; has_cancel := true; pwd_appended := true; precancel_guarded := true; is_root := false;
     hostenv := [(PATH, [x2f; x62]); ([x47; x4f; x52; x41; x43; x45], [x78]); ([x43; x41; x4e; x41; x52; x59], [x31])];
     hosttab := [(([x2f; x62], [x68]), true)]; helper := [x68] |}.
Definition ex_script (b : list action) : script :=
  {| archive := [([[x61]], [x31]); ([[x77]], [x32])]; work_named := [[[x77]]]; escaping_at := None; setup_keep := None; setup_adds := [([x58], VWork 0 [[x67]])]; setup_defers := [(7, false)]; setup_err := false; body := b |}.
Definition ex_progs : list script :=
  [ ex_script [ADefer 1 false; ABg 1 false; ADefer 2 false; AProbe];
    ex_script [ADefer 1 false; ABg 1 false; AFail; ADefer 2 false];
    ex_script [ADefer 1 false; ABg 1 true; ASkip];
    ex_script [ABg 1 false; ADefer 1 false; AStop; AFail];
    {| archive := [([[x61]], [x31]); ([[x61]; [x62]], [x32])]; work_named := []; escaping_at := None; setup_keep := None; setup_adds := []; setup_defers := []; setup_err := false; body := [] |};
    ex_script [ADefer 1 true; ADefer 2 false; ABg 3 false];
    ex_script [AMkdir [[x64]] true; AWrite [[x64]; [x66]] [x31]] ].

Example every_exit_path_occurs :
  let st := run ex_cfg ex_progs (init ex_progs) (round_robin 7 12) in
  map ph (scripts st) = [Done VPass; Done VFail; Done VSkip; Done VStop; Done VSetupFail; Done VPanic; Done VFail]
  /\ map (fun ss => defer_runs (obs ss)) (scripts st) = [[2; 1; 7]; [1; 7]; [1; 7]; [1; 7]; []; [2; 1; 7]; [7]]
  /\ map (fun ss => (bg_started (obs ss), bg_gone (obs ss), bg_waited (obs ss))) (scripts st)
     = [([1], [1], [1]); ([1], [1], [1]); ([1], [1], [1]); ([1], [1], [1]); ([], [], []); ([3], [3], [3]); ([], [], [])]
  /\ root_present (sh st) = false /\ root_removals (sh st) = 1 /\ cancelled (sh st) = true.
Proof. vm_compute. repeat split. Qed.

Example continue_on_error_example :
  (* ContinueOnError: a failing line, then more lines, then skip: the run fails; kill + wait with a
     negated background line is accepted *)
  let cfg := {| retain := false; key_by_path := true; names_see_env := true; names_contained := true; empty_cleans := true;
                continue_on_error := true; has_cancel := false; pwd_appended := true; precancel_guarded := true; is_root := true; hostenv := hostenv ex_cfg;
                hosttab := hosttab ex_cfg; helper := [x68] |} in
  let progs := [ex_script [AFail; ADefer 1 false; AProbe; ASkip]; ex_script [ABg 1 true; AKillWait; AProbe];
                ex_script [ABg 1 false; AKill; AFail; AStop]] in
  let st := run cfg progs (init progs) (round_robin 3 14) in
  map ph (scripts st) = [Done VFail; Done VPass; Done VFail]
  /\ map (fun ss => length (filter (fun e => match e with EvProbe _ _ _ => true | _ => false end) (obs ss))) (scripts st) = [1; 1; 0]
  /\ map (fun ss => defer_runs (obs ss)) (scripts st) = [[1; 7]; [7]; [7]].
Proof. vm_compute. repeat split. Qed.

Example bare_wait_example :
  (* `wait` with a command that has exited with a failure (handle 100) before one that still runs
     (handle 1): the line fails, and the end of run still interrupts and waits for the second; a
     bare wait on a running command alone is stuck for ever *)
  let progs := [ex_script [ABg 100 false; ABg 1 false; AWait; AProbe]; ex_script [ABg 100 true; AWait; AProbe];
                ex_script [ABg 1 false; AWait]] in
  let st := run ex_cfg progs (init progs) (round_robin 3 14) in
  map ph (scripts st) = [Done VFail; Done VPass; Stuck]
  /\ map (fun ss => (bg_started (obs ss), bg_gone (obs ss), bg_waited (obs ss))) (scripts st)
     = [([100; 1], [100; 100; 1], [100; 100; 1]); ([100], [100], [100]); ([1], [], [])].
Proof. vm_compute. repeat split. Qed.

Example wf_example : forall s p, nth_error [ex_script [AProbe]] s = Some p -> wf_script s p.
Proof. intros [|s] p H; cbn in H; [|destruct s; discriminate]. injection H as <-. repeat constructor. Qed.

(* ------------------------------------------------------------------ what a started program sees *)

Lemma env_get_snoc e k v k' :
  env_get (e ++ [(k, v)]) k' = if bytes_eqb k k' then Some v else env_get e k'.
Proof. unfold env_get. rewrite rev_app_distr. reflexivity. Qed.

(* With append(ts.env, "PWD="+ts.cd) - what the generated constant says the source does - the
   environment of a program is the script's own list followed by PWD: never empty (so os/exec never
   substitutes the environment of the test process), PWD is the directory the program runs in whatever
   the script has set PWD to, and every other name has the value the script gave it. *)
Lemma child_env_scratch cfg s cd e :
  pwd_appended cfg = true ->
  child_env cfg s cd e = e ++ [(PWD, VWork s cd)]
  /\ child_env cfg s cd e <> []
  /\ env_get (child_env cfg s cd e) PWD = Some (VWork s cd)
  /\ (forall k, bytes_eqb PWD k = false -> env_get (child_env cfg s cd e) k = env_get e k).
Proof.
  intro H. unfold child_env. rewrite H. split; [reflexivity|]. split; [now destruct e|]. split.
  - rewrite env_get_snoc. now rewrite (proj2 (bytes_eqb_eq PWD PWD) eq_refl).
  - intros k Hk. now rewrite env_get_snoc, Hk.
Qed.

Lemma probe_outcome cfg s c ss :
  pwd_appended cfg = true ->
  exec_action cfg s c ss AProbe
  = (c, add_obs ss [EvProbe (cwd ss) (senv ss ++ [(PWD, VWork s (cwd ss))]) (tr ss)], OCont).
Proof. intro H. cbn [exec_action]. unfold child_env. now rewrite H. Qed.

(* the names a program started right after setup can see: documented ones (on the allow-list, if Setup
   has one), Setup's, and PWD; nothing else of the host *)
Lemma child_env_names_after_setup cfg s p k :
  pwd_appended cfg = true ->
  In k (map fst (child_env cfg s [] (setup_env (hostenv cfg) s (setup_keep p) (setup_adds p)))) ->
  (In k (documented_names (hostenv cfg)) /\ match setup_keep p with Some l => name_in l k = true | None => True end)
  \/ In k (map fst (setup_adds p)) \/ k = PWD.
Proof.
  intros H Hin. destruct (child_env_scratch cfg s [] (setup_env (hostenv cfg) s (setup_keep p) (setup_adds p)) H) as [E _].
  rewrite E, map_app, in_app_iff in Hin. destruct Hin as [Hin|[<-|[]]].
  - destruct (setup_env_names _ _ _ _ _ Hin) as [?|?]; auto.
  - right. now right.
Qed.

(* With ts.env passed as it is, a script whose Setup keeps no variable hands every program the whole
   environment of the test process. *)
Lemma child_env_without_pwd_refuted :
  exists cfg p s canary v,
    pwd_appended cfg = false /\ ~ In canary host_reads /\
    env_get (child_env cfg s [] (setup_env (hostenv cfg) s (setup_keep p) (setup_adds p))) canary = Some (VLit v)
    /\ v <> [].
Proof.
  exists {| retain := false; key_by_path := true; names_see_env := true; names_contained := true; empty_cleans := true;
            continue_on_error := false; has_cancel := false; pwd_appended := false; precancel_guarded := true; is_root := true;
            hostenv := hostenv ex_cfg; hosttab := []; helper := [] |},
         {| archive := []; work_named := []; escaping_at := None; setup_keep := Some []; setup_adds := []; setup_defers := [];
            setup_err := false; body := [AProbe] |}, 0, [x43; x41; x4e; x41; x52; x59], [x31].
  split; [reflexivity|]. split.
  - vm_compute. intros H. repeat (destruct H as [H|H]; [discriminate H|]). exact H.
  - split; [vm_compute; reflexivity | discriminate].
Qed.

Example child_env_example :
  (* Setup keeps nothing: the program sees PWD only; after cd and env PWD=x it still sees the directory it runs in *)
  let p := {| archive := [([[x64]; [x61]], [x31])]; work_named := []; escaping_at := None; setup_keep := Some []; setup_adds := [];
              setup_defers := []; setup_err := false; body := [AProbe; ACd [[x64]]; ASetenv PWD [x78]; AProbe] |} in
  let st := run ex_cfg [p] (init [p]) (round_robin 1 12) in
  map (fun ss => flat_map (fun e => match e with EvProbe c e _ => [(c, e)] | _ => [] end) (obs ss)) (scripts st)
  = [[([], [(PWD, VWork 0 [])]); ([[x64]], [(PWD, VLit [x78]); (PWD, VWork 0 [[x64]])])]].
Proof. vm_compute. reflexivity. Qed.

(* ------------------------------------------------------------------ deferred functions that do not return *)

Lemma verdict_of_marks_same c v : verdict_of_marks v (catch_failnow c (marks_of v)) = v.
Proof. destruct v; reflexivity. Qed.

Lemma fold_after_defer_ret l m :
  (forall e, In e l -> e = DRet) -> fold_left after_defer l m = m.
Proof.
  revert m. induction l as [|e l IH]; intros m H; [reflexivity|]. cbn [fold_left].
  rewrite (H e (or_introl eq_refl)). cbn [after_defer]. apply IH. intros e' He'. apply H. now right.
Qed.

(* functions that all return leave the verdict alone *)
Lemma defers_verdict_all_return d v :
  (forall x, In x d -> defer_end x = DRet) -> defers_verdict d v = v.
Proof.
  intro H. unfold defers_verdict, defers_verdict_gen. rewrite fold_after_defer_ret; [apply verdict_of_marks_same|].
  intros e He. apply in_map_iff in He as (x & <- & Hx). now apply H.
Qed.

Lemma fold_after_defer_failed l m : m_failed m = true -> m_failed (fold_left after_defer l m) = true.
Proof.
  revert m. induction l as [|e l IH]; intros m H; [exact H|]. cbn [fold_left]. apply IH.
  destruct e; cbn; try exact H; reflexivity.
Qed.

Lemma fold_after_defer_failnow l m : In DFailNow l -> m_failed (fold_left after_defer l m) = true.
Proof.
  revert m. induction l as [|e l IH]; intros m H; [destruct H|]. cbn [fold_left].
  destruct H as [->|H]; [apply fold_after_defer_failed; reflexivity | now apply IH].
Qed.

Lemma catch_failnow_failed c m : m_failed m = true -> m_failed (catch_failnow c m) = true.
Proof. intro H. unfold catch_failnow. destruct (m_panic m); try exact H. destruct c; [reflexivity | exact H]. Qed.

Definition is_failure (v : verdict) : bool :=
  match v with VFail | VSetupFail | VPanic => true | _ => false end.

(* a failure is never lost: a run that failed, or one of whose deferred functions calls FailNow / Fatal,
   ends as a failure (or a panic) whatever the other deferred functions do - skip, panic, fail *)
Lemma defers_verdict_keeps_failure d v :
  (v = VFail \/ v = VSetupFail \/ exists x, In x d /\ defer_end x = DFailNow) ->
  is_failure (defers_verdict d v) = true.
Proof.
  intro H. unfold defers_verdict, defers_verdict_gen.
  assert (F : m_failed (catch_failnow deferred_failnow_caught (fold_left after_defer (map defer_end d) (marks_of v))) = true).
  { apply catch_failnow_failed.
    destruct H as [->|[->|(x & Hx & E)]]; [now apply fold_after_defer_failed | now apply fold_after_defer_failed|].
    apply fold_after_defer_failnow. rewrite <- E. now apply in_map. }
  unfold verdict_of_marks. rewrite F. destruct (m_panicking _); [reflexivity|]. now destruct v.
Qed.

(* Deferred functions that return or end with ts.Fatalf / ts.Check(err), at least one of the latter:
   the failNow panic is on its way when the chain is through, whatever was on its way before. *)
Lemma fold_after_defer_fatalf l m :
  (forall e, In e l -> e = DRet \/ e = DFatalf) -> In DFatalf l ->
  m_panic (fold_left after_defer l m) = PFailNow
  /\ m_skipped (fold_left after_defer l m) = m_skipped m.
Proof.
  revert m. induction l as [|e l IH]; intros m H Hin; [destruct Hin|]. cbn [fold_left].
  assert (Hl : forall e', In e' l -> e' = DRet \/ e' = DFatalf) by (intros e' He'; apply H; now right).
  destruct (in_dec (fun a b : dend => ltac:(decide equality) : {a = b} + {a <> b}) DFatalf l) as [Hd|Hd].
  - destruct (IH (after_defer m e) Hl Hd) as [P S]. split; [exact P|]. rewrite S.
    destruct (H e (or_introl eq_refl)) as [->| ->]; reflexivity.
  - destruct Hin as [->|Hin]; [|contradiction].
    rewrite fold_after_defer_ret.
    + split; reflexivity.
    + intros e' He'. destruct (Hl e' He') as [->| ->]; [reflexivity | contradiction].
Qed.

Definition failed_verdict (v : verdict) : verdict := match v with VSetupFail => VSetupFail | _ => VFail end.

(* ... and run() turns it into t.FailNow(): the run is reported failed - not a panic, not a pass, not a
   skip - whatever its verdict was going to be (a panic of a custom command included: the new panic took
   its place). *)
Lemma defers_verdict_fatalf d v :
  (forall x, In x d -> defer_end x = DRet \/ defer_end x = DFatalf) ->
  (exists x, In x d /\ defer_end x = DFatalf) ->
  defers_verdict d v = failed_verdict v.
Proof.
  intros H (x & Hx & Ex). unfold defers_verdict, defers_verdict_gen.
  destruct (fold_after_defer_fatalf (map defer_end d) (marks_of v)) as [P S].
  - intros e He. apply in_map_iff in He as (y & <- & Hy). now apply H.
  - rewrite <- Ex. now apply in_map.
  - unfold catch_failnow. rewrite P. change deferred_failnow_caught with true. cbv iota.
    unfold verdict_of_marks, m_panicking. cbn [m_panic m_failed]. reflexivity.
Qed.

(* The step of run() that runs the deferred functions: whatever the functions do, every one of them
   runs, most recent first, the stack is emptied, nothing else of the script changes (environment,
   files, background commands: those are dealt with next, as on every path) - only the verdict depends
   on how they end.  With functions that return or end in Fatalf it is a failure. *)
Lemma sstep_defers cfg p s c ss v :
  ph ss = Ending v SDefers ->
  sstep cfg p s c ss
  = (c, set_ph (set_dstack (add_obs ss (map (fun d => EvDeferRun (fst d)) (dstack ss))) []) (Ending (defers_verdict (dstack ss) v) SBgClean), NoEffect).
Proof. intro H. unfold sstep. now rewrite H. Qed.

Lemma fatalf_in_deferred_fails_the_run cfg p s c ss v :
  ph ss = Ending v SDefers ->
  (forall x, In x (dstack ss) -> defer_end x = DRet \/ defer_end x = DFatalf) ->
  (exists x, In x (dstack ss) /\ defer_end x = DFatalf) ->
  sstep cfg p s c ss
  = (c, set_ph (set_dstack (add_obs ss (map (fun d => EvDeferRun (fst d)) (dstack ss))) []) (Ending (failed_verdict v) SBgClean), NoEffect).
Proof. intros H A E. rewrite (sstep_defers _ _ _ _ _ _ H). now rewrite (defers_verdict_fatalf _ _ A E). Qed.

(* Without the catch (the code before the repair) the failNow panic escapes RunT: under testing.T the
   test binary dies of it. *)
Lemma uncaught_fatalf_refuted :
  exists d v, (forall x, In x d -> defer_end x = DRet \/ defer_end x = DFatalf) /\ v = VPass /\
    defers_verdict_gen false d v = VPanic /\ defers_verdict_gen true d v = VFail.
Proof. exists [(1, false); (400, false)], VPass. split; [|repeat split].
  intros x [<-|[<-|[]]]; [now left | now right]. Qed.

Example defers_verdict_examples :
  (* run order: the first of the list runs first.  A panic after a Skip is seen by the caller; a Skip after
     a panic aborts the panic; FailNow sticks; Fatalf fails the run, also after a panic of a command, but a
     Skip called by a function that runs after it aborts it like any other panic *)
  defers_verdict [(300, false); (7, true)] VPass = VPanic
  /\ defers_verdict [(7, true); (300, false)] VPass = VSkip
  /\ defers_verdict [(7, true); (300, false)] VFail = VFail
  /\ defers_verdict [(200, false); (300, false)] VStop = VFail
  /\ defers_verdict [(300, false)] VPanic = VSkip
  /\ defers_verdict [(1, false); (2, false)] VStop = VStop
  /\ defers_verdict [(2, false); (400, false); (1, false)] VPass = VFail
  /\ defers_verdict [(400, false)] VPanic = VFail
  /\ defers_verdict [(400, false); (7, true)] VPass = VPanic
  /\ defers_verdict [(400, false); (300, false)] VPass = VSkip.
Proof. vm_compute. repeat split. Qed.

Example fatalf_in_deferred_example :
  (* a.txt: a function registered by the script ends with ts.Fatalf, between two that return, a
     background command running; b.txt next to it with a background command of its own: a is reported
     failed (not a panic), all three functions of a (and Setup's) have run in reverse order, both
     background commands were interrupted and waited for, b passes, both work directories and the root
     are gone; the same as with a failing line in place of the Fatalf *)
  let a := ex_script [ADefer 1 false; ADefer 400 false; ABg 1 false; ADefer 2 false; AProbe] in
  let a' := ex_script [ADefer 1 false; ADefer 3 false; ABg 1 false; ADefer 2 false; AProbe; AFail] in
  let b := ex_script [ABg 1 true; AProbe] in
  let st := run ex_cfg [a; b] (init [a; b]) (round_robin 2 12) in
  let st' := run ex_cfg [a'; b] (init [a'; b]) (round_robin 2 12) in
  map ph (scripts st) = [Done VFail; Done VPass] /\ map ph (scripts st') = [Done VFail; Done VPass]
  /\ map (fun ss => defer_runs (obs ss)) (scripts st) = [[2; 400; 1; 7]; [7]]
  /\ map (fun ss => (bg_started (obs ss), bg_gone (obs ss), bg_waited (obs ss), wpresent ss, tr ss)) (scripts st)
     = map (fun ss => (bg_started (obs ss), bg_gone (obs ss), bg_waited (obs ss), wpresent ss, tr ss)) (scripts st')
  /\ map (fun ss => (bg_started (obs ss), bg_gone (obs ss), bg_waited (obs ss), wpresent ss, tr ss)) (scripts st)
     = [([1], [1], [1], false, []); ([1], [1], [1], false, [])]
  /\ root_present (sh st) = false /\ root_removals (sh st) = 1.
Proof. vm_compute. repeat split. Qed.

Example abnormal_defers_example :
  (* deferred functions that fail, skip and panic, runs left early by a failing line and by T.Skip /
     T.FailNow from a custom command, with a background command still running (one started by its path
     with no PATH at all): every function runs, in reverse order, and every command is interrupted and
     waited for *)
  let p0 := ex_script [ADefer 200 false; ABg 1 false; ADefer 2 false; AFail] in
  let p1 := ex_script [ADefer 300 false; ABg 1 false; ATSkip] in
  let p2 := ex_script [ADefer 3 true; ABg 1 false; ATFail] in
  let p3 := {| archive := []; work_named := []; escaping_at := None; setup_keep := Some []; setup_adds := [];
               setup_defers := [(301, false)]; setup_err := false; body := [ABg 30 true; ABg 1 true; AProbe] |} in
  let progs := [p0; p1; p2; p3] in
  let st := run ex_cfg progs (init progs) (round_robin 4 12) in
  map ph (scripts st) = [Done VFail; Done VSkip; Done VPanic; Done VSkip]
  /\ map (fun ss => defer_runs (obs ss)) (scripts st) = [[2; 200; 7]; [300; 7]; [3; 7]; [301]]
  /\ map (fun ss => (bg_started (obs ss), bg_gone (obs ss), bg_waited (obs ss))) (scripts st)
     = [([1], [1], [1]); ([1], [1], [1]); ([1], [1], [1]); ([30], [30], [30])].
Proof. vm_compute. repeat split. Qed.

(* ------------------------------------------------------------------ the shared context lives as long as a script runs *)

(* Outside the subtests RunT cancels the context (and removes the root) only when there is no script -
   what the generated constant says about the source.  Then, with or without retention, the context is
   not cancelled while a script is unfinished: a script that finishes before the deadline never meets
   a context that is done. *)
Lemma context_lives_while_scripts_run cfg progs sched :
  precancel_guarded cfg = true -> progs <> [] ->
  let st := run cfg progs (start cfg progs) sched in
  all_done st = false -> cancelled (sh st) = false.
Proof.
  intros Hg Hne. rewrite (start_nonempty cfg progs Hg Hne). cbv zeta. intro Hd. destruct (retain cfg) eqn:Er.
  - now destruct (retention_keeps_everything cfg progs sched Er) as (_ & _ & C & _).
  - destruct (refcount_root cfg progs sched Er Hne) as (_ & H & _). now destruct (H Hd) as (_ & _ & C).
Qed.

(* With a cancel() that RunT itself runs under some retention setting although there are scripts, it
   is false: every script starts under a context that is already done. *)
Lemma precancel_refuted :
  exists cfg progs, precancel_guarded cfg = false /\ has_cancel cfg = true /\ retain cfg = true /\ progs <> [] /\
    all_done (start cfg progs) = false /\ cancelled (sh (start cfg progs)) = true.
Proof.
  exists {| retain := true; key_by_path := true; names_see_env := true; names_contained := true; empty_cleans := true;
            continue_on_error := false; has_cancel := true; pwd_appended := true; precancel_guarded := false; is_root := true;
            hostenv := []; hosttab := []; helper := [] |}, [ex_script [AProbe]].
  repeat split; try reflexivity. discriminate.
Qed.

Example context_lives_example :
  (* seven scripts under retention (-testwork) with a deadline: after every prefix of the schedule the
     context is still alive; without retention it is cancelled exactly when the last one has finished *)
  let cfg := {| retain := true; key_by_path := true; names_see_env := true; names_contained := true; empty_cleans := true;
                continue_on_error := false; has_cancel := true; pwd_appended := true; precancel_guarded := true; is_root := false;
                hostenv := hostenv ex_cfg; hosttab := hosttab ex_cfg; helper := [x68] |} in
  forallb (fun k => negb (cancelled (sh (run cfg ex_progs (start cfg ex_progs) (firstn k (round_robin 7 12)))))) (seq 0 85) = true
  /\ cancelled (sh (run ex_cfg ex_progs (start ex_cfg ex_progs) (round_robin 7 12))) = true.
Proof. vm_compute. split; reflexivity. Qed.

(* ------------------------------------------------------------------ runs ended through the T by a custom command *)

(* T.Skip / T.FailNow / T.Fatal called by a custom command leave the line through runtime.Goexit: the
   script goes straight to its deferred functions with its background commands untouched - which the
   end of run() then interrupts and waits for (no_bg_left holds for every script) *)
Lemma ended_through_t cfg p s c ss pc a :
  ph ss = Running pc -> nth_error (body p) pc = Some a -> (a = ATSkip \/ a = ATFail) ->
  sstep cfg p s c ss = (c, set_ph ss (Ending (match a with ATSkip => VSkip | _ => VFail end) SDefers), NoEffect).
Proof. intros Hph Ha [->| ->]; unfold sstep; rewrite Hph, Ha; reflexivity. Qed.

(* a background command started by the path of its program needs no PATH *)
Lemma bg_by_path_starts cfg s c ss h neg :
  bg_by_path h = true ->
  exec_action cfg s c ss (ABg h neg) = (c, add_obs (set_bgl ss (bgl ss ++ [(h, neg)])) [EvBgStart h], OCont).
Proof. intro H. cbn [exec_action]. now rewrite H. Qed.

Example ended_through_t_example :
  let p := ex_script [ABg 1 false; ATSkip; AFail] in
  let st := run ex_cfg [p] (init [p]) (round_robin 1 12) in
  map ph (scripts st) = [Done VSkip]
  /\ map (fun ss => (bg_started (obs ss), bg_gone (obs ss), bg_waited (obs ss), defer_runs (obs ss))) (scripts st) = [([1], [1], [1], [7])].
Proof. vm_compute. split; reflexivity. Qed.

(* The library calls of the pure segments of testscript's RunT for the translation
   Gen/TsBatchSrc.v (table: harness/cmd/genconsts/gen_tsbatch_src.go).  Definitions only.

   - strconv.Itoa(i) is Lib/GoSemData.go_fmt_int (the decimal digits of an int, '-' in front of a
     negative one; compared with Go by harness/go2coq/data_test.go);
   - strings.CutSuffix(s, suffix) = (s without the suffix, true) when s ends in suffix, else
     (s, false) (Go 1.23 strings.go; Lib/Bytes.has_suffix is the model of HasSuffix all
     translations use);
   - filepath.Base(path) for Unix, written out from Go 1.23 path/filepath/path.go: "" -> ".",
     trailing separators are stripped, what follows the last separator is the result, and a
     path of separators only is "/".  SrcFacts.v evaluates it on the examples of the Go
     documentation and a few more, with the values Go 1.23.5 returns; the theorem about the
     uniqueness of the names does not depend on what Base and CutSuffix compute. *)
From Coq Require Import List Bool ZArith.
From Coq.Strings Require Import Byte.
From GI Require Import Lib.Bytes Lib.GoSem Lib.GoSemData.
Import ListNotations.

Definition go_strconv_Itoa (i : Z) : bytes := go_fmt_int i.

Definition go_strings_CutSuffix (s suffix : bytes) : bytes * bool :=
  if has_suffix suffix s then (firstn (length s - length suffix) s, true) else (s, false).

(* strip trailing separators (of the reversed path: leading ones) *)
Fixpoint drop_seps (r : bytes) : bytes :=
  match r with
  | c :: r' => if beq c x2f then drop_seps r' else r
  | [] => []
  end.
(* the bytes in front of the first separator *)
Fixpoint upto_sep (r : bytes) : bytes :=
  match r with
  | c :: r' => if beq c x2f then [] else c :: upto_sep r'
  | [] => []
  end.
Definition go_filepath_Base (path : bytes) : bytes :=
  match path with
  | [] => [x2e]
  | _ => match drop_seps (rev path) with
         | [] => [x2f]
         | r => rev (upto_sep r)
         end
  end.

(* C04 — model of a batch of scripts run by testscript.RunT: definitions only.

   A batch is a transition system.  Shared between the scripts: the temporary root, the
   reference count of RunT, the package-level execCache, the cancel function of the context.
   Per script: its phase, current directory, environment, the subtree below its own $WORK,
   its stack of deferred functions, its list of background processes and the events it has
   produced so far.  One [step] is one atomic action of one script; a schedule is a list of
   script indices, so steps of different scripts interleave arbitrarily.

   Anchors in testscript/testscript.go: RunT (work root, refCount, deferred removeAll), setup
   (environment from scratch, archive unpacked), run (the two deferred functions, the end of the
   loop), Defer, condition ("exec:" with execCache), removeAll;  testscript/cmd.go: cmdSkip,
   cmdStop, cmdExec (background). *)
From Coq Require Import List Bool Arith NArith Lia.
From Coq.Strings Require Import Byte.
From GI Require Import Lib.Bytes Gen.TsBatchConsts.
Import ListNotations.

Definition name := bytes.
Definition path := list name.     (* relative to the script's own $WORK; [] is $WORK itself *)

Fixpoint path_eqb (a b : path) : bool :=
  match a, b with
  | [], [] => true
  | x :: a', y :: b' => bytes_eqb x y && path_eqb a' b'
  | _, _ => false
  end.

Fixpoint path_prefix (p q : path) : bool :=   (* p is a (possibly equal) prefix of q *)
  match p, q with
  | [], _ => true
  | x :: p', y :: q' => bytes_eqb x y && path_prefix p' q'
  | _ :: _, [] => false
  end.

(* ------------------------------------------------------------------ environment *)

(* Values are byte strings, except that a value built from the script's own $WORK keeps the
   index of the script it belongs to: the work directories of different scripts are different
   strings (RunT makes the names unique), and that is all the model needs to know about them. *)
Inductive value :=
  | VLit (b : bytes)
  | VWork (owner : nat) (sub : path)                        (* $WORK/sub of script [owner] *)
  | VOwnPath (owner : nat) (sub : path) (rest : option bytes). (* $WORK/sub[:rest], a PATH value *)

Definition opt_bytes_eqb (a b : option bytes) : bool :=
  match a, b with
  | None, None => true
  | Some x, Some y => bytes_eqb x y
  | _, _ => false
  end.

Definition value_eqb (a b : value) : bool :=
  match a, b with
  | VLit x, VLit y => bytes_eqb x y
  | VWork o p, VWork o' p' => Nat.eqb o o' && path_eqb p p'
  | VOwnPath o p r, VOwnPath o' p' r' => Nat.eqb o o' && path_eqb p p' && opt_bytes_eqb r r'
  | _, _ => false
  end.

Definition value_owner (v : value) : option nat :=
  match v with VLit _ => None | VWork o _ => Some o | VOwnPath o _ _ => Some o end.

Definition env := list (name * value).   (* in the order of Env.Vars / ts.env; the latest entry wins *)

Fixpoint env_get_first (e : env) (k : name) : option value :=
  match e with
  | [] => None
  | (n, v) :: r => if bytes_eqb n k then Some v else env_get_first r k
  end.
Definition env_get (e : env) (k : name) : option value := env_get_first (rev e) k.

(* the environment of the test process *)
Definition host := list (name * bytes).
Fixpoint host_get (h : host) (k : name) : bytes :=     (* os.Getenv: "" when unset *)
  match h with
  | [] => []
  | (n, v) :: r => if bytes_eqb n k then v else host_get r k
  end.

Definition resolve (h : host) (s : nat) (src : env_src) : value :=
  match src with
  | SrcWork => VWork s []
  | SrcTmp => VWork s [tmp_dir_name]
  | SrcHost n => VLit (host_get h n)
  | SrcLit v => VLit v
  end.

Definition resolve_all (h : host) (s : nat) (l : list (name * env_src)) : env :=
  map (fun e => (fst e, resolve h s (snd e))) l.

Definition passthrough (h : host) : env :=
  flat_map (fun n => match host_get h n with [] => [] | v => [(n, VLit v)] end) passthrough_names.

(* setup(): Env.Vars before Setup is called, then whatever Setup appended *)
Definition initial_env (h : host) (s : nat) (adds : env) : env :=
  resolve_all h s setup_env_head ++ passthrough h ++ resolve_all h s setup_env_tail ++ adds.

(* Env.Vars as setup() builds it, before Params.Setup sees it *)
Definition base_env (h : host) (s : nat) : env :=
  resolve_all h s setup_env_head ++ passthrough h ++ resolve_all h s setup_env_tail.

(* What Params.Setup does to the list before it appends its own variables: nothing (None), or it keeps
   the entries whose names are on an allow-list (Some l; Some [] = it drops everything: Env.Vars nil or
   empty, which the model does not tell apart). *)
Definition name_in (l : list name) (k : name) : bool := existsb (bytes_eqb k) l.
Definition keep_env (keep : option (list name)) (e : env) : env :=
  match keep with
  | None => e
  | Some l => filter (fun kv => name_in l (fst kv)) e
  end.

Definition setup_env (h : host) (s : nat) (keep : option (list name)) (adds : env) : env :=
  keep_env keep (base_env h s) ++ adds.

Definition src_host_names (l : list (name * env_src)) : list name :=
  flat_map (fun e => match snd e with SrcHost n => [n] | _ => [] end) l.

(* the host variables setup() reads; everything else in the host environment is invisible *)
Definition host_reads : list name :=
  src_host_names setup_env_head ++ passthrough_names ++ src_host_names setup_env_tail.

Definition PATH : name := [x50; x41; x54; x48].
Definition PWD : name := [x50; x57; x44].

(* ------------------------------------------------------------------ file tree below $WORK *)

Inductive node :=
  | Dir (ro : bool)               (* ro: mode without write permission (chmod 0555) *)
  | File (data : bytes) (x : bool)  (* x: some execute bit set *)
  | Link (target : bytes).        (* a symbolic link; nothing in the model follows it: the scripts of the
                                     harness never name a link as a component of another path *)

Definition tree := list (path * node).

Fixpoint tree_get (t : tree) (p : path) : option node :=
  match t with
  | [] => None
  | (q, n) :: r => if path_eqb q p then Some n else tree_get r p
  end.

Definition tree_remove (t : tree) (p : path) : tree :=
  filter (fun qn => negb (path_eqb (fst qn) p)) t.

Definition tree_set (t : tree) (p : path) (n : node) : tree := (p, n) :: tree_remove t p.

(* $WORK itself is a writable directory *)
Definition get_node (t : tree) (p : path) : option node :=
  match p with [] => Some (Dir false) | _ => tree_get t p end.

(* may an entry be created in / removed from directory p?  root ignores permission bits *)
Definition dir_writable (root : bool) (t : tree) (p : path) : bool :=
  match get_node t p with
  | Some (Dir ro) => root || negb ro
  | _ => false
  end.

(* os.MkdirAll: every missing ancestor is created in turn, the shortest first *)
Fixpoint prefixes (p : path) : list path :=    (* the non-empty prefixes of p, shortest first *)
  match p with
  | [] => []
  | x :: r => [x] :: map (cons x) (prefixes r)
  end.

Definition mkdir_one (root : bool) (t : tree) (q : path) : option tree :=
  match tree_get t q with
  | Some (Dir _) => Some t
  | Some (File _ _) => None
  | Some (Link _) => None
  | None => if dir_writable root t (removelast q) then Some (tree_set t q (Dir false)) else None
  end.

Fixpoint mkdir_list (root : bool) (t : tree) (l : list path) : option tree :=
  match l with
  | [] => Some t
  | q :: r => match mkdir_one root t q with Some t1 => mkdir_list root t1 r | None => None end
  end.

Definition mkdir_all (root : bool) (t : tree) (p : path) : option tree := mkdir_list root t (prefixes p).

(* os.OpenFile(name, O_WRONLY|O_CREATE|O_TRUNC, 0o666) + Write: an existing file keeps its mode *)
Definition write_file (root : bool) (t : tree) (p : path) (d : bytes) : option tree :=
  match p with
  | [] => None
  | _ =>
      match tree_get t p with
      | Some (Dir _) => None
      | Some (File _ x) => Some (tree_set t p (File d x))
      | Some (Link _) => None
      | None => if dir_writable root t (removelast p) then Some (tree_set t p (File d false)) else None
      end
  end.

(* setup(): MkdirAll(.tmp), then for every archive file MkdirAll(dir) and writeFile *)
Fixpoint unpack (root : bool) (t : tree) (files : list (path * bytes)) : option tree :=
  match files with
  | [] => Some t
  | (p, d) :: r =>
      match mkdir_all root t (removelast p) with
      | None => None
      | Some t1 =>
          match write_file root t1 p d with
          | None => None
          | Some t2 => unpack root t2 r
          end
      end
  end.

(* what a failed unpack leaves behind: everything created before the entry that failed *)
Fixpoint mkdir_list_partial (root : bool) (t : tree) (l : list path) : tree :=
  match l with
  | [] => t
  | q :: r => match mkdir_one root t q with Some t1 => mkdir_list_partial root t1 r | None => t end
  end.

Fixpoint unpack_partial (root : bool) (t : tree) (files : list (path * bytes)) : tree :=
  match files with
  | [] => t
  | (p, d) :: r =>
      match mkdir_all root t (removelast p) with
      | None => mkdir_list_partial root t (prefixes (removelast p))
      | Some t1 =>
          match write_file root t1 p d with
          | None => t1
          | Some t2 => unpack_partial root t2 r
          end
      end
  end.

Definition tmp_tree : tree := [([tmp_dir_name], Dir false)].

Definition setup_tree (root : bool) (files : list (path * bytes)) : option tree :=
  unpack root tmp_tree files.

(* what $WORK must contain after setup: the archive's files (the last entry of a name wins), the
   directories leading to them, and .tmp; nothing else *)
Fixpoint last_file (files : list (path * bytes)) (p : path) : option bytes :=
  match files with
  | [] => None
  | (q, d) :: r =>
      match last_file r p with
      | Some d' => Some d'
      | None => if path_eqb q p then Some d else None
      end
  end.

Definition is_nil {A} (l : list A) : bool := match l with [] => true | _ => false end.

Definition is_dir_of (files : list (path * bytes)) (p : path) : bool :=
  negb (is_nil p) && existsb (fun qd => path_prefix p (removelast (fst qd))) files.

Definition expected_node (files : list (path * bytes)) (p : path) : option node :=
  match last_file files p with
  | Some d => Some (File d false)
  | None => if path_eqb p [tmp_dir_name] || is_dir_of files p then Some (Dir false) else None
  end.

(* removeAll: WalkDir making every directory writable, then os.RemoveAll.  RemoveAll cannot
   unlink an entry of a read-only directory (unless root); what it cannot unlink stays, together
   with all its ancestors.  The WalkDir does not descend into symbolic links and the mode is changed
   for directories only: a link is left alone, and so is whatever it points to (the model of the
   whole file system, with link targets outside the work directory, is TsCleanup.v). *)
Definition chmod_all (t : tree) : tree :=
  map (fun qn => (fst qn, match snd qn with Dir _ => Dir false | n => n end)) t.

Definition unremovable (root : bool) (t : tree) (q : path) : bool :=
  match get_node t (removelast q) with
  | Some (Dir true) => negb root
  | _ => false
  end.

Definition stuck (root : bool) (t : tree) (p : path) : bool :=
  existsb (fun qn => path_prefix p (fst qn) && unremovable root t (fst qn)) t.

Definition os_remove_all (root : bool) (t : tree) : tree :=
  filter (fun qn => stuck root t (fst qn)) t.

Definition remove_all (root : bool) (t : tree) : tree := os_remove_all root (chmod_all t).

(* `rm p` = removeAll(p), then os.RemoveAll(p) once more, whose error fails the line. *)
Definition below (q p : path) : bool := path_prefix q p && negb (path_eqb q p).
Definition remove_below (t : tree) (q : path) : tree := filter (fun e => negb (below q (fst e))) t.
Definition remove_at (t : tree) (q : path) : tree := filter (fun e => negb (path_prefix q (fst e))) t.

(* a proper prefix of q names something that is not a directory: ENOTDIR (a missing prefix is
   ENOENT, for which RemoveAll returns nil) *)
Definition blocked_by_file (t : tree) (q : path) : bool :=
  existsb (fun r => match tree_get t r with Some (Dir _) | None => false | Some _ => true end)
          (prefixes (removelast q)).

Inductive rm_result := RmOk (t : tree) | RmFail (t : tree).

Definition rm_path (root : bool) (t : tree) (q : path) : rm_result :=
  match q with
  | [] => RmFail t                      (* the work directory itself: not done by the harness *)
  | _ =>
      if blocked_by_file t q then RmFail t
      else match tree_get t q with
           | None => RmOk t
           | Some n =>
               if unremovable root t q
               then (* the chmod pass and the removal of everything below succeed; q itself cannot be unlinked *)
                    RmFail (match n with Dir _ => tree_set (remove_below t q) q (Dir false) | _ => t end)
               else RmOk (remove_at t q)
           end
  end.

(* os.Symlink(target, q): q must not exist, its directory must exist and be writable *)
Definition symlink_at (root : bool) (t : tree) (q : path) (tg : bytes) : option tree :=
  match q with
  | [] => None
  | _ => match tree_get t q with
         | Some _ => None
         | None => if dir_writable root t (removelast q) then Some (tree_set t q (Link tg)) else None
         end
  end.

Definition is_exec (t : tree) (p : path) : bool :=
  match tree_get t p with Some (File _ true) => true | _ => false end.

(* ------------------------------------------------------------------ scripts *)

Inductive action :=
  | AWrite (p : path) (d : bytes)        (* a command writing a file (os.WriteFile via ts.Check) *)
  | AMkdir (p : path) (ro : bool)        (* mkdir p; then chmod 555 p when ro *)
  | AChmodX (p : path)                   (* chmod 755 p *)
  | ACd (p : path)
  | ASetenv (k : name) (v : bytes)       (* env k=v *)
  | ASetPathOwn (sub : path) (keep : bool) (* env PATH=$WORK/sub  or  env PATH=$WORK/sub${:}$PATH *)
  | ADefer (id : nat) (bad : bool)       (* a custom command calling ts.Defer; bad: the function panics *)
  | ABg (h : nat) (neg : bool)           (* [!] exec helper sleep & *)
  | AProbe                               (* report cwd, environment, files *)
  | AFail                                (* a line that fails *)
  | ASkip
  | AStop
  | APanic                               (* a custom command that panics *)
  | AKill                                (* kill: every background command gets a signal *)
  | AKillWait                            (* kill, then wait: the statuses are checked as by skip *)
  | AWait                                (* wait: no signal is sent; blocks on a command that is still running *)
  | AExec (neg : bool) (prog : name)     (* [!] exec prog ...: a foreground command that succeeds when it can be run *)
  | ASymlink (p : path) (tg : bytes)     (* symlink p -> tg *)
  | ARm (p : path)                       (* rm p *)
  | AIfExec (neg : bool) (prog : name) (a : action)  (* [exec:prog] a   /   [!exec:prog] a *)
  | ATSkip                               (* a custom command calling Skip on the T it got from Env.T() *)
  | ATFail.                              (* a custom command calling FailNow / Fatal on that T *)

Record script := {
  archive : list (path * bytes);     (* the files of the txtar archive, in order; names relative to $WORK *)
  work_named : list path;            (* those of them whose entry name is written $WORK/... in the archive *)
  escaping_at : option nat;          (* index of an entry whose name, expanded and made absolute, is not below
                                        $WORK (../x, /abs/x, $HOME/x); its path field is then meaningless *)
  setup_keep : option (list name);   (* the allow-list Params.Setup filters Env.Vars with, if it does *)
  setup_adds : env;                  (* variables Params.Setup appends *)
  setup_defers : list (nat * bool);  (* Env.Defer calls made by Params.Setup, in order *)
  setup_err : bool;                  (* Params.Setup returns an error *)
  body : list action
}.

Inductive verdict := VPass | VFail | VSkip | VStop | VSetupFail | VPanic.

(* the end of run(), in the order in which the code gets there *)
Inductive stage :=
  | SInt       (* end of the loop: interruptProcess for every background command *)
  | SWait      (* ts.waitBackground(false) *)
  | SDefers    (* deferred: ts.deferred() *)
  | SBgClean   (* deferred: interrupt + wait for what is still in ts.background *)
  | SCleanup.  (* RunT's deferred function: removeAll, refCount, root, cancel *)

Inductive phase :=
  | NotStarted
  | Running (pc : nat)
  | Ending (v : verdict) (st : stage)
  | Done (v : verdict)
  | Stuck.   (* blocked for ever in `wait` on a background command that nothing has signalled *)

Inductive event :=
  | EvSetup (e : env) (t : tree) (outside : list path)  (* outside: files unpacked outside $WORK *)
  | EvProbe (cwd : path) (e : env) (t : tree)
  | EvCond (prog : name) (ans : bool)
  | EvDeferReg (id : nat)
  | EvDeferRun (id : nat)
  | EvBgStart (h : nat)
  | EvInt (h : nat)
  | EvWaited (h : nat)
  | EvWorkRemoved.

Record sstate := {
  ph : phase;
  cwd : path;
  senv : env;
  tr : tree;
  wpresent : bool;                 (* the work directory exists *)
  dstack : list (nat * bool);      (* ts.deferred, most recent first *)
  bgl : list (nat * bool);         (* ts.background: handle, negated *)
  failedf : bool;                  (* ts.failed: a line has failed (matters under ContinueOnError) *)
  obs : list event                 (* oldest first *)
}.

Definition sstate0 : sstate :=
  {| ph := NotStarted; cwd := []; senv := []; tr := []; wpresent := false; dstack := []; bgl := []; failedf := false; obs := [] |}.

Definition ckey := (option value * name)%type.
Definition ckey_eqb (a b : ckey) : bool :=
  (match fst a, fst b with
   | None, None => true
   | Some x, Some y => value_eqb x y
   | _, _ => false
   end) && bytes_eqb (snd a) (snd b).

Definition cache := list (ckey * bool).
Fixpoint cache_get (c : cache) (k : ckey) : option bool :=
  match c with
  | [] => None
  | (k', v) :: r => if ckey_eqb k' k then Some v else cache_get r k
  end.

Record config := {
  retain : bool;        (* TestWork, -testwork or WorkdirRoot *)
  key_by_path : bool;   (* execCache keyed by PATH value and program (true) or by program only *)
  names_see_env : bool; (* archive entry names are expanded with the initial environment (true) or with
                           an empty one, as before the repair: $WORK/x is then the absolute path /x *)
  names_contained : bool; (* setup() refuses an entry name that leaves the work directory (true) or
                             writes the file where the name says, as before the repair *)
  empty_cleans : bool;    (* RunT with no script at all removes the root itself (true) or leaves it *)
  continue_on_error : bool; (* Params.ContinueOnError *)
  has_cancel : bool;    (* Params.Deadline set: cancel is not nil *)
  pwd_appended : bool;  (* exec / execBackground give the program append(ts.env, "PWD="+ts.cd) (true) or ts.env
                           itself, which os/exec replaces by the environment of the test process when it is nil *)
  precancel_guarded : bool; (* outside the subtests RunT calls cancel() / removes the root only when there is no
                               script at all (true); false: it also does so, before any script has started,
                               under some retention setting *)
  is_root : bool;       (* the test process ignores permission bits *)
  hostenv : host;
  hosttab : list ((bytes * name) * bool);  (* execpath.Look over directories no script writes to *)
  helper : name         (* the program started by ABg *)
}.

Fixpoint hosttab_get (tab : list ((bytes * name) * bool)) (pv : bytes) (prog : name) : bool :=
  match tab with
  | [] => false
  | ((b, n), v) :: r => if bytes_eqb b pv && bytes_eqb n prog then v else hosttab_get r pv prog
  end.

(* execpath.Look(prog, ts.Getenv) for a program name without a slash *)
Definition look (cfg : config) (s : nat) (t : tree) (pv : value) (prog : name) : bool :=
  match pv with
  | VLit b => hosttab_get (hosttab cfg) b prog
  | VWork o sub => Nat.eqb o s && is_exec t (sub ++ [prog])
  | VOwnPath o sub rest =>
      (Nat.eqb o s && is_exec t (sub ++ [prog]))
      || match rest with Some b => hosttab_get (hosttab cfg) b prog | None => false end
  end.

Definition path_value (e : env) : value :=
  match env_get e PATH with Some v => v | None => VLit [] end.

(* condition("exec:prog"): execCache.Do(key, func() { Look(prog, ts.Getenv) }) *)
Definition cached_look (cfg : config) (s : nat) (c : cache) (ss : sstate) (prog : name) : bool * cache :=
  let pv := path_value (senv ss) in
  let k : ckey := (if key_by_path cfg then Some pv else None, prog) in
  match cache_get c k with
  | Some v => (v, c)
  | None => let v := look cfg s (tr ss) pv prog in (v, (k, v) :: c)
  end.

Inductive outcome := OCont | OFail | OSkip | OStop | OPanic | OStuck | OSkipNow | OFailNow.

(* Background commands whose handle is in 30..49 are started by the absolute path of the program: no
   PATH is consulted. *)
Definition bg_by_path (h : nat) : bool := Nat.leb 30 h && Nat.ltb h 50.

(* The environment of a program the script starts.  exec and execBackground pass append(ts.env,
   "PWD="+ts.cd): the list is never nil and PWD names the directory the program runs in.  Passing ts.env
   itself would hand os/exec a nil slice whenever the script has no variable at all, and a nil Cmd.Env
   means "the environment of the current process". *)
Definition host_as_env (h : host) : env := map (fun kv => (fst kv, VLit (snd kv))) h.
Definition child_env (cfg : config) (s : nat) (cd : path) (e : env) : env :=
  if pwd_appended cfg then e ++ [(PWD, VWork s cd)]
  else match e with [] => host_as_env (hostenv cfg) | _ => e end.

Definition add_obs (ss : sstate) (l : list event) : sstate :=
  {| ph := ph ss; cwd := cwd ss; senv := senv ss; tr := tr ss; wpresent := wpresent ss;
     dstack := dstack ss; bgl := bgl ss; failedf := failedf ss; obs := obs ss ++ l |}.
Definition set_tree (ss : sstate) (t : tree) : sstate :=
  {| ph := ph ss; cwd := cwd ss; senv := senv ss; tr := t; wpresent := wpresent ss;
     dstack := dstack ss; bgl := bgl ss; failedf := failedf ss; obs := obs ss |}.
Definition set_env (ss : sstate) (e : env) : sstate :=
  {| ph := ph ss; cwd := cwd ss; senv := e; tr := tr ss; wpresent := wpresent ss;
     dstack := dstack ss; bgl := bgl ss; failedf := failedf ss; obs := obs ss |}.
Definition set_cwd (ss : sstate) (p : path) : sstate :=
  {| ph := ph ss; cwd := p; senv := senv ss; tr := tr ss; wpresent := wpresent ss;
     dstack := dstack ss; bgl := bgl ss; failedf := failedf ss; obs := obs ss |}.
Definition set_ph (ss : sstate) (p : phase) : sstate :=
  {| ph := p; cwd := cwd ss; senv := senv ss; tr := tr ss; wpresent := wpresent ss;
     dstack := dstack ss; bgl := bgl ss; failedf := failedf ss; obs := obs ss |}.
Definition set_dstack (ss : sstate) (d : list (nat * bool)) : sstate :=
  {| ph := ph ss; cwd := cwd ss; senv := senv ss; tr := tr ss; wpresent := wpresent ss;
     dstack := d; bgl := bgl ss; failedf := failedf ss; obs := obs ss |}.
Definition set_bgl (ss : sstate) (b : list (nat * bool)) : sstate :=
  {| ph := ph ss; cwd := cwd ss; senv := senv ss; tr := tr ss; wpresent := wpresent ss;
     dstack := dstack ss; bgl := b; failedf := failedf ss; obs := obs ss |}.

Definition set_failed (ss : sstate) : sstate :=
  {| ph := ph ss; cwd := cwd ss; senv := senv ss; tr := tr ss; wpresent := wpresent ss;
     dstack := dstack ss; bgl := bgl ss; failedf := true; obs := obs ss |}.

Definition ev_int_all (b : list (nat * bool)) : list event := map (fun hn => EvInt (fst hn)) b.
Definition ev_wait_all (b : list (nat * bool)) : list event := map (fun hn => EvWaited (fst hn)) b.

(* cmdSkip: after the interrupts, waitBackground(true) checks the status of each command in
   turn; an interrupted command has failed, which is accepted only for a negated line.  The
   result is the list of commands waited for and whether all of them were accepted. *)
Fixpoint skip_wait (b : list (nat * bool)) : list event * bool :=
  match b with
  | [] => ([], true)
  | (h, neg) :: r =>
      if neg then let '(evs, ok) := skip_wait r in (EvWaited h :: evs, ok)
      else ([EvWaited h], false)
  end.

(* Background commands are of two kinds, told apart by their handle: handles below 100 are commands
   that run until they are signalled (and then have failed); handles from 100 on are commands that
   exit at once by themselves with a failure status (exec helper exit 1 &). *)
Definition quick_fail (h : nat) : bool := Nat.leb 100 h.

Definition bg_interrupted_ev (l : list event) : list nat :=
  flat_map (fun e => match e with EvInt h => [h] | _ => [] end) l.
Definition signalled (l : list event) (h : nat) : bool := existsb (Nat.eqb h) (bg_interrupted_ev l).

Inductive wait_result := WOk | WFailed | WStuck.

(* the bare `wait`: waitBackground(true) waits for each command in turn and checks its status; a
   command that has neither exited by itself nor been signalled is waited for for ever *)
Fixpoint wait_list (sig : nat -> bool) (b : list (nat * bool)) : list event * wait_result :=
  match b with
  | [] => ([], WOk)
  | (h, neg) :: r =>
      if quick_fail h || sig h
      then if neg then let '(evs, res) := wait_list sig r in (EvWaited h :: evs, res)
           else ([EvWaited h], WFailed)
      else ([], WStuck)
  end.

(* one script line.  The cache is the only shared thing a line can read or write. *)
Fixpoint exec_action (cfg : config) (s : nat) (c : cache) (ss : sstate) (a : action)
  : cache * sstate * outcome :=
  match a with
  | AWrite p d =>
      match write_file (is_root cfg) (tr ss) (cwd ss ++ p) d with
      | Some t => (c, set_tree ss t, OCont)
      | None => (c, ss, OFail)
      end
  | AMkdir p ro =>
      match mkdir_all (is_root cfg) (tr ss) (cwd ss ++ p) with
      | Some t =>
          (c, set_tree ss (if ro then match cwd ss ++ p with [] => t | q => tree_set t q (Dir true) end else t), OCont)
      | None => (c, ss, OFail)
      end
  | AChmodX p =>
      match cwd ss ++ p with
      | [] => (c, ss, OCont)
      | q =>
          match tree_get (tr ss) q with
          | Some (File d _) => (c, set_tree ss (tree_set (tr ss) q (File d true)), OCont)
          | Some (Dir _) => (c, set_tree ss (tree_set (tr ss) q (Dir false)), OCont)
          | Some (Link _) => (c, ss, OFail)   (* not done by the harness (chmod follows links) *)
          | None => (c, ss, OFail)
          end
      end
  | ACd p =>
      match get_node (tr ss) (cwd ss ++ p) with
      | Some (Dir _) => (c, set_cwd ss (cwd ss ++ p), OCont)
      | _ => (c, ss, OFail)
      end
  | ASetenv k v => (c, set_env ss (senv ss ++ [(k, VLit v)]), OCont)
  | ASetPathOwn sub keep =>
      let rest := if keep then match path_value (senv ss) with VLit b => Some b | _ => None end else None in
      (c, set_env ss (senv ss ++ [(PATH, VOwnPath s sub rest)]), OCont)
  | ADefer id bad =>
      (c, add_obs (set_dstack ss ((id, bad) :: dstack ss)) [EvDeferReg id], OCont)
  | ABg h neg =>
      if bg_by_path h || look cfg s (tr ss) (path_value (senv ss)) (helper cfg)
      then (c, add_obs (set_bgl ss (bgl ss ++ [(h, neg)])) [EvBgStart h], OCont)
      else (c, ss, if neg then OCont else OFail)
  | AProbe => (c, add_obs ss [EvProbe (cwd ss) (child_env cfg s (cwd ss) (senv ss)) (tr ss)], OCont)
  | AFail => (c, ss, OFail)
  | ASkip =>
      let '(waited, ok) := skip_wait (bgl ss) in
      let ss1 := add_obs ss (ev_int_all (bgl ss) ++ waited) in
      if ok then (c, set_bgl ss1 [], OSkip) else (c, ss1, OFail)
  | AStop => (c, ss, OStop)
  | APanic => (c, ss, OPanic)
  | AKill => (c, add_obs ss (ev_int_all (bgl ss)), OCont)
  | AKillWait =>
      let '(waited, ok) := skip_wait (bgl ss) in
      let ss1 := add_obs ss (ev_int_all (bgl ss) ++ waited) in
      if ok then (c, set_bgl ss1 [], OCont) else (c, ss1, OFail)
  | AExec neg prog =>
      (* buildExecCmd: a bare name is looked up on the script's own PATH (execpath.Look with ts.Getenv),
         never on the PATH of the test process *)
      if look cfg s (tr ss) (path_value (senv ss)) prog
      then (c, ss, if neg then OFail else OCont)
      else (c, ss, if neg then OCont else OFail)
  | ASymlink p tg =>
      match symlink_at (is_root cfg) (tr ss) (cwd ss ++ p) tg with
      | Some t => (c, set_tree ss t, OCont)
      | None => (c, ss, OFail)
      end
  | ARm p =>
      match rm_path (is_root cfg) (tr ss) (cwd ss ++ p) with
      | RmOk t => (c, set_tree ss t, OCont)
      | RmFail t => (c, set_tree ss t, OFail)
      end
  | AWait =>
      let '(waited, res) := wait_list (signalled (obs ss)) (bgl ss) in
      let ss1 := add_obs ss waited in
      match res with
      | WOk => (c, set_bgl ss1 [], OCont)
      | WFailed => (c, ss1, OFail)
      | WStuck => (c, ss1, OStuck)
      end
  | AIfExec neg prog a' =>
      let '(ans, c') := cached_look cfg s c ss prog in
      let ss1 := add_obs ss [EvCond prog ans] in
      if Bool.eqb ans (negb neg) then exec_action cfg s c' ss1 a' else (c', ss1, OCont)
  | ATSkip => (c, ss, OSkipNow)
  | ATFail => (c, ss, OFailNow)
  end.

Definition any_bad (d : list (nat * bool)) : bool := existsb snd d.

(* How a deferred function ends, told by its id and flag: it returns; it panics (flag); it calls
   FailNow / Fatal (ids 200..299) or Skip (ids 300..399) on the T of the subtest, both of which leave
   through runtime.Goexit; it calls ts.Fatalf or ts.Check(err) (ids 400..499), which raises the internal
   failNow panic. *)
Inductive dend := DRet | DPanic | DFailNow | DSkipNow | DFatalf.
Definition defer_end (d : nat * bool) : dend :=
  if snd d then DPanic
  else if Nat.leb 200 (fst d) && Nat.ltb (fst d) 300 then DFailNow
  else if Nat.leb 300 (fst d) && Nat.ltb (fst d) 400 then DSkipNow
  else if Nat.leb 400 (fst d) && Nat.ltb (fst d) 500 then DFatalf
  else DRet.

(* What the T of the subtest has recorded and how the goroutine is being left: the failed and skipped
   marks, and which panic is on its way, if any.  A panic raised while the goroutine is leaving through
   Goexit, or while another panic is on its way, goes on in place of what was there; a Goexit called
   while a panic is on its way aborts that panic (the Go runtime: the deferred calls go on, the
   goroutine ends, nobody sees the panic).  run() wraps ts.deferred() in catchFailNow: when the chain is
   through, a failNow panic that is still on its way is turned into t.FailNow(); any other panic goes
   on to the caller of the subtest function. *)
Inductive pkind := PNone | PReal | PFailNow.
Record tmarks := { m_failed : bool; m_skipped : bool; m_panic : pkind }.
Definition m_panicking (m : tmarks) : bool := match m_panic m with PReal => true | _ => false end.
Definition marks_of (v : verdict) : tmarks :=
  match v with
  | VPass | VStop => {| m_failed := false; m_skipped := false; m_panic := PNone |}
  | VFail | VSetupFail => {| m_failed := true; m_skipped := false; m_panic := PNone |}
  | VSkip => {| m_failed := false; m_skipped := true; m_panic := PNone |}
  | VPanic => {| m_failed := false; m_skipped := false; m_panic := PReal |}
  end.
Definition after_defer (m : tmarks) (e : dend) : tmarks :=
  match e with
  | DRet => m
  | DPanic => {| m_failed := m_failed m; m_skipped := m_skipped m; m_panic := PReal |}
  | DFatalf => {| m_failed := m_failed m; m_skipped := m_skipped m; m_panic := PFailNow |}
  | DFailNow => {| m_failed := true; m_skipped := m_skipped m; m_panic := PNone |}
  | DSkipNow => {| m_failed := m_failed m; m_skipped := true; m_panic := PNone |}
  end.
(* defer catchFailNow(func() { ts.t.FailNow() }) around ts.deferred(): whether the source has it is the
   generated constant deferred_failnow_caught; without it the failNow panic escapes RunT like any other *)
Definition catch_failnow (caught : bool) (m : tmarks) : tmarks :=
  match m_panic m with
  | PFailNow => if caught then {| m_failed := true; m_skipped := m_skipped m; m_panic := PNone |}
                else {| m_failed := m_failed m; m_skipped := m_skipped m; m_panic := PReal |}
  | _ => m
  end.
(* the verdict the marks amount to; the way the loop was left (stop, setup failure) is kept when the
   marks are still those it gave *)
Definition verdict_of_marks (v : verdict) (m : tmarks) : verdict :=
  if m_panicking m then VPanic
  else if m_failed m then match v with VSetupFail => VSetupFail | _ => VFail end
  else if m_skipped m then VSkip
  else match v with VStop => VStop | _ => VPass end.
(* the deferred functions run most recent first: [d] is ts.deferred as a stack *)
Definition defers_verdict_gen (caught : bool) (d : list (nat * bool)) (v : verdict) : verdict :=
  verdict_of_marks v (catch_failnow caught (fold_left after_defer (map defer_end d) (marks_of v))).
Definition defers_verdict := defers_verdict_gen deferred_failnow_caught.

(* setup() expands every entry name (ts.expand) and makes it absolute below the work directory
   (ts.MkAbs).  A name written $WORK/p is the file p of the work directory when $WORK is defined at
   that point; when the environment is still empty it is /p, outside the work directory. *)
Definition is_work_named (p : script) (q : path) : bool := existsb (path_eqb q) (work_named p).

Definition esc_index (p : script) : option nat :=
  match escaping_at p with
  | Some i => if Nat.ltb i (length (archive p)) then Some i else None
  | None => None
  end.

(* the entries setup() gets to: all of them, or those before the refused one; before the repair the
   escaping entry was written outside and the loop went on *)
Definition kept (cfg : config) (p : script) : list (path * bytes) :=
  match esc_index p with
  | None => archive p
  | Some i => if names_contained cfg then firstn i (archive p)
              else firstn i (archive p) ++ skipn (S i) (archive p)
  end.

Definition esc_paths (cfg : config) (p : script) : list path :=
  match esc_index p with
  | Some i => if names_contained cfg then []
              else match nth_error (archive p) i with Some f => [fst f] | None => [] end
  | None => []
  end.

Definition effective_files (cfg : config) (p : script) : list (path * bytes) :=
  if names_see_env cfg then kept cfg p
  else filter (fun f => negb (is_work_named p (fst f))) (kept cfg p).
Definition escapes_of (cfg : config) (p : script) : list path :=
  (if names_see_env cfg then []
   else map fst (filter (fun f => is_work_named p (fst f)) (kept cfg p))) ++ esc_paths cfg p.

(* ts.Fatalf("... refers outside the work directory") *)
Definition setup_rejected (cfg : config) (p : script) : bool :=
  names_contained cfg && match esc_index p with Some _ => true | None => false end.

Definition setup_result (cfg : config) (p : script) : option tree :=
  if setup_rejected cfg p then None else setup_tree (is_root cfg) (effective_files cfg p).

(* what a step asks of the shared state beyond the cache *)
Inductive effect := NoEffect | Finished.

(* one atomic step of script s *)
Definition sstep (cfg : config) (p : script) (s : nat) (c : cache) (ss : sstate) : cache * sstate * effect :=
  match ph ss with
  | NotStarted =>
      let e := setup_env (hostenv cfg) s (setup_keep p) (setup_adds p) in
      let regs := map (fun d => EvDeferReg (fst d)) (setup_defers p) in
      match setup_result cfg p with
      | None =>
          (* unpacking failed: Setup is not reached *)
          (c, {| ph := Ending VSetupFail SDefers; cwd := []; senv := [];
                 tr := unpack_partial (is_root cfg) tmp_tree (effective_files cfg p); wpresent := true;
                 dstack := []; bgl := []; failedf := false; obs := [] |}, NoEffect)
      | Some t =>
          let ss1 := {| ph := Running 0; cwd := []; senv := e; tr := t; wpresent := true;
                        dstack := rev (setup_defers p); bgl := []; failedf := false;
                        obs := regs ++ [EvSetup e t (escapes_of cfg p)] |} in
          if setup_err p then (c, set_ph ss1 (Ending VSetupFail SDefers), NoEffect)
          else (c, ss1, NoEffect)
      end
  | Running pc =>
      match nth_error (body p) pc with
      | None => (c, set_ph ss (Ending (if failedf ss then VFail else VPass) SInt), NoEffect)
      | Some a =>
          let '(c', ss', o) := exec_action cfg s c ss a in
          (c', match o with
               | OCont => set_ph ss' (Running (S pc))
               | OFail =>
                   (* ts.failed = true; without ContinueOnError t.FailNow() at once *)
                   if continue_on_error cfg then set_ph (set_failed ss') (Running (S pc))
                   else set_ph (set_failed ss') (Ending VFail SDefers)
               | OSkip =>
                   (* cmdSkip: once a line has failed the run is a failure, not a skip *)
                   set_ph ss' (Ending (if failedf ss' then VFail else VSkip) SDefers)
               | OStop =>
                   (* break; the background commands are dealt with; then FailNow if a line had failed *)
                   set_ph ss' (Ending (if failedf ss' then VFail else VStop) SInt)
               | OPanic => set_ph ss' (Ending VPanic SDefers)
               | OStuck => set_ph ss' Stuck
               (* T.Skip / T.FailNow called by a custom command: runtime.Goexit out of the line, straight to
                  the deferred functions of run(); the background commands are still there *)
               | OSkipNow => set_ph ss' (Ending VSkip SDefers)
               | OFailNow => set_ph ss' (Ending VFail SDefers)
               end, NoEffect)
      end
  | Ending v SInt => (c, set_ph (add_obs ss (ev_int_all (bgl ss))) (Ending v SWait), NoEffect)
  | Ending v SWait => (c, set_ph (set_bgl (add_obs ss (ev_wait_all (bgl ss))) []) (Ending v SDefers), NoEffect)
  | Ending v SDefers =>
      (* func() { defer old(); f() }: every function runs, most recent first, even when one panics *)
      let v' := defers_verdict (dstack ss) v in
      (c, set_ph (set_dstack (add_obs ss (map (fun d => EvDeferRun (fst d)) (dstack ss))) []) (Ending v' SBgClean), NoEffect)
  | Ending v SBgClean =>
      (c, set_ph (set_bgl (add_obs ss (ev_int_all (bgl ss) ++ ev_wait_all (bgl ss))) []) (Ending v SCleanup), NoEffect)
  | Ending v SCleanup =>
      if retain cfg then (c, set_ph ss (Done v), NoEffect)
      else
        let t := remove_all (is_root cfg) (tr ss) in
        (c, {| ph := Done v; cwd := cwd ss; senv := senv ss; tr := t;
               wpresent := match t with [] => false | _ => true end;
               dstack := dstack ss; bgl := bgl ss; failedf := failedf ss; obs := obs ss ++ [EvWorkRemoved] |}, Finished)
  | Done _ => (c, ss, NoEffect)
  | Stuck => (c, ss, NoEffect)
  end.

(* ------------------------------------------------------------------ the batch *)

Record shared := {
  root_present : bool;
  refcount : nat;
  xcache : cache;
  cancelled : bool;
  root_removals : nat
}.

Record bstate := { sh : shared; scripts : list sstate }.

Fixpoint upd {A} (l : list A) (i : nat) (x : A) : list A :=
  match l, i with
  | [], _ => []
  | _ :: r, 0 => x :: r
  | y :: r, S j => y :: upd r j x
  end.

Definition apply_effect (cfg : config) (h : shared) (c : cache) (e : effect) : shared :=
  match e with
  | NoEffect => {| root_present := root_present h; refcount := refcount h; xcache := c;
                   cancelled := cancelled h; root_removals := root_removals h |}
  | Finished =>
      (* atomic.AddInt32(&refCount, -1) == 0  =>  os.Remove(testTempDir); cancel() *)
      let rc := pred (refcount h) in
      if Nat.eqb rc 0
      then {| root_present := false; refcount := rc; xcache := c;
              cancelled := has_cancel cfg; root_removals := S (root_removals h) |}
      else {| root_present := root_present h; refcount := rc; xcache := c;
              cancelled := cancelled h; root_removals := root_removals h |}
  end.

Definition step (cfg : config) (progs : list script) (st : bstate) (s : nat) : bstate :=
  match nth_error progs s, nth_error (scripts st) s with
  | Some p, Some ss =>
      let '(c, ss', e) := sstep cfg p s (xcache (sh st)) ss in
      {| sh := apply_effect cfg (sh st) c e; scripts := upd (scripts st) s ss' |}
  | _, _ => st
  end.

Definition init (progs : list script) : bstate :=
  {| sh := {| root_present := true; refcount := length progs; xcache := []; cancelled := false; root_removals := 0 |};
     scripts := map (fun _ => sstate0) progs |}.

(* RunT with Params.Files non-nil and empty: no subtest will ever remove the root *)
Definition start (cfg : config) (progs : list script) : bstate :=
  match progs with
  | [] => if empty_cleans cfg && negb (retain cfg)
          then {| sh := {| root_present := false; refcount := 0; xcache := []; cancelled := has_cancel cfg; root_removals := 1 |};
                  scripts := [] |}
          else init progs
  | _ => if precancel_guarded cfg then init progs
         else (* os.Remove(testTempDir); cancel() before the first subtest: the scripts make the root again
                 (MkdirAll) and run under a context that is already done *)
              {| sh := {| root_present := true; refcount := length progs; xcache := []; cancelled := has_cancel cfg; root_removals := 1 |};
                 scripts := map (fun _ => sstate0) progs |}
  end.

Definition run (cfg : config) (progs : list script) (st : bstate) (sched : list nat) : bstate :=
  fold_left (step cfg progs) sched st.

(* the script run alone: k of its own steps, nobody else touching the cache *)
Fixpoint alone (cfg : config) (p : script) (s : nat) (k : nat) : cache * sstate :=
  match k with
  | 0 => ([], sstate0)
  | S k' => let '(c, ss) := alone cfg p s k' in
            let '(c', ss', _) := sstep cfg p s c ss in (c', ss')
  end.

Definition is_done (ss : sstate) : bool := match ph ss with Done _ => true | _ => false end.
Definition all_done (st : bstate) : bool := forallb is_done (scripts st).
Definition not_done_count (l : list sstate) : nat := length (filter (fun ss => negb (is_done ss)) l).

(* a schedule long enough for every script: round-robin, [rounds] times *)
Definition round_robin (n rounds : nat) : list nat := concat (repeat (seq 0 n) rounds).

(* number of steps after which script p is certainly finished *)
Definition steps_bound (p : script) : nat := length (body p) + 8.

(* projections used by the statements *)
Definition defer_regs (l : list event) : list nat :=
  flat_map (fun e => match e with EvDeferReg i => [i] | _ => [] end) l.
Definition defer_runs (l : list event) : list nat :=
  flat_map (fun e => match e with EvDeferRun i => [i] | _ => [] end) l.
Definition bg_started (l : list event) : list nat :=
  flat_map (fun e => match e with EvBgStart h => [h] | _ => [] end) l.
Definition bg_interrupted (l : list event) : list nat :=
  flat_map (fun e => match e with EvInt h => [h] | _ => [] end) l.
(* the commands that are no longer running: interrupted, or of the kind that exits by itself *)
Definition bg_gone (l : list event) : list nat :=
  flat_map (fun e => match e with
                     | EvInt h => [h]
                     | EvBgStart h => if quick_fail h then [h] else []
                     | _ => []
                     end) l.
Definition bg_waited (l : list event) : list nat :=
  flat_map (fun e => match e with EvWaited h => [h] | _ => [] end) l.

(* does a line consult [exec:...]? *)
Definition uses_cond (a : action) : bool :=
  match a with AIfExec _ _ _ => true | _ => false end.
Definition script_uses_cond (p : script) : bool := existsb uses_cond (body p).

(* does a line execute a bare `wait`? *)
Fixpoint has_wait (a : action) : bool :=
  match a with AWait => true | AIfExec _ _ a' => has_wait a' | _ => false end.
Definition script_has_wait (p : script) : bool := existsb has_wait (body p).

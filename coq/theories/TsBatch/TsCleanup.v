(* C04 — what removeAll (the clean-up of a work directory, and the `rm` command) does to the WHOLE
   file system: definitions only.

   TsBatch.v gives every script a private tree and lets nothing in it refer to anything else.  Here
   the file system is one table of absolute paths with permission bits and symbolic links whose
   targets may lie anywhere — in the host's directories, in a sibling's work directory — and the
   question is what a removeAll of one directory changes.

   Anchor: testscript/testscript.go removeAll:

     filepath.WalkDir(dir, func(path, entry, err) { if err != nil { return nil }
                                                    if entry.IsDir() { os.Chmod(path, 0o777) }
                                                    return nil })
     return os.RemoveAll(dir)

   WalkDir reports a symbolic link as an entry that is not a directory and does not descend into
   it; os.Chmod follows links.  Whether the mode is changed for directories only is read from the
   source (Gen.TsBatchConsts.remove_all_chmods_dirs_only); the model has both behaviours. *)
From Coq Require Import List Bool Arith NArith Lia.
From Coq.Strings Require Import Byte.
From GI Require Import Lib.Bytes Gen.TsBatchConsts TsBatch.TsBatch.
Import ListNotations.

Inductive gnode :=
  | GDir (perm : N)
  | GFile (perm : N) (data : bytes)
  | GLink (target : path).     (* where the link leads: an absolute path, anywhere *)

(* absolute paths (lists of segments from the root) to nodes; the first entry of a path counts *)
Definition gfs := list (path * gnode).

Fixpoint gget (fs : gfs) (p : path) : option gnode :=
  match fs with
  | [] => None
  | (q, n) :: r => if path_eqb q p then Some n else gget r p
  end.

Definition with_perm (n : gnode) (m : N) : gnode :=
  match n with GDir _ => GDir m | GFile _ d => GFile m d | GLink t => GLink t end.

Definition gset_perm (fs : gfs) (p : path) (m : N) : gfs :=
  map (fun e => if path_eqb (fst e) p then (fst e, with_perm (snd e) m) else e) fs.

(* who may change the mode of p: root, or the owner (the process owns what is below [mine]) *)
Definition can_chmod (root : bool) (mine : list path) (p : path) : bool :=
  root || existsb (fun o => path_prefix o p) mine.

(* os.Chmod follows symbolic links (a chain of them; a loop or a dangling link is an error) *)
Fixpoint resolve (fuel : nat) (fs : gfs) (p : path) : option path :=
  match fuel with
  | O => None
  | S f =>
      match gget fs p with
      | Some (GLink t) => resolve f fs t
      | Some _ => Some p
      | None => None
      end
  end.

Definition os_chmod (root : bool) (mine : list path) (fs : gfs) (p : path) (m : N) : gfs :=
  match resolve (S (length fs)) fs p with
  | Some r => if can_chmod root mine r then gset_perm fs r m else fs
  | None => fs
  end.

Definition perm_all : N := 511.   (* 0o777 *)

(* the function handed to WalkDir, for the entry at p *)
Definition visit (dirs_only root : bool) (mine : list path) (fs : gfs) (p : path) : gfs :=
  match gget fs p with
  | Some (GDir _) => if can_chmod root mine p then gset_perm fs p perm_all else fs
  | Some _ => if dirs_only then fs else os_chmod root mine fs p perm_all
  | None => fs
  end.

(* the entries WalkDir(dir) reports: dir and everything physically below it (nothing is physically
   below a link) *)
Definition entries_below (fs : gfs) (dir : path) : list path :=
  map fst (filter (fun e => path_prefix dir (fst e)) fs).

Definition chmod_pass (dirs_only root : bool) (mine : list path) (fs : gfs) (dir : path) : gfs :=
  fold_left (visit dirs_only root mine) (entries_below fs dir) fs.

(* os.RemoveAll(dir): an entry of a directory without write permission cannot be unlinked (unless
   root); what cannot be unlinked stays, with all its ancestors.  Links are unlinked, not followed. *)
Definition owner_w (m : N) : bool := N.testbit m 7.   (* 0o200 *)

Definition g_unremovable (root : bool) (fs : gfs) (q : path) : bool :=
  match gget fs (removelast q) with
  | Some (GDir m) => negb root && negb (owner_w m)
  | _ => false
  end.

Definition g_stuck (root : bool) (fs : gfs) (p : path) : bool :=
  existsb (fun e => path_prefix p (fst e) && g_unremovable root fs (fst e)) fs.

Definition g_remove_all (root : bool) (fs : gfs) (dir : path) : gfs :=
  filter (fun e => negb (path_prefix dir (fst e)) || g_stuck root fs (fst e)) fs.

Definition remove_all_at (dirs_only root : bool) (mine : list path) (fs : gfs) (dir : path) : gfs :=
  g_remove_all root (chmod_pass dirs_only root mine fs dir) dir.

(* removeAll as the source has it now *)
Definition remove_all_now := remove_all_at remove_all_chmods_dirs_only.

(* Proofs about the txtar model (Txtar.v).  Property theorems are re-exported,
   unchanged, by Properties/C03.v and Properties/C14.v. *)
From Coq Require Import List Bool Arith Lia.
From Coq.Strings Require Import Byte.
From GI Require Import Lib.Bytes Gen.TxtarConsts Txtar.Txtar.
Import ListNotations.

Lemma beq_refl b : beq b b = true.
Proof. unfold beq. apply Byte.byte_dec_lb. reflexivity. Qed.

Lemma beq_eq a b : beq a b = true -> a = b.
Proof. unfold beq. apply Byte.byte_dec_bl. Qed.

Lemma strip_nl_snoc l : strip_nl (l ++ [NL]) = l.
Proof. unfold strip_nl. rewrite rev_app_distr. simpl. rewrite rev_involutive. reflexivity. Qed.

Lemma strip_cr_snoc l : strip_cr (l ++ [CR]) = l.
Proof. unfold strip_cr. rewrite rev_app_distr. simpl. rewrite rev_involutive. reflexivity. Qed.

(* a marker line ending in CRLF is recognised exactly like one ending in LF *)
Lemma marker_line_crlf l :
  last_byte l <> Some CR ->
  marker_line (l ++ [CR; NL]) = marker_line (l ++ [NL]).
Proof.
  intros Hl. unfold marker_line.
  change (l ++ [CR; NL]) with (l ++ [CR] ++ [NL]). rewrite app_assoc.
  rewrite !strip_nl_snoc, strip_cr_snoc.
  unfold strip_cr, last_byte in *. destruct (rev l) as [|b r] eqn:E; [reflexivity|].
  destruct (beq b CR) eqn:Eb; [|reflexivity].
  apply beq_eq in Eb. subst b. congruence.
Qed.

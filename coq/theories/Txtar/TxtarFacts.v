(* Proofs about the txtar model (Txtar.v), part 1: marker lines, collect, and the
   Parse/Format theorems of C03.  The quoting theorems of C14 are in QuoteFacts.v.
   Property theorems are re-exported, unchanged, by Properties/C03.v and C14.v. *)
From Coq Require Import List Bool Arith Lia.
From Coq.Strings Require Import Byte.
From GI Require Import Lib.Bytes Lib.BytesFacts Gen.TxtarConsts Txtar.Txtar.
Import ListNotations.

(* ------------------------------------------------------------------ *)
(* the facts about the regenerated constants that the proofs rely on   *)
(* (re-checked by computation whenever Gen/TxtarConsts.v changes)      *)

Lemma marker_no_nl : ~ In NL marker.
Proof. apply mem_byte_false. reflexivity. Qed.

Lemma marker_end_no_nl : ~ In NL marker_end.
Proof. apply mem_byte_false. reflexivity. Qed.

Lemma marker_end_nonempty : marker_end <> [].
Proof. discriminate. Qed.

Lemma marker_end_last_not_cr : last_byte marker_end <> Some CR.
Proof. cbv. discriminate. Qed.

(* '>' is not the first byte of the marker *)
Lemma marker_not_gt l : has_prefix marker (x3e :: l) = false.
Proof. reflexivity. Qed.

Lemma marker_prefix_nonempty : has_prefix marker [] = false.
Proof. reflexivity. Qed.

(* ------------------------------------------------------------------ *)
(* line terminators                                                    *)

Lemma strip_nl_snoc l : strip_nl (l ++ [NL]) = l.
Proof. unfold strip_nl. rewrite rev_app_distr. simpl. rewrite rev_involutive. reflexivity. Qed.

Lemma strip_cr_snoc l : strip_cr (l ++ [CR]) = l.
Proof. unfold strip_cr. rewrite rev_app_distr. simpl. rewrite rev_involutive. reflexivity. Qed.

Lemma strip_nl_id l : last_byte l <> Some NL -> strip_nl l = l.
Proof.
  unfold strip_nl, last_byte. intros H. destruct (rev l) as [|b r]; [reflexivity|].
  destruct (beq b NL) eqn:E; [|reflexivity]. apply beq_eq in E. subst b. now contradiction H.
Qed.

Lemma strip_cr_id l : last_byte l <> Some CR -> strip_cr l = l.
Proof.
  unfold strip_cr, last_byte. intros H. destruct (rev l) as [|b r]; [reflexivity|].
  destruct (beq b CR) eqn:E; [|reflexivity]. apply beq_eq in E. subst b. now contradiction H.
Qed.

Lemma strip_nl_prefix l : exists s, l = strip_nl l ++ s.
Proof.
  unfold strip_nl. destruct (rev l) as [|b r] eqn:E.
  - exists []. now rewrite app_nil_r.
  - destruct (beq b NL).
    + exists [b]. rewrite <- (rev_involutive l), E. reflexivity.
    + exists []. now rewrite app_nil_r.
Qed.

Lemma strip_cr_prefix l : exists s, l = strip_cr l ++ s.
Proof.
  unfold strip_cr. destruct (rev l) as [|b r] eqn:E.
  - exists []. now rewrite app_nil_r.
  - destruct (beq b CR).
    + exists [b]. rewrite <- (rev_involutive l), E. reflexivity.
    + exists []. now rewrite app_nil_r.
Qed.

Lemma strip_cr_incl l : incl (strip_cr l) l.
Proof. destruct (strip_cr_prefix l) as [s H]. intros x Hx. rewrite H. apply in_or_app. now left. Qed.

Lemma strip_nl_incl l : incl (strip_nl l) l.
Proof. destruct (strip_nl_prefix l) as [s H]. intros x Hx. rewrite H. apply in_or_app. now left. Qed.

(* the line with its terminator removed has no NL *)
Lemma strip_nl_line_no_nl l : is_line l -> ~ In NL (strip_nl l).
Proof.
  intros [[l0 H0]|[Hne Hnl]].
  - now rewrite strip_nl_snoc.
  - intros H. apply Hnl. now apply strip_nl_incl.
Qed.

(* ------------------------------------------------------------------ *)
(* marker lines                                                        *)

Lemma In_firstn {A} k (l : list A) x : In x (firstn k l) -> In x l.
Proof. intros H. rewrite <- (firstn_skipn k l). apply in_or_app. now left. Qed.

Lemma In_skipn {A} k (l : list A) x : In x (skipn k l) -> In x l.
Proof. intros H. rewrite <- (firstn_skipn k l). apply in_or_app. now right. Qed.

Lemma marker_core_Some l n :
  marker_core l = Some n ->
  has_prefix marker l = true /\ n <> [] /\ trim_space n = n /\ incl n l.
Proof.
  unfold marker_core.
  destruct (has_prefix marker l && has_suffix marker_end l
            && Nat.leb (length marker + length marker_end) (length l)) eqn:C; [|discriminate].
  apply andb_true_iff in C. destruct C as [C _].
  apply andb_true_iff in C. destruct C as [C _].
  cbv zeta.
  set (mid := firstn (length l - length marker - length marker_end) (skipn (length marker) l)).
  destruct (trim_space mid) as [|b t] eqn:E; [discriminate|].
  intros H. injection H as <-. rewrite <- E.
  split; [exact C|]. split; [rewrite E; discriminate|]. split; [apply trim_space_idem|].
  intros x Hx. apply trim_space_incl in Hx. unfold mid in Hx.
  apply In_firstn in Hx. now apply In_skipn in Hx.
Qed.

Lemma marker_line_has_prefix l n : marker_line l = Some n -> has_prefix marker l = true.
Proof.
  unfold marker_line. intros H. apply marker_core_Some in H. destruct H as [H _].
  destruct (strip_nl_prefix l) as [s1 H1]. destruct (strip_cr_prefix (strip_nl l)) as [s2 H2].
  rewrite H1, H2, <- app_assoc. now apply has_prefix_app_mono.
Qed.

(* a terminator-less last line is classified as if it were terminated *)
Lemma marker_line_snoc_nl u : last_byte u <> Some NL -> marker_line (u ++ [NL]) = marker_line u.
Proof. intros H. unfold marker_line. now rewrite strip_nl_snoc, strip_nl_id. Qed.

(* a line starting with '>' is never a marker line *)
Lemma marker_line_gt l : marker_line (x3e :: l) = None.
Proof.
  destruct (marker_line (x3e :: l)) as [n|] eqn:E; [|reflexivity].
  apply marker_line_has_prefix in E. rewrite marker_not_gt in E. discriminate.
Qed.

(* C03, "a marker line ending in CRLF is recognised exactly like one ending in LF" *)
Lemma marker_line_crlf l :
  last_byte l <> Some CR ->
  marker_line (l ++ [CR; NL]) = marker_line (l ++ [NL]).
Proof.
  intros Hl. unfold marker_line.
  change (l ++ [CR; NL]) with (l ++ [CR] ++ [NL]). rewrite app_assoc.
  rewrite !strip_nl_snoc, strip_cr_snoc. now rewrite strip_cr_id.
Qed.

Lemma wf_name_iff n :
  wf_name n = true <-> n <> [] /\ trim_space n = n /\ ~ In NL n.
Proof.
  unfold wf_name. rewrite !andb_true_iff, bytes_eqb_eq, negb_true_iff, mem_byte_false.
  destruct n; intuition congruence.
Qed.

(* every name the parser produces is well formed *)
Lemma marker_line_wf_name l n : is_line l -> marker_line l = Some n -> wf_name n = true.
Proof.
  intros Hl H. unfold marker_line in H. apply marker_core_Some in H.
  destruct H as [_ [Hne [Htrim Hincl]]]. apply wf_name_iff. repeat split; try assumption.
  intros Hin. apply (strip_nl_line_no_nl l Hl). apply strip_cr_incl. now apply Hincl.
Qed.

Lemma format_marker_eq n : format_marker n = (marker ++ n ++ marker_end) ++ [NL].
Proof. unfold format_marker. now rewrite <- !app_assoc. Qed.

Lemma marker_core_format n :
  n <> [] -> trim_space n = n -> marker_core (marker ++ n ++ marker_end) = Some n.
Proof.
  intros Hne Htrim. unfold marker_core. cbv zeta.
  set (L := marker ++ n ++ marker_end).
  assert (HP : has_prefix marker L = true) by apply has_prefix_app.
  assert (HS : has_suffix marker_end L = true).
  { apply has_suffix_iff. exists (marker ++ n). unfold L. now rewrite app_assoc. }
  assert (HL : Nat.leb (length marker + length marker_end) (length L) = true).
  { apply Nat.leb_le. unfold L. rewrite !app_length. lia. }
  assert (HM : firstn (length L - length marker - length marker_end) (skipn (length marker) L) = n).
  { unfold L. rewrite skipn_length_app.
    replace (length (marker ++ n ++ marker_end) - length marker - length marker_end)
      with (length n) by (rewrite !app_length; lia).
    apply firstn_length_app. }
  rewrite HP, HS, HL, HM. cbn [andb]. rewrite Htrim. destruct n; congruence.
Qed.

(* what Format writes for a well-formed name is read back as that name *)
Lemma marker_line_format_marker n : wf_name n = true -> marker_line (format_marker n) = Some n.
Proof.
  intros H. apply wf_name_iff in H. destruct H as [Hne [Htrim Hnl]].
  unfold marker_line. rewrite format_marker_eq, strip_nl_snoc.
  rewrite strip_cr_id.
  - now apply marker_core_format.
  - rewrite app_assoc, last_byte_app by apply marker_end_nonempty. apply marker_end_last_not_cr.
Qed.

Lemma format_marker_tline n : ~ In NL n -> tline (format_marker n).
Proof.
  intros H. rewrite format_marker_eq. constructor.
  intros Hin. apply in_app_or in Hin. destruct Hin as [Hin|Hin]; [now apply marker_no_nl|].
  apply in_app_or in Hin. destruct Hin as [Hin|Hin]; [now apply H|now apply marker_end_no_nl].
Qed.

(* ------------------------------------------------------------------ *)
(* collect                                                             *)

Lemma collect_cons_mark ml m n rest :
  ml m = Some n ->
  collect ml (m :: rest) = ([], (n, fst (collect ml rest)) :: snd (collect ml rest)).
Proof. intros H. cbn [collect]. destruct (collect ml rest) as [c fs]. now rewrite H. Qed.

Lemma collect_cons_nomark ml m rest :
  ml m = None ->
  collect ml (m :: rest) = (m ++ fst (collect ml rest), snd (collect ml rest)).
Proof. intros H. cbn [collect]. destruct (collect ml rest) as [c fs]. now rewrite H. Qed.

Lemma collect_app_nomark ml ls rest :
  (forall l, In l ls -> ml l = None) ->
  collect ml (ls ++ rest) = (concat ls ++ fst (collect ml rest), snd (collect ml rest)).
Proof.
  induction ls as [|l ls IH]; intros H.
  - cbn [app concat]. now destruct (collect ml rest).
  - cbn [app concat]. rewrite collect_cons_nomark by (apply H; now left).
    rewrite IH by (intros x Hx; apply H; now right). cbn [fst snd]. now rewrite app_assoc.
Qed.

Lemma collect_nomark ml ls :
  (forall l, In l ls -> ml l = None) -> collect ml ls = (concat ls, []).
Proof.
  intros H. rewrite <- (app_nil_r ls) at 1. rewrite collect_app_nomark by assumption.
  cbn [collect fst snd]. now rewrite app_nil_r.
Qed.

Lemma collect_ext ml ml' ls :
  (forall l, In l ls -> ml l = ml' l) -> collect ml ls = collect ml' ls.
Proof.
  induction ls as [|l ls IH]; intros H; [reflexivity|].
  cbn [collect]. rewrite IH by (intros x Hx; apply H; now right).
  rewrite (H l) by now left. reflexivity.
Qed.

Lemma collect_files_nil ml ls :
  snd (collect ml ls) = [] -> forall l, In l ls -> ml l = None.
Proof.
  induction ls as [|x ls IH]; intros H l Hin; [destruct Hin|].
  destruct (ml x) as [n|] eqn:E.
  - rewrite (collect_cons_mark ml x n ls E) in H. discriminate.
  - rewrite (collect_cons_nomark ml x ls E) in H. cbn [snd] in H.
    destruct Hin as [<-|Hin]; [assumption|now apply IH].
Qed.

Lemma parse_with_eq ml d :
  parse_with ml d =
  {| comment := fix_nl (fst (collect ml (split_lines d)));
     files := map (fun nd => (fst nd, fix_nl (snd nd))) (snd (collect ml (split_lines d))) |}.
Proof. unfold parse_with. now destruct (collect ml (split_lines d)). Qed.

(* ------------------------------------------------------------------ *)
(* needs_quote                                                         *)

Definition is_marker (l : bytes) : bool :=
  match marker_line l with Some _ => true | None => false end.

Lemma needs_quote_eq d : needs_quote d = existsb is_marker (split_lines d).
Proof. reflexivity. Qed.

Lemma needs_quote_false_iff d :
  needs_quote d = false <-> forall l, In l (split_lines d) -> marker_line l = None.
Proof.
  rewrite needs_quote_eq. split.
  - intros H l Hin. destruct (marker_line l) as [n|] eqn:E; [|reflexivity].
    assert (Ht : existsb is_marker (split_lines d) = true).
    { apply existsb_exists. exists l. split; [assumption|]. unfold is_marker. now rewrite E. }
    congruence.
  - intros H. destruct (existsb is_marker (split_lines d)) eqn:E; [|reflexivity].
    apply existsb_exists in E. destruct E as [l [Hin Hl]]. unfold is_marker in Hl.
    now rewrite (H l Hin) in Hl.
Qed.

(* NeedsQuote is true exactly when some line of the text is a marker line *)
Lemma needs_quote_exact d :
  needs_quote d = true <-> exists l n, In l (split_lines d) /\ marker_line l = Some n.
Proof.
  rewrite needs_quote_eq, existsb_exists. unfold is_marker. split.
  - intros [l [Hin Hl]]. destruct (marker_line l) as [n|] eqn:E; [|discriminate]. now exists l, n.
  - intros [l [n [Hin Hl]]]. exists l. now rewrite Hl.
Qed.

Lemma needs_quote_nil : needs_quote [] = false.
Proof. reflexivity. Qed.

(* ... "whether or not the body ends in a newline" *)
Lemma needs_quote_fix_nl d : needs_quote (fix_nl d) = needs_quote d.
Proof.
  destruct (fix_nl_cases d) as [[Hd H]|[[_ H]|[Hne [Hl H]]]]; rewrite H.
  - now subst.
  - reflexivity.
  - destruct (split_lines_snoc_nl d Hne Hl) as [ls [u [H1 [H2 Hu]]]].
    rewrite !needs_quote_eq, H1, H2, !existsb_app. f_equal. cbn [existsb]. f_equal.
    unfold is_marker. rewrite marker_line_snoc_nl; [reflexivity|]. now apply uline_last.
Qed.

Lemma wf_text_iff t :
  wf_text t = true <-> fix_nl t = t /\ needs_quote t = false.
Proof. unfold wf_text. now rewrite andb_true_iff, bytes_eqb_eq, negb_true_iff. Qed.

(* ------------------------------------------------------------------ *)
(* C03 (3), (4), (7): what Parse returns is a well-formed archive       *)

Lemma collect_inv ls :
  lines_ok ls ->
  needs_quote (fst (collect marker_line ls)) = false /\
  Forall (fun nd => wf_name (fst nd) = true /\ needs_quote (snd nd) = false)
         (snd (collect marker_line ls)).
Proof.
  induction ls as [|l rest IH]; intros Hok.
  - split; [reflexivity|constructor].
  - assert (Hline : is_line l) by (now apply lines_ok_inv in Hok).
    assert (Hrest : lines_ok rest) by (now apply lines_ok_inv in Hok).
    destruct (IH Hrest) as [IHc IHf].
    destruct (marker_line l) as [n|] eqn:E.
    + rewrite (collect_cons_mark _ l n rest E). cbn [fst snd]. split; [reflexivity|].
      constructor; [|assumption]. cbn [fst snd]. split; [|assumption].
      now apply (marker_line_wf_name l).
    + rewrite (collect_cons_nomark _ l rest E). cbn [fst snd]. split; [|assumption].
      destruct rest as [|l2 rest'].
      * cbn [collect fst]. rewrite app_nil_r, needs_quote_eq, split_lines_line by assumption.
        cbn [existsb]. unfold is_marker. now rewrite E.
      * apply lines_ok_inv2 in Hok. destruct Hok as [Ht _].
        rewrite needs_quote_eq, split_lines_app by (right; now apply tline_last).
        rewrite split_lines_tline by assumption. cbn [app existsb].
        unfold is_marker at 1. rewrite E. cbn [orb]. exact IHc.
Qed.

Lemma parse_names_wf s :
  Forall (fun nd => wf_name (fst nd) = true) (files (parse s)).
Proof.
  unfold parse. rewrite parse_with_eq. cbn [files]. apply Forall_map. cbn [fst].
  destruct (collect_inv (split_lines s) (split_lines_ok s)) as [_ H].
  eapply Forall_impl; [|exact H]. cbn beta. intros a [Ha _]. exact Ha.
Qed.

Lemma parse_data_nl s :
  fix_nl (comment (parse s)) = comment (parse s) /\
  Forall (fun nd => fix_nl (snd nd) = snd nd) (files (parse s)).
Proof.
  unfold parse. rewrite parse_with_eq. cbn [comment files]. split; [apply fix_nl_idem|].
  apply Forall_map. cbn [snd]. apply Forall_forall. intros x _. apply fix_nl_idem.
Qed.

Lemma parse_wf_archive s : wf_archive (parse s) = true.
Proof.
  unfold parse. rewrite parse_with_eq. unfold wf_archive. cbn [comment files].
  destruct (collect_inv (split_lines s) (split_lines_ok s)) as [Hc Hf].
  apply andb_true_iff. split.
  - apply wf_text_iff. split; [apply fix_nl_idem|]. now rewrite needs_quote_fix_nl.
  - apply forallb_forall. intros x Hx. apply in_map_iff in Hx. destruct Hx as [y [<- Hy]].
    rewrite Forall_forall in Hf. destruct (Hf y Hy) as [Hn Hq]. cbn [fst snd].
    apply andb_true_iff. split; [assumption|].
    apply wf_text_iff. split; [apply fix_nl_idem|]. now rewrite needs_quote_fix_nl.
Qed.

(* ------------------------------------------------------------------ *)
(* C03 (2), (1): Parse (Format a) = a for well-formed a                 *)

Definition body (fs : list (bytes * bytes)) : bytes :=
  concat (map (fun nd => format_marker (fst nd) ++ fix_nl (snd nd)) fs).

Lemma format_eq a : format a = fix_nl (comment a) ++ body (files a).
Proof. reflexivity. Qed.

Definition wf_entry (nd : bytes * bytes) : bool := wf_name (fst nd) && wf_text (snd nd).

Lemma collect_body fs :
  forallb wf_entry fs = true ->
  collect marker_line (split_lines (body fs)) = ([], fs).
Proof.
  induction fs as [|[n d] fs IH]; intros H; [reflexivity|].
  cbn [forallb] in H. apply andb_true_iff in H. destruct H as [Hnd Hfs].
  unfold wf_entry in Hnd. cbn [fst snd] in Hnd. apply andb_true_iff in Hnd. destruct Hnd as [Hn Hd].
  apply wf_text_iff in Hd. destruct Hd as [Hfix Hq].
  unfold body. cbn [map concat fst snd]. fold (body fs). rewrite Hfix, <- app_assoc.
  assert (Ht : tline (format_marker n)).
  { apply format_marker_tline. apply wf_name_iff in Hn. tauto. }
  rewrite split_lines_app by (right; now apply tline_last).
  rewrite split_lines_tline by assumption. cbn [app].
  rewrite (collect_cons_mark _ _ n _ (marker_line_format_marker n Hn)).
  rewrite split_lines_app by (now apply fix_nl_fixed).
  rewrite collect_app_nomark by (now apply needs_quote_false_iff).
  rewrite (IH Hfs). cbn [fst snd]. now rewrite app_nil_r, concat_split_lines.
Qed.

Lemma map_fix_nl_wf fs :
  forallb wf_entry fs = true -> map (fun nd => (fst nd, fix_nl (snd nd))) fs = fs.
Proof.
  induction fs as [|[n d] fs IH]; intros H; [reflexivity|].
  cbn [forallb] in H. apply andb_true_iff in H. destruct H as [Hnd Hfs].
  unfold wf_entry in Hnd. apply andb_true_iff in Hnd. destruct Hnd as [_ Hd].
  apply wf_text_iff in Hd. cbn [snd] in Hd. destruct Hd as [Hfix _].
  cbn [map fst snd]. now rewrite Hfix, IH.
Qed.

Lemma parse_format_wf a : wf_archive a = true -> parse (format a) = a.
Proof.
  destruct a as [c fs]. unfold wf_archive. cbn [comment files]. intros H.
  apply andb_true_iff in H. destruct H as [Hc Hfs]. fold wf_entry in Hfs.
  apply wf_text_iff in Hc. destruct Hc as [Hfix Hq].
  unfold parse. rewrite parse_with_eq, format_eq. cbn [comment files]. rewrite Hfix.
  rewrite split_lines_app by (now apply fix_nl_fixed).
  rewrite collect_app_nomark by (now apply needs_quote_false_iff).
  rewrite (collect_body fs Hfs). cbn [fst snd].
  now rewrite app_nil_r, concat_split_lines, Hfix, map_fix_nl_wf.
Qed.

Lemma parse_format_parse s : parse (format (parse s)) = parse s.
Proof. apply parse_format_wf. apply parse_wf_archive. Qed.

(* ------------------------------------------------------------------ *)
(* C03 (5): agreement with the x/tools reference on CR-free input       *)

Definition no_cr (s : bytes) : bool := negb (mem_byte CR s).

Lemma marker_line_ref_no_cr l : ~ In CR l -> marker_line l = ref_marker_line l.
Proof.
  intros H. unfold marker_line, ref_marker_line. rewrite strip_cr_id; [reflexivity|].
  intros E. apply H. apply strip_nl_incl. now apply last_byte_In.
Qed.

Lemma parse_ref s : no_cr s = true -> parse s = ref_parse s.
Proof.
  unfold no_cr. rewrite negb_true_iff, mem_byte_false. intros H.
  unfold parse, ref_parse, parse_with.
  rewrite (collect_ext marker_line ref_marker_line); [reflexivity|].
  intros l Hl. apply marker_line_ref_no_cr. intros Hin. apply H.
  now apply (split_lines_In_incl s l).
Qed.

Lemma parse_ref_In s : ~ In CR s -> parse s = ref_parse s.
Proof. intros H. apply parse_ref. unfold no_cr. now rewrite negb_true_iff, mem_byte_false. Qed.

(* ------------------------------------------------------------------ *)
(* C03 (6): CRLF after a line is treated like LF, lifted to Parse       *)

Definition names (a : archive) : list bytes := map fst (files a).

Lemma collect_replace ml x y ls1 ls2 :
  ml x = ml y ->
  map fst (snd (collect ml (ls1 ++ x :: ls2))) = map fst (snd (collect ml (ls1 ++ y :: ls2)))
  /\ (ml y <> None -> collect ml (ls1 ++ x :: ls2) = collect ml (ls1 ++ y :: ls2)).
Proof.
  intros Hxy. induction ls1 as [|l ls1 [IH1 IH2]].
  - cbn [app]. destruct (ml y) as [n|] eqn:E.
    + rewrite (collect_cons_mark ml x n ls2) by congruence.
      rewrite (collect_cons_mark ml y n ls2) by assumption. split; reflexivity.
    + rewrite (collect_cons_nomark ml x ls2) by congruence.
      rewrite (collect_cons_nomark ml y ls2) by assumption. split; [reflexivity|congruence].
  - cbn [app]. destruct (ml l) as [n|] eqn:E.
    + rewrite !(collect_cons_mark ml l n) by assumption. cbn [snd map fst]. split.
      * now rewrite IH1.
      * intros H. now rewrite (IH2 H).
    + rewrite !(collect_cons_nomark ml l) by assumption. cbn [snd]. split.
      * exact IH1.
      * intros H. now rewrite (IH2 H).
Qed.

Lemma names_parse_with ml d :
  names (parse_with ml d) = map fst (snd (collect ml (split_lines d))).
Proof.
  unfold names. rewrite parse_with_eq. cbn [files]. rewrite map_map. now apply map_ext.
Qed.

Lemma split_lines_around pre l t post :
  pre = [] \/ last_byte pre = Some NL -> ~ In NL (l ++ t) ->
  split_lines (pre ++ l ++ (t ++ [NL]) ++ post)
  = split_lines pre ++ (l ++ t ++ [NL]) :: split_lines post.
Proof.
  intros Hpre Hl. rewrite split_lines_app by assumption. f_equal.
  replace (l ++ (t ++ [NL]) ++ post) with ((l ++ t) ++ NL :: post)
    by (now rewrite <- !app_assoc).
  rewrite split_lines_tline_app by assumption. now rewrite <- app_assoc.
Qed.

(* The line [l] (without NL, not ending in CR) sits at a line start of the input.
   Terminating it by CRLF instead of LF never changes the file names or their
   number; and when the line is a marker line the two archives are equal. *)
Lemma crlf_like_lf pre l post :
  pre = [] \/ last_byte pre = Some NL ->
  ~ In NL l -> last_byte l <> Some CR ->
  names (parse (pre ++ l ++ [CR; NL] ++ post)) = names (parse (pre ++ l ++ [NL] ++ post))
  /\ (marker_line (l ++ [NL]) <> None ->
      parse (pre ++ l ++ [CR; NL] ++ post) = parse (pre ++ l ++ [NL] ++ post)).
Proof.
  intros Hpre Hnl Hcr.
  assert (E1 : split_lines (pre ++ l ++ [CR; NL] ++ post)
               = split_lines pre ++ (l ++ [CR; NL]) :: split_lines post).
  { apply (split_lines_around pre l [CR] post Hpre).
    intros H. apply in_app_or in H. destruct H as [H|[H|[]]]; [now apply Hnl|discriminate]. }
  assert (E2 : split_lines (pre ++ l ++ [NL] ++ post)
               = split_lines pre ++ (l ++ [NL]) :: split_lines post).
  { apply (split_lines_around pre l [] post Hpre). now rewrite app_nil_r. }
  destruct (collect_replace marker_line (l ++ [CR; NL]) (l ++ [NL])
              (split_lines pre) (split_lines post) (marker_line_crlf l Hcr)) as [H1 H2].
  unfold parse. rewrite !names_parse_with, !parse_with_eq, E1, E2. split.
  - exact H1.
  - intros Hm. specialize (H2 Hm).
    apply (f_equal (fun r => {| comment := fix_nl (fst r);
                                files := map (fun nd => (fst nd, fix_nl (snd nd))) (snd r) |})) in H2.
    exact H2.
Qed.

(* the marker case, with the recognised name made explicit *)
Lemma crlf_marker_like_lf pre l post n :
  pre = [] \/ last_byte pre = Some NL ->
  ~ In NL l -> marker_core l = Some n ->
  marker_line (l ++ [CR; NL]) = Some n /\ marker_line (l ++ [NL]) = Some n /\
  parse (pre ++ l ++ [CR; NL] ++ post) = parse (pre ++ l ++ [NL] ++ post) /\
  In n (names (parse (pre ++ l ++ [CR; NL] ++ post))).
Proof.
  intros Hpre Hnl Hm.
  assert (Hcr : last_byte l <> Some CR).
  { intros E. unfold marker_core in Hm.
    destruct (has_suffix marker_end l) eqn:Es.
    - apply has_suffix_iff in Es. destruct Es as [x ->].
      rewrite last_byte_app in E by apply marker_end_nonempty. now apply marker_end_last_not_cr.
    - rewrite andb_false_r in Hm. discriminate. }
  assert (Hlf : marker_line (l ++ [NL]) = Some n).
  { unfold marker_line. now rewrite strip_nl_snoc, strip_cr_id. }
  assert (Hcrlf : marker_line (l ++ [CR; NL]) = Some n) by (now rewrite marker_line_crlf).
  destruct (crlf_like_lf pre l post Hpre Hnl Hcr) as [_ Heq].
  repeat split; try assumption.
  - apply Heq. congruence.
  - unfold parse. rewrite names_parse_with.
    change (pre ++ l ++ [CR; NL] ++ post) with (pre ++ l ++ ([CR] ++ [NL]) ++ post).
    rewrite (split_lines_around pre l [CR] post Hpre).
    + clear Heq. induction (split_lines pre) as [|x ls IH].
      * cbn [app]. rewrite (collect_cons_mark _ _ n _ Hcrlf). now left.
      * cbn [app]. destruct (marker_line x) as [m|] eqn:E.
        -- rewrite (collect_cons_mark _ x m _ E). cbn [snd map fst]. now right.
        -- rewrite (collect_cons_nomark _ x _ E). exact IH.
    + intros H. apply in_app_or in H. destruct H as [H|[H|[]]]; [now apply Hnl|discriminate].
Qed.

(* the non-marker case: the comment and the file data of the two archives are the
   same texts, except the one text that contains the line, which differs by that CR *)
Definition texts (a : archive) : list bytes := comment a :: map snd (files a).
Definition texts_c (r : bytes * list (bytes * bytes)) : list bytes := fst r :: map snd (snd r).

Lemma collect_replace_nomark ml x y ls1 ls2 :
  ml x = None -> ml y = None ->
  exists ts1 p q ts2,
    texts_c (collect ml (ls1 ++ x :: ls2)) = ts1 ++ (p ++ x ++ q) :: ts2 /\
    texts_c (collect ml (ls1 ++ y :: ls2)) = ts1 ++ (p ++ y ++ q) :: ts2.
Proof.
  intros Hx Hy. induction ls1 as [|l ls1 IH].
  - exists [], [], (fst (collect ml ls2)), (map snd (snd (collect ml ls2))).
    cbn [app]. rewrite !collect_cons_nomark by assumption. split; reflexivity.
  - destruct IH as [ts1 [p [q [ts2 [HA HB]]]]]. cbn [app].
    destruct (ml l) as [n|] eqn:E.
    + rewrite !(collect_cons_mark ml l n) by assumption.
      exists ([] :: ts1), p, q, ts2. unfold texts_c in *. cbn [fst snd map app].
      now rewrite HA, HB.
    + rewrite !(collect_cons_nomark ml l) by assumption.
      unfold texts_c in *. cbn [fst snd].
      destruct ts1 as [|t ts1']; cbn [app] in *.
      * injection HA as HA1 HA2. injection HB as HB1 HB2.
        exists [], (l ++ p), q, ts2. cbn [app]. rewrite HA1, HA2, HB1, HB2.
        now rewrite <- !app_assoc.
      * injection HA as HA1 HA2. injection HB as HB1 HB2.
        exists ((l ++ t) :: ts1'), p, q, ts2. cbn [app]. rewrite HA2, HB2, HA1.
        split; [reflexivity|]. now rewrite HB1.
Qed.

Lemma texts_parse_with ml d :
  texts (parse_with ml d) = map fix_nl (texts_c (collect ml (split_lines d))).
Proof.
  unfold texts, texts_c. rewrite parse_with_eq. cbn [comment files map]. f_equal.
  rewrite !map_map. now apply map_ext.
Qed.

Lemma crlf_nonmarker_local pre l post :
  pre = [] \/ last_byte pre = Some NL ->
  ~ In NL l -> last_byte l <> Some CR -> marker_line (l ++ [NL]) = None ->
  exists ts1 p q ts2,
    texts (parse (pre ++ l ++ [CR; NL] ++ post)) = ts1 ++ fix_nl (p ++ (l ++ [CR; NL]) ++ q) :: ts2 /\
    texts (parse (pre ++ l ++ [NL] ++ post)) = ts1 ++ fix_nl (p ++ (l ++ [NL]) ++ q) :: ts2.
Proof.
  intros Hpre Hnl Hcr Hm.
  assert (E1 : split_lines (pre ++ l ++ [CR; NL] ++ post)
               = split_lines pre ++ (l ++ [CR; NL]) :: split_lines post).
  { apply (split_lines_around pre l [CR] post Hpre).
    intros H. apply in_app_or in H. destruct H as [H|[H|[]]]; [now apply Hnl|discriminate]. }
  assert (E2 : split_lines (pre ++ l ++ [NL] ++ post)
               = split_lines pre ++ (l ++ [NL]) :: split_lines post).
  { apply (split_lines_around pre l [] post Hpre). now rewrite app_nil_r. }
  assert (Hm' : marker_line (l ++ [CR; NL]) = None) by (now rewrite marker_line_crlf).
  destruct (collect_replace_nomark marker_line (l ++ [CR; NL]) (l ++ [NL])
              (split_lines pre) (split_lines post) Hm' Hm) as [ts1 [p [q [ts2 [HA HB]]]]].
  exists (map fix_nl ts1), p, q, (map fix_nl ts2).
  unfold parse. rewrite !texts_parse_with, E1, E2.
  split.
  - apply (f_equal (map fix_nl)) in HA. rewrite map_app in HA. exact HA.
  - apply (f_equal (map fix_nl)) in HB. rewrite map_app in HB. exact HB.
Qed.

(* ------------------------------------------------------------------ *)
(* Examples: the hypotheses above are satisfiable by non-trivial values, and the
   statements were evaluated on concrete inputs before being proved.            *)

Require Coq.Strings.String.
Import Coq.Strings.String.StringSyntax.
Delimit Scope string_scope with string.
Definition B (s : String.string) : bytes := String.list_byte_of_string s.
Arguments B s%string.
Definition CRLF : bytes := [CR; NL].

(* three files, markers terminated by CRLF, CRLF and LF, unterminated last file *)
Definition ex_crlf : bytes :=
  B "intro" ++ CRLF ++ B "-- a.txt --" ++ CRLF ++ B "A1" ++ CRLF ++ B "A2" ++ [NL]
  ++ B "--   b   --" ++ CRLF ++ B "-- c/d --" ++ [NL] ++ B "last".

Example ex_crlf_parse :
  parse ex_crlf =
  {| comment := B "intro" ++ CRLF;
     files := [ (B "a.txt", B "A1" ++ CRLF ++ B "A2" ++ [NL]); (B "b", []); (B "c/d", B "last" ++ [NL]) ] |}.
Proof. vm_compute. reflexivity. Qed.

(* the reference parser sees no marker in the CRLF lines: the no_cr hypothesis of
   parse_ref is needed *)
Example ex_crlf_ref_differs : no_cr ex_crlf = false /\ names (ref_parse ex_crlf) = [B "c/d"].
Proof. vm_compute. split; reflexivity. Qed.

Definition ex_lf : bytes :=
  B "intro" ++ [NL] ++ B "-- a.txt --" ++ [NL] ++ B "A1" ++ [NL] ++ B "--  b  --" ++ [NL]
  ++ B "-- --" ++ [NL] ++ B "-- c --" ++ [NL] ++ B "x".

Example ex_lf_no_cr : no_cr ex_lf = true /\ length (files (parse ex_lf)) = 3.
Proof. vm_compute. split; reflexivity. Qed.

Example ex_lf_ref : parse ex_lf = ref_parse ex_lf.
Proof. apply parse_ref. vm_compute. reflexivity. Qed.

(* a well-formed archive (hypothesis of parse_format_wf): look-alike lines "-- --",
   "--x --" are allowed in data, names may contain inner spaces *)
Definition ex_wf : archive :=
  {| comment := B "hello" ++ [NL] ++ B "-- --" ++ [NL];
     files := [ (B "a", B "x" ++ [NL]); (B "b b", []); (B "c", B "--x --" ++ CRLF ++ B "y" ++ [NL]) ] |}.

Example ex_wf_ok : wf_archive ex_wf = true.
Proof. vm_compute. reflexivity. Qed.

Example ex_wf_roundtrip : parse (format ex_wf) = ex_wf.
Proof. apply parse_format_wf. exact ex_wf_ok. Qed.

(* without the side condition the round trip fails: an untrimmed name, an
   unterminated data, a data containing a marker line *)
Example ex_not_wf :
  parse (format {| comment := []; files := [(B " a ", B "x")] |})
    = {| comment := []; files := [(B "a", B "x" ++ [NL])] |} /\
  names (parse (format {| comment := []; files := [(B "a", B "-- b --" ++ [NL])] |})) = [B "a"; B "b"].
Proof. vm_compute. split; reflexivity. Qed.

(* the two inputs on which the unrepaired Go code failed *)
Example ex_short_marker : parse (B "-- --") = {| comment := B "-- --" ++ [NL]; files := [] |}.
Proof. vm_compute. reflexivity. Qed.

Example ex_marker_cr_eof : parse (B "-- a --" ++ [CR]) = {| comment := []; files := [(B "a", [])] |}.
Proof. vm_compute. reflexivity. Qed.

Example ex_marker_cr_eof_stable :
  parse (format (parse (B "-- a --" ++ [CR]))) = parse (B "-- a --" ++ [CR]).
Proof. vm_compute. reflexivity. Qed.

(* hypotheses of crlf_like_lf / crlf_marker_like_lf *)
Example ex_crlf_hyps :
  let pre := B "c" ++ [NL] in let l := B "--  a  --" in
  (pre = [] \/ last_byte pre = Some NL) /\ ~ In NL l /\ last_byte l <> Some CR /\
  marker_core l = Some (B "a").
Proof.
  cbv zeta. split; [right; reflexivity|]. split; [apply mem_byte_false; reflexivity|].
  split; [vm_compute; discriminate|vm_compute; reflexivity].
Qed.

(* a non-marker line: names agree, the data differs by the CR only *)
Example ex_crlf_nonmarker :
  parse (B "-- a --" ++ [NL] ++ B "x" ++ CRLF ++ B "y") = {| comment := []; files := [(B "a", B "x" ++ CRLF ++ B "y" ++ [NL])] |} /\
  parse (B "-- a --" ++ [NL] ++ B "x" ++ [NL] ++ B "y") = {| comment := []; files := [(B "a", B "x" ++ [NL] ++ B "y" ++ [NL])] |}.
Proof. vm_compute. split; reflexivity. Qed.

(* the hypothesis "l does not end in CR" is needed: CR CR LF is not a marker end *)
Example ex_crcrlf :
  marker_line (B "-- a --" ++ [CR] ++ CRLF) = None /\ marker_line (B "-- a --" ++ [CR] ++ [NL]) = Some (B "a").
Proof. vm_compute. split; reflexivity. Qed.

(* Unicode white space around a name is trimmed (U+00A0, U+3000), inner kept *)
Example ex_unicode_trim :
  marker_line (B "-- " ++ [xc2; xa0] ++ B "a b" ++ [xe3; x80; x80] ++ B " --" ++ [NL]) = Some (B "a b").
Proof. vm_compute. reflexivity. Qed.

Eval vm_compute in (parse (B "-- a --" ++ CRLF ++ B "-- a --")).
Eval vm_compute in (wf_archive (parse ex_crlf), bytes_eqb (format (parse (format ex_wf))) (format ex_wf)).

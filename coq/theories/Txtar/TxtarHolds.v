(* Executable boolean forms of the C03 / C14 property statements, evaluated by the
   model binary on every input of the correspondence run ("holds <hex>"): if a
   regenerated constant ever makes the MODEL violate its own property statement,
   the run produces the witness.  Definitions only; TxtarHoldsFacts.v proves both
   functions constantly true. *)
From Coq Require Import List Bool Arith.
From Coq.Strings Require Import Byte.
From GI Require Import Lib.Bytes Gen.TxtarConsts Txtar.Txtar Txtar.TxtarIndex.
Import ListNotations.

Definition entry_eqb (x y : bytes * bytes) : bool :=
  bytes_eqb (fst x) (fst y) && bytes_eqb (snd x) (snd y).

Fixpoint entries_eqb (a b : list (bytes * bytes)) : bool :=
  match a, b with
  | [], [] => true
  | x :: a', y :: b' => entry_eqb x y && entries_eqb a' b'
  | _, _ => false
  end.

Definition archive_eqb (a b : archive) : bool :=
  bytes_eqb (comment a) (comment b) && entries_eqb (files a) (files b).

Definition cr_free (s : bytes) : bool := negb (mem_byte CR s).

Definition nl_terminated (t : bytes) : bool := bytes_eqb (fix_nl t) t.

(* C03 on the input s: Parse is total (statement-level model) and equals the
   line-based parse; Format (statement-level, regenerated format string) is total and
   equals the model's format on the parsed archive; Parse . Format . Parse = Parse; every data is empty or
   NL-terminated; names are well formed; the result is a well-formed archive;
   agreement with the x/tools reference when s has no CR *)
Definition c03_holds_on (s : bytes) : bool :=
  let a := parse s in
  match parse_idx s with Ok a' => archive_eqb a' a | _ => false end
  && match format_idx a with Ok t => bytes_eqb t (format a) | _ => false end
  && archive_eqb (parse (format a)) a
  && nl_terminated (comment a) && forallb (fun nd => nl_terminated (snd nd)) (files a)
  && forallb (fun nd => wf_name (fst nd)) (files a)
  && wf_archive a
  && (if cr_free s then archive_eqb a (ref_parse s) else true).

Definition probe_name : bytes := [x6e].
Definition one_file (d : bytes) : archive := {| comment := []; files := [(probe_name, d)] |}.

Definition ends_nl (d : bytes) : bool :=
  match last_byte d with Some b => beq b NL | None => false end.

(* C14 on the input d: NeedsQuote (statement-level model) equals the line-based one;
   it does not depend on the final newline; it is false exactly when d survives as
   the body of a one-file archive; Unquote (Quote d) = d, the quoted form needs no
   quoting and survives; Quote refuses exactly non-empty texts without final NL or
   with invalid UTF-8 *)
Definition c14_holds_on (d : bytes) : bool :=
  let nq := needs_quote d in
  match needs_quote_idx d with Ok b => Bool.eqb b nq | _ => false end
  && Bool.eqb (needs_quote (fix_nl d)) nq
  && Bool.eqb (negb nq) (archive_eqb (parse (format (one_file d))) (one_file (fix_nl d)))
  && match quote d with
     | Some q =>
         match unquote q with Some d' => bytes_eqb d' d | None => false end
         && negb (needs_quote q)
         && archive_eqb (parse (format (one_file q))) (one_file q)
         && (is_nil d || (ends_nl d && utf8_valid d))
     | None => negb (is_nil d) && (negb (ends_nl d) || negb (utf8_valid d))
     end.

(* The index-faithful model of txtar/archive.go (TxtarIndex.v) is equal to the
   line-based model (Txtar.v) on every byte string: isMarker never hits a failing
   index or slice expression, the loop of findFileMarker ends within
   [length data + 1] iterations, and parse_idx s = Ok (parse s).  Every theorem
   about [parse] / [needs_quote] therefore is a theorem about the statement-level
   model, whose failure values (Panic, OutOfFuel) are proved unreachable. *)
From Coq Require Import List Bool Arith ZArith Lia.
From Coq.Strings Require Import Byte.
From GI Require Import Lib.Bytes Lib.BytesFacts Gen.TxtarConsts Txtar.Txtar Txtar.TxtarFacts
  Txtar.TxtarIndex.
Import ListNotations.

(* ------------------------------------------------------------------ *)
(* facts about the regenerated constants (by computation: a changed     *)
(* constant breaks the named lemma, not a proof deep inside)            *)

Lemma newline_marker_eq : newline_marker = NL :: marker.
Proof. reflexivity. Qed.

Lemma marker_nonempty : marker <> [].
Proof. discriminate. Qed.

(* marker_no_nl : ~ In NL marker  is in TxtarFacts.v *)

(* ------------------------------------------------------------------ *)
(* Go's checked index and slice expressions                            *)

Lemma slice_z_nat d lo hi :
  lo <= hi -> hi <= length d ->
  slice_z d (Z.of_nat lo) (Z.of_nat hi) = Some (firstn (hi - lo) (skipn lo d)).
Proof.
  intros H1 H2. unfold slice_z, len.
  replace ((0 <=? Z.of_nat lo)%Z && (Z.of_nat lo <=? Z.of_nat hi)%Z
           && (Z.of_nat hi <=? Z.of_nat (length d))%Z) with true.
  - now rewrite !Nat2Z.id.
  - symmetry. rewrite !andb_true_iff, !Z.leb_le. lia.
Qed.

Lemma slice_z_from d k : k <= length d -> slice_z d (Z.of_nat k) (len d) = Some (skipn k d).
Proof.
  intros H. unfold len. rewrite slice_z_nat by lia. f_equal.
  apply firstn_all2. rewrite skipn_length. lia.
Qed.

Lemma slice_z_to d k : k <= length d -> slice_z d 0 (Z.of_nat k) = Some (firstn k d).
Proof.
  intros H. change 0%Z with (Z.of_nat 0). rewrite slice_z_nat by lia.
  now rewrite Nat.sub_0_r.
Qed.

Lemma len_app a b : len (a ++ b) = (len a + len b)%Z.
Proof. unfold len. rewrite app_length. lia. Qed.

Lemma index_z_last x b : index_z (x ++ [b]) (len (x ++ [b]) - 1) = Some b.
Proof.
  unfold index_z. rewrite len_app. unfold len. cbn [length].
  replace ((0 <=? Z.of_nat (length x) + Z.of_nat 1 - 1)%Z
           && (Z.of_nat (length x) + Z.of_nat 1 - 1 <? Z.of_nat (length x) + Z.of_nat 1)%Z) with true
    by (symmetry; rewrite andb_true_iff, Z.leb_le, Z.ltb_lt; lia).
  replace (Z.to_nat (Z.of_nat (length x) + Z.of_nat 1 - 1)) with (length x) by lia.
  rewrite nth_error_app2 by lia. now rewrite Nat.sub_diag.
Qed.

Lemma slice_z_drop_last x b : slice_z (x ++ [b]) 0 (len (x ++ [b]) - 1) = Some x.
Proof.
  replace (len (x ++ [b]) - 1)%Z with (Z.of_nat (length x))
    by (rewrite len_app; unfold len; cbn [length]; lia).
  rewrite slice_z_to by (rewrite app_length; lia). f_equal. apply firstn_length_app.
Qed.

Lemma fix_nl_idx_eq d : fix_nl_idx d = Some (fix_nl d).
Proof.
  unfold fix_nl_idx. destruct (last_byte d) as [b|] eqn:E.
  - destruct (last_byte_Some d b E) as [x ->].
    replace (len (x ++ [b]) =? 0)%Z with false
      by (symmetry; apply Z.eqb_neq; rewrite len_app; unfold len; cbn [length]; lia).
    rewrite index_z_last. unfold fix_nl. rewrite E. now destruct (beq b NL).
  - apply last_byte_None in E. subst d. reflexivity.
Qed.

(* ------------------------------------------------------------------ *)
(* bytes.IndexByte(_, '\n') and bytes.HasPrefix on a line               *)

Lemma index_byte_line l0 t : ~ In NL l0 -> index_byte NL (l0 ++ NL :: t) = Some (length l0).
Proof.
  induction l0 as [|b l0 IH]; intros H.
  - cbn [app index_byte]. now rewrite beq_refl.
  - cbn [app index_byte length]. rewrite beq_false by (intros E; apply H; now left).
    rewrite IH by (intros E; apply H; now right). reflexivity.
Qed.

Lemma index_byte_none l : ~ In NL l -> index_byte NL l = None.
Proof.
  induction l as [|b l IH]; intros H; [reflexivity|].
  cbn [index_byte]. rewrite beq_false by (intros E; apply H; now left).
  rewrite IH by (intros E; apply H; now right). reflexivity.
Qed.

(* an NL-free pattern cannot see beyond the first NL *)
Lemma has_prefix_nl_cut p a x :
  ~ In NL p -> has_prefix p (a ++ NL :: x) = has_prefix p (a ++ [NL]).
Proof.
  revert a. induction p as [|c p IH]; intros a H; [reflexivity|].
  destruct a as [|b a]; cbn [app has_prefix].
  - rewrite beq_false by (intros E; apply H; now left). reflexivity.
  - rewrite IH by (intros E; apply H; now right). reflexivity.
Qed.

Lemma has_prefix_nl_strip p a :
  ~ In NL p -> has_prefix p (a ++ [NL]) = true -> has_prefix p a = true.
Proof.
  revert a. induction p as [|c p IH]; intros a H; [reflexivity|].
  destruct a as [|b a]; cbn [app has_prefix].
  - rewrite beq_false by (intros E; apply H; now left). discriminate.
  - intros E. apply andb_true_iff in E. destruct E as [E1 E2]. rewrite E1.
    rewrite IH; [reflexivity|intros E; apply H; now right|assumption].
Qed.

(* a prefix test already decided within the first |p| bytes *)
Lemma has_prefix_shorter p x s :
  has_prefix p (x ++ s) = true -> length p <= length x -> has_prefix p x = true.
Proof.
  revert x. induction p as [|c p IH]; intros x H Hl; [reflexivity|].
  destruct x as [|b x]; cbn [length] in Hl; [lia|].
  cbn [app has_prefix] in *. apply andb_true_iff in H. destruct H as [H1 H2].
  rewrite H1. rewrite IH; [reflexivity|assumption|lia].
Qed.

(* the first line decides whether the text starts with the marker *)
Lemma has_prefix_marker_line l tail :
  is_line l -> (tline l \/ tail = []) ->
  has_prefix marker (l ++ tail) = has_prefix marker l.
Proof.
  intros Hl [Ht| ->]; [|now rewrite app_nil_r].
  destruct Ht as [l0 H0]. rewrite <- app_assoc. cbn [app].
  apply has_prefix_nl_cut. apply marker_no_nl.
Qed.

(* ------------------------------------------------------------------ *)
(* isMarker: statement by statement                                    *)

Definition name_of (o : option bytes) : bytes := match o with Some n => n | None => [] end.

(* the last two statements of isMarker, on the line without terminator and CR *)
Definition marker_check (data after : bytes) : mres :=
  if negb (has_suffix marker_end data) || (len data <? len marker + len marker_end)%Z
  then MRes [] []
  else match slice_z data (len marker) (len data - len marker_end) with
       | None => MPanic
       | Some mid => MRes (trim_space mid) after
       end.

(* isMarker after the line terminator was cut off *)
Definition marker_tail (data after : bytes) : mres :=
  match index_z data (len data - 1) with
  | None => MPanic
  | Some b =>
      match (if beq b CR then slice_z data 0 (len data - 1) else Some data) with
      | None => MPanic
      | Some data => marker_check data after
      end
  end.

Lemma is_marker_idx_unfold data :
  is_marker_idx data =
  if negb (has_prefix marker data) then MRes [] [] else
  match
    match index_byte NL data with
    | Some i =>
        match slice_z data 0 (Z.of_nat i), slice_z data (Z.of_nat i + 1) (len data) with
        | Some d, Some a => Some (d, a)
        | _, _ => None
        end
    | None => Some (data, [])
    end
  with
  | None => MPanic
  | Some (d, a) => marker_tail d a
  end.
Proof. reflexivity. Qed.

(* the slice data[len(marker) : len(data)-len(markerEnd)] is in range because of the
   length guard in front of it, whatever the constants are *)
Lemma marker_check_spec d2 s after :
  has_prefix marker (d2 ++ s) = true ->
  exists a, marker_check d2 after = MRes (name_of (marker_core d2)) a
            /\ (marker_core d2 <> None -> a = after).
Proof.
  intros HP. unfold marker_check, marker_core.
  destruct (has_suffix marker_end d2) eqn:ES; cbn [negb orb].
  2:{ rewrite andb_false_r. cbn [andb name_of]. exists []. split; [reflexivity|congruence]. }
  destruct (len d2 <? len marker + len marker_end)%Z eqn:EL.
  - apply Z.ltb_lt in EL. unfold len in EL.
    replace (Nat.leb (length marker + length marker_end) (length d2)) with false
      by (symmetry; apply Nat.leb_gt; lia).
    rewrite andb_false_r. cbn [name_of]. exists []. split; [reflexivity|congruence].
  - apply Z.ltb_ge in EL. unfold len in EL.
    assert (Hlen : length marker + length marker_end <= length d2) by lia.
    rewrite (has_prefix_shorter marker d2 s HP) by lia.
    replace (Nat.leb (length marker + length marker_end) (length d2)) with true
      by (symmetry; apply Nat.leb_le; lia).
    cbn [andb]. cbv zeta.
    unfold len. rewrite <- Nat2Z.inj_sub by lia. rewrite slice_z_nat by lia.
    replace (length d2 - length marker_end - length marker)
      with (length d2 - length marker - length marker_end) by lia.
    set (mid := firstn (length d2 - length marker - length marker_end) (skipn (length marker) d2)).
    exists after. split; [|reflexivity]. now destruct (trim_space mid).
Qed.

Lemma marker_tail_spec d1 after :
  has_prefix marker d1 = true ->
  exists a, marker_tail d1 after = MRes (name_of (marker_core (strip_cr d1))) a
            /\ (marker_core (strip_cr d1) <> None -> a = after).
Proof.
  intros HP. unfold marker_tail.
  destruct (last_byte d1) as [b|] eqn:E.
  2:{ apply last_byte_None in E. subst d1. now rewrite marker_prefix_nonempty in HP. }
  destruct (last_byte_Some d1 b E) as [x Hx]. subst d1.
  rewrite index_z_last. destruct (beq b CR) eqn:Eb.
  - apply beq_eq in Eb. subst b. rewrite slice_z_drop_last, strip_cr_snoc.
    now apply (marker_check_spec x [CR]).
  - rewrite strip_cr_id by (rewrite E; intros H; injection H as ->; now rewrite beq_refl in Eb).
    apply (marker_check_spec (x ++ [b]) []). now rewrite app_nil_r.
Qed.

(* isMarker applied to a text whose first line is l: it sees that line only, and it
   decides exactly [marker_line l]; when it finds a name, [after] is what follows
   the line.  No index or slice expression fails. *)
Lemma is_marker_idx_line l tail :
  is_line l -> (tline l \/ tail = []) ->
  exists a, is_marker_idx (l ++ tail) = MRes (name_of (marker_line l)) a
            /\ (marker_line l <> None -> a = tail).
Proof.
  intros Hl Ht. rewrite is_marker_idx_unfold, (has_prefix_marker_line l tail Hl Ht).
  destruct (has_prefix marker l) eqn:HP; cbn [negb].
  2:{ exists []. destruct (marker_line l) as [n|] eqn:E.
      - apply marker_line_has_prefix in E. congruence.
      - split; [reflexivity|congruence]. }
  unfold marker_line.
  destruct Hl as [Hl|[Hne Hnl]].
  - (* terminated line: data, after = data[:i], data[i+1:] *)
    inversion Hl as [l0 H0 El]. subst l. clear Hl.
    rewrite <- app_assoc. cbn [app]. rewrite (index_byte_line l0 tail H0).
    rewrite slice_z_to by (rewrite app_length; lia).
    replace (Z.of_nat (length l0) + 1)%Z with (Z.of_nat (S (length l0))) by lia.
    rewrite slice_z_from by (rewrite app_length; cbn [length]; lia).
    rewrite firstn_length_app.
    replace (skipn (S (length l0)) (l0 ++ NL :: tail)) with tail
      by (change (NL :: tail) with ([NL] ++ tail); rewrite app_assoc;
          replace (S (length l0)) with (length (l0 ++ [NL])) by (rewrite app_length; cbn; lia);
          now rewrite skipn_length_app).
    rewrite strip_nl_snoc. apply marker_tail_spec.
    apply has_prefix_nl_strip; [apply marker_no_nl|assumption].
  - (* unterminated last line: no NL at all *)
    destruct Ht as [Ht| ->].
    { exfalso. destruct Ht as [l0 _]. apply Hnl. apply in_or_app. right. now left. }
    rewrite app_nil_r, (index_byte_none l Hnl).
    rewrite strip_nl_id by (intros E; apply Hnl; now apply last_byte_In).
    now apply marker_tail_spec.
Qed.

(* isMarker never panics, on any byte string *)
Lemma is_marker_idx_no_panic data : is_marker_idx data <> MPanic.
Proof.
  destruct (split_lines data) as [|l rest] eqn:E.
  - apply split_lines_nil_iff in E. subst data. discriminate.
  - pose proof (split_lines_ok data) as Hok. rewrite E in Hok.
    pose proof (concat_split_lines data) as Hc. rewrite E in Hc. cbn [concat] in Hc.
    assert (Hl : is_line l) by (now apply lines_ok_inv in Hok).
    assert (Ht : tline l \/ concat rest = []).
    { destruct rest as [|l2 rest']; [now right|]. left. now apply lines_ok_inv2 in Hok. }
    destruct (is_marker_idx_line l (concat rest) Hl Ht) as [a [H _]].
    rewrite Hc in H. rewrite H. discriminate.
Qed.

(* ------------------------------------------------------------------ *)
(* the jump  i += bytes.Index(data[i:], newlineMarker) + 1              *)

(* lines passed over by the jump / lines from the landing point on: the landing
   point is the first following line that begins with [marker] *)
Fixpoint next_cand (ls : list bytes) : list bytes * list bytes :=
  match ls with
  | [] => ([], [])
  | l :: rest =>
      if has_prefix marker l then ([], ls)
      else let '(a, b) := next_cand rest in (l :: a, b)
  end.

Lemma next_cand_spec ls :
  ls = fst (next_cand ls) ++ snd (next_cand ls) /\
  (forall x, In x (fst (next_cand ls)) -> has_prefix marker x = false).
Proof.
  induction ls as [|l rest [IH1 IH2]]; [split; [reflexivity|intros x []]|].
  cbn [next_cand]. destruct (has_prefix marker l) eqn:E.
  - split; [reflexivity|intros x []].
  - destruct (next_cand rest) as [a b]. cbn [fst snd] in *. split.
    + cbn [app]. now rewrite <- IH1.
    + intros x [<-|Hx]; [assumption|now apply IH2].
Qed.

(* bytes.Index for a pattern that starts with NL skips NL-free text *)
Lemma index_sub_skip m l0 x :
  ~ In NL l0 ->
  index_sub (NL :: m) (l0 ++ x) = option_map (fun k => length l0 + k) (index_sub (NL :: m) x).
Proof.
  induction l0 as [|b l0 IH]; intros H.
  - cbn [app length]. now destruct (index_sub (NL :: m) x).
  - cbn [app index_sub has_prefix length].
    rewrite (beq_false NL b) by (intros E; apply H; now left). cbn [andb].
    rewrite IH by (intros E; apply H; now right).
    now destruct (index_sub (NL :: m) x).
Qed.

Lemma index_sub_nil m : index_sub (NL :: m) [] = None.
Proof. reflexivity. Qed.

(* Key lemma: from the start of line l, bytes.Index(_, "\n-- ") finds the NL that
   ends the line in front of the next line beginning with [marker], so that
   i + j + 1 is exactly the start of that line; it finds nothing iff no later line
   begins with [marker]. *)
Lemma index_nl_marker_lines rest : forall l,
  lines_ok (l :: rest) ->
  index_nl_marker (concat (l :: rest)) =
  match snd (next_cand rest) with
  | [] => None
  | _ :: _ => Some (length (l ++ concat (fst (next_cand rest))) - 1)
  end.
Proof.
  unfold index_nl_marker. rewrite newline_marker_eq.
  induction rest as [|l' rest' IH]; intros l Hok.
  - cbn [concat next_cand fst snd]. rewrite app_nil_r.
    destruct Hok as [Ht|[Hne Hnl]].
    + destruct Ht as [l0 H0]. rewrite index_sub_skip by assumption.
      cbn [index_sub has_prefix]. rewrite beq_refl, marker_prefix_nonempty. reflexivity.
    + rewrite <- (app_nil_r l). rewrite index_sub_skip by assumption. reflexivity.
  - apply lines_ok_inv2 in Hok. destruct Hok as [Ht Hok'].
    assert (Hl' : is_line l') by (now apply lines_ok_inv in Hok').
    assert (Ht' : tline l' \/ concat rest' = []).
    { destruct rest' as [|l2 r2]; [now right|]. left. now apply lines_ok_inv2 in Hok'. }
    destruct Ht as [l0 H0].
    change (concat ((l0 ++ [NL]) :: l' :: rest')) with ((l0 ++ [NL]) ++ concat (l' :: rest')).
    rewrite <- app_assoc. cbn [app]. rewrite index_sub_skip by assumption.
    cbn [index_sub has_prefix]. rewrite beq_refl. cbn [andb].
    change (concat (l' :: rest')) with (l' ++ concat rest') at 1.
    rewrite (has_prefix_marker_line l' (concat rest') Hl' Ht').
    cbn [next_cand]. destruct (has_prefix marker l') eqn:EP.
    + cbn [fst snd concat option_map]. f_equal. rewrite !app_length. cbn [length]. lia.
    + rewrite (IH l' Hok'). destruct (next_cand rest') as [a b]. cbn [fst snd].
      destruct b as [|b0 b']; [reflexivity|].
      cbn [option_map concat]. f_equal.
      assert (length l' <> 0) by (apply is_line_nonempty in Hl'; destruct l'; [congruence|discriminate]).
      rewrite ?app_length. cbn [length]. rewrite ?app_length. lia.
Qed.

(* ------------------------------------------------------------------ *)
(* findFileMarker in terms of lines                                    *)

(* text in front of the first marker line, its name, and the lines after it *)
Fixpoint find_lines (ls : list bytes) : bytes * option (bytes * list bytes) :=
  match ls with
  | [] => ([], None)
  | l :: rest =>
      match marker_line l with
      | Some n => ([], Some (n, rest))
      | None => let '(b, r) := find_lines rest in (l ++ b, r)
      end
  end.

Lemma find_lines_cons_nomark l rest :
  marker_line l = None ->
  find_lines (l :: rest) = (l ++ fst (find_lines rest), snd (find_lines rest)).
Proof. intros H. cbn [find_lines]. rewrite H. now destruct (find_lines rest). Qed.

(* lines that do not begin with [marker] are never marker lines *)
Lemma no_prefix_no_marker l : has_prefix marker l = false -> marker_line l = None.
Proof.
  intros H. destruct (marker_line l) as [n|] eqn:E; [|reflexivity].
  apply marker_line_has_prefix in E. congruence.
Qed.

Lemma find_lines_skip a b :
  (forall x, In x a -> has_prefix marker x = false) ->
  find_lines (a ++ b) = (concat a ++ fst (find_lines b), snd (find_lines b)).
Proof.
  induction a as [|l a IH]; intros H.
  - cbn [app concat]. now destruct (find_lines b).
  - cbn [app concat]. rewrite find_lines_cons_nomark by (apply no_prefix_no_marker, H; now left).
    rewrite IH by (intros x Hx; apply H; now right). cbn [fst snd]. now rewrite app_assoc.
Qed.

Lemma find_lines_name ls n rest : snd (find_lines ls) = Some (n, rest) -> n <> [].
Proof.
  induction ls as [|l ls IH]; [discriminate|].
  destruct (marker_line l) as [m|] eqn:E.
  - cbn [find_lines]. rewrite E. cbn [snd]. intros H. injection H as -> _.
    unfold marker_line in E. apply marker_core_Some in E. tauto.
  - rewrite find_lines_cons_nomark by assumption. exact IH.
Qed.

Lemma lines_ok_app_r a b : lines_ok (a ++ b) -> lines_ok b.
Proof.
  induction a as [|l a IH]; [trivial|]. cbn [app]. intros H.
  apply lines_ok_inv in H. now apply IH.
Qed.

Lemma split_lines_length d : length (split_lines d) <= length d.
Proof.
  induction d as [|b r IH]; [constructor|].
  cbn [split_lines]. destruct (beq b NL); cbn [length]; [lia|].
  destruct (split_lines r); cbn [length] in *; lia.
Qed.

Lemma slice_rest pre x : slice_z (pre ++ x) (len pre) (len (pre ++ x)) = Some x.
Proof.
  unfold len at 1. rewrite slice_z_from by (rewrite app_length; lia).
  now rewrite skipn_length_app.
Qed.

Lemma slice_pre pre x : slice_z (pre ++ x) 0 (len pre) = Some pre.
Proof.
  unfold len. rewrite slice_z_to by (rewrite app_length; lia).
  now rewrite firstn_length_app.
Qed.

Definition find_spec (pre : bytes) (ls : list bytes) : bytes * bytes * bytes :=
  match snd (find_lines ls) with
  | Some (n, rest) => (pre ++ fst (find_lines ls), n, concat rest)
  | None => (fix_nl (pre ++ concat ls), [], [])
  end.

(* the loop, started at a line start (i = len pre), with at least one unit of fuel
   per remaining line *)
Lemma find_loop_lines fuel : forall ls pre,
  length ls < fuel -> lines_ok ls ->
  find_loop fuel (pre ++ concat ls) (len pre) = Ok (find_spec pre ls).
Proof.
  induction fuel as [|fuel IH]; intros ls pre Hf Hok; [lia|].
  cbn [find_loop]. rewrite !slice_rest.
  destruct ls as [|l rest].
  - cbn [concat]. rewrite is_marker_idx_unfold, marker_prefix_nonempty. cbn [negb is_nil].
    unfold index_nl_marker. rewrite newline_marker_eq, index_sub_nil, fix_nl_idx_eq.
    reflexivity.
  - assert (Hl : is_line l) by (now apply lines_ok_inv in Hok).
    assert (Ht : tline l \/ concat rest = []).
    { destruct rest as [|l2 r2]; [now right|]. left. now apply lines_ok_inv2 in Hok. }
    cbn [concat]. destruct (is_marker_idx_line l (concat rest) Hl Ht) as [a [Ha Hafter]].
    rewrite Ha. destruct (marker_line l) as [n|] eqn:EM.
    + (* a marker at i: return data[:i], name, after *)
      assert (Hn : n <> []).
      { unfold marker_line in EM. apply marker_core_Some in EM. tauto. }
      cbn [name_of]. destruct n as [|n0 n']; [congruence|]. cbn [is_nil negb].
      rewrite slice_pre. rewrite Hafter by congruence.
      unfold find_spec. cbn [find_lines]. rewrite EM. cbn [fst snd]. now rewrite app_nil_r.
    + cbn [name_of is_nil negb].
      change (l ++ concat rest) with (concat (l :: rest)).
      rewrite (index_nl_marker_lines rest l Hok).
      destruct (next_cand_spec rest) as [Hsplit Hskip].
      destruct (next_cand rest) as [sk b]. cbn [fst snd] in *.
      assert (HFL : find_lines (l :: rest)
                    = (l ++ concat sk ++ fst (find_lines b), snd (find_lines b))).
      { rewrite find_lines_cons_nomark by assumption.
        rewrite Hsplit, find_lines_skip by assumption. reflexivity. }
      destruct b as [|b0 b'].
      * (* no further candidate: return fixNL(data), "", nil *)
        rewrite fix_nl_idx_eq. unfold find_spec. rewrite HFL. reflexivity.
      * (* jump to the next candidate line *)
        set (pre' := pre ++ l ++ concat sk).
        assert (Hdata : pre ++ concat (l :: rest) = pre' ++ concat (b0 :: b')).
        { unfold pre'. rewrite Hsplit. cbn [concat]. rewrite concat_app. cbn [concat].
          now rewrite <- !app_assoc. }
        assert (Hi : (len pre
                      + (Z.of_nat (length (l ++ concat sk) - 1) + 1))%Z = len pre').
        { unfold pre', len. rewrite !app_length.
          assert (length l <> 0) by (apply is_line_nonempty in Hl; destruct l; [congruence|discriminate]).
          lia. }
        rewrite Hi, Hdata. rewrite IH.
        -- f_equal. unfold find_spec. rewrite HFL. cbn [snd fst].
           destruct (snd (find_lines (b0 :: b'))) as [[n r]|].
           ++ unfold pre'. now rewrite <- !app_assoc.
           ++ now rewrite Hdata.
        -- apply (f_equal (@length _)) in Hsplit. rewrite app_length in Hsplit.
           cbn [length] in *. lia.
        -- apply lines_ok_inv in Hok. destruct Hok as [_ Hok]. rewrite Hsplit in Hok.
           now apply lines_ok_app_r in Hok.
Qed.

Definition find_result (data : bytes) : bytes * bytes * bytes := find_spec [] (split_lines data).

(* findFileMarker ends, without panic, in at most [length data + 1] iterations *)
Lemma find_file_marker_fuel_spec fuel data :
  length data + 1 <= fuel -> find_file_marker_fuel fuel data = Ok (find_result data).
Proof.
  intros Hf. unfold find_file_marker_fuel, find_result.
  pose proof (find_loop_lines fuel (split_lines data) []) as H.
  cbn [app] in H. rewrite concat_split_lines in H. apply H.
  - pose proof (split_lines_length data). lia.
  - apply split_lines_ok.
Qed.

Lemma find_file_marker_idx_spec data : find_file_marker_idx data = Ok (find_result data).
Proof. apply find_file_marker_fuel_spec. lia. Qed.

Lemma find_file_marker_fuel_total fuel data :
  length data + 1 <= fuel ->
  find_file_marker_fuel fuel data <> Panic /\ find_file_marker_fuel fuel data <> OutOfFuel.
Proof. intros H. rewrite find_file_marker_fuel_spec by assumption. split; discriminate. Qed.

Lemma find_file_marker_idx_total data :
  find_file_marker_idx data <> Panic /\ find_file_marker_idx data <> OutOfFuel.
Proof. rewrite find_file_marker_idx_spec. split; discriminate. Qed.

(* ------------------------------------------------------------------ *)
(* Parse                                                               *)

Definition fix_entry (nd : bytes * bytes) : bytes * bytes := (fst nd, fix_nl (snd nd)).

(* the line-based [collect] is "find the first marker line, then go on" *)
Lemma collect_find_lines ls :
  collect marker_line ls =
  match snd (find_lines ls) with
  | Some (n, rest) =>
      (fst (find_lines ls),
       (n, fst (collect marker_line rest)) :: snd (collect marker_line rest))
  | None => (fst (find_lines ls), [])
  end.
Proof.
  induction ls as [|l ls IH]; [reflexivity|].
  destruct (marker_line l) as [n|] eqn:E.
  - rewrite (collect_cons_mark _ l n ls E). cbn [find_lines]. now rewrite E.
  - rewrite (collect_cons_nomark _ l ls E), find_lines_cons_nomark by assumption.
    cbn [fst snd]. rewrite IH. now destruct (snd (find_lines ls)) as [[n r]|].
Qed.

(* what findFileMarker returns in front of a marker is already NL-terminated: it
   consists of whole terminated lines (Parse does not apply fixNL to it, the
   line-based model does) *)
Lemma find_lines_Some ls n rest :
  lines_ok ls -> snd (find_lines ls) = Some (n, rest) ->
  fix_nl (fst (find_lines ls)) = fst (find_lines ls) /\ lines_ok rest /\ length rest < length ls.
Proof.
  induction ls as [|l ls IH]; intros Hok H; [discriminate|].
  destruct (marker_line l) as [m|] eqn:E.
  - cbn [find_lines] in *. rewrite E in *. cbn [fst snd] in *. injection H as _ <-.
    split; [reflexivity|]. split; [now apply lines_ok_inv in Hok|cbn [length]; lia].
  - rewrite find_lines_cons_nomark in * by assumption. cbn [fst snd] in *.
    destruct ls as [|l2 ls']; [discriminate|].
    apply lines_ok_inv2 in Hok. destruct Hok as [Ht Hok].
    destruct (IH Hok H) as [IH1 [IH2 IH3]]. split; [|split; [assumption|cbn [length] in *; lia]].
    apply fix_nl_fixed. right. apply fix_nl_fixed in IH1. destruct IH1 as [IH1|IH1].
    + rewrite IH1, app_nil_r. now apply tline_last.
    + rewrite last_byte_app; [assumption|]. intros E0. rewrite E0 in IH1. discriminate.
Qed.

Lemma find_lines_None ls : snd (find_lines ls) = None -> fst (find_lines ls) = concat ls.
Proof.
  induction ls as [|l ls IH]; [reflexivity|].
  destruct (marker_line l) as [m|] eqn:E.
  - cbn [find_lines]. rewrite E. discriminate.
  - rewrite find_lines_cons_nomark by assumption. cbn [fst snd concat]. intros H. now rewrite IH.
Qed.

Lemma find_result_concat ls :
  lines_ok ls -> find_result (concat ls) = find_spec [] ls.
Proof. intros H. unfold find_result. now rewrite split_lines_concat. Qed.

(* the loop of Parse: one unit of fuel per remaining line, and two to stop *)
Lemma parse_loop_lines fuel : forall ls n acc,
  length ls + 2 <= fuel -> lines_ok ls -> n <> [] ->
  parse_loop fuel n (concat ls) acc =
  Ok (acc ++ map fix_entry ((n, fst (collect marker_line ls)) :: snd (collect marker_line ls))).
Proof.
  induction fuel as [|fuel IH]; intros ls n acc Hf Hok Hn; [lia|].
  cbn [parse_loop]. destruct n as [|n0 n']; [congruence|]. cbn [is_nil].
  rewrite find_file_marker_idx_spec, (find_result_concat ls Hok). unfold find_spec.
  rewrite (collect_find_lines ls). cbn [app].
  destruct (snd (find_lines ls)) as [[m rest]|] eqn:E.
  - destruct (find_lines_Some ls m rest Hok E) as [Hfix [Hok' Hlen]].
    rewrite IH; [|lia|assumption|now apply (find_lines_name ls m rest)].
    rewrite <- app_assoc. cbn [app map fst snd fix_entry]. unfold fix_entry. cbn [fst snd]. now rewrite Hfix.
  - destruct fuel as [|fuel]; [lia|]. cbn [parse_loop is_nil map fst snd fix_entry].
    now rewrite (find_lines_None ls E).
Qed.

(* Parse, statement by statement, is the line-based parse: in particular it is
   total (no panic, no fuel exhaustion) on every byte string *)
Theorem parse_idx_eq s : parse_idx s = Ok (parse s).
Proof.
  unfold parse_idx. rewrite find_file_marker_idx_spec.
  unfold find_result, find_spec. cbn [app].
  unfold parse. rewrite parse_with_eq, (collect_find_lines (split_lines s)).
  pose proof (split_lines_ok s) as Hok. pose proof (split_lines_length s) as Hlen.
  destruct (snd (find_lines (split_lines s))) as [[n rest]|] eqn:E.
  - destruct (find_lines_Some _ n rest Hok E) as [Hfix [Hok' Hlt]].
    rewrite parse_loop_lines; [|lia|assumption|now apply (find_lines_name _ n rest E)].
    cbn [app fst snd]. now rewrite Hfix.
  - destruct (length s + 2) as [|f] eqn:Ef; [lia|]. cbn [parse_loop is_nil fst snd map].
    now rewrite (find_lines_None _ E), concat_split_lines.
Qed.

Theorem parse_idx_total s : parse_idx s <> Panic /\ parse_idx s <> OutOfFuel.
Proof. rewrite parse_idx_eq. split; discriminate. Qed.

(* ------------------------------------------------------------------ *)
(* NeedsQuote                                                          *)

Lemma existsb_find_lines ls :
  existsb is_marker ls = match snd (find_lines ls) with Some _ => true | None => false end.
Proof.
  induction ls as [|l ls IH]; [reflexivity|].
  cbn [existsb]. unfold is_marker at 1. destruct (marker_line l) as [n|] eqn:E.
  - cbn [find_lines]. now rewrite E.
  - rewrite find_lines_cons_nomark by assumption. cbn [orb snd]. exact IH.
Qed.

Theorem needs_quote_idx_eq d : needs_quote_idx d = Ok (needs_quote d).
Proof.
  unfold needs_quote_idx. rewrite find_file_marker_idx_spec.
  unfold find_result, find_spec. rewrite needs_quote_eq, existsb_find_lines.
  destruct (snd (find_lines (split_lines d))) as [[n rest]|] eqn:E; [|reflexivity].
  apply find_lines_name in E. now destruct n.
Qed.

(* ------------------------------------------------------------------ *)
(* Format (golang.org/x/tools/txtar)                                   *)

(* the regenerated format string of x/tools' Format is "marker %s markerEnd \n", and
   the x/tools package has the same three marker constants as /repo's: a change of
   either side breaks these two lemmas *)
Lemma xtools_format_string_eq :
  xtools_format_string = marker ++ [x25; x73] ++ marker_end ++ [NL].
Proof. reflexivity. Qed.

Lemma xtools_markers_eq :
  xtools_marker = marker /\ xtools_marker_end = marker_end /\ xtools_newline_marker = newline_marker.
Proof. repeat split. Qed.

(* fmt.Fprintf(&buf, "-- %s --\n", name) writes the marker line, whatever bytes the
   name consists of (it is an argument, not part of the format) *)
Lemma expand_format_string n : expand_s xtools_format_string [n] = Some (format_marker n).
Proof. reflexivity. Qed.

Lemma format_files_eq fs : forall buf, format_files fs buf = Ok (buf ++ body fs).
Proof.
  induction fs as [|[n d] fs IH]; intros buf.
  - cbn [format_files body map concat]. now rewrite app_nil_r.
  - cbn [format_files]. rewrite expand_format_string, fix_nl_idx_eq, IH.
    unfold body. cbn [map concat fst snd]. now rewrite <- !app_assoc.
Qed.

Theorem format_idx_eq a : format_idx a = Ok (format a).
Proof. unfold format_idx. rewrite fix_nl_idx_eq, format_files_eq. now rewrite format_eq. Qed.

(* ------------------------------------------------------------------ *)
(* Examples (evaluated before the proofs were written)                 *)

Require Coq.Strings.String.
Import Coq.Strings.String.StringSyntax.

(* '%' in a name is data: the statement-level Format does not re-interpret it *)
Example ex_format_percent :
  format_idx {| comment := []; files := [(B "%s%d%", B "x")] |} = Ok (B "-- %s%d% --" ++ [NL] ++ B "x" ++ [NL])
  /\ expand_s (B "%d") [B "x"] = None /\ expand_s (B "a%%%s") [B "x"] = Some (B "a%x").
Proof. vm_compute. repeat split; reflexivity. Qed.


Example ex_idx_crlf : parse_idx ex_crlf = Ok (parse ex_crlf).
Proof. vm_compute. reflexivity. Qed.

Example ex_idx_short_marker :
  parse_idx (B "-- --") = Ok {| comment := B "-- --" ++ [NL]; files := [] |}
  /\ is_marker_idx (B "-- --") = MRes [] [].
Proof. vm_compute. split; reflexivity. Qed.

Example ex_idx_marker_cr_eof :
  parse_idx (B "-- a --" ++ [CR]) = Ok {| comment := []; files := [(B "a", [])] |}
  /\ needs_quote_idx (B "x" ++ [NL] ++ B "-- a --") = Ok true.
Proof. vm_compute. split; reflexivity. Qed.

(* the checked expressions do fail outside the situations isMarker creates: the
   failure values of the model are real *)
Example ex_checked_ops_fail :
  index_z [] (len [] - 1) = None /\ slice_z (B "-- --") 3 2 = None
  /\ find_loop 1 (B "x" ++ [NL] ++ B "-- ") 0 = OutOfFuel
  /\ find_loop 1 (B "x") 2 = Panic.
Proof. vm_compute. repeat split; reflexivity. Qed.

(* without the length guard the slice expression of isMarker would be reached with
   low > high: this is the panic the unrepaired code had on "-- --" *)
Example ex_guard_needed :
  has_suffix marker_end (B "-- --") = true /\
  slice_z (B "-- --") (len marker) (len (B "-- --") - len marker_end) = None.
Proof. vm_compute. split; reflexivity. Qed.

(* the hypothesis of find_file_marker_fuel_total is satisfiable, and fuel matters:
   three candidate lines need three iterations *)
Example ex_fuel_hyp :
  let d := B "-- " ++ [NL] ++ B "-- " ++ [NL] ++ B "-- a --" in
  length d + 1 <= 20 /\
  find_file_marker_fuel 20 d = Ok (B "-- " ++ [NL] ++ B "-- " ++ [NL], B "a", []) /\
  find_file_marker_fuel 2 d = OutOfFuel.
Proof. vm_compute. repeat split; try reflexivity. repeat constructor. Qed.

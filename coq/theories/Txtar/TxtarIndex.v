(* Index-faithful model of txtar/archive.go: isMarker, findFileMarker, fixNL, Parse,
   NeedsQuote, written statement by statement with Go's index arithmetic (in Z, so
   that len(x)-k can be negative) and Go's run-time checks made explicit: an index
   or slice expression that Go would reject is the value [None] here and becomes
   [MPanic] / [Panic]; a loop that does not finish within its fuel is [OutOfFuel].
   Definitions only; TxtarIndexFacts.v proves this model equal to the line-based
   one of Txtar.v (so that no failure value is ever produced).

   Slices are checked against len, Go checks against cap: the model's check is the
   stricter one, so "the model never panics" is the stronger statement.  A nil
   slice and an empty one are both [[]] (no operation here tells them apart). *)
From Coq Require Import List Bool Arith ZArith.
From Coq.Strings Require Import Byte.
From GI Require Import Lib.Bytes Gen.TxtarConsts Txtar.Txtar.
From GI Require Export Lib.GoSem.
Import ListNotations.

(* The result type res (Ok / Panic / OutOfFuel), len, the checked slice and index
   expressions slice_z / index_z and the searches index_byte / index_sub are shared with
   the source translator's semantics and live in Lib/GoSem.v. *)
(* bytes.Index(data, newlineMarker) *)
Definition index_nl_marker (d : bytes) : option nat := index_sub newline_marker d.

Definition is_nil (d : bytes) : bool := match d with [] => true | _ => false end.

(* result of isMarker: (name, after), name = "" meaning "not a marker" *)
Inductive mres : Type :=
| MRes (name after : bytes)
| MPanic.

(* func isMarker(data []byte) (name string, after []byte) *)
Definition is_marker_idx (data : bytes) : mres :=
  (* if !bytes.HasPrefix(data, marker) { return "", nil } *)
  if negb (has_prefix marker data) then MRes [] [] else
  (* if i := bytes.IndexByte(data, '\n'); i >= 0 { data, after = data[:i], data[i+1:] } *)
  match
    match index_byte NL data with
    | Some i =>
        match slice_z data 0 (Z.of_nat i), slice_z data (Z.of_nat i + 1) (len data) with
        | Some d, Some a => Some (d, a)
        | _, _ => None
        end
    | None => Some (data, [])
    end
  with
  | None => MPanic
  | Some (data, after) =>
      (* if data[len(data)-1] == '\r' { data = data[:len(data)-1] } *)
      match index_z data (len data - 1) with
      | None => MPanic
      | Some b =>
          match (if beq b CR then slice_z data 0 (len data - 1) else Some data) with
          | None => MPanic
          | Some data =>
              (* if !bytes.HasSuffix(data, markerEnd) || len(data) < len(marker)+len(markerEnd) *)
              if negb (has_suffix marker_end data) || (len data <? len marker + len marker_end)%Z
              then MRes [] []
              else
                (* strings.TrimSpace(string(data[len(marker) : len(data)-len(markerEnd)])), after *)
                match slice_z data (len marker) (len data - len marker_end) with
                | None => MPanic
                | Some mid => MRes (trim_space mid) after
                end
          end
      end
  end.

(* func fixNL(data []byte) []byte; None = the index expression panics *)
Definition fix_nl_idx (data : bytes) : option bytes :=
  if (len data =? 0)%Z then Some data else
  match index_z data (len data - 1) with
  | None => None
  | Some b => if beq b NL then Some data else Some (data ++ [NL])
  end.

(* the for-loop of findFileMarker, [i] being the Go variable i *)
Fixpoint find_loop (fuel : nat) (data : bytes) (i : Z) : res (bytes * bytes * bytes) :=
  match fuel with
  | 0 => OutOfFuel
  | S fuel' =>
      (* if name, after = isMarker(data[i:]); name != "" { return data[:i], name, after } *)
      match slice_z data i (len data) with
      | None => Panic
      | Some rest =>
          match is_marker_idx rest with
          | MPanic => Panic
          | MRes name after =>
              if negb (is_nil name) then
                match slice_z data 0 i with
                | None => Panic
                | Some before => Ok (before, name, after)
                end
              else
                (* j := bytes.Index(data[i:], newlineMarker) *)
                match slice_z data i (len data) with
                | None => Panic
                | Some rest' =>
                    match index_nl_marker rest' with
                    | None =>
                        (* if j < 0 { return fixNL(data), "", nil } *)
                        match fix_nl_idx data with
                        | None => Panic
                        | Some d => Ok (d, [], [])
                        end
                    | Some j =>
                        (* i += j + 1 *)
                        find_loop fuel' data (i + (Z.of_nat j + 1))
                    end
                end
          end
      end
  end.

(* func findFileMarker(data []byte) (before []byte, name string, after []byte) *)
Definition find_file_marker_fuel (fuel : nat) (data : bytes) : res (bytes * bytes * bytes) :=
  find_loop fuel data 0.
Definition find_file_marker_idx (data : bytes) : res (bytes * bytes * bytes) :=
  find_file_marker_fuel (length data + 1) data.

(* the for-loop of Parse: for name != "" { f.Data, name, data = findFileMarker(data); append } *)
Fixpoint parse_loop (fuel : nat) (name data : bytes) (fs : list (bytes * bytes))
  : res (list (bytes * bytes)) :=
  match fuel with
  | 0 => OutOfFuel
  | S fuel' =>
      if is_nil name then Ok fs else
      match find_file_marker_idx data with
      | Ok (fdata, name', data') => parse_loop fuel' name' data' (fs ++ [(name, fdata)])
      | Panic => Panic
      | OutOfFuel => OutOfFuel
      end
  end.

(* func Parse(data []byte) *Archive *)
Definition parse_idx (data : bytes) : res archive :=
  match find_file_marker_idx data with
  | Ok (c, name, data') =>
      match parse_loop (length data + 2) name data' [] with
      | Ok fs => Ok {| comment := c; files := fs |}
      | Panic => Panic
      | OutOfFuel => OutOfFuel
      end
  | Panic => Panic
  | OutOfFuel => OutOfFuel
  end.

(* func NeedsQuote(data []byte) bool { _, name, _ := findFileMarker(data); return name != "" } *)
Definition needs_quote_idx (data : bytes) : res bool :=
  match find_file_marker_idx data with
  | Ok (_, name, _) => Ok (negb (is_nil name))
  | Panic => Panic
  | OutOfFuel => OutOfFuel
  end.

(* ------------------------------------------------------------------ *)
(* golang.org/x/tools/txtar.Format, statement by statement              *)

(* fmt.Fprintf for a format made of literal text, %s verbs and %%, one string
   argument per %s.  None = a format or an argument count this model does not cover
   (other verbs, flags, missing or extra arguments). *)
Fixpoint expand_s (f : bytes) (args : list bytes) : option bytes :=
  match f with
  | [] => match args with [] => Some [] | _ :: _ => None end
  | b :: r =>
      if beq b x25 then
        match r with
        | c :: r' =>
            if beq c x73 then
              match args with
              | a :: args' => option_map (app a) (expand_s r' args')
              | [] => None
              end
            else if beq c x25 then option_map (cons x25) (expand_s r' args)
            else None
        | [] => None
        end
      else option_map (cons b) (expand_s r args)
  end.

(* the loop  for _, f := range a.Files { fmt.Fprintf(&buf, "-- %s --\n", f.Name);
   buf.Write(fixNL(f.Data)) }  with the buffer contents as accumulator *)
Fixpoint format_files (fs : list (bytes * bytes)) (buf : bytes) : res bytes :=
  match fs with
  | [] => Ok buf
  | (name, data) :: fs' =>
      match expand_s xtools_format_string [name] with
      | None => Panic
      | Some line =>
          match fix_nl_idx data with
          | None => Panic
          | Some d => format_files fs' ((buf ++ line) ++ d)
          end
      end
  end.

(* func Format(a *Archive) []byte: buf.Write(fixNL(a.Comment)); loop; buf.Bytes() *)
Definition format_idx (a : archive) : res bytes :=
  match fix_nl_idx (comment a) with
  | None => Panic
  | Some c => format_files (files a) c
  end.

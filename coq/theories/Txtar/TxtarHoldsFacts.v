(* The executable property statements of TxtarHolds.v are constantly true: what the
   model binary answers to "holds <hex>" is a theorem for every input. *)
From Coq Require Import List Bool Arith Lia.
From Coq.Strings Require Import Byte.
From GI Require Import Lib.Bytes Lib.BytesFacts Gen.TxtarConsts Txtar.Txtar Txtar.TxtarFacts
  Txtar.QuoteFacts Txtar.TxtarIndex Txtar.TxtarIndexFacts Txtar.TxtarHolds.
Import ListNotations.

Lemma entries_eqb_refl a : entries_eqb a a = true.
Proof.
  induction a as [|[n d] a IH]; [reflexivity|].
  cbn [entries_eqb]. unfold entry_eqb. cbn [fst snd]. now rewrite !bytes_eqb_refl, IH.
Qed.

Lemma entries_eqb_eq a b : entries_eqb a b = true <-> a = b.
Proof.
  split; [|intros ->; apply entries_eqb_refl].
  revert b. induction a as [|[n d] a IH]; intros [|[n' d'] b] H; cbn [entries_eqb] in H;
    try discriminate; [reflexivity|].
  apply andb_true_iff in H. destruct H as [H1 H2]. unfold entry_eqb in H1. cbn [fst snd] in H1.
  apply andb_true_iff in H1. destruct H1 as [Hn Hd].
  apply bytes_eqb_eq in Hn. apply bytes_eqb_eq in Hd. apply IH in H2. now subst.
Qed.

Lemma archive_eqb_eq a b : archive_eqb a b = true <-> a = b.
Proof.
  destruct a as [c fs], b as [c' fs']. unfold archive_eqb. cbn [comment files].
  rewrite andb_true_iff, bytes_eqb_eq, entries_eqb_eq. split.
  - intros [-> ->]. reflexivity.
  - intros H. injection H as -> ->. now split.
Qed.

Lemma archive_eqb_refl a : archive_eqb a a = true.
Proof. now apply archive_eqb_eq. Qed.

Theorem c03_holds_on_true s : c03_holds_on s = true.
Proof.
  unfold c03_holds_on. cbv zeta.
  rewrite parse_idx_eq, archive_eqb_refl, format_idx_eq, bytes_eqb_refl, parse_format_parse, archive_eqb_refl.
  destruct (parse_data_nl s) as [Hc Hd].
  unfold nl_terminated at 1. rewrite Hc, bytes_eqb_refl. cbn [andb].
  replace (forallb (fun nd => nl_terminated (snd nd)) (files (parse s))) with true.
  2:{ symmetry. apply forallb_forall. intros x Hx. rewrite Forall_forall in Hd.
      unfold nl_terminated. rewrite (Hd x Hx). apply bytes_eqb_refl. }
  replace (forallb (fun nd => wf_name (fst nd)) (files (parse s))) with true.
  2:{ symmetry. apply forallb_forall. intros x Hx.
      pose proof (parse_names_wf s) as Hn. rewrite Forall_forall in Hn. now apply Hn. }
  rewrite parse_wf_archive. cbn [andb].
  destruct (cr_free s) eqn:E; [|reflexivity].
  rewrite <- (parse_ref s E). apply archive_eqb_refl.
Qed.

Lemma probe_name_wf : wf_name probe_name = true.
Proof. reflexivity. Qed.

Lemma ends_nl_iff d : ends_nl d = true <-> last_byte d = Some NL.
Proof.
  unfold ends_nl. destruct (last_byte d) as [b|]; [|split; discriminate].
  split.
  - intros H. apply beq_eq in H. now subst.
  - intros H. injection H as ->. apply beq_refl.
Qed.

Theorem c14_holds_on_true d : c14_holds_on d = true.
Proof.
  unfold c14_holds_on. cbv zeta.
  rewrite needs_quote_idx_eq, needs_quote_fix_nl, !Bool.eqb_reflx. cbn [andb].
  assert (Hsem : Bool.eqb (negb (needs_quote d))
                   (archive_eqb (parse (format (one_file d))) (one_file (fix_nl d))) = true).
  { pose proof (needs_quote_semantic probe_name d probe_name_wf) as [H1 H2].
    fold (one_file d) in H1, H2. fold (one_file (fix_nl d)) in H1, H2.
    destruct (needs_quote d) eqn:E; cbn [negb].
    - destruct (archive_eqb (parse (format (one_file d))) (one_file (fix_nl d))) eqn:E2; [|reflexivity].
      apply archive_eqb_eq in E2. apply H2 in E2. discriminate.
    - rewrite (H1 eq_refl). now rewrite archive_eqb_refl. }
  rewrite Hsem. cbn [andb].
  destruct (quote d) as [q|] eqn:Eq.
  - rewrite (unquote_quote d q Eq), bytes_eqb_refl.
    destruct (quote_clean_survives d q [] probe_name Eq eq_refl probe_name_wf) as [Hc Hs].
    fold (one_file q) in Hs. rewrite Hc, Hs, archive_eqb_refl. cbn [negb andb].
    apply quote_Some in Eq. destruct Eq as [[-> _]|[_ [Hl [Hu _]]]]; [reflexivity|].
    apply ends_nl_iff in Hl. rewrite Hl, Hu. now destruct d.
  - apply quote_refuses in Eq. destruct Eq as [Hne [H|H]].
    + destruct d as [|b r]; [congruence|]. cbn [is_nil negb andb].
      destruct (ends_nl (b :: r)) eqn:E; [|reflexivity].
      apply ends_nl_iff in E. contradiction.
    + destruct d as [|b r]; [congruence|]. cbn [is_nil negb andb].
      rewrite H. cbn [negb]. apply orb_true_r.
Qed.

(* Proofs about the txtar model (Txtar.v), part 2: NeedsQuote / Quote / Unquote (C14). *)
From Coq Require Import List Bool Arith Lia.
From Coq.Strings Require Import Byte.
From GI Require Import Lib.Bytes Lib.BytesFacts Gen.TxtarConsts Txtar.Txtar Txtar.TxtarFacts.
Import ListNotations.

Definition GT : byte := x3e.

(* ------------------------------------------------------------------ *)
(* C14 (8): NeedsQuote is exact with respect to the parser              *)

Lemma needs_quote_semantic n d :
  wf_name n = true ->
  (needs_quote d = false <->
   parse (format {| comment := []; files := [(n, d)] |})
   = {| comment := []; files := [(n, fix_nl d)] |}).
Proof.
  intros Hn.
  assert (Ht : tline (format_marker n)).
  { apply format_marker_tline. apply wf_name_iff in Hn. tauto. }
  assert (E : collect marker_line (split_lines (format {| comment := []; files := [(n, d)] |}))
              = ([], (n, fst (collect marker_line (split_lines (fix_nl d))))
                       :: snd (collect marker_line (split_lines (fix_nl d))))).
  { rewrite format_eq. cbn [comment files]. unfold body. cbn [map concat fst snd fix_nl last_byte rev app].
    rewrite app_nil_r.
    rewrite split_lines_app by (right; now apply tline_last).
    rewrite split_lines_tline by assumption. cbn [app].
    now rewrite (collect_cons_mark _ _ n _ (marker_line_format_marker n Hn)). }
  unfold parse. rewrite parse_with_eq, E. cbn [fst snd map]. split.
  - intros Hq. rewrite <- needs_quote_fix_nl in Hq.
    rewrite collect_nomark by (now apply needs_quote_false_iff).
    cbn [fst snd map]. now rewrite concat_split_lines, fix_nl_idem.
  - intros H. injection H as _ Hfs. rewrite <- needs_quote_fix_nl.
    apply needs_quote_false_iff. apply collect_files_nil.
    destruct (snd (collect marker_line (split_lines (fix_nl d)))); [reflexivity|discriminate].
Qed.

(* ------------------------------------------------------------------ *)
(* Quote / Unquote                                                     *)

Lemma quote_Some d q :
  quote d = Some q ->
  (d = [] /\ q = []) \/
  (d <> [] /\ last_byte d = Some NL /\ utf8_valid d = true /\ q = quote_aux NL d).
Proof.
  destruct d as [|b r].
  - intros H. injection H as <-. now left.
  - unfold quote. intros H. right.
    destruct (last_byte (b :: r)) as [c|] eqn:El; [|discriminate].
    destruct (beq c NL) eqn:Ec; [|discriminate]. apply beq_eq in Ec. subst c.
    destruct (utf8_valid (b :: r)) eqn:Eu; [|discriminate].
    injection H as <-. repeat split; try reflexivity. discriminate.
Qed.

(* C14 (11): Quote refuses exactly the non-empty texts that do not end in NL or are
   not valid UTF-8 *)
Lemma quote_refuses d :
  quote d = None <-> d <> [] /\ (last_byte d <> Some NL \/ utf8_valid d = false).
Proof.
  destruct d as [|b r].
  - split; [discriminate|]. intros [H _]. now contradiction H.
  - unfold quote. destruct (last_byte (b :: r)) as [c|] eqn:El.
    + destruct (beq c NL) eqn:Ec.
      * apply beq_eq in Ec. subst c. destruct (utf8_valid (b :: r)) eqn:Eu.
        -- split; [discriminate|]. intros [_ [H|H]]; [now contradiction H|discriminate].
        -- split; [|reflexivity]. intros _. split; [discriminate|now right].
      * apply beq_neq in Ec. split; [|reflexivity]. intros _. split; [discriminate|].
        left. congruence.
    + split; [|reflexivity]. intros _. split; [discriminate|]. left. discriminate.
Qed.

Lemma quote_accepts d :
  (d = [] \/ (last_byte d = Some NL /\ utf8_valid d = true)) -> exists q, quote d = Some q.
Proof.
  intros H. destruct (quote d) as [q|] eqn:E; [now exists q|].
  apply quote_refuses in E. destruct E as [Hne [E|E]]; destruct H as [H|[H1 H2]]; congruence.
Qed.

Lemma drop_gt_nl_gt r : drop_gt_after_nl (NL :: GT :: r) = NL :: drop_gt_after_nl r.
Proof. reflexivity. Qed.

Lemma drop_gt_other b r : beq b NL = false -> drop_gt_after_nl (b :: r) = b :: drop_gt_after_nl r.
Proof. intros H. cbn [drop_gt_after_nl]. now rewrite H. Qed.

Lemma quote_aux_cons prev b r :
  quote_aux prev (b :: r) = (if beq prev NL then [GT] else []) ++ b :: quote_aux b r.
Proof. reflexivity. Qed.

(* removing the '>' after every NL undoes the insertion *)
Lemma drop_gt_quote_aux prev d : drop_gt_after_nl (prev :: quote_aux prev d) = prev :: d.
Proof.
  revert prev. induction d as [|b r IH]; intros prev.
  - cbn [quote_aux drop_gt_after_nl]. now destruct (beq prev NL).
  - rewrite quote_aux_cons. destruct (beq prev NL) eqn:E.
    + apply beq_eq in E. subst prev. cbn [app]. now rewrite drop_gt_nl_gt, IH.
    + cbn [app]. now rewrite drop_gt_other, IH.
Qed.

Lemma quote_aux_nonempty prev d : d <> [] -> quote_aux prev d <> [].
Proof.
  destruct d as [|b r]; [intros H; now contradiction H|]. intros _.
  rewrite quote_aux_cons. destruct (beq prev NL); discriminate.
Qed.

Lemma last_byte_quote_aux prev d : d <> [] -> last_byte (quote_aux prev d) = last_byte d.
Proof.
  revert prev. induction d as [|b r IH]; intros prev Hne; [now contradiction Hne|].
  rewrite quote_aux_cons. rewrite last_byte_app by discriminate.
  destruct r as [|c r'].
  - reflexivity.
  - rewrite (last_byte_cons b (quote_aux b (c :: r'))) by (apply quote_aux_nonempty; discriminate).
    rewrite (last_byte_cons b (c :: r')) by discriminate.
    apply IH. discriminate.
Qed.

(* C14 (9) *)
Lemma unquote_quote d q : quote d = Some q -> unquote q = Some d.
Proof.
  intros H. apply quote_Some in H. destruct H as [[-> ->]|[Hne [Hl [_ ->]]]]; [reflexivity|].
  destruct d as [|b r]; [now contradiction Hne|].
  assert (Hq : quote_aux NL (b :: r) = GT :: b :: quote_aux b r) by reflexivity.
  assert (Hlast : last_byte (GT :: b :: quote_aux b r) = Some NL).
  { rewrite <- Hq, last_byte_quote_aux by discriminate. exact Hl. }
  rewrite Hq. unfold unquote. rewrite Hlast.
  change (beq GT x3e && beq NL NL) with true. cbv iota.
  rewrite drop_gt_other by reflexivity. rewrite drop_gt_quote_aux.
  reflexivity.
Qed.

(* the quoted form, line by line *)
Lemma quote_aux_noNL p l0 rest :
  p <> NL -> ~ In NL l0 ->
  quote_aux p (l0 ++ NL :: rest) = l0 ++ NL :: quote_aux NL rest.
Proof.
  revert p. induction l0 as [|b l0 IH]; intros p Hp Hl.
  - cbn [app]. rewrite quote_aux_cons, (beq_false p NL Hp). reflexivity.
  - cbn [app]. rewrite quote_aux_cons, (beq_false p NL Hp). cbn [app]. f_equal.
    apply IH; [intros E; apply Hl; now left|intros E; apply Hl; now right].
Qed.

Lemma quote_aux_NL_line l0 rest :
  ~ In NL l0 ->
  quote_aux NL (l0 ++ NL :: rest) = (GT :: l0) ++ NL :: quote_aux NL rest.
Proof.
  intros Hl. destruct l0 as [|b l0].
  - reflexivity.
  - cbn [app]. rewrite quote_aux_cons. change (beq NL NL) with true. cbn [app]. do 2 f_equal.
    apply quote_aux_noNL; [intros E; apply Hl; now left|intros E; apply Hl; now right].
Qed.

Lemma lines_all_terminated ls :
  lines_ok ls -> (concat ls = [] \/ last_byte (concat ls) = Some NL) -> Forall tline ls.
Proof.
  induction ls as [|l rest IH]; intros Hok Hl; [constructor|].
  destruct rest as [|l2 rest'].
  - cbn [concat] in Hl. rewrite app_nil_r in Hl. constructor; [|constructor].
    destruct Hok as [Ht|Hu]; [assumption|]. exfalso. destruct Hl as [Hl|Hl].
    + now apply (proj1 Hu).
    + now apply (uline_last l Hu).
  - apply lines_ok_inv2 in Hok. destruct Hok as [Ht Hrest]. constructor; [assumption|].
    apply IH; [assumption|].
    assert (Hne : concat (l2 :: rest') <> []).
    { cbn [concat]. intros E. apply app_eq_nil in E. destruct E as [E _].
      apply lines_ok_inv in Hrest. now apply (is_line_nonempty l2 (proj1 Hrest)). }
    right. destruct Hl as [Hl|Hl].
    + cbn [concat] in Hl. apply app_eq_nil in Hl. destruct Hl as [Hl _].
      now apply tline_nonempty in Ht.
    + change (concat (l :: l2 :: rest')) with (l ++ concat (l2 :: rest')) in Hl.
      now rewrite last_byte_app in Hl.
Qed.

Lemma needs_quote_quote_aux ls :
  Forall tline ls -> needs_quote (quote_aux NL (concat ls)) = false.
Proof.
  induction 1 as [|l ls [l0 Hl0] _ IH]; [reflexivity|].
  cbn [concat]. rewrite <- app_assoc. cbn [app]. rewrite quote_aux_NL_line by assumption.
  rewrite needs_quote_eq, split_lines_tline_app.
  - cbn [existsb]. rewrite <- needs_quote_eq, IH. unfold is_marker.
    cbn [app]. now rewrite marker_line_gt.
  - intros [E|E]; [discriminate|now apply Hl0].
Qed.

(* C14 (10): the quoted form never needs quoting ... *)
Lemma quote_clean d q : quote d = Some q -> needs_quote q = false.
Proof.
  intros H. apply quote_Some in H. destruct H as [[-> ->]|[Hne [Hl [_ ->]]]]; [reflexivity|].
  rewrite <- (concat_split_lines d). apply needs_quote_quote_aux.
  apply lines_all_terminated; [apply split_lines_ok|].
  rewrite concat_split_lines. now right.
Qed.

Lemma quote_wf_text d q : quote d = Some q -> wf_text q = true.
Proof.
  intros H. apply wf_text_iff. split; [|now apply (quote_clean d)].
  apply quote_Some in H. destruct H as [[-> ->]|[Hne [Hl [_ ->]]]]; [reflexivity|].
  apply fix_nl_term. now rewrite last_byte_quote_aux.
Qed.

(* ... and survives Format/Parse unchanged, in any well-formed surrounding archive *)
Lemma quote_survives d q c n fs1 fs2 :
  quote d = Some q ->
  wf_archive {| comment := c; files := fs1 ++ fs2 |} = true -> wf_name n = true ->
  parse (format {| comment := c; files := fs1 ++ (n, q) :: fs2 |})
  = {| comment := c; files := fs1 ++ (n, q) :: fs2 |}.
Proof.
  intros Hq Hwf Hn. apply parse_format_wf.
  unfold wf_archive in *. cbn [comment files] in *.
  apply andb_true_iff in Hwf. destruct Hwf as [Hc Hfs]. rewrite Hc. cbn [andb].
  rewrite forallb_app in *. apply andb_true_iff in Hfs. destruct Hfs as [H1 H2].
  rewrite H1. cbn [andb forallb fst snd]. now rewrite Hn, (quote_wf_text d q Hq), H2.
Qed.

Lemma quote_clean_survives d q c n :
  quote d = Some q -> wf_text c = true -> wf_name n = true ->
  needs_quote q = false /\
  parse (format {| comment := c; files := [(n, q)] |}) = {| comment := c; files := [(n, q)] |}.
Proof.
  intros Hq Hc Hn. split; [now apply (quote_clean d)|].
  apply (quote_survives d q c n [] [] Hq); [|assumption].
  unfold wf_archive. cbn [comment files app forallb]. now rewrite Hc.
Qed.

(* ------------------------------------------------------------------ *)
(* Examples                                                            *)

Import Coq.Strings.String.StringSyntax.

(* the two inputs on which the unrepaired NeedsQuote answered "no" *)
Example ex_needs_quote_eof :
  needs_quote (B "-- a --") = true /\ needs_quote (B "x" ++ [NL] ++ B "-- a --") = true /\
  needs_quote (B "-- a --" ++ [CR]) = true /\ needs_quote (B "--a --" ++ [NL] ++ B "-- --") = false.
Proof. vm_compute. repeat split; reflexivity. Qed.

Example ex_wf_name : wf_name (B "dir/a b.txt") = true /\ wf_name (B " a") = false /\ wf_name [] = false.
Proof. vm_compute. repeat split; reflexivity. Qed.

(* both directions of needs_quote_semantic on concrete data *)
Example ex_semantic_no :
  parse (format {| comment := []; files := [(B "f", B "x" ++ [NL] ++ B "--y --")] |})
  = {| comment := []; files := [(B "f", B "x" ++ [NL] ++ B "--y --" ++ [NL])] |}.
Proof. apply needs_quote_semantic; vm_compute; reflexivity. Qed.

Example ex_semantic_yes :
  parse (format {| comment := []; files := [(B "f", B "x" ++ [NL] ++ B "-- y --")] |})
  = {| comment := []; files := [(B "f", B "x" ++ [NL]); (B "y", [])] |}.
Proof. vm_compute. reflexivity. Qed.

Definition ex_text : bytes := B "a" ++ [NL] ++ B "-- b --" ++ [NL] ++ [NL] ++ B ">c" ++ CRLF.

Example ex_quote :
  quote ex_text = Some (B ">a" ++ [NL] ++ B ">-- b --" ++ [NL] ++ B ">" ++ [NL] ++ B ">>c" ++ CRLF).
Proof. vm_compute. reflexivity. Qed.

Example ex_unquote_quote : forall q, quote ex_text = Some q -> unquote q = Some ex_text.
Proof. intros q. apply unquote_quote. Qed.

Example ex_quote_needed : needs_quote ex_text = true.
Proof. vm_compute. reflexivity. Qed.

Example ex_quote_refused :
  quote (B "a") = None /\ quote [xff; NL] = None /\ quote [xc3; NL] = None /\ quote [xc3; xa9; NL] <> None.
Proof. vm_compute. repeat split; try reflexivity. discriminate. Qed.

Example ex_quote_survives : forall q, quote ex_text = Some q ->
  parse (format {| comment := B "c" ++ [NL]; files := [(B "x", []); (B "f", q); (B "y", B "z" ++ [NL])] |})
  = {| comment := B "c" ++ [NL]; files := [(B "x", []); (B "f", q); (B "y", B "z" ++ [NL])] |}.
Proof.
  intros q Hq. apply (quote_survives ex_text q _ (B "f") [(B "x", [])] [(B "y", B "z" ++ [NL])] Hq);
    vm_compute; reflexivity.
Qed.

Eval vm_compute in (match quote ex_text with Some q => unquote q | None => None end).

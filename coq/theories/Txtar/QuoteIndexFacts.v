(* quote_idx / unquote_idx (QuoteIndex.v: checked indexing, bytes.Count, the allocate-
   and-copy loop of bytes.Replace, bytes.TrimPrefix) never panic, never run out of fuel,
   never truncate a copy, and equal quote / unquote of Txtar.v on every byte string. *)
From Coq Require Import List Bool Arith ZArith Lia.
From Coq.Strings Require Import Byte.
From GI Require Import Lib.Bytes Lib.BytesFacts Gen.TxtarConsts Gen.TxtarQuoteConsts Txtar.Txtar
  Txtar.TxtarFacts Txtar.QuoteFacts Txtar.TxtarIndex Txtar.TxtarIndexFacts Txtar.QuoteIndex.
Import ListNotations.

(* the regenerated literals of Quote / Unquote *)
Lemma quote_literals :
  quote_mark = [GT] /\ unquote_first = [GT] /\ unquote_old = [NL; GT] /\ unquote_new = [NL]
  /\ unquote_prefix = [GT].
Proof. repeat split. Qed.

(* ------------------------------------------------------------------ *)
(* bytes.Index                                                         *)

Lemma has_prefix_length p r : has_prefix p r = true -> length p <= length r.
Proof. intros H. apply has_prefix_iff in H. destruct H as [x ->]. rewrite app_length. lia. Qed.

Lemma index_sub_bound p r k : index_sub p r = Some k -> k + length p <= length r.
Proof.
  revert k. induction r as [|b r IH]; intros k; cbn [index_sub].
  - destruct (has_prefix p []) eqn:E; [|discriminate]. intros H. inversion H; subst.
    apply has_prefix_length in E. lia.
  - destruct (has_prefix p (b :: r)) eqn:E.
    + intros H. inversion H; subst. apply has_prefix_length in E. lia.
    + destruct (index_sub p r) as [k'|]; [|discriminate]. intros H. inversion H; subst.
      specialize (IH k' eq_refl). cbn [length]. lia.
Qed.

Definition NG : bytes := [NL; GT].

(* the non-overlapping left-to-right scan of drop_gt_after_nl, in terms of the first
   occurrence of "\n>" *)
Lemma drop_index r :
  match index_sub NG r with
  | None => drop_gt_after_nl r = r
  | Some k => drop_gt_after_nl r = firstn k r ++ NL :: drop_gt_after_nl (skipn (k + 2) r)
  end.
Proof.
  induction r as [|b r IH]; [reflexivity|].
  cbn [index_sub]. destruct (has_prefix NG (b :: r)) eqn:E.
  - unfold NG in E. cbn [has_prefix] in E. apply andb_true_iff in E. destruct E as [E1 E2].
    apply beq_eq in E1. subst b. destruct r as [|g r']; [discriminate|].
    apply andb_true_iff in E2. destruct E2 as [E2 _]. apply beq_eq in E2. subst g.
    cbn [drop_gt_after_nl firstn skipn Nat.add app]. now rewrite !beq_refl.
  - assert (Hstep : drop_gt_after_nl (b :: r) = b :: drop_gt_after_nl r).
    { cbn [drop_gt_after_nl]. destruct (beq b NL) eqn:Eb; [|reflexivity].
      apply beq_eq in Eb. subst b. destruct r as [|g r']; [reflexivity|].
      destruct (beq g x3e) eqn:Eg; [|reflexivity].
      apply beq_eq in Eg. subst g. unfold NG in E. cbn [has_prefix] in E.
      now rewrite !beq_refl in E. }
    rewrite Hstep. destruct (index_sub NG r) as [k|]; cbn [option_map].
    + rewrite IH. reflexivity.
    + now rewrite IH.
Qed.

(* ------------------------------------------------------------------ *)
(* bytes.Count                                                         *)

Lemma len_NG : len NG = 2%Z.
Proof. reflexivity. Qed.

Lemma count_step r k :
  index_sub NG r = Some k ->
  slice_z r (Z.of_nat k + len NG) (len r) = Some (skipn (k + 2) r) /\ k + 2 <= length r.
Proof.
  intros H. apply index_sub_bound in H. cbn [NG length] in H. rewrite len_NG.
  replace (Z.of_nat k + 2)%Z with (Z.of_nat (k + 2)) by lia.
  split; [apply slice_z_from; lia|lia].
Qed.

Lemma count_loop_spec f : forall r a,
  length r < f ->
  exists n, count_loop f NG r a = Ok (a + n) /\ 2 * n <= length r /\
            (n = 0 -> index_sub NG r = None).
Proof.
  induction f as [|f IH]; intros r a Hf; [lia|].
  cbn [count_loop]. destruct (index_sub NG r) as [k|] eqn:E.
  - destruct (count_step r k E) as [Hs Hk]. rewrite Hs.
    destruct (IH (skipn (k + 2) r) (S a)) as [n [H1 [H2 _]]]; [rewrite skipn_length; lia|].
    exists (S n). rewrite H1. rewrite skipn_length in H2.
    split; [f_equal; lia|]. split; [lia|discriminate].
  - exists 0. split; [now rewrite Nat.add_0_r|]. split; [lia|reflexivity].
Qed.

(* ------------------------------------------------------------------ *)
(* the copy loop of bytes.Replace                                      *)

Lemma copy_into_fits alloc t x :
  length t + length x <= alloc -> copy_into alloc t x = Some (t ++ x).
Proof.
  intros H. unfold copy_into.
  replace (Nat.leb (length t) alloc) with true by (symmetry; apply Nat.leb_le; lia).
  rewrite firstn_all2 by lia. reflexivity.
Qed.

Lemma replace_loop_spec f : forall s start t a n alloc,
  start <= length s -> length (skipn start s) < f ->
  count_loop f NG (skipn start s) a = Ok (a + n) ->
  length t + length (skipn start s) <= alloc + n ->
  replace_loop n alloc s NG [NL] (Z.of_nat start) t = Ok (t ++ drop_gt_after_nl (skipn start s)).
Proof.
  induction f as [|f IH]; intros s start t a n alloc Hst Hlt Hc Hfit; [lia|].
  set (rest := skipn start s) in *.
  assert (Hrest : slice_z s (Z.of_nat start) (len s) = Some rest) by (now apply slice_z_from).
  assert (Hlr : length rest = length s - start) by (unfold rest; apply skipn_length).
  pose proof (drop_index rest) as Hd.
  cbn [count_loop] in Hc. destruct (index_sub NG rest) as [k|] eqn:E.
  - destruct (count_step rest k E) as [Hs Hk]. rewrite Hs in Hc.
    destruct (count_loop_spec f (skipn (k + 2) rest) (S a)) as [n' [H1 [H2 _]]];
      [rewrite skipn_length; lia|].
    rewrite H1 in Hc. assert (n = S n') by (inversion Hc; lia). subst n. clear Hc.
    rewrite skipn_length in H2.
    cbn [replace_loop]. rewrite Hrest, E.
    replace (Z.of_nat start + Z.of_nat k)%Z with (Z.of_nat (start + k)) by lia.
    rewrite slice_z_nat by lia. replace (start + k - start) with k by lia. fold rest.
    assert (Hfk : length (firstn k rest) = k) by (rewrite firstn_length; lia).
    rewrite copy_into_fits by lia.
    rewrite copy_into_fits by (rewrite app_length; cbn [length]; lia).
    rewrite len_NG. replace (Z.of_nat (start + k) + 2)%Z with (Z.of_nat (start + k + 2)) by lia.
    assert (Hsk : skipn (start + k + 2) s = skipn (k + 2) rest).
    { unfold rest. rewrite skipn_skipn'. f_equal. lia. }
    rewrite (IH s (start + k + 2) _ (S a) n' alloc).
    + rewrite Hsk, Hd. now rewrite <- !app_assoc.
    + lia.
    + rewrite Hsk, skipn_length. lia.
    + now rewrite Hsk.
    + rewrite Hsk, skipn_length, !app_length, Hfk. cbn [length]. lia.
  - assert (n = 0) by (inversion Hc; lia). subst n. cbn [replace_loop].
    rewrite Hrest, copy_into_fits by lia. now rewrite Hd.
Qed.

Lemma replace_all_eq d : replace_all d NG [NL] = Ok (drop_gt_after_nl d).
Proof.
  unfold replace_all, count_sub.
  destruct (count_loop_spec (length d + 1) d 0) as [m [Hm [H2 Hz]]]; [lia|].
  rewrite Hm. cbn [Nat.add].
  destruct (Nat.eqb m 0) eqn:E0.
  - apply Nat.eqb_eq in E0. pose proof (drop_index d) as Hd. rewrite (Hz E0) in Hd. now rewrite Hd.
  - apply Nat.eqb_neq in E0. rewrite len_NG.
    replace (len [NL]) with 1%Z by reflexivity. unfold len.
    replace (Z.of_nat (length d) + Z.of_nat m * (1 - 2) <? 0)%Z with false
      by (symmetry; apply Z.ltb_ge; lia).
    replace (Z.to_nat (Z.of_nat (length d) + Z.of_nat m * (1 - 2))) with (length d - m) by lia.
    pose proof (replace_loop_spec (length d + 1) d 0 [] 0 m (length d - m)) as H.
    cbn [skipn app Z.of_nat] in H. apply H; [lia|lia|exact Hm|cbn [length]; lia].
Qed.

(* ------------------------------------------------------------------ *)
(* Unquote                                                             *)

Lemma index_z_head b r : index_z (b :: r) 0 = Some b.
Proof.
  unfold index_z, len. cbn [length].
  replace ((0 <=? 0)%Z && (0 <? Z.of_nat (S (length r)))%Z) with true
    by (symmetry; apply andb_true_iff; split; [reflexivity|apply Z.ltb_lt; lia]).
  reflexivity.
Qed.

Lemma len_zero_iff d : (len d =? 0)%Z = true <-> d = [].
Proof.
  unfold len. rewrite Z.eqb_eq. destruct d; cbn [length]; split; intros H; try reflexivity; try discriminate; lia.
Qed.

Lemma trim_prefix_gt d :
  trim_prefix [GT] d = Ok (match d with g :: r => if beq g GT then r else g :: r | [] => [] end).
Proof.
  unfold trim_prefix. destruct d as [|g r]; [reflexivity|].
  cbn [has_prefix]. rewrite (beq_sym GT g), andb_true_r.
  destruct (beq g GT); [|reflexivity].
  replace (len [GT]) with (Z.of_nat 1) by reflexivity. rewrite slice_z_from by (cbn [length]; lia).
  reflexivity.
Qed.

Theorem unquote_idx_eq d : unquote_idx d = Ok (unquote d).
Proof.
  unfold unquote_idx. destruct (len d =? 0)%Z eqn:E0.
  { apply len_zero_iff in E0. now subst d. }
  destruct d as [|b0 r] eqn:Ed; [discriminate|]. rewrite <- Ed.
  assert (Hne : d <> []) by (subst; discriminate).
  destruct (last_byte d) as [bl|] eqn:El; [|apply last_byte_None in El; contradiction].
  destruct (last_byte_Some d bl El) as [x Hx].
  assert (H0 : index_z d 0 = Some b0) by (subst d; apply index_z_head).
  assert (Hl : index_z d (len d - 1) = Some bl) by (rewrite Hx; apply index_z_last).
  rewrite H0, Hl.
  destruct quote_literals as [_ [-> [-> [-> ->]]]]. cbn [first_byte]. fold NG.
  unfold unquote. rewrite Ed, <- Ed, El. fold GT.
  destruct (beq b0 GT); cbn [negb andb]; [|reflexivity].
  destruct (beq bl NL); cbn [negb]; [|reflexivity].
  rewrite replace_all_eq, trim_prefix_gt.
  destruct (drop_gt_after_nl d) as [|g r']; [reflexivity|]. now destruct (beq g GT).
Qed.

(* ------------------------------------------------------------------ *)
(* Quote                                                               *)

Lemma quote_fold d : forall nd prev,
  fst (fold_left
    (fun (st : bytes * byte) (b : byte) =>
       let (nd, prev) := st in ((if beq prev NL then nd ++ [GT] else nd) ++ [b], b))
    d (nd, prev)) = nd ++ quote_aux prev d.
Proof.
  induction d as [|b d IH]; intros nd prev; cbn [fold_left quote_aux fst].
  - now rewrite app_nil_r.
  - rewrite IH. destruct (beq prev NL); cbn [app]; now rewrite <- !app_assoc.
Qed.

Theorem quote_idx_eq d : quote_idx d = Ok (quote d).
Proof.
  unfold quote_idx. destruct (len d =? 0)%Z eqn:E0.
  { apply len_zero_iff in E0. now subst d. }
  destruct d as [|b0 r] eqn:Ed; [discriminate|]. rewrite <- Ed.
  assert (Hne : d <> []) by (subst; discriminate).
  destruct (last_byte d) as [bl|] eqn:El; [|apply last_byte_None in El; contradiction].
  destruct (last_byte_Some d bl El) as [x Hx].
  assert (Hl : index_z d (len d - 1) = Some bl) by (rewrite Hx; apply index_z_last).
  rewrite Hl. unfold quote. rewrite Ed, <- Ed, El.
  destruct (beq bl NL); cbn [negb]; [|reflexivity].
  destruct (utf8_valid d); cbn [negb]; [|reflexivity].
  destruct quote_literals as [-> _]. now rewrite quote_fold.
Qed.

Theorem quote_unquote_idx_total d :
  quote_idx d <> Panic /\ quote_idx d <> OutOfFuel /\ unquote_idx d <> Panic /\ unquote_idx d <> OutOfFuel.
Proof. rewrite quote_idx_eq, unquote_idx_eq. repeat split; discriminate. Qed.

(* the failure values are real: too small an allocation truncates, a missing
   occurrence makes the slice expression of the loop fail *)
Example ex_replace_failures :
  copy_into 2 [x61] [x62; x63] = Some [x61; x62] /\
  replace_loop 1 5 [x61; x62] NG [NL] 0 [] = Panic /\
  count_loop 1 NG [NL; GT; NL; GT] 0 = OutOfFuel.
Proof. vm_compute. repeat split; reflexivity. Qed.

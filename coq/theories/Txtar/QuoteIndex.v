(* Statement-level model of txtar.Quote and txtar.Unquote (archive.go), with Go's
   run-time checks explicit: checked index expressions, bytes.Count and bytes.Replace
   as the standard library computes them for a separator of at least two bytes (count
   the non-overlapping occurrences, allocate len(s)+n*(len(new)-len(old)) bytes, then n
   times copy the text up to the next occurrence and the replacement; copy truncates at
   the end of the allocated slice), bytes.TrimPrefix.  Definitions only;
   QuoteIndexFacts.v proves quote_idx / unquote_idx equal to quote / unquote of
   Txtar.v.  The literals come from Gen/TxtarQuoteConsts.v. *)
From Coq Require Import List Bool Arith ZArith.
From Coq.Strings Require Import Byte.
From GI Require Import Lib.Bytes Gen.TxtarConsts Gen.TxtarQuoteConsts Txtar.Txtar Txtar.TxtarIndex.
Import ListNotations.

(* bytes.Count (count_loop, count_sub), the copy loop of bytes.Replace (copy_into,
   replace_loop, replace_all) and bytes.TrimPrefix (trim_prefix) are shared with the source
   translator's semantics and live in Lib/GoSem.v (exported by TxtarIndex). *)

Definition first_byte (l : bytes) : byte := match l with b :: _ => b | [] => x00 end.

(* func Quote(data []byte) ([]byte, error); Ok None = the error return *)
Definition quote_idx (data : bytes) : res (option bytes) :=
  if (len data =? 0)%Z then Ok (Some []) else
  match index_z data (len data - 1) with
  | None => Panic
  | Some b =>
      if negb (beq b NL) then Ok None
      else if negb (utf8_valid data) then Ok None
      else
        (* prev := byte('\n'); for _, b := range data { if prev == '\n' { nd = append(nd, '>') };
           nd = append(nd, b); prev = b } *)
        Ok (Some (fst (fold_left
          (fun (st : bytes * byte) (b : byte) =>
             let (nd, prev) := st in
             ((if beq prev NL then nd ++ quote_mark else nd) ++ [b], b))
          data ([], NL))))
  end.

(* func Unquote(data []byte) ([]byte, error) *)
Definition unquote_idx (data : bytes) : res (option bytes) :=
  if (len data =? 0)%Z then Ok (Some []) else
  match index_z data 0 with
  | None => Panic
  | Some b0 =>
      if negb (beq b0 (first_byte unquote_first)) then Ok None else
      match index_z data (len data - 1) with
      | None => Panic
      | Some bl =>
          if negb (beq bl NL) then Ok None else
          match replace_all data unquote_old unquote_new with
          | Ok d1 =>
              match trim_prefix unquote_prefix d1 with
              | Ok d2 => Ok (Some d2)
              | Panic => Panic
              | OutOfFuel => OutOfFuel
              end
          | Panic => Panic
          | OutOfFuel => OutOfFuel
          end
      end
  end.

(* Statement-level model of txtar.Quote and txtar.Unquote (archive.go), with Go's
   run-time checks explicit: checked index expressions, bytes.Count and bytes.Replace
   as the standard library computes them for a separator of at least two bytes (count
   the non-overlapping occurrences, allocate len(s)+n*(len(new)-len(old)) bytes, then n
   times copy the text up to the next occurrence and the replacement; copy truncates at
   the end of the allocated slice), bytes.TrimPrefix.  Definitions only;
   QuoteIndexFacts.v proves quote_idx / unquote_idx equal to quote / unquote of
   Txtar.v.  The literals come from Gen/TxtarQuoteConsts.v. *)
From Coq Require Import List Bool Arith ZArith.
From Coq.Strings Require Import Byte.
From GI Require Import Lib.Bytes Gen.TxtarConsts Gen.TxtarQuoteConsts Txtar.Txtar Txtar.TxtarIndex.
Import ListNotations.

(* bytes.Count(s, sep), len(sep) >= 2:
     n := 0; for { i := Index(s, sep); if i == -1 { return n }; n++; s = s[i+len(sep):] } *)
Fixpoint count_loop (fuel : nat) (sep s : bytes) (n : nat) : res nat :=
  match fuel with
  | 0 => OutOfFuel
  | S f =>
      match index_sub sep s with
      | None => Ok n
      | Some i =>
          match slice_z s (Z.of_nat i + len sep) (len s) with
          | None => Panic
          | Some s' => count_loop f sep s' (S n)
          end
      end
  end.
Definition count_sub (s sep : bytes) : res nat := count_loop (length s + 1) sep s 0.

(* copy(t[w:], x) where t was allocated with [alloc] bytes and w = len of what was
   written so far: copies min(len(x), alloc-w) bytes; t[w:] panics if w > alloc *)
Definition copy_into (alloc : nat) (t x : bytes) : option bytes :=
  if Nat.leb (length t) alloc then Some (t ++ firstn (alloc - length t) x) else None.

(* the loop of bytes.Replace for len(old) > 0:
     for i := 0; i < n; i++ { j := start + Index(s[start:], old);
       w += copy(t[w:], s[start:j]); w += copy(t[w:], new); start = j + len(old) }
     w += copy(t[w:], s[start:]); return t[0:w] *)
Fixpoint replace_loop (n alloc : nat) (s old new : bytes) (start : Z) (t : bytes) : res bytes :=
  match n with
  | 0 =>
      match slice_z s start (len s) with
      | None => Panic
      | Some rest => match copy_into alloc t rest with Some t' => Ok t' | None => Panic end
      end
  | S n' =>
      match slice_z s start (len s) with
      | None => Panic
      | Some rest =>
          let j := (start + match index_sub old rest with Some k => Z.of_nat k | None => -1 end)%Z in
          match slice_z s start j with
          | None => Panic
          | Some seg =>
              match copy_into alloc t seg with
              | None => Panic
              | Some t1 =>
                  match copy_into alloc t1 new with
                  | None => Panic
                  | Some t2 => replace_loop n' alloc s old new (j + len old) t2
                  end
              end
          end
      end
  end.

(* bytes.Replace(s, old, new, -1), len(old) >= 2 *)
Definition replace_all (s old new : bytes) : res bytes :=
  match count_sub s old with
  | Ok m =>
      if Nat.eqb m 0 then Ok s   (* append([]byte(nil), s...) *)
      else
        (* t := make([]byte, len(s)+n*(len(new)-len(old))): panics if negative *)
        let alloc := (len s + Z.of_nat m * (len new - len old))%Z in
        if (alloc <? 0)%Z then Panic
        else replace_loop m (Z.to_nat alloc) s old new 0 []
  | Panic => Panic
  | OutOfFuel => OutOfFuel
  end.

(* bytes.TrimPrefix *)
Definition trim_prefix (p s : bytes) : res bytes :=
  if has_prefix p s then
    match slice_z s (len p) (len s) with Some r => Ok r | None => Panic end
  else Ok s.

Definition first_byte (l : bytes) : byte := match l with b :: _ => b | [] => x00 end.

(* func Quote(data []byte) ([]byte, error); Ok None = the error return *)
Definition quote_idx (data : bytes) : res (option bytes) :=
  if (len data =? 0)%Z then Ok (Some []) else
  match index_z data (len data - 1) with
  | None => Panic
  | Some b =>
      if negb (beq b NL) then Ok None
      else if negb (utf8_valid data) then Ok None
      else
        (* prev := byte('\n'); for _, b := range data { if prev == '\n' { nd = append(nd, '>') };
           nd = append(nd, b); prev = b } *)
        Ok (Some (fst (fold_left
          (fun (st : bytes * byte) (b : byte) =>
             let (nd, prev) := st in
             ((if beq prev NL then nd ++ quote_mark else nd) ++ [b], b))
          data ([], NL))))
  end.

(* func Unquote(data []byte) ([]byte, error) *)
Definition unquote_idx (data : bytes) : res (option bytes) :=
  if (len data =? 0)%Z then Ok (Some []) else
  match index_z data 0 with
  | None => Panic
  | Some b0 =>
      if negb (beq b0 (first_byte unquote_first)) then Ok None else
      match index_z data (len data - 1) with
      | None => Panic
      | Some bl =>
          if negb (beq bl NL) then Ok None else
          match replace_all data unquote_old unquote_new with
          | Ok d1 =>
              match trim_prefix unquote_prefix d1 with
              | Ok d2 => Ok (Some d2)
              | Panic => Panic
              | OutOfFuel => OutOfFuel
              end
          | Panic => Panic
          | OutOfFuel => OutOfFuel
          end
      end
  end.

(* Executable model of txtar/archive.go: Parse, Format (x/tools), NeedsQuote, Quote,
   Unquote, and the x/tools reference Parse.  Definitions only.

   The Go code scans with an index loop (findFileMarker: isMarker at a line start,
   then bytes.Index "\n-- " to the next candidate line).  Because isMarker looks at
   the first line of its argument only and the loop visits every line start whose
   line begins with "-- ", the scan is a classification of lines; the model is
   written that way: split into lines, decide [marker_line] per line, regroup.
   That argument is not trusted: TxtarIndex.v models the index loop statement by
   statement (checked index/slice expressions, fuel) and TxtarIndexFacts.v proves
   parse_idx s = Ok (parse s) and needs_quote_idx d = Ok (needs_quote d) for every
   byte string.  Both models are compared with the Go code by the correspondence
   run (harness/cmd/txtar). *)
From Coq Require Import List Bool Arith.
From Coq.Strings Require Import Byte.
From GI Require Import Lib.Bytes Gen.TxtarConsts.
Import ListNotations.

(* drop one trailing NL, then (the corrected code) one trailing CR *)
Definition strip_nl (l : bytes) : bytes :=
  match rev l with
  | b :: r => if beq b NL then rev r else l
  | [] => l
  end.
Definition strip_cr (l : bytes) : bytes :=
  match rev l with
  | b :: r => if beq b CR then rev r else l
  | [] => l
  end.

(* isMarker's decision on one line after the line terminator was removed *)
Definition marker_core (l : bytes) : option bytes :=
  if has_prefix marker l && has_suffix marker_end l
     && Nat.leb (length marker + length marker_end) (length l) then
    let mid := firstn (length l - length marker - length marker_end) (skipn (length marker) l) in
    match trim_space mid with
    | [] => None
    | n => Some n
    end
  else None.

(* rogpeppe/go-internal (corrected): CR before the terminator, or at end of input, is dropped *)
Definition marker_line (l : bytes) : option bytes := marker_core (strip_cr (strip_nl l)).
(* golang.org/x/tools/txtar: no CR handling *)
Definition ref_marker_line (l : bytes) : option bytes := marker_core (strip_nl l).

Record archive := { comment : bytes; files : list (bytes * bytes) }.

(* regroup classified lines: text before the first marker, then (name, text) per marker *)
Fixpoint collect (ml : bytes -> option bytes) (ls : list bytes) : bytes * list (bytes * bytes) :=
  match ls with
  | [] => ([], [])
  | l :: rest =>
      let '(c, fs) := collect ml rest in
      match ml l with
      | Some n => ([], (n, c) :: fs)
      | None => (l ++ c, fs)
      end
  end.

Definition parse_with (ml : bytes -> option bytes) (d : bytes) : archive :=
  let '(c, fs) := collect ml (split_lines d) in
  {| comment := fix_nl c; files := map (fun nd => (fst nd, fix_nl (snd nd))) fs |}.

Definition parse : bytes -> archive := parse_with marker_line.
Definition ref_parse : bytes -> archive := parse_with ref_marker_line.

Definition format_marker (n : bytes) : bytes := marker ++ n ++ marker_end ++ [NL].

Definition format (a : archive) : bytes :=
  fix_nl (comment a) ++
  concat (map (fun nd => format_marker (fst nd) ++ fix_nl (snd nd)) (files a)).

(* NeedsQuote (corrected: "a marker was found", not "something follows the marker") *)
Definition needs_quote (d : bytes) : bool :=
  existsb (fun l => match marker_line l with Some _ => true | None => false end) (split_lines d).

(* Quote: None = error *)
Fixpoint quote_aux (prev : byte) (d : bytes) : bytes :=
  match d with
  | [] => []
  | b :: r => (if beq prev NL then [x3e] else []) ++ b :: quote_aux b r
  end.

Definition quote (d : bytes) : option bytes :=
  match d with
  | [] => Some []
  | _ =>
      match last_byte d with
      | Some b => if beq b NL then
                    if utf8_valid d then Some (quote_aux NL d) else None
                  else None
      | None => None
      end
  end.

(* bytes.Replace(data, "\n>", "\n", -1): left to right, non-overlapping *)
Fixpoint drop_gt_after_nl (d : bytes) : bytes :=
  match d with
  | [] => []
  | b :: r =>
      if beq b NL then
        match r with
        | g :: r' => if beq g x3e then b :: drop_gt_after_nl r' else b :: drop_gt_after_nl r
        | [] => [b]
        end
      else b :: drop_gt_after_nl r
  end.

Definition unquote (d : bytes) : option bytes :=
  match d with
  | [] => Some []
  | b0 :: _ =>
      match last_byte d with
      | Some bl =>
          if beq b0 x3e && beq bl NL then
            match drop_gt_after_nl d with
            | g :: r => if beq g x3e then Some r else Some (g :: r)
            | [] => Some []
            end
          else None
      | None => None
      end
  end.

(* the side condition of the property: "well-formed archive" *)
Definition wf_name (n : bytes) : bool :=
  match n with [] => false | _ => true end
  && bytes_eqb (trim_space n) n && negb (mem_byte NL n).
Definition wf_text (t : bytes) : bool :=
  bytes_eqb (fix_nl t) t && negb (needs_quote t).
Definition wf_archive (a : archive) : bool :=
  wf_text (comment a) && forallb (fun nd => wf_name (fst nd) && wf_text (snd nd)) (files a).

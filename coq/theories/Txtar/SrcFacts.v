(* Gen/TxtarSrc.v is txtar/archive.go translated to Gallina by harness/go2coq on every
   run.  This file proves, for every input (and every sufficiently large iteration
   bound), that each generated function computes exactly what the hand-written
   statement-level model (TxtarIndex.v, QuoteIndex.v) computes -- including where that
   model would panic or run out of fuel -- and therefore what the line-based model of
   Txtar.v computes.  Every theorem about parse / needs_quote / quote / unquote thus holds
   of the code as translated, and a change of archive.go that changes the generated text
   stops these proofs from compiling.

   The proofs do not mention generated hypothesis or bound-variable names: each function
   is unfolded, the primitive operations (searches, checked index and slice expressions,
   comparisons) are case-split in evaluation order by [go_cases], loops go by induction on
   the iteration bound (for) or on the list (range). *)
From Coq Require Import List Bool Arith ZArith Lia ZifyBool.
From Coq.Strings Require Import Byte.
From GI Require Import Lib.Bytes Lib.BytesFacts Lib.GoSem Gen.TxtarConsts Gen.TxtarQuoteConsts Gen.TxtarSrc
  Txtar.Txtar Txtar.TxtarFacts Txtar.QuoteFacts Txtar.TxtarIndex Txtar.TxtarIndexFacts
  Txtar.QuoteIndex Txtar.QuoteIndexFacts.
Import ListNotations.

(* ------------------------------------------------------------------ *)
(* tactics                                                             *)

(* the package-level variables as translated are the regenerated constants *)
Lemma src_vars :
  src_marker = marker /\ src_markerEnd = marker_end /\ src_newlineMarker = newline_marker.
Proof. repeat split. Qed.

Ltac go_vars :=
  let E1 := fresh in let E2 := fresh in let E3 := fresh in
  pose proof src_vars as (E1 & E2 & E3); rewrite ?E1, ?E2, ?E3; clear E1 E2 E3.

(* the library calls and checked expressions of GoSem.v in terms of the list functions *)
Ltac go_unfold :=
  unfold go_bytes_HasPrefix, go_bytes_HasSuffix, go_bytes_IndexByte, go_bytes_Index,
    go_strings_TrimSpace, go_utf8_Valid, go_slice, go_index, go_append, go_bytes_TrimPrefix,
    opt_pos, unreachable, NL, CR in *.

Definition mres_res (m : mres) : res (bytes * bytes) :=
  match m with MRes n a => Ok (n, a) | MPanic => Panic end.

Definition opt_res {A : Type} (o : option A) : res A :=
  match o with Some a => Ok a | None => Panic end.

(* a function's result as the outcome of a block that returns it *)
Definition returned {S L R : Type} (r : res R) : res (outcome S L R) :=
  match r with Ok x => Ok (Return x) | Panic => Panic | OutOfFuel => OutOfFuel end.

Ltac go_red :=
  cbv beta iota zeta;
  cbn [bind bindT bindO bindL negb orb andb fst snd mres_res opt_res returned app].

(* case split on the innermost scrutinee *)
Ltac break_match :=
  match goal with
  | |- context [match ?x with _ => _ end] =>
      lazymatch x with
      | context [match _ with _ => _ end] => fail
      | _ => destruct x eqn:?
      end
  end.

Ltac go_cases tac :=
  go_red; repeat (break_match; go_red; try reflexivity; try discriminate; try lia; try tac).

Lemma bytes_eqb_nil x : bytes_eqb x [] = is_nil x.
Proof. now destruct x. Qed.

(* ------------------------------------------------------------------ *)
(* isMarker                                                            *)

Theorem src_isMarker_eq data : src_isMarker data = mres_res (is_marker_idx data).
Proof.
  unfold src_isMarker, is_marker_idx. go_vars. go_unfold. unfold len. go_cases idtac.
Qed.

Theorem src_isMarker_no_panic data : exists n a, src_isMarker data = Ok (n, a).
Proof.
  rewrite src_isMarker_eq. pose proof (is_marker_idx_no_panic data) as H.
  destruct (is_marker_idx data) as [n a|]; [now exists n, a|congruence].
Qed.

(* ------------------------------------------------------------------ *)
(* fixNL: make + copy + store is "append a byte"                       *)

Lemma go_make_bytes_nat n : go_make_bytes (Z.of_nat n) = Ok (repeat x00 n).
Proof.
  unfold go_make_bytes. destruct (Z.of_nat n <? 0)%Z eqn:E; [lia|]. now rewrite Nat2Z.id.
Qed.

Lemma go_copy_zeros n data :
  length data <= n -> go_copy (repeat x00 n) data = data ++ repeat x00 (n - length data).
Proof.
  intros H. unfold go_copy. rewrite repeat_length, firstn_all2 by assumption. f_equal.
  replace n with (length data + (n - length data)) at 1 by lia.
  rewrite repeat_app, skipn_app, repeat_length, Nat.sub_diag, skipn_all2 by (rewrite repeat_length; lia).
  reflexivity.
Qed.

Lemma go_store_at data b rest v : go_store (data ++ b :: rest) (len data) v = Ok (data ++ v :: rest).
Proof.
  unfold go_store, len. rewrite app_length. cbn [length].
  destruct ((0 <=? Z.of_nat (length data)) && (Z.of_nat (length data) <? Z.of_nat (length data + S (length rest))))%Z eqn:E; [|lia].
  rewrite Nat2Z.id, firstn_app, Nat.sub_diag, firstn_all, skipn_app, skipn_all2 by lia.
  cbn [firstn]. rewrite app_nil_r. replace (S (length data) - length data) with 1 by lia. reflexivity.
Qed.

Lemma go_make_bytes_succ data : go_make_bytes (len data + 1) = Ok (repeat x00 (length data + 1)).
Proof.
  unfold len. replace (Z.of_nat (length data) + 1)%Z with (Z.of_nat (length data + 1)) by lia.
  apply go_make_bytes_nat.
Qed.

Lemma copy_store data v :
  go_store (go_copy (repeat x00 (length data + 1)) data) (len data) v = Ok (data ++ [v]).
Proof.
  rewrite go_copy_zeros by lia.
  replace (length data + 1 - length data) with 1 by lia. cbn [repeat]. apply go_store_at.
Qed.

Theorem src_fixNL_idx_eq data : src_fixNL data = opt_res (fix_nl_idx data).
Proof.
  unfold src_fixNL, fix_nl_idx. rewrite go_make_bytes_succ. go_unfold. go_red.
  rewrite copy_store. unfold len. go_cases idtac.
Qed.

Theorem src_fixNL_eq data : src_fixNL data = Ok (fix_nl data).
Proof. now rewrite src_fixNL_idx_eq, fix_nl_idx_eq. Qed.

(* ------------------------------------------------------------------ *)
(* findFileMarker: the loop, by induction on the iteration bound        *)

Lemma src_findFileMarker_loop_eq (L : Type) fuel : forall n data name after i,
  @src_findFileMarker_loop1 L fuel n data name after i = returned (find_loop n data i).
Proof.
  induction n as [|n IH]; intros data name after i; [reflexivity|].
  cbn [src_findFileMarker_loop1 find_loop]. go_vars.
  unfold index_nl_marker. go_unfold. go_red.
  destruct (slice_z data i (len data)) as [rest|]; go_red; [|reflexivity].
  rewrite src_isMarker_eq. destruct (is_marker_idx rest) as [nm af|]; go_red; [|reflexivity].
  rewrite bytes_eqb_nil, src_fixNL_idx_eq.
  go_cases ltac:(first [apply IH | rewrite IH; do 2 f_equal; lia | idtac]).
Qed.

Theorem src_findFileMarker_eq fuel data :
  src_findFileMarker fuel data = find_file_marker_fuel fuel data.
Proof.
  unfold src_findFileMarker, find_file_marker_fuel. go_red.
  rewrite src_findFileMarker_loop_eq. destruct (find_loop fuel data 0); reflexivity.
Qed.

Theorem src_findFileMarker_spec fuel data :
  length data + 1 <= fuel -> src_findFileMarker fuel data = Ok (find_result data).
Proof. intros H. rewrite src_findFileMarker_eq. now apply find_file_marker_fuel_spec. Qed.

(* ------------------------------------------------------------------ *)
(* Parse                                                               *)

Lemma find_lines_rest_len ls : forall n rest,
  snd (find_lines ls) = Some (n, rest) -> length (concat rest) <= length (concat ls).
Proof.
  induction ls as [|l ls IH]; intros n rest H; [discriminate|].
  cbn [concat]. rewrite app_length. destruct (marker_line l) as [m|] eqn:E.
  - cbn [find_lines] in H. rewrite E in H. cbn [snd] in H. injection H as _ <-. lia.
  - rewrite find_lines_cons_nomark in H by assumption. cbn [snd] in H.
    specialize (IH n rest H). lia.
Qed.

(* the loop of Parse, started at a line start: one iteration per remaining marker line
   and one to stop; every call of findFileMarker inside gets the whole bound [fuel] *)
Lemma src_Parse_loop_lines (L : Type) fuel : forall n (ls : list bytes) (name : bytes) c acc,
  length ls + 2 <= n -> length (concat ls) + 1 <= fuel -> lines_ok ls -> name <> [] ->
  @src_Parse_loop1 L fuel n (concat ls) {| comment := c; files := acc |} name =
  Ok (Normal ([], {| comment := c;
                     files := acc ++ map fix_entry ((name, fst (collect marker_line ls))
                                                    :: snd (collect marker_line ls)) |}, [])).
Proof.
  induction n as [|n IH]; intros ls name c acc Hn Hf Hok Hname; [lia|].
  cbn [src_Parse_loop1]. rewrite bytes_eqb_nil.
  destruct name as [|n0 n']; [congruence|]. cbn [is_nil negb].
  rewrite src_findFileMarker_spec by assumption.
  rewrite (find_result_concat ls Hok). unfold find_spec.
  rewrite (collect_find_lines ls). cbn [app]. go_unfold.
  destruct (snd (find_lines ls)) as [[m rest]|] eqn:E; go_red; cbn [comment files].
  - destruct (find_lines_Some ls m rest Hok E) as [Hfix [Hok' Hlen]].
    pose proof (find_lines_rest_len ls m rest E) as Hbytes.
    rewrite IH; [|lia|lia|assumption|now apply (find_lines_name ls m rest)].
    rewrite <- app_assoc. cbn [app map fst snd fix_entry]. unfold fix_entry. cbn [fst snd].
    now rewrite Hfix.
  - destruct n as [|n]; [lia|]. cbn [src_Parse_loop1 bytes_eqb negb map fst snd fix_entry].
    go_red. unfold fix_entry. cbn [fst snd]. now rewrite (find_lines_None ls E).
Qed.

Theorem src_Parse_eq fuel s : length s + 2 <= fuel -> src_Parse fuel s = Ok (parse s).
Proof.
  intros Hfuel. unfold src_Parse. go_red.
  rewrite src_findFileMarker_spec by lia. go_red. cbn [files].
  unfold find_result, find_spec. cbn [app].
  unfold parse. rewrite parse_with_eq, (collect_find_lines (split_lines s)).
  pose proof (split_lines_ok s) as Hok. pose proof (split_lines_length s) as Hlen.
  destruct (snd (find_lines (split_lines s))) as [[n rest]|] eqn:E; go_red.
  - destruct (find_lines_Some _ n rest Hok E) as [Hfix [Hok' Hlt]].
    pose proof (find_lines_rest_len _ n rest E) as Hbytes. rewrite concat_split_lines in Hbytes.
    rewrite src_Parse_loop_lines; [|lia|lia|assumption|now apply (find_lines_name _ n rest E)].
    go_red. cbn [app fst snd]. now rewrite Hfix.
  - destruct fuel as [|f]; [lia|]. cbn [src_Parse_loop1 bytes_eqb negb]. go_red.
    cbn [fst snd map]. now rewrite (find_lines_None _ E), concat_split_lines.
Qed.

Theorem src_Parse_idx_eq fuel s : length s + 2 <= fuel -> src_Parse fuel s = parse_idx s.
Proof. intros H. now rewrite src_Parse_eq, parse_idx_eq. Qed.

Theorem src_Parse_total fuel s :
  length s + 2 <= fuel -> src_Parse fuel s <> Panic /\ src_Parse fuel s <> OutOfFuel.
Proof. intros H. rewrite src_Parse_eq by assumption. split; discriminate. Qed.

(* the round trip, stated on the translated Parse: what it returns is reproduced by
   parsing its Format *)
Theorem src_Parse_format_parse fuel fuel' s a :
  length s + 2 <= fuel -> src_Parse fuel s = Ok a ->
  length (format a) + 2 <= fuel' -> src_Parse fuel' (format a) = Ok a.
Proof.
  intros H1 H2 H3. rewrite src_Parse_eq in H2 by assumption. injection H2 as <-.
  rewrite src_Parse_eq by assumption. now rewrite parse_format_parse.
Qed.

Theorem src_Parse_format_wf fuel a :
  wf_archive a = true -> length (format a) + 2 <= fuel -> src_Parse fuel (format a) = Ok a.
Proof. intros H1 H2. rewrite src_Parse_eq by assumption. now rewrite parse_format_wf. Qed.

(* ------------------------------------------------------------------ *)
(* NeedsQuote                                                          *)

Theorem src_NeedsQuote_eq fuel d :
  length d + 1 <= fuel -> src_NeedsQuote fuel d = Ok (needs_quote d).
Proof.
  intros H. pose proof (needs_quote_idx_eq d) as Hidx. unfold needs_quote_idx in Hidx.
  rewrite find_file_marker_idx_spec in Hidx.
  unfold src_NeedsQuote. rewrite src_findFileMarker_spec by assumption.
  destruct (find_result d) as [[b n] r]. go_red. rewrite bytes_eqb_nil. exact Hidx.
Qed.

(* ------------------------------------------------------------------ *)
(* Quote: the range loop, by induction on the list                     *)

(* an error result ([]byte, error) of the translation: (nil, true) for the error *)
Definition err_pair (o : option bytes) : bytes * bool :=
  match o with Some q => (q, false) | None => ([], true) end.

Definition err_res (r : res (option bytes)) : res (bytes * bool) :=
  match r with Ok o => Ok (err_pair o) | Panic => Panic | OutOfFuel => OutOfFuel end.

Lemma src_Quote_loop_eq (L : Type) : forall l nd prev,
  @src_Quote_loop1 L l nd prev =
  Ok (Normal (fold_left
    (fun (st : bytes * byte) (b : byte) =>
       let (nd, prev) := st in ((if beq prev NL then nd ++ quote_mark else nd) ++ [b], b))
    l (nd, prev))).
Proof.
  induction l as [|b l IH]; intros nd prev; [reflexivity|].
  cbn [src_Quote_loop1 fold_left]. go_unfold.
  destruct (beq prev x0a); go_red; apply IH.
Qed.

Theorem src_Quote_idx_eq d : src_Quote d = err_res (quote_idx d).
Proof.
  unfold src_Quote, quote_idx. go_unfold. go_red.
  destruct (len d =? 0)%Z; [reflexivity|].
  destruct (index_z d (len d - 1)) as [b|]; go_red; [|reflexivity].
  destruct (beq b x0a); go_red; [|reflexivity].
  destruct (utf8_valid d); go_red; [|reflexivity].
  rewrite src_Quote_loop_eq. go_unfold. go_red. cbn [err_res err_pair].
  match goal with |- (let '(x, _) := ?p in _) = _ => rewrite (surjective_pairing p) end. reflexivity.
Qed.

Theorem src_Quote_eq d : src_Quote d = Ok (err_pair (quote d)).
Proof. now rewrite src_Quote_idx_eq, quote_idx_eq. Qed.

(* ------------------------------------------------------------------ *)
(* Unquote                                                             *)

Lemma src_replace_literal d :
  go_bytes_Replace d [x0a; x3e] [x0a] (-1) = replace_all d unquote_old unquote_new.
Proof. reflexivity. Qed.

Theorem src_Unquote_idx_eq d : src_Unquote d = err_res (unquote_idx d).
Proof.
  unfold src_Unquote, unquote_idx. rewrite src_replace_literal.
  change (first_byte unquote_first) with x3e. change [x3e] with unquote_prefix.
  go_unfold. go_cases idtac.
Qed.

Theorem src_Unquote_eq d : src_Unquote d = Ok (err_pair (unquote d)).
Proof. now rewrite src_Unquote_idx_eq, unquote_idx_eq. Qed.

Theorem src_Unquote_Quote d q : src_Quote d = Ok (q, false) -> src_Unquote q = Ok (d, false).
Proof.
  rewrite src_Quote_eq, src_Unquote_eq. intros H. injection H as H.
  destruct (quote d) as [q'|] eqn:E; cbn [err_pair] in H; [|discriminate].
  injection H as <-. now rewrite (unquote_quote d q' E).
Qed.

(* the hypotheses of the theorems above are satisfiable, the bounds are needed, and the
   failure values of the translation are real *)
Require Coq.Strings.String.
Import Coq.Strings.String.StringSyntax.

Example ex_src_parse :
  src_Parse 40 (B "c" ++ [NL] ++ B "-- a --" ++ [CR; NL] ++ B "x" ++ [NL] ++ B "-- b --")
  = Ok {| comment := B "c" ++ [NL]; files := [(B "a", B "x" ++ [NL]); (B "b", [])] |}.
Proof. vm_compute. reflexivity. Qed.

Example ex_src_fuel_needed :
  src_Parse 1 (B "-- a --") = OutOfFuel /\ src_findFileMarker 0 [] = OutOfFuel /\
  length (B "-- a --") + 2 <= 9 /\ src_Parse 9 (B "-- a --") = Ok {| comment := []; files := [(B "a", [])] |}.
Proof. vm_compute. repeat split; try reflexivity. Qed.

Example ex_src_quote :
  src_Quote (B "-- a --" ++ [NL]) = Ok (B ">-- a --" ++ [NL], false) /\ src_Quote (B "x") = Ok ([], true) /\
  src_Unquote (B ">-- a --" ++ [NL]) = Ok (B "-- a --" ++ [NL], false) /\ src_Unquote (B "x" ++ [NL]) = Ok ([], true).
Proof. vm_compute. repeat split; reflexivity. Qed.

(* the checked expressions of the translation do fail when misused *)
Example ex_src_checked :
  go_slice (B "abc") 2 1 = Panic /\ go_index (B "abc") 3 = Panic /\ go_store (B "abc") 3 x00 = Panic /\
  go_make_bytes (-1) = Panic /\ go_bytes_Replace (B "abc") (B "a") (B "b") (-1) = Panic.
Proof. vm_compute. repeat split; reflexivity. Qed.
